"""C14 — the client<->daemon message codec is lossless and never trusts a length."""
import json, os, re, struct
import vlib

MANIFEST = dict(
    level=("proof", "Coq theorems over an executable model of m_msg.c's three codecs (_msg_length/_msg_pack/"
           "_msg_unpack: one field list per message type and direction, C int conversions kept), m_msg_send, "
           "m_msg_recv and job.c's dispatch, with constants, member widths, sizeof(addr) and the *measured* bound on "
           "DEC_RSP addr_len regenerated from the source on every run: pack/unpack round trip for all six types and "
           "all in-range messages, computed length = bytes produced, every unpack of every type code 0..255 and every "
           "byte string ends in Ok or an error with all reads inside the buffer and all writes inside their "
           "destination iff every fixed-size destination is guarded (refuted for the unguarded addr copy, defect D2, "
           "witness addr_len=255), the three tables agree, receive/dispatch outcomes.  Tied to the code by running the "
           "extracted model and m_msg.c (public API over a socketpair, ASan+UBSan+LSan, malloc wrapped) on ~6k aimed cases "
           "per quick run (~90k thorough), comparing the result code and every struct member.  libmunge's side "
           "(MsgClientModel: m_msg_client_xfer's retry loop with the expected type it hands to m_msg_recv, munge_decode / "
           "munge_encode with _decode_rsp / _encode_rsp and what they copy out; every parameter measured by running the "
           "current source): a successful receive with an expected type means the bytes on the connection are a header of "
           "exactly that type followed by the packing of the members received (unpack is the inverse of pack on what it "
           "accepts), hence for EVERY list of byte strings a peer may answer with the call ends in an error that hands "
           "nothing to the caller or in exactly the members of a well-formed message of the expected type; refuted when "
           "the response is received with MUNGE_MSG_UNDEF (nested header).  Tied to the code by a scripted hostile peer on "
           "a real Unix socket answering a client built from /repo's libmunge under ASan/UBSan (~3.9k scripts per quick "
           "run): all header types 0..255, bodies of every type's layout, nested headers, truncation at every offset, every "
           "length field lying, trailing bytes, scripts over the five attempts; outcome and requests compared with the "
           "extracted model and the clause evaluated directly on libmunge's answers.  Concurrent use (munged's workers): 8 "
           "threads sending / receiving different messages at once on their own socketpairs, the window between packing and "
           "writev fixed by a shim, every wire compared with the same message sent alone and with the documented encoding; "
           "the same under ThreadSanitizer.", "7 C14"),
    note="Trusted: Coq kernel+vm_compute, gen_facts probes and source-text translators (msgtables, msgclientsrc), "
         "extraction (ExtrOcamlBasic), harness/driver glue (msg_harness.c, msgclient_harness.c incl. its peer thread). "
         "Client side: the wording of locally generated diagnostics and the error string of a failed exchange are not "
         "modelled; requests are those _encode_req/_decode_req build from a valid call. "
         "Time-outs and I/O errors of the socket are environment (a stream is the bytes that arrive before EOF). "
         "enc/dec_process_msg's reply contents are outside this model (C01/C09); the reply goes through the same send.",
    technique="Coq proof (generic interpreters + induction over field lists, computed table checks) + translator for "
              "constants and the measured guard + differential correspondence through the public API")

MAGIC, VERSION, HDR = 0x00606D4B, 4, 11
NUMS = ["type", "retry", "pkt_len", "cipher", "mac", "zip", "realm_len", "ttl", "addr_len", "time0", "time1",
        "client_uid", "client_gid", "cred_uid", "cred_gid", "auth_uid", "auth_gid", "data_len", "auth_s_len",
        "auth_c_len", "error_num", "error_len"]
BUFS = ["pkt", "realm", "addr", "data", "auth_s", "auth_c", "error"]
U8S = {"type", "retry", "cipher", "mac", "zip", "realm_len", "addr_len", "error_num", "error_len"}
ADDR_CAP = 4
MAXREQ = 1048576
BIGHEAP = 64 << 20

KNOWN_UB = re.compile(r"m_msg\.c:\d+:\d+: runtime error: signed integer overflow: 2147483647 \+ 1 cannot be represented in type 'int'")

# Appendix B of DESIGN.md, written out independently of the Coq tables
def u8(f): return ("u8", f)
def u32(f): return ("u32", f)
def var(f, lf, dest="heap"): return ("var", f, lf, dest)
FIELDS = {
    1: [u32("magic"), u8("version"), u8("type"), u8("retry"), u32("pkt_len")],
    2: [u8("cipher"), u8("mac"), u8("zip"), u8("realm_len"), var("realm", "realm_len"), u32("ttl"), u32("auth_uid"),
        u32("auth_gid"), u32("data_len"), var("data", "data_len")],
    3: [u8("error_num"), u8("error_len"), var("error", "error_len"), u32("data_len"), var("data", "data_len")],
    4: [u32("data_len"), var("data", "data_len")],
    5: [u8("error_num"), u8("error_len"), var("error", "error_len"), u8("cipher"), u8("mac"), u8("zip"),
        u8("realm_len"), var("realm", "realm_len"), u32("ttl"), u8("addr_len"), var("addr", "addr_len", "fixed"),
        u32("time0"), u32("time1"), u32("cred_uid"), u32("cred_gid"), u32("auth_uid"), u32("auth_gid"),
        u32("data_len"), var("data", "data_len")],
    6: [u32("auth_s_len"), var("auth_s", "auth_s_len"), u32("auth_c_len"), var("auth_c", "auth_c_len")],
}


def fresh():
    st = {n: 0 for n in NUMS}
    for b in BUFS:
        st[b] = None
    st["addr"] = bytes(4)
    return st


def state_tokens(st):
    nums = ",".join(str(st[n]) for n in NUMS)
    bufs = []
    for b in BUFS:
        v = st[b]
        bufs.append("-" if v is None else "x" + v.hex())
    return nums + " " + " ".join(bufs)


def ref_pack(code, st):
    """wire body of an in-range message, or None when the message cannot be sent"""
    out = bytearray()
    for f in FIELDS[code]:
        if f[0] == "u8":
            out.append(st[f[1]] if f[1] not in ("version",) else VERSION)
        elif f[0] == "u32":
            out += struct.pack(">I", st[f[1]])
        else:
            n = st[f[2]]
            if n >= 1 << 31:
                return None
            if n:
                src = st[f[1]]
                if src is None or len(src) < n or (f[3] == "fixed" and n > ADDR_CAP):
                    return "fault"
                out += src[:n]
    return bytes(out)


def ref_unpack(code, body, st0, limit):
    """the property's view of unpacking: (state, None) or (None, reason)"""
    fl = FIELDS.get(code)
    if fl is None:
        return None, "unknown type"
    st = dict(st0)
    p = 0
    hdr = {}
    for f in fl:
        if f[0] == "u8":
            if p + 1 > len(body):
                return None, "truncated"
            (hdr if f[1] in ("magic", "version") else st)[f[1]] = body[p]
            p += 1
        elif f[0] == "u32":
            if p + 4 > len(body):
                return None, "truncated"
            (hdr if f[1] in ("magic", "version") else st)[f[1]] = struct.unpack(">I", body[p:p + 4])[0]
            p += 4
        else:
            n = st[f[2]]
            if n >= 1 << 31:
                return None, "negative length"
            if f[3] == "fixed":
                if n > ADDR_CAP:
                    return None, "length exceeds the destination member"
                if p + n > len(body):
                    return None, "truncated"
                if n:
                    st[f[1]] = body[p:p + n] + st[f[1]][n:]
            else:
                if n and n + 1 > limit:
                    return None, "out of memory"
                if p + n > len(body):
                    return None, "truncated"
                if n:
                    st[f[1]] = body[p:p + n]
            p += n
    if code == 1 and (hdr["magic"] != MAGIC or hdr["version"] != VERSION):
        return None, "bad magic/version"
    return st, None


def carried(code):
    return set(f[1] for f in FIELDS.get(code, []))


def ref_recv(stream, exptype, maxlen, limit, st0):
    """(expected final state or None, expected rc set or None, members that may differ from st0 on failure)"""
    may = {"error_num", "error_len", "error"}
    if len(stream) < HDR:
        return None, None, may
    st, why = ref_unpack(1, stream[:HDR], st0, limit)
    may |= {"type", "retry", "pkt_len"}
    if st is None:
        return None, None, may
    ty, plen = st["type"], st["pkt_len"]
    if exptype != 0 and ty != exptype:
        return None, None, may
    if maxlen > 0 and plen > maxlen:
        return None, {3}, may
    if plen > limit:
        return None, {5}, may
    may |= {"pkt"}
    rest = stream[HDR:]
    if len(rest) < plen:
        return None, None, may
    if plen >= 1 << 31:
        return None, None, may
    may |= carried(ty)
    st2, why = ref_unpack(ty, rest[:plen], st, limit)
    if st2 is None:
        return None, None, may
    st2["pkt_len"] = 0
    st2["pkt"] = None
    return st2, {0}, may


def parse_state(tokens):
    nums = tokens[0].split(",")
    st = {}
    for n, v in zip(NUMS, nums):
        st[n] = v if v == "L" else int(v)
    for b, t in zip(BUFS, tokens[1:8]):
        st[b] = None if t == "-" else (t if t in ("*", "L") else bytes.fromhex(t[1:]))
    return st


# ---------------------------------------------------------------------------------------------------------
# case generation
# ---------------------------------------------------------------------------------------------------------
EDGE32 = [0, 1, 255, 256, 65535, (1 << 31) - 1, 1 << 31, (1 << 32) - 1]


def rnd_u32(rng):
    return rng.choice(EDGE32) if rng.random() < 0.3 else rng.getrandbits(32)


def rnd_bytes(rng, n):
    return bytes(rng.getrandbits(8) for _ in range(n)) if n < 4096 else rng.randbytes(n)


def rnd_msg(rng, code, big=False):
    st = fresh()
    for n in NUMS:
        st[n] = rng.getrandbits(8) if n in U8S else rnd_u32(rng)
    st["type"], st["pkt_len"] = 0, 0
    st["error_num"] = rng.choice([0, 0, st["error_num"]])     # success replies carry an error string too
    st["addr"] = rnd_bytes(rng, 4)
    for f in FIELDS[code]:
        if f[0] == "var":
            if f[3] == "fixed":
                n = rng.choice([0, 1, 2, 3, 4, 4, 4])
            elif f[2] in U8S:
                n = rng.choice([0, 1, 2, 17, 254, 255, rng.randrange(256)])
            else:
                n = rng.choice([0, 1, 3, 100, 4095, 4096, 4097, rng.randrange(70000)]) if big else \
                    rng.choice([0, 1, 2, 31, rng.randrange(300)])
            st[f[2]] = n
            if f[3] != "fixed":
                st[f[1]] = rnd_bytes(rng, n) if n else rng.choice([None, None, b""])
    return st


def sentinel(rng, zero_err=True):
    st = fresh()
    for n in NUMS:
        st[n] = rng.getrandbits(8) if n in U8S else rng.getrandbits(32)
    st["addr"] = rnd_bytes(rng, 4)
    st["error_num"] = 0
    st["pkt_len"] = 0
    return st


def header(ty, plen, retry=0, magic=MAGIC, version=VERSION):
    return struct.pack(">IBBBI", magic & 0xffffffff, version, ty, retry, plen & 0xffffffff)


def S(code, maxlen, limit, st):
    return "S %d %d %d %s" % (code, maxlen, limit, state_tokens(st))


def R(exptype, maxlen, limit, stream, st0):
    return "R %d %d %d %s %s" % (exptype, maxlen, limit, stream.hex() if stream else "-", state_tokens(st0))


def len_field_offsets(code, st):
    """(offset, width, exact value) of every length field in the packed body"""
    res, p = [], 0
    lens = set(f[2] for f in FIELDS[code] if f[0] == "var")
    for f in FIELDS[code]:
        if f[0] == "u8":
            if f[1] in lens:
                res.append((p, 1, st[f[1]]))
            p += 1
        elif f[0] == "u32":
            if f[1] in lens:
                res.append((p, 4, st[f[1]]))
            p += 4
        else:
            p += st[f[2]]
    return res


def gen_cases(ctx):
    rng = ctx.rng
    cases = []          # (kind, line)
    add = lambda k, l: cases.append((k, l))
    nmsg = 150 if ctx.thorough else 10
    z = fresh()
    # 0. the replay of defect D2 (DESIGN.md Appendix A) and its neighbours: DEC_RSP with addr_len beyond the member
    for k in (255, 5, 8, 9, 12, 13, 20, 104, 105, 128):
        for tail in (True, False):
            b = bytes(10) + bytes([k]) + b"A" * k + (bytes(28) if tail else b"")
            add("d2-replay", R(0, MAXREQ, BIGHEAP, header(5, len(b)) + b, z if k == 255 else sentinel(rng)))
    # 1. generated messages of every type: send, and receive of the reference encoding (round trip)
    for code in (2, 3, 4, 5, 6):
        for i in range(nmsg * 3):
            st = rnd_msg(rng, code, big=(i % 4 == 3))
            st["retry"] = rng.getrandbits(8)
            body = ref_pack(code, st)
            add("send", S(code, rng.choice([0, 0, MAXREQ, len(body), len(body) + 1]), BIGHEAP, st))
            if body:
                wire = header(code, len(body), st["retry"]) + body
                add("roundtrip", R(rng.choice([0, code]), rng.choice([0, MAXREQ, len(body)]), BIGHEAP, wire, sentinel(rng)))
                add("roundtrip", R(0, MAXREQ, BIGHEAP, wire, z))
                # maxlen and expected-type edges, trailing bytes, wrong expected type
                add("maxlen", R(0, max(len(body) - 1, 1), BIGHEAP, wire, sentinel(rng)))
                add("maxlen", S(code, max(len(body) - 1, 1), BIGHEAP, st))
                add("exptype", R(rng.choice([c for c in range(1, 8) if c != code]), 0, BIGHEAP, wire, sentinel(rng)))
                add("trailing", R(0, 0, BIGHEAP, wire + rnd_bytes(rng, rng.randrange(1, 9)), sentinel(rng)))
                # allocator refuses: pkt itself, or one of the variable fields
                for lim in sorted(set([len(body) - 1, len(body), max(st[f[2]] for f in FIELDS[code] if f[0] == "var"),
                                       max(st[f[2]] for f in FIELDS[code] if f[0] == "var") + 1])):
                    if lim >= 0:
                        add("nomem", R(0, 0, lim, wire, sentinel(rng)))
    # unsendable messages: negative lengths, wrapped sums, unknown type codes
    for code in (2, 3, 4, 5, 6):
        for v in ((1 << 31), (1 << 32) - 1, (1 << 31) + 5):
            st = rnd_msg(rng, code)
            lf = [f[2] for f in FIELDS[code] if f[0] == "var" and f[2] not in U8S]
            st[rng.choice(lf)] = v
            add("send-bad", S(code, 0, BIGHEAP, st))
    for code in [0, 1, 7, 8, 100, 255]:
        add("send-bad", S(code, 0, BIGHEAP, rnd_msg(rng, 4)))
    st = rnd_msg(rng, 6); st["auth_s_len"] = (1 << 32) - 4; st["auth_c_len"] = 0; st["auth_c"] = None
    add("send-bad", S(6, 0, BIGHEAP, st))          # sum wraps to a small positive int
    # 2. valid body truncated at each offset (header consistent with the truncated body, and header claiming all)
    for code in (2, 3, 4, 5, 6):
        for i in range(12 if ctx.thorough else 2):
            st = rnd_msg(rng, code)
            if i == 0:
                for f in FIELDS[code]:
                    if f[0] == "var" and f[3] == "fixed":
                        st[f[2]] = 4
            body = ref_pack(code, st)
            s0 = sentinel(rng)
            for k in range(len(body) + 1):
                add("truncate", R(0, MAXREQ, BIGHEAP, header(code, k) + body[:k], s0))
            for k in range(0, len(body), max(1, len(body) // 12)):
                add("short-stream", R(0, MAXREQ, BIGHEAP, header(code, len(body)) + body[:k], s0))
    # 3. each length field set to 0, 1, exact-1, exact+1, 255, 2^31-1, 2^31, 2^32-1
    for code in (2, 3, 4, 5, 6):
        for i in range(30 if ctx.thorough else 3):
            st = rnd_msg(rng, code)
            body = ref_pack(code, st)
            for (off, w, exact) in len_field_offsets(code, st):
                vals = [0, 1, exact - 1, exact + 1, 255] + ([(1 << 31) - 1, 1 << 31, (1 << 32) - 1, 65536] if w == 4 else
                                                              [2, 3, 4, 5, 6, 8, 12, 13, 16, 20, 40, 100, 104, 105, 128, 254])
                for v in vals:
                    if v < 0 or (w == 1 and v > 255):
                        continue
                    enc = bytes([v]) if w == 1 else struct.pack(">I", v)
                    for pad in (0, 300):
                        b2 = body[:off] + enc + body[off + w:] + rnd_bytes(rng, pad)
                        add("lenfield", R(0, MAXREQ, rng.choice([BIGHEAP, BIGHEAP, 1 << 12]), header(code, len(b2)) + b2, sentinel(rng)))
    # 4. every type code 0..255 x {random bytes of several lengths, a valid body of each real type}
    valid = {c: ref_pack(c, rnd_msg(rng, c)) for c in (2, 3, 4, 5, 6)}
    for code in list(range(256)) * (4 if ctx.thorough else 1):
        for n in (0, 1, 10, 11, 12, 40, rng.randrange(0, 400)):
            b = rnd_bytes(rng, n)
            add("anycode-random", R(0, MAXREQ, BIGHEAP, header(code, n) + b, sentinel(rng)))
        if code < 10 or ctx.thorough or rng.random() < 0.1:
            for c, b in valid.items():
                add("anycode-valid", R(0, MAXREQ, BIGHEAP, header(code, len(b)) + b, sentinel(rng)))
    # all-ones / all-zero / high-bit bodies for the real types
    for code in range(1, 7):
        for fill in (0x00, 0xff, 0x7f, 0x80, 0x01, 0x04, 0x05):
            for n in (4, 11, 64, 600):
                add("fill", R(0, MAXREQ, BIGHEAP, header(code, n) + bytes([fill]) * n, sentinel(rng)))
    # 5. headers: short, bad magic, bad version, pkt_len lies
    good = header(4, 9) + struct.pack(">I", 5) + b"hello"
    for k in range(0, HDR + 1):
        add("hdr-short", R(0, MAXREQ, BIGHEAP, good[:k], sentinel(rng)))
    for byte in range(5):                       # every single-bit defect of magic and version
        for bit in range(8):
            h = bytearray(good)
            h[byte] ^= 1 << bit
            add("hdr-bad", R(0, MAXREQ, BIGHEAP, bytes(h), sentinel(rng)))
    for ver in list(range(0, 10)) + [127, 128, 255]:
        add("hdr-bad", R(0, MAXREQ, BIGHEAP, header(4, 9, version=ver) + good[HDR:], sentinel(rng)))
    for mg in (0, 1, MAGIC - 1, MAGIC + 1, MAGIC << 8, 0xffffffff):
        add("hdr-bad", R(0, MAXREQ, BIGHEAP, header(4, 9, magic=mg) + good[HDR:], sentinel(rng)))
    for plen in (0, 8, 10, 1 << 20, (1 << 20) + 1, (1 << 31) - 1, 1 << 31, (1 << 32) - 1):
        for maxlen in (0, MAXREQ):
            add("hdr-pktlen", R(0, maxlen, BIGHEAP, header(4, plen) + struct.pack(">I", 5) + b"hello", sentinel(rng)))
    # 6. type code 1 as a body (nested header overwrites type / retry / pkt_len)
    for nested in list(range(0, 9)) + [255]:
        for plen in (0, 5, 1 << 31):
            for magic, ver in ((MAGIC, VERSION), (MAGIC + 1, VERSION), (MAGIC, VERSION + 1)):
                b = header(nested, plen, retry=rng.getrandbits(8), magic=magic, version=ver)
                add("nested-hdr", R(0, MAXREQ, BIGHEAP, header(1, len(b)) + b, sentinel(rng)))
    for k in range(0, HDR + 3):
        b = (header(2, 7) + b"xyz")[:k]
        add("nested-hdr", R(0, MAXREQ, BIGHEAP, header(1, len(b)) + b, z))
    # 7. the largest request the daemon accepts, one byte more, and the client side (maxlen = 0)
    big = MAXREQ - 4
    st = fresh(); st["data_len"] = big; st["data"] = rnd_bytes(rng, big)
    body = ref_pack(4, st)
    add("maxreq", S(4, MAXREQ, BIGHEAP, st))
    add("maxreq", R(0, MAXREQ, BIGHEAP, header(4, len(body)) + body, z))
    st2 = dict(st); st2["data_len"] = big + 1; st2["data"] = st["data"] + b"!"
    body2 = ref_pack(4, st2)
    add("maxreq", S(4, MAXREQ, BIGHEAP, st2))
    add("maxreq", R(0, MAXREQ, BIGHEAP, header(4, len(body2)) + body2, z))
    add("maxreq", R(4, 0, BIGHEAP, header(4, len(body2)) + body2, z))
    # 8. purely random streams
    for i in range(30000 if ctx.thorough else 300):
        n = rng.choice([0, 3, 11, 12, 20, 60, rng.randrange(0, 700)])
        b = bytearray(rnd_bytes(rng, n))
        if n >= HDR and rng.random() < 0.8:
            b[0:6] = header(rng.randrange(0, 8), 0)[0:6]
            if rng.random() < 0.7:
                b[7:11] = struct.pack(">I", n - HDR)
        add("random-stream", R(rng.choice([0, 0, 3, 5]), rng.choice([0, MAXREQ]), BIGHEAP, bytes(b), sentinel(rng)))
    return cases


# ---------------------------------------------------------------------------------------------------------
# the property evaluated on the implementation's answer
# ---------------------------------------------------------------------------------------------------------
def parse_case(line):
    f = line.split(" ")
    if f[0] == "S":
        return dict(op="S", code=int(f[1]), maxlen=int(f[2]), limit=int(f[3]), st=parse_state(f[4:12]))
    stream = b"" if f[4] == "-" else bytes.fromhex(f[4])
    return dict(op="R", exptype=int(f[1]), maxlen=int(f[2]), limit=int(f[3]), stream=stream, st=parse_state(f[5:13]))


def property_holds(line, out):
    """None when the property holds on this answer of the implementation, else a reason (independent of the Coq model)."""
    c = parse_case(line)
    f = out.split(" ")
    if not f or f[0] != c["op"]:
        return "malformed harness answer %r" % out[:80]
    if c["op"] == "S":
        rc = int(f[1])
        code, st = c["code"], c["st"]
        if code == 1:
            return None                     # m_msg_send asserts type != HDR; no claim (the model is still compared)
        if code not in (2, 3, 4, 5, 6):
            return None if rc != 0 else "a message of an unknown type was sent"
        body = ref_pack(code, st)
        if body == "fault":
            return None
        n = sum(1 if x[0] == "u8" else 4 if x[0] == "u32" else st[x[2]] for x in FIELDS[code])
        sendable = body is not None and 0 < n < (1 << 31) and n <= c["limit"]
        if not sendable:
            # a sum that wraps to a small positive int is caught by the packer's bounds
            return None if rc != 0 else "an unsendable message (negative or overflowing length) was sent"
        if c["maxlen"] > 0 and n > c["maxlen"]:
            return None if rc == 3 else "message above maxlen: expected EMUNGE_BAD_LENGTH, got rc=%d" % rc
        if rc != 0:
            return "a well-formed message could not be sent (rc=%d): computed length and packed bytes disagree" % rc
        wire = bytes.fromhex(f[2]) if f[2] != "-" else b""
        want = header(code, len(body), st["retry"]) + body
        if len(wire) != HDR + n:
            return "bytes produced (%d) differ from the computed length (%d)" % (len(wire) - HDR, n)
        if wire != want:
            return "wire bytes differ from the documented field order/encoding"
        return None
    # receive
    if f[1] == "F":
        return "model fault marker in an implementation answer"
    rc = int(f[1])
    got = parse_state(f[2:10])
    flags = dict(x.split("=") for x in f[10:12])
    want, rcs, may = ref_recv(c["stream"], c["exptype"], c["maxlen"], c["limit"], c["st"])
    st0 = c["st"]
    if want is not None:
        if rc != 0:
            return "a well-formed message was rejected (rc=%d)" % rc
        for k in NUMS + BUFS:
            w = want[k]
            g = got[k]
            if k in BUFS and k != "addr" and w is not None and len(w) == 0:
                w = None
            if g != w:
                return "member %s after unpacking is %r, the wire says %r" % (k, g if not isinstance(g, bytes) else g.hex(), w if not isinstance(w, bytes) else w.hex())
        if flags.get("nul") != "1":
            return "a variable-length member is not NUL-terminated at its length"
        return None
    if rc == 0:
        return "a malformed message was accepted"
    if rcs is not None and rc not in rcs:
        return "wrong result code %d (expected %s)" % (rc, sorted(rcs))
    for k in NUMS + BUFS:
        if k in may:
            continue
        g, w = got[k], st0[k]
        if g != w:
            return "member %s, which this message does not carry, changed from %r to %r (write outside the destination member)" % (
                k, w if not isinstance(w, bytes) else w.hex(), g if not isinstance(g, bytes) else g.hex())
    return None


def normalize(impl, model):
    """impl answer with the locally generated diagnostic (error_len, error_str) masked where the model says L"""
    a, b = impl.split(" "), model.split(" ")
    if len(a) < 12 or len(b) < 12 or a[0] != "R":
        return impl
    nums_b = b[2].split(",")
    if nums_b[-1] == "L" and b[9] == "L":
        if a[11] != "ec=1":
            return impl + " (error_len/error_str inconsistent)"
        na = a[2].split(",")
        na[-1] = "L"
        a[2] = ",".join(na)
        a[9] = "L"
    a[11] = "ec=_"
    return " ".join(a)


def gallina_state(st):
    t = "msg0"
    for i, n in enumerate(NUMS):
        t = "(setn %s N%s %d%%N)" % (t, n, st[n])
    t = "(setb %s Baddr (Some (map n2b [%s]%%N)))" % (t, "; ".join(str(x) for x in st["addr"]))
    return t


def _run_own(ctx):
    ctx.level = "proof"
    proved = vlib.prove(ctx, ["Properties_C14.v"], facts=["msg", "msgtables", "msgclient", "msgclientsrc"])
    ctx.c14_proved = proved
    ctx.log("proofs:", "ok" if proved else "BROKEN: " + getattr(ctx, "broken_obligation", "?"))
    ctx.cov["rule"] = ("proof: Properties_C14.v over MsgModel with constants, widths, sizeof(addr) and the measured addr_len "
                       "bound regenerated from m_msg.[ch]; correspondence: same case lines through /repo's m_msg.c "
                       "(m_msg_send / m_msg_recv on a socketpair, ASan+UBSan, malloc wrapped with a per-case limit) and "
                       "the extracted model, comparing result code and every struct member; cases = messages of every "
                       "type sent and received, every truncation of valid bodies, every length field set to 0/1/exact+-1/"
                       "255/2^31-1/2^31/2^32-1, every type code 0..255 with random and valid bodies, header defects, "
                       "nested headers, allocator refusals, maxlen edges, MUNGE_MAXIMUM_REQ_LEN edge; client side: "
                       "munge_decode / munge_encode of /repo's libmunge (ASan+UBSan, retry sleeps removed) against a scripted "
                       "peer thread on a Unix socket, one byte string per attempt: every header type 0..255, bodies of every "
                       "type's layout, nested headers, truncations, lying length fields and pkt_len, trailing bytes, attempt "
                       "scripts; return value, every output, the context and the requests on the wire compared with the "
                       "extracted MsgClientModel and with the documented layout; non-trivial = every case (distinct by content)")
    oracle = vlib.build_oracle(ctx, "msg")
    ctx.c14_oracle = oracle
    R_ = vlib.REPO
    src = [os.path.join(vlib.HARNESS, "msg_harness.c")] + [os.path.join(R_, p) for p in (
        "src/libcommon/m_msg.c", "src/libcommon/fd.c", "src/libcommon/str.c", "src/libmunge/strerror.c")]
    # signed-integer-overflow is reported but not fatal: `malloc (len + 1)` in _alloc overflows at len = INT_MAX
    # (finding F-C14-alloc-intmax: undefined in ISO C, wraps with gcc, the request then fails => EMUNGE_NO_MEMORY,
    # which is what the model says); any other UBSan report is fatal or turned into a violation below
    exe, err = vlib.cc(ctx, "msgh", src, extra=["-Wl,--wrap=malloc", "-fsanitize-recover=signed-integer-overflow"],
                       libs=["-lpthread"])
    if exe is None:
        ctx.violation("message harness does not build against /repo: " + err[-500:],
                      {"obligation": "correspondence C14 (build)", "stderr": err}, found_input=False)
        return
    if oracle is None:
        ctx.violation("oracle for group msg does not build", {"obligation": "oracle build", "notes": ctx.notes[-1:]},
                      found_input=False)
        return
    cases = gen_cases(ctx)
    if ctx.replay:
        r = json.load(open(ctx.replay))
        if r.get("case_line", "")[:2] in ("S ", "R "):
            cases = [("replay", r["case_line"])]
        elif r.get("case_line", "")[:2] in ("D ", "E "):
            cases = cases[:1]                     # a client-side replay: see _client_phase
    lines = [l for (_, l) in cases]
    dist = {}
    for k, _ in cases:
        dist[k] = dist.get(k, 0) + 1
    ctx.cov["input_distribution"] = dist
    env0 = {"ASAN_OPTIONS": "detect_leaks=1:abort_on_error=0:exitcode=99:allocator_may_return_null=1"}
    env_nl = {"ASAN_OPTIONS": "detect_leaks=0:abort_on_error=0:exitcode=99:allocator_may_return_null=1"}
    # the model first: it says where a write beyond a member is predicted
    rc2, mod, err2 = vlib.run_lines(["bash", "-c", "ulimit -s unlimited 2>/dev/null; exec " + oracle], lines, timeout=1800)
    if rc2 != 0 or len(mod) != len(lines):
        ctx.violation("oracle failed to run: rc=%d %s" % (rc2, err2[-300:]), {"obligation": "oracle run"}, found_input=False)
        return
    fault_idx = [i for i, o in enumerate(mod) if o.split(" ")[1:2] == ["F"]]
    fault_set = set(fault_idx)
    batch = [i for i in range(len(lines)) if i not in fault_set]
    ctx.log("model ran %d cases; %d predicted writes beyond a member" % (len(lines), len(fault_idx)))
    rc, impl_b, stderr = (0, [], "") if not batch else \
        vlib.run_lines([exe], [lines[i] for i in batch], timeout=1800, env=env0)
    ctx.log("implementation ran %d cases rc=%d" % (len(batch), rc))
    for l in lines:
        ctx.count(l)
    for i in (0, 1, len(lines) // 3, len(lines) // 2, len(lines) - 2):
        if 0 <= i < len(lines):
            ctx.sample(lines[i][:300])
    if rc != 0 and len(impl_b) == len(batch) and "LeakSanitizer" in stderr:
        # every case was answered; memory was lost on the way: find one case that leaks on its own
        sub = list(batch)
        while len(sub) > 1:
            half = sub[:len(sub) // 2]
            r1, _, e1 = vlib.run_lines([exe], [lines[i] for i in half], timeout=600, env=env0)
            sub = half if (r1 != 0 and "LeakSanitizer" in e1) else sub[len(sub) // 2:]
        r1, o1, e1 = vlib.run_lines([exe], [lines[sub[0]]], timeout=60, env=env0)
        found = r1 != 0 and "LeakSanitizer" in e1
        ctx.violation("m_msg.c loses memory while unpacking (LeakSanitizer): the message object does not own every block "
                      "it allocated%s" % (": case " + lines[sub[0]][:200] if found else ""),
                      {"case_line": lines[sub[0]] if found else None, "stderr": (e1 if found else stderr)[-3000:],
                       "impl_output": o1[0][:500] if o1 else ""}, found_input=found)
        return
    if rc != 0 or len(impl_b) != len(batch):
        idx = batch[min(len(impl_b), len(batch) - 1)]
        ctx.violation("m_msg.c aborts under ASan/UBSan (read outside the received buffer or write outside the message "
                      "object) at case %s" % lines[idx][:200],
                      {"case_line": lines[idx], "case_kind": cases[idx][0], "stderr": stderr[-3000:], "rc": rc,
                       "model": mod[idx]})
        return
    impl = dict(zip(batch, impl_b))
    direct_fail, mismatches = [], []
    ub = sorted(set(re.findall(r"[\w./]+:\d+:\d+: runtime error: [^\n]*", stderr)))
    ub_known = [u for u in ub if KNOWN_UB.search(u)]
    ub_other = [u for u in ub if not KNOWN_UB.search(u)]
    if ub_known:
        ctx.notes.append("F-C14-alloc-intmax reproduced (benign with gcc, not counted): " + ub_known[0])
        ctx.cov["known_ub"] = ub_known
    if ub_other:
        ctx.violation("UBSan reports undefined behaviour in the codec: " + ub_other[0],
                      {"obligation": "no undefined behaviour while unpacking", "reports": ub_other[:10]}, found_input=False)
    # cases where the faithful model predicts a write beyond a member: one process each, no destroy
    asan_seen = None
    for i in fault_idx[:60]:
        rcf, outf, errf = vlib.run_lines([exe, "nodestroy"], [lines[i]], timeout=60, env=env_nl)
        if rcf != 0 or not outf:
            m = re.search(r"(heap-buffer-overflow|stack-buffer-overflow|SEGV|runtime error)[^\n]*", errf)
            wr = re.search(r"(WRITE|READ) of size \d+", errf)
            direct_fail.append((lines[i], "(aborted)", "sanitizer: %s %s in %s" % (
                m.group(1) if m else "abort", wr.group(0) if wr else "", "_msg_unpack" if "_msg_unpack" in errf else "?"),
                errf[-2500:], cases[i][0]))
            asan_seen = asan_seen or len(direct_fail) - 1
        else:
            why = property_holds(lines[i], outf[0])
            if why:
                direct_fail.append((lines[i], outf[0], why, "", cases[i][0]))
            else:
                ctx.notes.append("predicted out-of-member write not observable on case kind %s" % cases[i][0])
    if fault_idx and not direct_fail:
        mismatches.append((lines[fault_idx[0]], "(no visible effect)", mod[fault_idx[0]]))
    for i in batch:
        why = property_holds(lines[i], impl[i])
        if why:
            direct_fail.append((lines[i], impl[i], why, "", cases[i][0]))
        a = normalize(impl[i], mod[i])
        if a != mod[i]:
            mismatches.append((lines[i], a, mod[i]))
    ctx.cov["traces_validated_against_impl"] = len(batch)
    if mismatches:
        ctx.cov["mismatch_samples"] = [(l[:600], a[:400], b[:400]) for (l, a, b) in mismatches[:5]]
    ctx.log("%d direct property failures, %d model/implementation mismatches" % (len(direct_fail), len(mismatches)))
    # extraction cross-check: a sample of receive cases evaluated inside Coq with vm_compute
    samp = [i for i in range(0, len(lines), max(1, len(lines) // 60)) if lines[i].startswith("R ") and len(lines[i]) < 3000][:40]
    exprs = []
    for i in samp:
        c = parse_case(lines[i])
        exprs.append("match fst (recv (fun z => z <=? %d)%%Z (map n2b [%s]%%N) %d%%N %d%%Z %s) with "
                     "ROk m => (0%%N, map (nv m) nl) | RErr e m => (e, map (nv m) nl) | RFault _ => (99%%N, []) end"
                     % (c["limit"], "; ".join(str(x) for x in c["stream"]), c["exptype"], c["maxlen"], gallina_state(c["st"])))
    req = ("From Coq Require Import List NArith ZArith.\nFrom MV Require Import Bytes MsgModel.\nImport ListNotations.\n"
           "Definition nl := [%s]." % "; ".join("N" + n for n in NUMS[:-1]))
    res, e3 = vlib.coq_eval_sample(ctx, req, exprs)
    if res is None or len(res) != len(samp):
        ctx.notes.append("extraction cross-check could not run: %s" % (e3 or "")[-300:])
        if proved:
            ctx.violation("vm_compute cross-check of extraction failed to run", {"obligation": "extraction cross-check", "err": (e3 or "")[-800:]}, found_input=False)
    else:
        bad = 0
        for i, r in zip(samp, res):
            nums = [int(x) for x in re.findall(r"\d+", r)]
            m = mod[i].split(" ")
            if m[1] == "F":
                ok = nums[:1] == [99]
            else:
                want = [int(m[1])] + [int(x) for x in m[2].split(",")[:-1]]
                ok = nums == want
            bad += 0 if ok else 1
            if not ok:
                ctx.notes.append("cross-check disagreement: case %s coq=%s oracle=%s" % (lines[i][:300], r[:300], mod[i][:300]))
        ctx.cov["extraction_crosscheck"] = {"cases": len(samp), "disagreements": bad}
        if bad:
            ctx.violation("extracted oracle disagrees with vm_compute on %d sample cases" % bad,
                          {"obligation": "extraction cross-check"}, found_input=False)
    # verdict
    if direct_fail:
        k = asan_seen if asan_seen is not None else 0
        for j, x in enumerate(direct_fail):         # prefer the documented replay when it is among the failures
            if x[4] == "d2-replay" and x[3]:
                k = j
                break
        l, o, why, errtxt, kind = direct_fail[k]
        rep = {"case_line": l, "case_kind": kind, "impl_output": o[:2000], "why": why, "n_failing": len(direct_fail),
               "more": [(x[0][:400], x[1][:300], x[2]) for x in direct_fail[:6] if x[0] != l][:5]}
        if errtxt:
            rep["stderr"] = errtxt
        c = parse_case(l)
        d2 = is_d2(c)
        if d2:
            rep["finding_key"] = "D2-addr-len-unbounded"
            rep["explanation"] = ("DEC_RSP body with addr_len = %d > sizeof (m->addr) = 4: _msg_unpack copies addr_len bytes "
                                      "into the 4-byte member (m_msg.c, DEC_RSP case, the _copy into &m->addr has no bound "
                                      "check, defect D2); the repair is the line `else if (m->addr_len > sizeof (m->addr)) ;` "
                                      "in front of that copy (reverse patch: seeded/fixes/D2-reverted.diff); Coq: "
                                      "C14_addr_unguarded_refuted, C14_any_larger_bound_refuted" % d2)
        ctx.violation("%s: case %s -> %s (%d failing cases)" % (why, l[:160], o[:160], len(direct_fail)), rep)
    elif mismatches:
        l, a, b = mismatches[0]
        ctx.violation("model and implementation disagree on %d cases (first: %s impl=%s model=%s) but the property "
                      "evaluated directly on the implementation holds on all %d cases"
                      % (len(mismatches), l[:200], a[:200], b[:200], len(lines)),
                      {"obligation": "correspondence MsgModel ~ m_msg.c", "case_line": l, "impl": a, "model": b,
                       "n_mismatches": len(mismatches)}, found_input=False)
    elif not proved:
        ctx.c14_unproved = True           # reported by run() unless the client phase finds a concrete failing input



# =========================================================================================================
# the client side: libmunge (m_msg_client_xfer, _decode_rsp / _encode_rsp) facing a hostile peer
# =========================================================================================================
def _retry_attempts():
    """MUNGE_SOCKET_RETRY_ATTEMPTS as the tree under test documents it (munge_defs.h); the number of receive calls actually
    made is measured separately (GenMsgClient.xfer_attempts) and is what the model uses"""
    try:
        m = re.search(r"#define\s+MUNGE_SOCKET_RETRY_ATTEMPTS\s+(\d+)", open(os.path.join(vlib.REPO, "src/libcommon/munge_defs.h")).read())
        return int(m.group(1)) if m else 5
    except OSError:
        return 5


ATTEMPTS = _retry_attempts()
SENT32 = 0xFFFFFFFF             # UID_SENTINEL / GID_SENTINEL
TYPE_NAME = {0: "UNDEF", 1: "HDR", 2: "ENC_REQ", 3: "ENC_RSP", 4: "DEC_REQ", 5: "DEC_RSP", 6: "AUTH_FD_REQ"}


def unhex(t):
    return b"" if t == "-" else bytes.fromhex(t)


def cstr(b):
    return None if b is None else b.split(b"\0", 1)[0]


def s32(v):
    return v - (1 << 32) if v >= (1 << 31) else v


def xtok(t):
    """'-' -> None, 'x<hex>' -> bytes, anything else (L) -> the token"""
    if t == "-":
        return None
    if t.startswith("x"):
        return bytes.fromhex(t[1:])
    return t


def D(cred, streams):
    return "D %s %d%s" % (cred.hex(), len(streams), "".join(" " + (x.hex() if x else "-") for x in streams))


def E(opts, payload, streams):
    return "E %d %d %d %d %d %d %s %d%s" % (tuple(opts) + (payload.hex() if payload else "-", len(streams),
                                            "".join(" " + (x.hex() if x else "-") for x in streams)))


def parse_client_case(line):
    f = line.split(" ")
    if f[0] == "D":
        n = int(f[2])
        return dict(op="D", cred=unhex(f[1]), streams=[unhex(x) for x in f[3:3 + n]])
    n = int(f[8])
    return dict(op="E", opts=[int(x) for x in f[1:7]], payload=unhex(f[7]), streams=[unhex(x) for x in f[9:9 + n]])


def client_request(c, k):
    """the bytes the client must put on its k-th connection (k = 0, 1, ...)"""
    if c["op"] == "D":
        data = c["cred"] + b"\0"
        body = struct.pack(">I", len(data)) + data
        return header(4, len(body), retry=k) + body
    ci, ma, zi, ttl, au, ag = c["opts"]
    body = bytes([ci, ma, zi, 0]) + struct.pack(">IIII", ttl, au, ag, len(c["payload"])) + c["payload"]
    return header(2, len(body), retry=k) + body


def first_wellformed(c):
    """(k, members) of the first of the ATTEMPTS responses that is a well-formed message of the expected type, else (None, None):
    decided by the documented layout alone (ref_recv), independently of the Coq model and of the code"""
    exp = 5 if c["op"] == "D" else 3
    for k in range(ATTEMPTS):
        s = c["streams"][k] if k < len(c["streams"]) else b""
        st, _, _ = ref_recv(s, exp, 0, BIGHEAP, fresh())
        if st is not None:
            return k, st
    return None, None


def describe_stream(s):
    if len(s) < HDR:
        return "%d bytes (no complete header)" % len(s)
    magic, ver, ty, retry, plen = struct.unpack(">IBBBI", s[:HDR])
    return "header type %d (%s) magic %s version %d pkt_len %d, %d body bytes: %s" % (
        ty, TYPE_NAME.get(ty, "?"), "ok" if magic == MAGIC else "0x%08x" % magic, ver, plen, len(s) - HDR, s[:80].hex())


def parse_client_answer(c, out):
    f = out.split(" ")
    if f[0] != c["op"] or len(f) < 3 or f[1] == "F":
        return None
    try:
        if c["op"] == "D":
            keys = ["err", "cipher", "mac", "zip", "realm", "ttl", "addr", "time0", "time1", "auth_uid", "auth_gid", "len", "buf",
                    "uid", "gid", "ctxerr", "errstr", "conns"]
        else:
            keys = ["err", "cred", "cipher", "mac", "zip", "realm", "ttl", "auth_uid", "auth_gid", "ctxerr", "errstr", "conns"]
        a = {}
        for k, t in zip(keys, f[1:1 + len(keys)]):
            if k in ("realm", "buf", "errstr", "cred"):
                a[k] = xtok(t)
            elif k == "addr":
                a[k] = unhex(t)
            elif k == "conns":
                a[k] = int(t.split("=")[1])
            else:
                a[k] = int(t)
        a["reqs"] = [unhex(x) for x in f[1 + len(keys):]]
        return a
    except (ValueError, IndexError):
        return None


DEC_UNTOUCHED = dict(cipher=-1, mac=-1, zip=-1, realm=None, ttl=-1, addr=bytes(4), time0=-1, time1=-1, auth_uid=SENT32,
                     auth_gid=SENT32, len=0, buf=None, uid=SENT32, gid=SENT32)


def client_property_holds(line, out):
    """None when the clause holds on this answer of libmunge, else the reason.  The clause: whatever the peer answers, the call
    ends in an error that hands nothing to the caller, or in exactly the members of the first response that is a well-formed
    message of the expected type; the requests on the wire are the documented encoding of the call's arguments."""
    c = parse_client_case(line)
    a = parse_client_answer(c, out)
    if a is None:
        return "malformed harness answer %r" % out[:120]
    op = c["op"]
    name = "munge_decode" if op == "D" else "munge_encode"
    rsp = "DEC_RSP" if op == "D" else "ENC_RSP"
    k, st = first_wellformed(c)
    if a["ctxerr"] != a["err"]:
        return "%s returned %d but the context reports error %d" % (name, a["err"], a["ctxerr"])
    if op == "E":
        ci, ma, zi, ttl, au, ag = c["opts"]
        now = (a["cipher"], a["mac"], a["zip"], a["realm"], a["ttl"], a["auth_uid"], a["auth_gid"])
        if now != (ci, ma, zi, None, ttl, au, ag):
            return "munge_encode changed the options of the context: %r -> %r" % ((ci, ma, zi, None, ttl, au, ag), now)
    for j, r in enumerate(a["reqs"]):
        if r != client_request(c, j):
            return "request on connection %d is not the documented encoding of the call (retry=%d): %s" % (j + 1, j, r[:64].hex())
    if k is None or (op == "E" and st["data_len"] == 0):
        why = ("none of the %d responses is a well-formed %s" % (ATTEMPTS, rsp)) if k is None else \
            "the %s carries no credential (data_len = 0)" % rsp
        first = describe_stream(c["streams"][0]) if c["streams"] else "nothing"
        if a["err"] == 0:
            got = ("uid=%d gid=%d len=%d" % (a["uid"], a["gid"], a["len"])) if op == "D" else "cred=%r" % a["cred"]
            j = a["conns"] - 1                               # the answer on the last connection is the one that was taken
            taken = describe_stream(c["streams"][j]) if 0 <= j < len(c["streams"]) else "nothing"
            return "%s returned EMUNGE_SUCCESS (%s) although %s; response %d = %s" % (name, got, why, j + 1, taken)
        if op == "D":
            for key, v in DEC_UNTOUCHED.items():
                if a[key] != v:
                    return "munge_decode failed (error %d) but handed %s=%r to the caller although %s; response 1 = %s" % (
                        a["err"], key, a[key].hex() if isinstance(a[key], bytes) else a[key], why, first)
        elif a["cred"] is not None:
            return "munge_encode failed (error %d) but handed a credential to the caller although %s" % (a["err"], why)
        want_conns = ATTEMPTS if k is None else k + 1
        if a["conns"] != want_conns:
            return "%d connections were made, expected %d" % (a["conns"], want_conns)
        return None
    # the k-th response is well-formed: the caller must get exactly its members
    if a["conns"] != k + 1:
        return "response %d is a well-formed %s but %d connections were made" % (k + 1, rsp, a["conns"])
    want = dict(err=st["error_num"], errstr=None if st["error_num"] == 0 else cstr(st["error"]))
    if op == "D":
        want.update(cipher=st["cipher"], mac=st["mac"], zip=st["zip"], realm=cstr(st["realm"]), ttl=s32(st["ttl"]), addr=st["addr"],
                    time0=st["time0"], time1=st["time1"], auth_uid=st["auth_uid"], auth_gid=st["auth_gid"],
                    len=st["data_len"], buf=st["data"] if st["data_len"] else None, uid=st["cred_uid"], gid=st["cred_gid"])
    else:
        want.update(cred=cstr(st["data"]))
    for key, v in want.items():
        if a[key] != v:
            f = lambda x: ("x" + x.hex()) if isinstance(x, bytes) else x
            return "%s: %s is %r, response %d (a well-formed %s) says %r" % (name, key, f(a[key]), k + 1, rsp, f(v))
    return None


def normalize_client(impl, model):
    """the wording of locally generated diagnostics is not modelled: where the model prints L, mask the implementation's string"""
    a, b = impl.split(" "), model.split(" ")
    if len(a) != len(b):
        return impl
    for i, (x, y) in enumerate(zip(a, b)):
        if y == "L" and x.startswith("x") and i > 1:
            a[i] = "L"
    return " ".join(a)


def rsp_wire(rng, code, retry=None, **over):
    st = rnd_msg(rng, code, big=False)
    st.update(over)
    body = ref_pack(code, st)
    return header(code, len(body), rng.getrandbits(8) if retry is None else retry) + body, st, body


def rnd_cred(rng):
    n = rng.choice([1, 2, 11, 40, rng.randrange(1, 200)])
    return bytes(rng.choice(b"MUNGE:abcdefghijklmnopqrstuvwxyzABCDEFGHIJKLMNOPQRSTUVWXYZ0123456789+/=") for _ in range(n))


def rnd_opts(rng):
    return [rng.getrandbits(8), rng.getrandbits(8), rng.getrandbits(8), rng.choice([0, 1, 300, (1 << 31) - 1, rng.getrandbits(31)]),
            rnd_u32(rng), rnd_u32(rng)]


def gen_client_cases(ctx):
    """responses a peer may send, aimed at the case splits of m_msg_recv / _msg_unpack / _decode_rsp / _encode_rsp: every header
    type 0..255, bodies laid out as every message type, nested headers, truncation at every offset, every length field lying,
    pkt_len lying, trailing bytes, bad magic / version, and scripts over the five attempts"""
    rng = ctx.rng
    cases = []
    T = ctx.thorough

    def add(kind, op, streams):
        if op == "D":
            cases.append((kind, D(rnd_cred(rng), streams)))
        else:
            cases.append((kind, E(rnd_opts(rng), rnd_bytes(rng, rng.choice([0, 0, 1, 5, 33, rng.randrange(0, 120)])), streams)))

    EXP = {"D": 5, "E": 3}
    for op in ("D", "E"):
        exp = EXP[op]
        # 1. well-formed responses of the expected type: every output of the call comes from the message
        for i in range(120 if T else 40):
            w, st, body = rsp_wire(rng, exp)
            add("c-valid", op, [w])
        for en in (0, 1, 7, 15, 16, 17, 200, 255):            # every kind of error_num the daemon (or anybody) may report
            for el in (0, 1, 9):
                for dl in (0, 1, 6):
                    w, st, body = rsp_wire(rng, exp, error_num=en, error_len=el, error=rnd_bytes(rng, el) or None,
                                           data_len=dl, data=rnd_bytes(rng, dl) or None)
                    add("c-valid-error", op, [w])
        w, st, body = rsp_wire(rng, exp, error_num=5, error_len=6, error=b"ab\0cd\0", data_len=7, data=b"xy\0z\0\0\0")
        add("c-valid-nul", op, [w])                            # NUL bytes inside the strings
        if op == "D":
            for al in range(0, 5):
                w, st, body = rsp_wire(rng, 5, addr_len=al, realm_len=rng.choice([0, 3]), realm=b"r\0z")
                add("c-valid-addr", op, [w])
            for ttl in (0, (1 << 31) - 1, 1 << 31, (1 << 32) - 1):
                w, st, body = rsp_wire(rng, 5, ttl=ttl, time0=ttl, time1=(1 << 32) - 1, cred_uid=ttl, auth_gid=(1 << 32) - 1)
                add("c-valid-u32edge", op, [w])
        # 2. every header type code 0..255 x {the expected type's valid body, empty body, random body}
        w_ok, st_ok, body_ok = rsp_wire(rng, exp, error_num=0)
        for code in range(256):
            add("c-anytype-validbody", op, [header(code, len(body_ok), rng.getrandbits(8)) + body_ok])
            if T or code < 8 or rng.random() < 0.4:
                add("c-anytype-empty", op, [header(code, 0)])
                b = rnd_bytes(rng, rng.choice([1, 11, 40]))
                add("c-anytype-random", op, [header(code, len(b)) + b])
        # 3. every real type code as header x a valid body of every message type (the body fits another unpacker)
        for hcode in range(0, 8):
            for bcode in (2, 3, 4, 5, 6):
                for i in range(6 if T else 3):
                    _, _, b = rsp_wire(rng, bcode)
                    add("c-crosstype", op, [header(hcode, len(b), rng.getrandbits(8)) + b])
        # 4. nested headers: header type HDR whose body is a packed header naming any type (it rewrites type / retry / pkt_len),
        #    alone and followed by a valid body of the expected type, inside a body of the right and of a lying length
        for nested in list(range(0, 9)) + [255]:
            for nplen in (0, 5, 1 << 31):
                inner = header(nested, nplen, retry=rng.getrandbits(8))
                add("c-nested", op, [header(1, len(inner)) + inner])
                add("c-nested", op, [header(1, len(inner) + len(body_ok)) + inner + body_ok])
            add("c-nested", op, [header(1, HDR) + header(nested, 0, magic=MAGIC + 1)])
            add("c-nested", op, [header(1, HDR) + header(nested, 0, version=VERSION + 1)])
            add("c-nested", op, [header(1, 4) + header(nested, 0)[:4]])
        add("c-nested", op, [header(1, HDR) + header(1, HDR) + header(exp, 0)])
        # 5. truncation: the stream ends at every offset; the header announces the truncated body
        for i in range(8 if T else 2):
            w, st, body = rsp_wire(rng, exp, error_num=rng.choice([0, 7]))
            step = 1 if (T or len(w) < 90) else 2
            for k in range(0, len(w), step):
                add("c-short-stream", op, [w[:k]])
            for k in range(0, len(body), step):
                add("c-truncated-body", op, [header(exp, k) + body[:k]])
        # 6. every length field lying (0, 1, exact-1, exact+1, 255, 2^31-1, 2^31, 2^32-1); pkt_len lying
        for i in range(12 if T else 3):
            w, st, body = rsp_wire(rng, exp)
            for (off, wd, exact) in len_field_offsets(exp, st):
                vals = [0, 1, exact - 1, exact + 1, 255] + ([(1 << 31) - 1, 1 << 31, (1 << 32) - 1] if wd == 4 else [4, 5, 128])
                for v in vals:
                    if v < 0 or (wd == 1 and v > 255):
                        continue
                    enc = bytes([v]) if wd == 1 else struct.pack(">I", v)
                    for pad in (0, 64):
                        b2 = body[:off] + enc + body[off + wd:] + rnd_bytes(rng, pad)
                        add("c-lenfield", op, [header(exp, len(b2)) + b2])
            for plen in (0, 1, len(body) - 1, len(body) + 1, len(body) + 9, 1 << 20, (1 << 31) - 1, 1 << 31, (1 << 32) - 1):
                if plen >= 0:
                    add("c-pktlen", op, [header(exp, plen) + body])
        # 7. trailing bytes: after the body on the stream, and inside the body after the last field
        for i in range(12 if T else 4):
            w, st, body = rsp_wire(rng, exp)
            add("c-trailing-stream", op, [w + rnd_bytes(rng, rng.randrange(1, 40))])
            extra = rnd_bytes(rng, rng.randrange(1, 40))
            add("c-trailing-body", op, [header(exp, len(body) + len(extra)) + body + extra])
        # 8. header defects
        for byte in range(5):
            for bit in range(8):
                h = bytearray(w_ok)
                h[byte] ^= 1 << bit
                add("c-hdr-bad", op, [bytes(h)])
        # 9. scripts over the attempts: j failures of different kinds, then a well-formed response (taken iff j < ATTEMPTS)
        bad = [b"", header(exp, 5), header(1, HDR) + header(exp, 0), header(exp ^ 6, len(body_ok)) + body_ok, w_ok[:-1],
               header(exp, len(body_ok), magic=0) + body_ok, rnd_bytes(rng, 30)]
        for j in range(0, 7):
            for rep in range(6 if T else 3):
                script = [rng.choice(bad) for _ in range(j)]
                w, st, body = rsp_wire(rng, exp)
                add("c-script", op, script + [w])
        for pos in range(0, 6):                              # each hostile answer at each attempt, after plain failures
            for hostile in (header(1, HDR) + header(exp, 0), header(1, HDR + len(body_ok)) + header(exp, 0) + body_ok,
                            header(exp ^ 6, len(body_ok)) + body_ok, header(0, len(body_ok)) + body_ok):
                add("c-script-pos", op, [b""] * pos + [hostile])
        w2, _, _ = rsp_wire(rng, exp)
        add("c-script", op, [w_ok, w2])                      # only the first answer counts
        add("c-script", op, [])                              # the peer never answers
        # 10. random streams with a plausible header
        for i in range(6000 if T else 400):
            n = rng.choice([0, 3, 11, 12, 20, 60, rng.randrange(0, 300)])
            b = bytearray(rnd_bytes(rng, n))
            if n >= HDR and rng.random() < 0.85:
                b[0:6] = header(rng.choice([exp, exp, exp, 1, rng.randrange(0, 8)]), 0)[0:6]
                if rng.random() < 0.7:
                    b[7:11] = struct.pack(">I", n - HDR)
            add("c-random", op, [bytes(b)])
    return cases


def _client_phase(ctx, oracle, proved):
    """libmunge against a scripted hostile peer: model (extracted) vs /repo's libmunge, and the clause itself on libmunge's answers"""
    R_ = vlib.REPO
    src = [os.path.join(vlib.HARNESS, "msgclient_harness.c")]
    src += [os.path.join(R_, "src/libmunge", f) for f in ("auth_send.c", "ctx.c", "decode.c", "encode.c", "m_msg_client.c", "strerror.c")]
    src += [os.path.join(R_, "src/libcommon", f) for f in ("fd.c", "m_msg.c", "str.c")]
    exe, err = vlib.cc(ctx, "msgclient", src, extra=["-Wl,--wrap=nanosleep,--wrap=connect,--wrap=malloc,--wrap=poll", "-fsanitize-recover=signed-integer-overflow"],
                       libs=["-lpthread"])
    if exe is None:
        ctx.violation("client harness does not build against /repo's libmunge: " + err[-500:],
                      {"obligation": "correspondence C14 client (build)", "stderr": err}, found_input=False)
        return
    cases = gen_client_cases(ctx)
    if ctx.replay:
        r = json.load(open(ctx.replay))
        if r.get("case_line", "")[:2] in ("D ", "E "):
            cases = [("replay", r["case_line"])]
        elif "case_line" in r:
            return
    lines = [l for (_, l) in cases]
    dist = ctx.cov.setdefault("input_distribution", {})
    for k, _ in cases:
        dist[k] = dist.get(k, 0) + 1
    sock = os.path.join(ctx.tmp, "peer.sock")
    from concurrent.futures import ThreadPoolExecutor
    with ThreadPoolExecutor(2) as ex:            # model and implementation side by side
        fm = ex.submit(vlib.run_lines, [oracle], lines, 900)
        fi = ex.submit(vlib.run_lines, [exe, sock], lines, 900,
                       {"ASAN_OPTIONS": "detect_leaks=1:abort_on_error=0:exitcode=99:allocator_may_return_null=1"})
        rc2, mod, err2 = fm.result()
        rc, impl, stderr = fi.result()
    if rc2 != 0 or len(mod) != len(lines):
        ctx.violation("oracle (client side) failed to run: rc=%d %s" % (rc2, err2[-300:]), {"obligation": "oracle run"}, found_input=False)
        return
    ctx.log("client side: libmunge answered %d of %d scripted peers rc=%d" % (len(impl), len(lines), rc))
    for l in lines:
        ctx.count(l)
    for i in (0, len(lines) // 2):
        if i < len(lines):
            ctx.sample(lines[i][:300])
    if rc != 0 and len(impl) == len(lines) and "LeakSanitizer" in stderr:
        sub = list(range(len(lines)))
        while len(sub) > 1:
            half = sub[:len(sub) // 2]
            r1, _, e1 = vlib.run_lines([exe, sock], [lines[i] for i in half], timeout=300)
            sub = half if (r1 != 0 and "LeakSanitizer" in e1) else sub[len(sub) // 2:]
        r1, o1, e1 = vlib.run_lines([exe, sock], [lines[sub[0]]], timeout=60)
        found = r1 != 0 and "LeakSanitizer" in e1
        ctx.violation("libmunge loses memory on a hostile response (LeakSanitizer)%s" % (": case " + lines[sub[0]][:200] if found else ""),
                      {"case_line": lines[sub[0]] if found else None, "stderr": (e1 if found else stderr)[-3000:]}, found_input=found)
        return
    if rc != 0 or len(impl) != len(lines):
        idx = min(len(impl), len(lines) - 1)
        c = parse_client_case(lines[idx])
        ctx.violation("libmunge aborts under ASan/UBSan (or hangs) on a hostile response: %s; response 1 = %s" % (
            lines[idx][:160], describe_stream(c["streams"][0]) if c["streams"] else "nothing"),
            {"case_line": lines[idx], "case_kind": cases[idx][0], "stderr": stderr[-3000:], "rc": rc, "model": mod[idx]})
        return
    ub = [u for u in sorted(set(re.findall(r"[\w./]+:\d+:\d+: runtime error: [^\n]*", stderr))) if not KNOWN_UB.search(u)]
    if ub:
        ctx.violation("UBSan reports undefined behaviour in libmunge: " + ub[0], {"obligation": "no undefined behaviour", "reports": ub[:10]},
                      found_input=False)
    direct, mism = [], []
    for i, l in enumerate(lines):
        why = client_property_holds(l, impl[i])
        if why:
            direct.append((l, impl[i], why, cases[i][0]))
        if normalize_client(impl[i], mod[i]) != mod[i]:
            mism.append((l, impl[i], mod[i]))
    ctx.cov["client_cases"] = len(lines)
    # extraction cross-check: a sample of decode cases evaluated inside Coq with vm_compute
    samp = [i for i in range(0, len(lines), max(1, len(lines) // 40)) if lines[i].startswith("D ") and len(lines[i]) < 1200][:10]
    if samp and proved:
        gl = lambda b: "(map n2b [%s]%%N)" % "; ".join(str(x) for x in b)
        exprs = []
        for i in samp:
            c = parse_client_case(lines[i])
            exprs.append("match fst (client_decode (fun z => z <=? 67108864)%%Z %s [%s]) with Some r => "
                         "[d_err r; d_uid r; d_gid r; Z.to_N (d_len r); Z.to_N (x_cipher (d_ctx r) + 1)] | None => [99%%N] end"
                         % (gl(c["cred"]), "; ".join(gl(x) for x in c["streams"])))
        req = ("From Coq Require Import List NArith ZArith.\nFrom MV Require Import Bytes MsgModel MsgClientModel.\n"
               "Import ListNotations.")
        res, e3 = vlib.coq_eval_sample(ctx, req, exprs)
        if res is None or len(res) != len(samp):
            ctx.violation("vm_compute cross-check of the client extraction failed to run", {"obligation": "extraction cross-check (client)",
                          "err": (e3 or "")[-800:]}, found_input=False)
        else:
            bad = 0
            for i, r in zip(samp, res):
                nums = [int(x) for x in re.findall(r"\d+", r.split(":")[0])]
                m = mod[i].split(" ")
                want = [int(m[1]), int(m[14]), int(m[15]), int(m[12]), int(m[2]) + 1] if m[1] != "F" else [99]
                if nums != want:
                    bad += 1
                    ctx.notes.append("client cross-check disagreement: case %s coq=%s oracle=%s" % (lines[i][:300], r[:200], mod[i][:300]))
            ctx.cov["extraction_crosscheck_client"] = {"cases": len(samp), "disagreements": bad}
            if bad:
                ctx.violation("extracted oracle disagrees with vm_compute on %d client sample cases" % bad,
                              {"obligation": "extraction cross-check (client)"}, found_input=False)
    ctx.cov["traces_validated_against_impl"] = ctx.cov.get("traces_validated_against_impl", 0) + len(lines)
    ctx.log("client side: %d direct property failures, %d model/implementation mismatches" % (len(direct), len(mism)))
    if direct:
        # a success handed to the caller first, then anything handed over with an error, then the rest; shortest input first
        direct.sort(key=lambda x: (0 if "EMUNGE_SUCCESS" in x[2] else 1 if "handed" in x[2] else 2, len(x[0])))
        l, o, why, kind = direct[0]
        c = parse_client_case(l)
        ctx.violation("%s: case %s -> %s (%d failing cases)" % (why, l[:200], o[:200], len(direct)),
                      {"case_line": l, "case_kind": kind, "impl_output": o[:2000], "why": why, "n_failing": len(direct),
                       "peer_script": [describe_stream(s) for s in c["streams"]],
                       "call": "munge_decode(cred=%r)" % c["cred"] if c["op"] == "D" else "munge_encode(opts=%r, payload=%s)" % (c["opts"], c["payload"].hex()),
                       "model_output": mod[lines.index(l)][:2000],
                       "more": [(x[0][:300], x[1][:200], x[2]) for x in direct[1:6]]})
    elif mism:
        l, a, b = mism[0]
        ctx.violation("client model and libmunge disagree on %d cases (first: %s impl=%s model=%s) but the property evaluated "
                      "directly on libmunge's answers holds on all %d cases" % (len(mism), l[:200], a[:300], b[:300], len(lines)),
                      {"obligation": "correspondence MsgClientModel ~ libmunge", "case_line": l, "impl": a, "model": b,
                       "n_mismatches": len(mism)}, found_input=False)


def is_d2(c):
    """addr_len of a DEC_RSP stream when it exceeds the member and the copy is reached, else 0"""
    if c["op"] != "R" or len(c["stream"]) < HDR or c["stream"][5] != 5:
        return 0
    body = c["stream"][HDR:]
    try:
        p = 2 + body[1]
        p += 3
        p += 1 + body[p]
        p += 4
        return body[p] if body[p] > ADDR_CAP else 0
    except IndexError:
        return 0


def daemon_dispatch_phase(ctx):
    """'in munged, whatever type its header and body claim (each type code 0..255)': the daemon itself (job.c dispatches on the type
    the UNPACKED message carries), fed every outer type code and, inside a type-1 header message, every inner type code (the
    header-in-a-header rewrites the type/retry/length words).  Each exchange ends in a reply or a close; the daemon keeps serving."""
    import rig, hostile, socket
    exe, err = rig.build_daemon(ctx, san="address")
    if exe is None:
        ctx.violation("munged does not build from /repo: " + err[-300:], {"obligation": "build (dispatch phase)"}, found_input=False)
        return
    d = rig.Daemon(ctx, exe, tag="c14disp", nthreads=2)
    if not d.start():
        ctx.violation("munged does not start (dispatch phase)", {"obligation": "start"}, found_input=False)
        return
    body = rig.enc_req_body(data=b"dispatch")
    items = [("outer/type%d" % t, rig.hdr(t, 0, len(body)) + body) for t in range(256)]
    for inner in range(256):
        for ilen in (0, 11):
            b = rig.hdr(inner, 0, ilen)
            items.append(("nested/inner%d" % inner, rig.hdr(1, 0, len(b)) + b))
    # well-formed RESPONSE-typed messages whose error string (a field the daemon unpacks into the message object and then
    # reports in its log) is chosen by the peer: it is data, whatever characters it holds
    import struct as _st
    fmt_strings = [b"100%% legit %d", b"%x.%x.%x.%x.%lx.%lx.%p", b"%s%s%s%s%s%s%s%s%s%s%s%s%s%s%s%s%s%s%s%s%s%s%s%s", b"%n%n%n%n", b"%999999d", b"%*d %.*s"]
    for t in (3, 5):
        for es in fmt_strings:
            es0 = es + b"\0"
            rb_ = _st.pack(">BB", 1, len(es0)) + es0
            if t == 3:
                rb_ += _st.pack(">I", 0)
            else:
                rb_ += _st.pack(">BBBB", 0, 0, 0, 0) + _st.pack(">I", 0) + _st.pack(">B", 0) + _st.pack(">IIIIIII", 0, 0, 0, 0, 0, 0, 0)
            items.append(("response-typed/type%d errstr=%r" % (t, es.decode()), rig.hdr(t, 0, len(rb_)) + rb_))
    bad = None
    n = 0
    for cls, raw in items:
        try:
            s = socket.socket(socket.AF_UNIX, socket.SOCK_STREAM)
            s.settimeout(5)
            s.connect(d.sock)
            s.sendall(raw)
            try:
                s.recv(65536)
            except socket.timeout:
                bad = (cls, raw, "neither a reply nor a close within 5 s")
            s.close()
        except OSError as e:
            bad = (cls, raw, "connection failed: %s" % e)
        n += 1
        ctx.count(("dispatch", cls))
        if bad or not d.alive():
            if not bad:
                bad = (cls, raw, "munged died")
            break
    if not bad:
        c = rig.canary(d.sock)
        if c:
            bad = (items[-1][0], items[-1][1], "afterwards: " + c)
    alive = d.alive()
    logtxt = d.log_text() if hasattr(d, "log_text") else ""
    rc, rep = d.stop()
    kinds, frames = hostile.summarize_report(rep)
    ctx.cov.setdefault("input_distribution", {})["daemon-dispatch"] = n
    if not bad and alive and not kinds:
        # what the daemon logged about those messages: the peer's string verbatim, or nothing — never an expansion of it
        sus = [l for l in logtxt.splitlines() if re.search(r"\b[0-9a-f]{1,8}\.[0-9a-f]{1,8}\.[0-9a-f]{1,8}\.[0-9a-f]{1,8}\.", l)]
        if sus:
            bad = ("response-typed/errstr='%x.%x.%x.%x.%lx.%lx.%p'", [r for c_, r in items if "%x.%x" in c_][0],
                   "the peer-chosen error string was used as a printf format: the log shows %r" % sus[0][-120:])
    if bad or kinds or not alive:
        cls, raw, why = bad if bad else (items[-1][0], items[-1][1], "sanitizer report")
        ctx.violation("munged, message class %s: %s%s" % (cls, why if alive else "munged died (exit %s)" % rc,
                                                          (" [%s at %s]" % (kinds[0], " <- ".join("%s %s:%d" % fr for fr in frames[:3]))) if kinds else ""),
                      {"raw_hex": raw.hex(), "class": cls, "sanitizer": kinds})



# =========================================================================================================
# several threads packing / sending / receiving different messages at the same time (munged's workers)
# =========================================================================================================
def _hdr_of(w):
    if len(w) < HDR:
        return None
    magic, ver, ty, retry, plen = struct.unpack(">IBBBI", w[:HDR])
    return dict(magic=magic, version=ver, type=ty, retry=retry, pkt_len=plen)


def concurrent_phase(ctx):
    """m_msg_send / m_msg_recv are used by munged's worker threads and by multi-threaded libmunge users at the same time, each on
    its own message object and socket: what a thread puts on the wire must be a function of ITS message alone (the same bytes as
    when it is sent alone: header type = the message's type, header length = the number of body bytes produced, body = the packing
    of its members), and what it receives likewise.  harness/msgconc_harness.c: 8 threads, different types and lengths per
    thread, the schedule in the window between packing and writing fixed by a writev shim; once more under ThreadSanitizer."""
    rng = ctx.rng
    R_ = vlib.REPO
    src = [os.path.join(vlib.HARNESS, "msgconc_harness.c")] + [os.path.join(R_, p) for p in (
        "src/libcommon/m_msg.c", "src/libcommon/fd.c", "src/libcommon/str.c", "src/libmunge/strerror.c")]
    wrap = ["-Wl,--wrap=writev"]
    exe, err = vlib.cc(ctx, "msgconc", src, extra=wrap, libs=["-lpthread"])
    tsan, err2 = vlib.cc(ctx, "msgconc_tsan", src, extra=wrap + ["-fsanitize=thread"], libs=["-lpthread"], san=False)
    if exe is None:
        ctx.violation("concurrent message harness does not build against /repo: " + err[-500:],
                      {"obligation": "correspondence C14 concurrent (build)", "stderr": err}, found_input=False)
        return
    msgs = []
    if ctx.replay and "conc_lines" in json.load(open(ctx.replay)):
        lines = json.load(open(ctx.replay))["conc_lines"]
        for l in lines:
            f = l.split(" ")
            msgs.append((int(f[1]), parse_state(f[2:10])))
    else:
        sizes = [0, 1, 7, 64, 300, 1021, 3286, 3778, 4096, 9000]
        k = 0
        for code in (3, 5, 2, 4, 6, 3, 5, 3, 5, 2, 4, 3, 5, 6, 3, 5, 3, 5, 2, 4, 3, 5, 3, 5):
            st = rnd_msg(rng, code)
            st["retry"] = k
            big = sizes[k % len(sizes)] + k            # every message its own length
            lf = [f for f in FIELDS[code] if f[0] == "var" and f[2] not in U8S][-1]
            st[lf[2]] = big
            st[lf[1]] = rnd_bytes(rng, big) if big else None
            msgs.append((code, st))
            k += 1
        lines = ["M %d %s" % (c, state_tokens(st)) for (c, st) in msgs]
    want = []
    for code, st in msgs:
        body = ref_pack(code, st)
        want.append(header(code, len(body), st["retry"]) + body)
    nthr, rounds = 8, (600 if ctx.thorough else 120)
    findings = []          # (severity, text, replay dict)

    def run_one(binary, force, rnds, env):
        rc, out, errtxt = vlib.run_lines([binary, str(nthr), str(rnds), str(force)], lines, timeout=300, env=env)
        refs, bads, badr, done = {}, [], [], None
        for l in out:
            f = l.split(" ")
            if f[0] == "REF":
                refs[int(f[1])] = (int(f[2]), unhex(f[3]), f[4])
            elif f[0] == "BADSEND":
                bads.append((int(f[1]), int(f[2]), int(f[3]), unhex(f[4]), f[5]))
            elif f[0] == "BADRECV":
                badr.append(l)
            elif f[0] == "DONE":
                done = dict(x.split("=") for x in f[1:])
        return rc, refs, bads, badr, done, errtxt

    def explain(t, r, i, w, rcs):
        code, st = msgs[i]
        h = _hdr_of(w)
        mine = want[i]
        if h is None:
            return "thread %d, round %d: message %d (type %d, %d body bytes) produced %d bytes (%s)" % (t, r, i, code, len(mine) - HDR, len(w), rcs)
        whose = [j for j, x in enumerate(want) if x[:HDR] == w[:HDR]]
        body_ok = w[HDR:] == mine[HDR:]
        return ("thread %d, round %d sent message %d (type %d = %s, retry %d, body of %d bytes): the header on the wire says type=%d "
                "retry=%d pkt_len=%d%s, the body that follows is %s of %d bytes - the length announced is not the number of bytes "
                "produced and the receiver unpacks another message" % (
                    t, r, i, code, TYPE_NAME.get(code, "?"), st["retry"], len(mine) - HDR, h["type"], h["retry"], h["pkt_len"],
                    (" (the header of message %d, which another thread was sending)" % whose[0]) if whose and whose[0] != i else "",
                    "the complete body of message %d" % i if body_ok else "not this message's body either", len(w) - HDR))

    runs = [("forced schedule", exe, 1, rounds, {"ASAN_OPTIONS": "detect_leaks=1:abort_on_error=0:exitcode=99"}),
            ("free-running", exe, 0, rounds * 2, {"ASAN_OPTIONS": "detect_leaks=1:abort_on_error=0:exitcode=99"})]
    if tsan:
        runs.append(("ThreadSanitizer", tsan, 0, max(20, rounds // 4), {"TSAN_OPTIONS": "exitcode=0:halt_on_error=0:report_signal_unsafe=0"}))
    else:
        ctx.notes.append("concurrent phase: the ThreadSanitizer build failed (%s); ASan runs only" % err2[-200:])
    total = 0
    for name, binary, force, rnds, env in runs:
        rc, refs, bads, badr, done, errtxt = run_one(binary, force, rnds, env)
        if done is None or (rc != 0 and name != "ThreadSanitizer"):
            findings.append((1, "concurrent harness (%s) did not finish: rc=%d %s" % (name, rc, errtxt[-400:]),
                             {"obligation": "concurrent run", "stderr": errtxt[-3000:], "conc_lines": lines}))
            continue
        total += int(done["sends"]) + int(done["recvs"])
        for i, (code, w, rcs) in refs.items():
            if w != want[i]:
                findings.append((0, "message %d (type %d) sent alone: wire bytes differ from the documented encoding (%s)" % (i, code, rcs),
                                 {"conc_lines": lines, "case_line": lines[i], "got": w.hex(), "want": want[i].hex()}))
                break
        if bads:
            t, r, i, w, rcs = bads[0]
            findings.append((0, "%s, %d threads: %s (%s of %s concurrent sends differ from the same message sent alone)" % (
                name, nthr, explain(t, r, i, w, rcs), done["badsend"], done["sends"]),
                {"conc_lines": lines, "case_line": lines[i], "thread": t, "round": r, "message": i, "wire_hex": w.hex(),
                 "own_wire_hex": want[i].hex(), "schedule": name, "threads": nthr, "rounds": rnds,
                 "more": [explain(*b)[:400] for b in bads[1:4]]}))
        if badr:
            findings.append((0, "%s, %d threads: m_msg_recv gives a thread something else than the same bytes received alone: %s (%s of %s)" % (
                name, nthr, badr[0], done["badrecv"], done["recvs"]), {"conc_lines": lines, "bad": badr[:5], "schedule": name}))
        if name == "ThreadSanitizer":
            for rep in re.findall(r"WARNING: ThreadSanitizer: data race.*?={18}", errtxt, re.S):
                if "m_msg.c" in rep or "fd.c" in rep:
                    loc = re.search(r"Location is ([^\n]*)", rep)
                    fr = re.findall(r"#\d+ (\w+) [^\n]*?(m_msg\.c:\d+|fd\.c:\d+)", rep)
                    findings.append((2, "ThreadSanitizer: data race in the codec between two threads sending different messages: %s; %s" % (
                        loc.group(1) if loc else "?", " / ".join("%s %s" % x for x in fr[:4])),
                        {"conc_lines": lines, "tsan_report": rep[:4000], "schedule": "free-running under TSan"}))
                    break
    ctx.cov.setdefault("input_distribution", {})["concurrent-send-recv"] = total
    ctx.cov["concurrent"] = {"threads": nthr, "messages": len(msgs), "operations": total}
    ctx.count(("concurrent", tuple(lines)))
    ctx.log("concurrent: %d threads, %d sends/receives of %d different messages, %d findings" % (nthr, total, len(msgs), len(findings)))
    findings.sort(key=lambda x: x[0])
    if findings:
        sev, text, rep = findings[0]
        race = [f for f in findings if f[0] == 2]
        if race and sev != 2:
            text += "; " + race[0][1]
            rep = dict(rep, tsan_report=race[0][2]["tsan_report"])
        rep["also"] = [f[1][:600] for f in findings[1:5]]
        ctx.violation(text, rep, found_input=("case_line" in rep or "tsan_report" in rep))


def run(ctx):
    """the property's own check, then the component check of the socket I/O loops (fd.c) that every request and reply of
    this property goes through: Properties_FD.v + correspondence FdModel ~ /repo's fd.c (tools/props/fd_common.py)"""
    _run_own(ctx)
    if getattr(ctx, "c14_oracle", None):
        _client_phase(ctx, ctx.c14_oracle, getattr(ctx, "c14_proved", False))
    if getattr(ctx, "c14_unproved", False) and not any(found for (_, _, found) in ctx.violations):
        ctx.violation("proof obligation no longer checks: %s" % getattr(ctx, "broken_obligation", "?"),
                      {"obligation": getattr(ctx, "broken_obligation", "?"), "log": ctx.proof_log[-3000:]},
                      found_input=False)
    rp = json.load(open(ctx.replay)) if getattr(ctx, "replay", None) else None
    if rp is None or "conc_lines" in rp:
        concurrent_phase(ctx)
    if not getattr(ctx, "replay", None):
        daemon_dispatch_phase(ctx)
    from props import fd_common
    fd_common.fd_phase(ctx)
