"""C12, the acceptor: job_accept () of src/munged/job.c run against scripted environments (harness/job_harness.c:
job.c linked with accept/time/close wrapped and work_*/log_*/m_msg_*/fd_set_nonblocking/gids_update defined by the
harness; signals raised for real inside the calls), compared call for call with the extracted interpreter of the
program translated from job.c's text (extract/job/oracle src), and the clauses of the property evaluated on the
implementation's call log: by the monitors below (independent of the Coq model) and by the extracted Coq monitors
(JobModel.clauses, the ones the theorems of Properties_C12_job.v are about)."""
import os, re, time
import vlib

WRAPS = ["accept", "time", "close"]
ERR = ["E0", "EINTR", "ECONNABORTED", "EMFILE", "ENFILE", "ENOBUFS", "ENOMEM", "EAGAIN", "EBADF", "EINVAL", "EPERM",
       "ENOTSOCK", "EPROTO"]
SHORTAGE = ("EMFILE", "ENFILE", "ENOBUFS", "ENOMEM")
RETRY = ("EINTR", "ECONNABORTED")
LOG_LIMIT = 60
SIGNAME = {"1": "SIGHUP", "2": "SIGINT", "15": "SIGTERM"}
CLAUSES = ["hand-off (every accepted connection is queued exactly once and never closed by the acceptor)",
           "backlog (work_wait after a descriptor shortage before the next accept, no exit on transient errors)",
           "stop (work_fini (w, 1) once, only after SIGINT/SIGTERM, at most one accept after the signal)",
           "SIGHUP (gids_update before the second accept after SIGHUP)",
           "progress (no more than 8 calls in a row without blocking in accept, work_wait or work_fini)"]
PROGRESS_BOUND = 8


# --------------------------------------------------------------------------- scripts
class Gen:
    """Scripts aligned with the call sequence of the unchanged job_accept (so that every answer lands on the call it
    is meant for there); signals are attached to arbitrary entries.  Not part of the trusted base: any script is a
    legitimate environment, whatever the acceptor does with it."""

    def __init__(self, rng):
        self.rng = rng

    def new(self, isigs=""):
        self.e = []
        self.term = any(c in isigs for c in "it")
        self.hup = "h" in isigs
        self.isigs = isigs
        self.last_errno = 0
        self.last_time = 0
        self.done = False
        self.svc = None                                  # signals for (log reconfig, gids_update) of the next SIGHUP service

    def put(self, ret, sigs=None, psig=0.0):
        """one answer; signals: given, or drawn with probability psig"""
        if sigs is None:
            sigs = ""
            if psig and self.rng.random() < psig:
                sigs = self.rng.choice(["t", "h", "i", "t", "h", "ht", "th", "hh", "ti"])
        self.e.append("%d%s" % (ret, "/" + sigs if sigs else ""))
        return sigs

    def note(self, sigs, after_clear=True):
        if any(c in sigs for c in "it"):
            self.term = True
        if "h" in sigs:
            self.hup = True

    def head(self, psig):
        """loop test + SIGHUP service; returns False when the loop exits here"""
        if self.done:
            return False
        if self.term:
            self.note(self.put(0, psig=psig))          # log exiting
            self.put(0, psig=psig)                      # work_fini
            self.done = True
            return False
        if self.hup:
            svc, self.svc = self.svc or (None, None), None
            s = self.put(0, sigs=svc[0], psig=psig)     # log reconfig (before got_reconfig = 0)
            self.note(s)
            self.hup = False                            # got_reconfig = 0 (a SIGHUP during the log call is overwritten)
            self.note(self.put(0, sigs=svc[1], psig=psig))   # gids_update
        return True

    def start(self, psig=0.0, init_ok=True):
        s = self.put(0 if init_ok else 1, psig=psig)
        if not init_ok:
            self.done = True
            return
        self.note(s)
        self.note(self.put(0, psig=psig))               # log created

    def conn(self, fail_at=None, psig=0.0, accept_sigs=None, stage_sigs=None):
        """accept returns a connection; fail_at in (None, 0 nonblock, 1 create, 2 bind, 3 queue)"""
        if not self.head(psig):
            return
        self.note(self.put(0, sigs=accept_sigs, psig=psig))
        for stage in range(4):
            bad = (fail_at == stage)
            self.note(self.put(9 if bad else 0, sigs=(stage_sigs or {}).get(stage), psig=psig))
            if bad:
                self.note(self.put(0, psig=psig))       # close / m_msg_destroy
                self.note(self.put(0, psig=psig))       # log warning
                return

    def err(self, code, t=None, psig=0.0, accept_sigs=None):
        if not self.head(psig):
            return
        self.note(self.put(code, sigs=accept_sigs, psig=psig))
        name = ERR[code] if 0 < code < len(ERR) else "EINVAL"
        if name in RETRY:
            return
        if name in SHORTAGE:
            if t is None:
                t = self.last_time + self.rng.choice([0, 1, 5, 59, 60, 61, 62, 100, 3600])
            self.note(self.put(t, psig=psig))           # time
            if t == -1:
                self.done = True
                return
            if t > self.last_time + LOG_LIMIT or code != self.last_errno:
                self.note(self.put(0, psig=psig))       # log
                self.last_errno, self.last_time = code, t
            self.note(self.put(0, psig=psig))           # work_wait
            return
        self.done = True                                 # log_errno: exit

    def tail(self):
        """a few more answers than the unchanged acceptor needs (a changed one may make more calls)"""
        self.e += ["0"] * 6

    def line(self):
        return "J %s %s" % (self.isigs or "-", " ".join(self.e))


def gen_scripts(ctx):
    rng = ctx.rng
    g = Gen(rng)
    out = []

    def emit():
        g.tail()
        out.append(g.line())

    # ---- aimed at the case splits of the proofs -------------------------------------------------
    for sig in ("t", "i", "h", "ht", "th"):
        # a signal while accept () returns a connection / at every later call of the same iteration
        g.new(); g.start(); g.conn(); g.conn(accept_sigs=sig); g.conn(); g.conn(); g.err(1, accept_sigs="t"); g.conn(); emit()
        g.new(); g.start(); g.conn(accept_sigs=sig); g.conn(); g.err(1, accept_sigs="i"); g.conn(); emit()
        for stage in range(4):
            g.new(); g.start(); g.conn(); g.conn(stage_sigs={stage: sig}); g.conn(); g.conn(); g.err(1, accept_sigs="t"); g.conn(); emit()
        # ... while a step towards queueing fails
        for fail_at in range(4):
            g.new(); g.start(); g.conn(fail_at=fail_at, accept_sigs=sig); g.conn(); g.err(1, accept_sigs="t"); g.conn(); emit()
    for fail_at in range(4):
        g.new(); g.start(); g.conn(); g.conn(fail_at=fail_at); g.conn(); g.err(1, accept_sigs="i"); g.conn(); emit()
    # descriptor shortage: every errno, repeated inside / outside the rate limiter's window, changing errno
    for code in (3, 4, 5, 6):
        for dt in (0, 1, 59, 60, 61, 200):
            for t0 in (0, 5, 61, 1000, 1 << 31, (1 << 40)):
                g.new(); g.start(); g.conn()
                g.err(code, t=t0); g.err(code, t=t0 + dt); g.err(code, t=t0 + dt + 1)
                g.conn(); g.err(1, accept_sigs="t"); g.conn(); emit()
        for code2 in (3, 4, 5, 6):
            g.new(); g.start(); g.err(code, t=100); g.err(code2, t=101); g.err(code, t=102); g.err(code, t=103)
            g.conn(accept_sigs="t"); g.conn(); emit()
        g.new(); g.start(); g.err(code, t=-1); emit()
        g.new(); g.start(); g.err(code, t=100); g.err(code, t=-1); emit()
        g.new(); g.start(); g.err(code, t=100, accept_sigs="t"); g.conn(); emit()
        g.new(); g.start(); g.err(code, t=100); g.err(code, t=110, accept_sigs="h"); g.err(code, t=111); g.conn(accept_sigs="i"); g.conn(); emit()
    for code in range(1, 14):
        g.new(); g.start(); g.conn(); g.err(code); g.conn(); g.err(1, accept_sigs="t"); g.conn(); emit()
        g.new(); g.start(); g.err(code, accept_sigs="t"); g.conn(); emit()
        g.new(); g.start(); g.err(code, accept_sigs="h"); g.conn(); g.conn(accept_sigs="t"); g.conn(); emit()
    # stop requests before the loop, SIGHUP at every call of its own service, nothing pending
    for isigs in ("t", "i", "h", "ht", "hh", "th"):
        g.new(isigs); g.start(); g.conn(); g.conn(accept_sigs="t"); g.conn(); emit()
    g.new(); g.start(init_ok=False); emit()
    for svc in (("h", ""), ("", "h"), ("h", "h"), ("t", ""), ("", "t"), ("ht", ""), ("", "hi")):
        g.new("h"); g.start(); g.svc = svc; g.conn(); g.conn(); g.conn(accept_sigs="t"); g.conn(); emit()
        g.new(); g.start(); g.conn(accept_sigs="h"); g.svc = svc; g.conn(); g.err(3, t=50); g.conn(accept_sigs="i"); g.conn(); emit()
    # ---- random, aligned ---------------------------------------------------------------------------
    n = 4000 if ctx.thorough else 700
    for _ in range(n):
        g.new(rng.choice(["", "", "", "", "h", "t", "i", "ht"]))
        psig = rng.choice([0.0, 0.0, 0.03, 0.08, 0.2])
        g.start(psig=psig, init_ok=rng.random() > 0.02)
        for _ in range(rng.randrange(1, 14)):
            if g.done:
                break
            r = rng.random()
            if r < 0.45:
                g.conn(fail_at=rng.choice([None] * 8 + [0, 1, 2, 3]), psig=psig)
            elif r < 0.6:
                g.err(rng.choice([1, 2]), psig=psig)
            elif r < 0.93:
                g.err(rng.choice([3, 3, 4, 5, 6]), t=(-1 if rng.random() < 0.02 else None), psig=psig)
            else:
                g.err(rng.choice([7, 8, 9, 10, 11, 12, 13, 40]), psig=psig)
        if not g.done and rng.random() < 0.7:
            g.err(1, accept_sigs=rng.choice(["t", "i"])); g.conn()
        emit()
    # ---- random, not aligned (any answer at any call) --------------------------------------------------
    for _ in range(1200 if ctx.thorough else 250):
        ent = []
        for _ in range(rng.randrange(0, 40)):
            r = rng.choice([0, 0, 0, 0, 0, 1, 2, 3, 3, 4, 5, 6, 9, 9, 100, 130, 161, 400, -1, 7, 12])
            s = rng.choice([""] * 12 + ["t", "h", "i", "hh", "ht"])
            ent.append("%d%s" % (r, "/" + s if s else ""))
        out.append("J %s %s" % (rng.choice(["-", "-", "-", "h", "t"]), " ".join(ent)))
    return out


# --------------------------------------------------------------------------- the clauses, on a call log
def parse_line(line):
    m = re.match(r"R out=(\w+) log=(\S+)(?: clauses=(\d+))?$", line.strip())
    if not m:
        return None
    evs = [] if m.group(2) == "-" else m.group(2).split(",")
    return m.group(1), evs, m.group(3)


def say(e):
    f = e.split(":")
    k = f[0]
    if k == "A":
        return "accept() = %s" % (f[1][1:] if f[1][0] == "c" else "-1 " + f[1][1:])
    if k == "T": return "time() = %s" % f[1]
    if k == "L": return "log_msg(%s: %s%s)" % (f[1], f[2], " " + f[3] if f[3] != "0" else "")
    if k == "W": return "work_wait()"
    if k == "Q": return "work_queue(request of %s) %s" % (f[1], "= 0" if f[2] == "ok" else "fails")
    if k == "C": return "close(%s)" % f[1]
    if k == "N": return "fd_set_nonblocking(%s) %s" % (f[1], "= 0" if f[2] == "ok" else "fails")
    if k == "M": return "m_msg_create() %s" % ("ok" if f[1] == "ok" else "fails")
    if k == "B": return "m_msg_bind(%s) %s" % (f[1], "ok" if f[2] == "ok" else "fails")
    if k == "D": return "m_msg_destroy(request of %s)" % f[1]
    if k == "G": return "gids_update()"
    if k == "X": return "log_errno(%s): exit" % f[1]
    if k == "F": return "work_fini(w, %s)" % f[1]
    if k == "S": return "[%s delivered]" % SIGNAME.get(f[1], f[1])
    if k == "I": return "work_init() %s" % f[1]
    return e


def story(evs, upto):
    lo = max(0, upto - 9)
    return ("... " if lo else "") + "; ".join(say(e) for e in evs[lo:upto + 1])


def job_property(evs, out):
    """The acceptor's clauses of C12 on a call log.  Returns a list of (clause index, explanation)."""
    bad = []
    ended = out in ("return", "fatal")
    # (A) hand-off
    st, cur, at = "idle", None, None

    def A(i, why):
        if not any(b[0] == 0 for b in bad):
            bad.append((0, "%s [%s]" % (why, story(evs, i))))
    for i, e in enumerate(evs):
        f = e.split(":")
        k = f[0]
        if k == "A":
            if st == "conn":
                A(i, "accept() is called again while the connection %s returned by accept() (call #%d) has neither been "
                     "handed to work_queue nor failed a step towards it" % (cur, at))
            if f[1][0] == "c":
                st, cur, at = "conn", f[1][1:], i
            else:
                st = "idle"
        elif k in ("N", "M", "B"):
            if st == "conn" and f[-1] != "ok":
                st = "failed"
        elif k == "Q":
            if st != "conn" or f[1] != cur:
                A(i, "work_queue is called for descriptor %s which is not a connection just accepted and not yet queued "
                     "(a request handed over twice, or never accepted)" % f[1])
            else:
                st = "queued" if f[2] == "ok" else "failed"
        elif k in ("C", "D"):
            if st in ("conn", "queued") and f[1] == cur:
                A(i, "the acceptor closes the connection %s that accept() returned (call #%d) %s" % (
                    cur, at, "without handing it to work_queue: that client gets no reply" if st == "conn"
                    else "after handing it to a worker"))
        elif k in ("F", "X"):
            if st == "conn":
                A(i, "the acceptor leaves the loop with the connection %s returned by accept() (call #%d) neither queued nor failed" % (cur, at))
    if st == "conn" and ended:
        A(len(evs) - 1, "job_accept ends with the connection %s returned by accept() neither queued nor failed" % cur)
    # (B) backlog
    b, at = "ok", None

    def B(i, why):
        if not any(x[0] == 1 for x in bad):
            bad.append((1, "%s [%s]" % (why, story(evs, i))))
    for i, e in enumerate(evs):
        f = e.split(":")
        k = f[0]
        if k == "A":
            if b == "need":
                B(i, "accept() failed with %s (call #%d) and accept() is called again without work_wait in between: the "
                     "acceptor spins instead of waiting for the backlog" % (err, at))
            if f[1][0] == "e":
                err, at = f[1][1:], i
                b = "need" if err in SHORTAGE else "retry" if err in RETRY else "ok"
            else:
                b = "ok"
        elif k == "W":
            if b == "need":
                b = "waited"
        elif k == "X":
            if b in ("retry", "waited") or (b == "need" and f[1] != "time"):
                B(i, "the daemon exits (log_errno) after accept() failed with the transient error %s (call #%d)" % (err, at))
    if out == "hang":
        B(len(evs) - 1, "the accept loop goes round without blocking in any call (busy loop)")
    # (D) stop
    d, nacc = "0", 0

    def D(i, why):
        if not any(x[0] == 2 for x in bad):
            bad.append((2, "%s [%s]" % (why, story(evs, i))))
    for i, e in enumerate(evs):
        f = e.split(":")
        k = f[0]
        if k == "S":
            if f[1] in ("2", "15") and d == "0":
                d, at = "1", i
        elif d == "F":
            D(i, "a call is made after work_fini")
        elif k == "A":
            if d == "1":
                nacc += 1
                if nacc > 1:
                    D(i, "accept() is called a second time after %s was delivered (event #%d): the stop request is not honoured" % ("SIGINT/SIGTERM", at))
        elif k == "F":
            if d == "0":
                D(i, "work_fini is called although neither SIGINT nor SIGTERM was delivered")
            elif f[1] != "1":
                D(i, "work_fini (w, 0): the queue is not drained on a graceful stop")
            d = "F"
    if out == "return" and d != "F":
        D(len(evs) - 1, "job_accept returns without calling work_fini")
    if out != "return" and d == "F":
        D(len(evs) - 1, "job_accept does not return after work_fini (%s)" % out)
    # (E) SIGHUP
    p = None
    for i, e in enumerate(evs):
        k = e.split(":")[0]
        if e == "S:1":
            if p is None:
                p, at = 0, i
        elif k == "G":
            p = None
        elif k == "A" and p is not None:
            p += 1
            if p > 1:
                if not any(x[0] == 3 for x in bad):
                    bad.append((3, "SIGHUP was delivered (event #%d) and accept() is called for the second time since without "
                                   "gids_update in between [%s]" % (at, story(evs, i))))
    # (P) progress
    n = 0
    for i, e in enumerate(evs):
        k = e.split(":")[0]
        if k == "S":
            continue
        if k in ("A", "W", "F"):
            n = 0
        elif n >= PROGRESS_BOUND:
            bad.append((4, "the acceptor makes %d calls in a row without blocking in accept(), work_wait() or work_fini(): it keeps "
                           "busy instead of accepting [%s]" % (n + 1, story(evs, i))))
            break
        else:
            n += 1
    return bad


# --------------------------------------------------------------------------- running
def run_impl(ctx, exe, scripts):
    """Runs the scripts; a crash (sanitizer abort, signal) ends the process: reported for that script, the rest is run
    in a new process."""
    out, stderr_all = [], ""
    todo = list(scripts)
    env = {"ASAN_OPTIONS": "detect_leaks=0:abort_on_error=0:exitcode=99", "UBSAN_OPTIONS": "print_stacktrace=1"}
    crashes = hangs = 0
    while todo:
        rc, lines, err = vlib.run_lines([exe, "5"], todo, timeout=600, env=env)
        lines = [l for l in lines if l.startswith("R ") or l.startswith("? ")]
        out += lines
        if len(lines) >= len(todo):
            break
        if rc == 3 and lines and " out=hang " in lines[-1]:     # busy loop: reported, the harness exited
            todo = todo[len(lines):]
            hangs += 1
            if hangs >= 2:
                out += ["R out=notrun log=-"] * len(todo)
                break
            continue
        k = err.find("ERROR:")
        stderr_all += (err[max(k - 20, 0):][:3000] if k >= 0 else err[-1500:]) + "\n"
        out.append("R out=crash log=-")
        todo = todo[len(lines) + 1:]
        crashes += 1
        if crashes >= 20:
            out += ["R out=notrun log=-"] * len(todo)
            break
    return out, stderr_all


def run(ctx, proved, replay=None):
    """Returns True when a violation with a concrete failing input was reported."""
    src = [os.path.join(vlib.HARNESS, "job_harness.c"), os.path.join(vlib.REPO, "src/munged/job.c")]
    exe, err = vlib.cc(ctx, "jobh", src, extra=["-Wl,--wrap=" + w for w in WRAPS])
    if exe is None:
        ctx.violation("job harness does not build against /repo's job.c: " + err[-600:],
                      {"obligation": "correspondence C12 acceptor (build)", "stderr": err}, found_input=False)
        return False
    oracle = vlib.build_oracle(ctx, "job")
    scripts = [replay["job_script"]] if replay else gen_scripts(ctx)
    t0 = time.time()
    impl, stderr = run_impl(ctx, exe, scripts)
    ctx.log("acceptor: job.c ran %d scripts in %.1fs" % (len(scripts), time.time() - t0))
    mod = chk = None
    if oracle:
        rc, mod, e2 = vlib.run_lines([oracle, "src"], scripts, timeout=900, env={"OCAMLRUNPARAM": "l=8G"})
        if rc != 0 or len(mod) != len(scripts):
            ctx.violation("job oracle failed to run: rc=%d %s" % (rc, e2[-300:]), {"obligation": "oracle run (job)"}, found_input=False)
            mod = None
    else:
        ctx.violation("the extracted oracle of the acceptor model does not build", {"obligation": "oracle build (job)",
                      "log": ctx.notes[-1] if ctx.notes else ""}, found_input=False)
    failures, corr, nsig, nconn, nshort = {}, [], 0, 0, 0
    parsed = []
    for i, sc in enumerate(scripts):
        ctx.count(("job", sc))
        line = impl[i] if i < len(impl) else "R out=notrun log=-"
        pr = parse_line(line)
        parsed.append(pr)
        if pr is None:
            corr.append((sc, "harness answer cannot be parsed: %r" % line[:200], line)); continue
        out, evs, _ = pr
        if out == "notrun":
            continue
        if out == "crash":
            failures.setdefault("crash", []).append((sc, line, "job_accept crashes or aborts under ASan/UBSan (use after free of a "
                                                     "queued request, bad descriptor, ...): " + stderr[:1200]))
            continue
        nsig += sum(1 for e in evs if e.startswith("S:"))
        nconn += sum(1 for e in evs if e.startswith("A:c"))
        nshort += sum(1 for e in evs if e.startswith("A:e") and e[3:] in SHORTAGE)
        for cl, why in job_property(evs, out):
            failures.setdefault(cl, []).append((sc, line, why))
        if mod is not None:
            pm = parse_line(mod[i])
            if pm is None:
                corr.append((sc, "oracle answer cannot be parsed: %r" % mod[i][:200], line)); continue
            mout = {"spin": "hang"}.get(pm[0], pm[0])
            if (mout, pm[1]) != (out, evs):
                k = next((j for j in range(min(len(evs), len(pm[1]))) if evs[j] != pm[1][j]), min(len(evs), len(pm[1])))
                corr.append((sc, "call %d: job.c %s / model of the translated source %s (ends: %s / %s)" % (
                    k, say(evs[k]) if k < len(evs) else "-", say(pm[1][k]) if k < len(pm[1]) else "-", out, mout), line))
    # the Coq monitors (the predicates of the theorems) on the implementation's logs must agree with the ones above
    if oracle:
        idx = [i for i, pr in enumerate(parsed) if pr and pr[0] in ("return", "fatal", "stuck", "hang")]
        rc, chk, e3 = vlib.run_lines([oracle, "check"], ["C %s %s" % (parsed[i][0], ",".join(parsed[i][1]) or "-") for i in idx], timeout=900)
        if rc != 0 or len(chk) != len(idx):
            ctx.violation("job oracle (check mode) failed to run: rc=%d %s" % (rc, e3[-300:]), {"obligation": "oracle run (job)"}, found_input=False)
        else:
            ndis = 0
            for i, c in zip(idx, chk):
                m = re.match(r"C clauses=([01]{5})$", c)
                mine = set(cl for cl, _ in job_property(parsed[i][1], parsed[i][0]))
                coq = set(k for k in range(5) if m and m.group(1)[k] == "0")
                if not m or mine != coq:
                    ndis += 1
                    if ndis == 1:
                        first = (scripts[i], c, sorted(mine), impl[i])
                    for k in coq - mine:      # the stated clause fails on the implementation's log
                        failures.setdefault(k, []).append((scripts[i], impl[i], "the monitor of Properties_C12_job.v rejects the call log"))
            ctx.cov["job_coq_monitor_agreement"] = {"logs": len(idx), "disagreements": ndis}
            if ndis:
                ctx.notes.append("monitor disagreement (python vs Coq) first: %r" % (first,))
                if not failures:
                    ctx.violation("the clause monitors of tools/props/c12_job.py and JobModel.clauses disagree on %d call logs (first: %s)"
                                  % (ndis, first[0][:200]), {"obligation": "monitor agreement", "first": first}, found_input=False)
    # the proofs are about job_ref; when the translated source is another program, show where the two behave differently
    if oracle and mod is not None and not proved:
        rc, refo, _ = vlib.run_lines([oracle, "ref"], scripts, timeout=900, env={"OCAMLRUNPARAM": "l=8G"})
        if rc == 0 and len(refo) == len(scripts):
            dif = sorted((i for i in range(len(scripts)) if refo[i].split(" clauses=")[0] != mod[i].split(" clauses=")[0]),
                         key=lambda i: len(scripts[i]))
            if dif:
                i = dif[0]
                ctx.job_model_diff = {"script": scripts[i], "translated_source": mod[i][:1500], "verified_program": refo[i][:1500],
                                      "scripts_differing": len(dif)}
    ctx.cov["job"] = {"scripts": len(scripts), "signals_delivered": nsig, "connections_accepted": nconn, "shortage_failures": nshort,
                      "correspondence_mismatches": len(corr), "source_translated": getattr(ctx, "broken_obligation", "") != "gen_facts"}
    for s in scripts[:2] + scripts[200:202]:
        ctx.sample(s)
    if mod is not None and not replay:
        crosscheck(ctx, scripts, mod, proved)
    ctx.log("acceptor: %d scripts (%d signals, %d connections, %d shortages); %d clause failures, %d model/implementation differences"
            % (len(scripts), nsig, nconn, nshort, sum(len(v) for v in failures.values()), len(corr)))
    found = False
    for cl, fls in list(failures.items())[:5]:
        fls.sort(key=lambda f: (sum(1 for t in f[0].split()[2:] if t != "0"), len(f[0])))
        sc, line, why = fls[0]
        what = ("job.c, job_accept: %s.  Clause: %s.  Script `%s` (%d failing scripts)" % (
            why, CLAUSES[cl] if cl != "crash" else "memory safety of the hand-off", sc, len(fls)))
        ctx.violation(what, {"job_script": sc, "impl_output": line[:3000], "why": why, "n_failing": len(fls),
                             "clause": CLAUSES[cl] if cl != "crash" else "crash",
                             "more": [(f[0], f[2][:300]) for f in fls[1:5]],
                             "script_format": "J <signals before the call> then one <ret>[/<signals>] per call of job_accept "
                                              "(accept: 0 = connection, n = errno #n of %s; time: value; others: 0 = ok)" % ERR})
        found = True
    if not found and corr:
        sc, what, line = corr[0]
        ctx.violation("job.c's job_accept and the model of its translated source make different calls on %d scripts (first: `%s`: %s); "
                      "the clauses evaluated on the implementation hold on all %d scripts" % (len(corr), sc, what[:400], len(scripts)),
                      {"obligation": "correspondence JobModel ~ job.c (call log)", "job_script": sc, "what": what, "impl_output": line[:3000]},
                      found_input=False)
    return found


def crosscheck(ctx, scripts, mod, proved):
    """A sample of the oracle's answers recomputed inside Coq with vm_compute (extraction cross-check)."""
    samp = [i for i in range(0, len(scripts), max(1, len(scripts) // 10)) if len(scripts[i]) < 600][:10]
    exprs = []
    for i in samp:
        f = scripts[i].split()
        sg = lambda s: "[" + "; ".join({"h": "SIGHUP", "i": "SIGINT", "t": "SIGTERM"}[c] for c in s if c in "hit") + "]"
        ans = "; ".join("mka (%s) %s" % (e.split("/")[0], sg(e.split("/")[1] if "/" in e else "")) for e in f[2:])
        exprs.append("let r := run src_job %s [%s] no_reads in (fst r, length (snd r), clauses (snd r) (fst r))"
                     % (sg("" if f[1] == "-" else f[1]), ans))
    res, err = vlib.coq_eval_sample(ctx, "From Coq Require Import List ZArith.\nFrom MV Require Import JobModel GenJob.\n"
                                         "Import ListNotations.\nLocal Open Scope Z_scope.", exprs)
    if res is None or len(res) != len(samp):
        ctx.notes.append("job extraction cross-check could not run: %s" % (err or "")[-300:])
        return
    bad = 0
    for i, r in zip(samp, res):
        pm = parse_line(mod[i])
        k = {"return": "KReturn", "fatal": "KFatal", "stuck": "KStuck", "spin": "KSpin"}.get(pm[0], "?")
        bits = "".join("1" if b == "true" else "0" for b in re.findall(r"\b(true|false)\b", r))
        n = re.search(r"(\d+)%nat", r)
        if not r.strip().startswith("(" + k) or bits != pm[2] or not n or int(n.group(1)) != len(pm[1]):
            if not (pm[0] == "return" and r.strip().startswith("(KNormal")):
                bad += 1
    ctx.cov["job_extraction_crosscheck"] = {"cases": len(samp), "disagreements": bad}
    if bad:
        ctx.violation("extracted job oracle disagrees with vm_compute on %d sample scripts" % bad,
                      {"obligation": "extraction cross-check (job)"}, found_input=False)
