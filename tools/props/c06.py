"""C06 — credentials are valid exactly inside their time window; TTLs are bounded."""
import os
import vlib, rig, credcorr

MANIFEST = dict(
    level=("proof", "Coq theorems over CredModel.dec_time / enc_validate: for all 32-bit (encode time, TTL, decode "
           "time), every --max-ttl and both clock-skew settings the decision equals the property's inequality, TTL "
           "resolution on encode, cap on decode; tied to the code by running the live daemon (rebuilt from /repo, "
           "virtual clock) and the extracted model on every window end-point +-1, the TTL set, several --max-ttl "
           "values, the uint32 edges, and cross-daemon decode.", "7 C06"),
    note="Trusted: Coq kernel, extraction, rig (wire client, --wrap=time clock). Clock source of the real daemon is "
         "time(2); the virtual clock replaces it at link time.",
    technique="Coq proof (lia over N/Z) + live differential correspondence under a virtual clock")

E_OK, E_EXPIRED, E_REWOUND, E_REPLAYED = 0, 15, 16, 17
M32 = 1 << 32


def expected(time0, ttl_cred, max_ttl, t):
    """the property's inequality, evaluated in unbounded integers"""
    ttl = min(ttl_cred, max_ttl)
    skew = ttl
    if t < time0 - skew:
        return E_REWOUND, ttl
    if t > time0 + ttl:
        return E_EXPIRED, ttl
    return E_OK, ttl


def resolve_ttl(req_ttl, def_ttl, max_ttl):
    if req_ttl == 0:
        return def_ttl
    return min(req_ttl, max_ttl)


def queued_across_tmin(ctx, fails, dist):
    """the clock that counts is the daemon's clock WHEN IT DECODES: a request that arrives before the window opens (it would be
    'rewound'), waits in the work queue behind a stalled client while the clock moves into the window, succeeds - and reports
    that decode time.  One worker thread held for the I/O timeout; virtual clock moved while the request waits."""
    import rig, socket, struct, time
    exe, err = rig.build_daemon(ctx, name="munged-c06q", san="address")
    if exe is None:
        ctx.violation("munged does not build: " + err[-300:], {"obligation": "build"}, found_input=False)
        return
    T = 1500000000
    for ahead, qttl in ((10, 5), (8, 3)):
        d = rig.Daemon(ctx, exe, tag="c06q", nthreads=1, clock=T + ahead)
        if not d.start():
            ctx.violation("daemon does not start (queue phase)", {"obligation": "start"}, found_input=False)
            return
        try:
            r, st = rig.encode(d.sock, uid=3, gid=4, ttl=qttl, data=b"queued before the window")    # encode time T+ahead
            d.set_clock(T)                                                          # window opens at T+ahead-ttl (skew = ttl by default)
            early, st = rig.decode(d.sock, r["data"], uid=5, gid=6)
            stall = socket.socket(socket.AF_UNIX, socket.SOCK_STREAM)
            stall.connect(d.sock)
            stall.sendall(rig.MAGIC_BYTES + b"\x04")          # a partial header: holds the only worker for the I/O timeout
            time.sleep(0.15)
            body = rig.dec_req_body(r["data"])
            q = socket.socket(socket.AF_UNIX, socket.SOCK_STREAM)
            q.connect(d.sock)
            q.sendall(rig.hdr(rig.T_DEC_REQ, 0, len(body)) + body)   # arrives at T: before the window
            time.sleep(0.25)
            d.set_clock(T + ahead + 2)                               # ... and is decoded inside it
            q.settimeout(8)
            rep = b""
            try:
                while len(rep) < 11 or len(rep) < 11 + struct.unpack(">I", rep[7:11])[0]:
                    c = q.recv(65536)
                    if not c:
                        break
                    rep += c
            except OSError:
                pass
            q.close(); stall.close()
            ans = None
            if len(rep) > 11:
                try:
                    ans = rig.parse_dec_rsp(rep[11:])
                except rig.ParseError:
                    ans = None
            ctx.count(("queued-across-tmin", ahead))
            dist["queued-across-tmin"] = dist.get("queued-across-tmin", 0) + 1
            if early is None or early["error_num"] != 16:
                fails.append({"why": "queue phase: a credential encoded at T+%d decoded at T gives %s, expected 16 (rewound)" % (ahead, early and early["error_num"])})
            elif ans is None:
                fails.append({"why": "a decode request that waited in the work queue got no reply"})
            elif ans["error_num"] != 0 or ans["time1"] != T + ahead + 2:
                fails.append({"why": "a decode request arrived at t=T (before the window of a credential encoded at T+%d opens), waited in the work queue "
                                     "and was DECODED at t=T+%d, inside the window: the daemon answers error %d with decode time T%+d; the property "
                                     "judges by the daemon's clock at the decode: success, decode time T+%d"
                                     % (ahead, ahead + 2, ans["error_num"], ans["time1"] - T, ahead + 2), "cred_hex": r["data"].hex()})
        finally:
            rc, rep_ = d.stop()
        if rep_.strip():
            ctx.violation("sanitizer report from the daemon during the C06 queue phase", {"report": rep_[:3000]}, found_input=False)


def run(ctx):
    ctx.level = "proof"
    proved = vlib.prove(ctx, ["Properties_C06.v"], facts=["cred", "base64", "cfun"])
    ctx.log("proofs:", "ok" if proved else "BROKEN: " + getattr(ctx, "broken_obligation", "?"))
    ctx.cov["rule"] = ("cases = (--max-ttl) x (requested TTL in {0,1,max-1,max,max+1,2^31,2^32-1,...}) x (encode time incl. "
                       "uint32 edges) x (decode time at every window end-point -1/0/+1 and random inside/outside); each case "
                       "mints a fresh credential on the live daemon under the virtual clock, decodes it there and in the "
                       "extracted model, compares all reply fields, and evaluates the property's inequality in Python "
                       "integers; plus decode on a second daemon with a smaller --max-ttl. non-trivial = distinct (max_ttl, "
                       "ttl, time0, t1)")
    try:
        exe, orc = credcorr.build_all(ctx)
    except RuntimeError as e:
        ctx.violation(str(e), {"obligation": "build"}, found_input=False)
        return
    rng = ctx.rng
    fails = []       # property violated on the implementation
    mism = []        # model != implementation
    max_ttls = [3600, 60, 1] + ([2, 299, 300, 301, 1800] if ctx.thorough else [300])
    key = bytes(rng.getrandbits(8) for _ in range(48))
    dist = {"boundary": 0, "random": 0, "edge": 0, "cross": 0, "realm": 0, "carried": 0}

    def one(cr, max_ttl, req_ttl, time0, t1, kind, realm=b"", retry=0):
        if not (1 <= time0 < M32 and 1 <= t1 < M32):
            return
        cr.set_clock(time0)
        r, diff = cr.encode_both(ttl=req_ttl, data=b"w", realm=realm)
        if diff:
            mism.append(cr.mismatches[-1])
        if r is None or r["error_num"] != 0:
            fails.append({"why": "encode failed", "max_ttl": max_ttl, "ttl": req_ttl, "time0": time0, "reply": r})
            return
        cttl = resolve_ttl(req_ttl, 300, max_ttl)
        # the TTL written INTO the credential (independent parse): 0 -> default, anything above the maximum clamped
        p = cr.o.parse(r["data"])
        if p is None or p["msg"]["ttl"] != cttl:
            fails.append({"why": "encode with requested ttl=%d under --max-ttl=%d put ttl=%s into the credential, the property says %d"
                                 % (req_ttl, max_ttl, p and p["msg"]["ttl"], cttl), "max_ttl": max_ttl, "req_ttl": req_ttl,
                          "cred_hex": r["data"].hex()})
            return
        cr.set_clock(t1)
        d, m, diff = cr.decode_both(r["data"], retry=retry)
        ctx.count((max_ttl, req_ttl, time0, t1, retry))
        dist[kind] += 1
        if diff:
            mism.append(cr.mismatches[-1])
        if d is None:
            fails.append({"why": "no reply", "max_ttl": max_ttl, "ttl": req_ttl, "time0": time0, "t1": t1})
            return
        want, wttl = expected(time0, cttl, max_ttl, t1)
        if d["error_num"] != want or d["ttl"] != wttl or (d["data"] != b"w") or d["time0"] != time0 or d["time1"] != t1:
            fails.append({"why": "decode%s at t1=%d of a credential encoded at time0=%d with ttl=%d under --max-ttl=%d: "
                                 "daemon says error %d (%s) ttl=%d decode time %d, property says error %d ttl=%d decode time %d"
                                 % ((" (request header flagged retry=%d)" % retry) if retry else "", t1, time0, cttl, max_ttl, d["error_num"],
                                    d["error_str"], d["ttl"], d["time1"], want, wttl, t1), "retry": retry,
                          "max_ttl": max_ttl, "req_ttl": req_ttl, "time0": time0, "t1": t1,
                          "finding_key": ("F-C06-wrap-low" if time0 < cttl else "F-C06-wrap-high" if time0 + cttl >= M32 else None)})
        if want in (15, 16):
            # the verdict on a credential outside its window depends on (encode time, ttl, t) only: asking again gives the
            # same answer (an out-of-window attempt leaves no trace), and a later in-window attempt is the FIRST decode
            d2, m2, diff2 = cr.decode_both(r["data"])
            if diff2:
                mism.append(cr.mismatches[-1])
            if d2 is None or d2["error_num"] != want:
                fails.append({"why": "decode at t1=%d of a credential encoded at time0=%d with ttl=%d under --max-ttl=%d: "
                                     "daemon says error %s when asked a second time at the same t, property says error %d again"
                                     % (t1, time0, cttl, max_ttl, d2 and d2["error_num"], want),
                              "max_ttl": max_ttl, "req_ttl": req_ttl, "time0": time0, "t1": t1, "second": True})
            if time0 < M32 - 4000 and time0 > 4000:
                cr.set_clock(time0)
                d3, m3, diff3 = cr.decode_both(r["data"])
                if diff3:
                    mism.append(cr.mismatches[-1])
                if d3 is None or d3["error_num"] != 0:
                    fails.append({"why": "decode at t1=%d of a credential encoded at time0=%d with ttl=%d under --max-ttl=%d: after being "
                                         "refused outside its window at t=%d the credential gives error %s inside it, property says error 0"
                                         % (time0, time0, cttl, max_ttl, t1, d3 and d3["error_num"]),
                                  "max_ttl": max_ttl, "req_ttl": req_ttl, "time0": time0, "t1": t1, "third": True})
        if len(ctx.cov["samples"]) < 8 and kind != "random":
            ctx.sample({"max_ttl": max_ttl, "req_ttl": req_ttl, "time0": time0, "t1": t1, "daemon_error": d["error_num"],
                        "expected": want})

    for mt in max_ttls:
        cr = credcorr.CredRig(ctx, exe, orc, key=key, max_ttl=mt, tag="c06")
        if not cr.ok:
            ctx.violation("daemon does not start with --max-ttl=%d" % mt, {"obligation": "start"}, found_input=False)
            return
        ttls = sorted(set([0, 1, max(mt - 1, 1), mt, mt + 1, 2 ** 31, 2 ** 32 - 1, 300]))
        time0s = [1500000000, 2 ** 31 - 5, 2 ** 31 + 7] + ([rng.randrange(10 ** 6, 2 ** 32 - 10 ** 6) for _ in range(4)] if ctx.thorough else [])
        for req_ttl in ttls:
            cttl = resolve_ttl(req_ttl, 300, mt)
            for time0 in time0s:
                tmin, tmax = time0 - cttl, time0 + cttl
                for t1 in sorted(set([tmin - 1, tmin, tmin + 1, time0 - 1, time0, time0 + 1, tmax - 1, tmax, tmax + 1])):
                    one(cr, mt, req_ttl, time0, t1, "boundary")
                # the window is the same whatever the request HEADER says: a first presentation flagged as a transport retry
                if time0 == time0s[0]:
                    for t1, rt in ((tmin - 1, 5), (tmin, 5), (tmin + 1, 2), (tmax, 1), (tmax + 1, 1), (tmax + 2, 3), (tmax + 9, 5), (tmax + 10, 5)):
                        one(cr, mt, req_ttl, time0, t1, "boundary", retry=rt)
                for _ in range(6 if ctx.thorough else 2):
                    one(cr, mt, req_ttl, time0, time0 + rng.randrange(-3 * cttl - 2, 3 * cttl + 3), "random")
        # the same whatever else the request carries: a realm, restrictions (nothing but the TTL word decides the TTL)
        dist["realm"] = dist.get("realm", 0)
        for req_ttl in ttls:
            cttl = resolve_ttl(req_ttl, 300, mt)
            for t1 in (1500000000, 1500000000 + cttl, 1500000000 + cttl + 1):
                one(cr, mt, req_ttl, 1500000000, t1, "realm", realm=b"some-realm\0")
        # credentials that CARRY an unusual TTL word (minted by a peer holding the key, here the spec-side builder): 0, 1, above
        # this daemon's maximum, 2^31, 2^32-1: the window is encode_time -/+ min(ttl, max), nothing else
        dist["carried"] = dist.get("carried", 0)
        for cttl_carried in (0, 1, mt, mt + 1, 301, 2 ** 31, 2 ** 32 - 1):
            time0 = 1500000000
            cred = cr.o.build(0, 5, 0, b"", bytes(rng.getrandbits(8) for _ in range(8)), b"\x7f\0\0\1", time0, cttl_carried, 11, 12,
                              0xFFFFFFFF, 0xFFFFFFFF, b"w", b"")
            if cred is None:
                continue
            eff = min(cttl_carried, mt)
            for t1 in sorted(set([time0 - eff - 1, time0 - eff, time0 - 1, time0, time0 + 1, time0 + eff, time0 + eff + 1, time0 + 100, time0 - 100,
                                  time0 + 250, time0 - 250])):
                cr.set_clock(t1)
                d, m, diff = cr.decode_both(cred + b"\0")
                ctx.count(("carried", mt, cttl_carried, t1))
                dist["carried"] += 1
                if diff:
                    mism.append(cr.mismatches[-1])
                want, wttl = expected(time0, cttl_carried, mt, t1)
                if d is None or d["error_num"] not in (want, 17) or (d["error_num"] == 17 and want != 0) or d["ttl"] != wttl:
                    fails.append({"why": "decode at t1=%d of a credential encoded at time0=%d with ttl=%d under --max-ttl=%d: "
                                         "daemon says error %s ttl=%s, property says error %d ttl=%d (credential carrying that TTL word, "
                                         "minted by a peer with the same key)"
                                         % (t1, time0, cttl_carried, mt, d and d["error_num"], d and d["ttl"], want, wttl),
                                  "max_ttl": mt, "carried_ttl": cttl_carried, "time0": time0, "t1": t1, "cred_hex": cred.hex()})
        # the edges of the 32-bit clock
        for req_ttl in (300, mt, 1):
            cttl = resolve_ttl(req_ttl, 300, mt)
            for time0 in (1, 2, 100, cttl - 1 if cttl > 1 else 1, cttl, cttl + 1, M32 - 200, M32 - cttl - 1, M32 - cttl, M32 - 2):
                for t1 in sorted(set([1, time0 - 1, time0, time0 + 1, time0 + cttl, time0 + cttl + 1, M32 - 1])):
                    one(cr, mt, req_ttl, time0, t1, "edge")
        rc, rep = cr.stop()
        if rep.strip():
            ctx.violation("sanitizer report from the daemon during C06 cases", {"report": rep[:3000]}, found_input=False)
    # decode on a daemon with a smaller --max-ttl than the encoder's (same key)
    big = credcorr.CredRig(ctx, exe, orc, key=key, max_ttl=3600, tag="c06big")
    small = credcorr.CredRig(ctx, exe, orc, key=key, max_ttl=60, tag="c06small")
    if big.ok and small.ok:
        for req_ttl in (3600, 600, 61, 60, 59):
            for dt in (-61, -60, -59, 0, 59, 60, 61, 599, 600, 601):
                time0 = 1600000000
                big.set_clock(time0)
                r, diff = big.encode_both(ttl=req_ttl, data=b"x")
                if r is None or r["error_num"] != 0:
                    continue
                small.set_clock(time0 + dt)
                d, m, diff = small.decode_both(r["data"])
                ctx.count(("cross", req_ttl, dt))
                dist["cross"] += 1
                if diff:
                    mism.append(small.mismatches[-1])
                want, wttl = expected(time0, min(req_ttl, 3600), 60, time0 + dt)
                if d is None or d["error_num"] != want or d["ttl"] != wttl:
                    fails.append({"why": "cross-daemon decode (decoder --max-ttl=60) of ttl=%d at dt=%d: daemon error %s, "
                                         "property says %d" % (req_ttl, dt, d and d["error_num"], want),
                                  "req_ttl": req_ttl, "dt": dt})
    big.stop()
    small.stop()
    # t is the daemon's clock when the credential is DECODED: a request that waits in the work queue while the credential
    # expires is judged expired (scenario shared with C07)
    from props import c07 as _c07
    qf = []
    _c07.queued_across_expiry(ctx, orc, qf, dist)
    for f in qf:
        fails.append({"why": "decode time is not the daemon's clock at decode time: " + f["why"], "queued": True})
    if not ctx.replay:
        queued_across_tmin(ctx, fails, dist)
    ctx.cov["input_distribution"] = dist
    ctx.cov["traces_validated_against_impl"] = ctx.cov["evaluations"]
    # verdict
    seen = set()
    for f in fails:
        k = f.get("finding_key") or f["why"].split(": daemon says")[-1][:40]
        if k in seen:
            continue
        seen.add(k)
        ctx.violation(f["why"], f, found_input=True)
    if not fails and mism:
        ctx.violation("model and daemon disagree on %d cases (first: %s); the property evaluated directly holds on all cases"
                      % (len(mism), mism[0]["diff"]), {"obligation": "correspondence CredModel ~ munged (C06)", "first": mism[0]},
                      found_input=False)
    if not fails and not mism and not proved:
        ctx.violation("proof obligation no longer checks: %s" % getattr(ctx, "broken_obligation", "?"),
                      {"obligation": getattr(ctx, "broken_obligation", "?"), "log": ctx.proof_log[-3000:]}, found_input=False)
