"""C02 — any altered or foreign-key credential is rejected and discloses nothing."""
import struct, time, os
import base64, os
import vlib, rig, credcorr, pyref, hostile

MANIFEST = dict(
    level=("proof", "Coq theorems (a reduction, no cryptographic assumption): (1) every non-hard reply of dec_process comes "
           "from a string whose tag IS the HMAC under the MAC subkey of its own outer header and decrypted interior; (2) every "
           "other reply is the reset message and leaves the replay state alone; (3) the body is an injective function of "
           "(outer, tag, authenticated interior) — so accepting a body nobody emitted exhibits a valid MAC on a triple the key "
           "holder never MAC'd (an HMAC forgery). Tied to the code by an exhaustive byte-level edit enumerator on live "
           "credentials (every bit flip, every truncation length, extensions, block swaps, cross-credential splices at every "
           "field boundary, header rewrites, re-armoring) and credentials minted under keys differing in one byte, every reply "
           "compared with the extracted model and checked directly.", "7 C02"),
    note="Partial in the sense of DESIGN 5: HMAC/SHA-1 strength is outside Coq; stated as a reduction. Trusted: Coq kernel, "
         "extraction, rig.",
    technique="Coq proof (reduction to MAC forgery; injectivity via CBC/PKCS#5 inverse) + exhaustive live edit enumeration")

ANY = 0xFFFFFFFF
SOFT = (15, 16, 17)


def disclosed(d):
    bad = []
    for k, v in dict(cipher=0, mac=0, zip=0, realm_len=0, ttl=0, addr_len=0, time0=0, time1=0, cred_uid=ANY, cred_gid=ANY,
                     auth_uid=ANY, auth_gid=ANY, data_len=0, data=b"").items():
        if d[k] != v:
            bad.append(k)
    return bad


def run(ctx):
    ctx.level = "proof"
    proved = vlib.prove(ctx, ["Properties_C02.v"], facts=["cred", "base64"])
    ctx.log("proofs:", "ok" if proved else "BROKEN: " + getattr(ctx, "broken_obligation", "?"))
    ctx.cov["rule"] = ("for each base credential minted by the live daemon (cipher x MAC x zip sample): every single-bit flip of the "
                       "decoded body (quick: all bits of the header/IV/tag + a sample of the interior), truncation at every "
                       "length, 1..33-byte extensions, block swaps/duplications, all pairwise splices at field boundaries, header "
                       "rewrites, whitespace re-armoring (identity edit: must still be accepted); credentials minted under keys "
                       "that differ in one byte/bit/length. Each edited string is decoded by daemon and model; it must be refused "
                       "with a hard error and a reset reply. non-trivial = distinct edited body")
    try:
        exe, orc = credcorr.build_all(ctx)
    except RuntimeError as e:
        ctx.violation(str(e), {"obligation": "build"}, found_input=False)
        return
    rng = ctx.rng
    key = bytes(rng.getrandbits(8) for _ in range(64))
    cr = credcorr.CredRig(ctx, exe, orc, key=key, tag="c02")
    if not cr.ok:
        ctx.violation("daemon does not start", {"obligation": "start"}, found_input=False)
        return
    fails, mism = [], []
    dist = {}
    combos = [(4, 5, 0), (2, 3, 3), (5, 6, 2), (0, 5, 0), (3, 2, 0), (0, 3, 3)] + \
             ([(c, m, z) for c in (0, 2, 3, 4, 5) for m in (2, 4, 6) for z in (0, 2) if not (c == 5 and m in (2, 4))] if ctx.thorough else [])
    bases = []
    for (c, m, z) in combos:
        r, diff = cr.encode_both(uid=1234, gid=5678, cipher=c, mac=m, zip_=z, data=b"authentic payload -- do not alter " * 3)
        if r and r["error_num"] == 0:
            body = hostile.unarmor(r["data"])
            ivl = {0: 0, 2: 8, 3: 8, 4: 16, 5: 16}[c]
            ml = {2: 16, 3: 20, 4: 20, 5: 32, 6: 64}[m]
            bases.append({"name": "c%dm%dz%d" % (c, m, z), "cred": r["data"], "body": body, "olen": 5 + ivl, "mlen": ml, "c": c})

    def reject(kind, body, name):
        cred = pyref.armor(body)
        import time as _t
        _t0 = _t.time()
        d, m, diff = cr.decode_both(cred, uid=1, gid=1)
        if _t.time() - _t0 > 1.0:
            ctx.log("slow case %s of %s: %.1fs reply=%s cred=%s" % (kind, name, _t.time() - _t0, d and d["error_num"], cred.hex()))
        ctx.count((kind, body))
        dist[kind] = dist.get(kind, 0) + 1
        if diff:
            mism.append(dict(cr.mismatches[-1], kind=kind))
        if d is None:
            fails.append({"why": "no reply for an edited credential (%s of %s)" % (kind, name), "cred_hex": cred.hex()[:3000]})
        elif d["error_num"] in (0,) + SOFT:
            fails.append({"why": "ALTERED credential accepted: %s of %s answered with error %d (%s), payload %r"
                                 % (kind, name, d["error_num"], d["error_str"], d["data"][:40]), "cred_hex": cred.hex()[:3000], "kind": kind})
        else:
            leak = disclosed(d)
            if leak:
                fails.append({"why": "rejected altered credential (%s of %s) discloses fields %s" % (kind, name, leak),
                              "cred_hex": cred.hex()[:3000], "kind": kind})

    # credentials whose plaintext interior is an exact multiple of the cipher block (payload length = 7 mod 16), so that the
    # final cipher block is pure PKCS #5 padding: every bit of the last two blocks flipped, every padding-only edit
    for (c, m) in ((4, 5), (2, 3), (3, 2), (5, 6)):
        for L in ((23, 7) if not ctx.thorough else (7, 23, 39, 55)):
            r, diff = cr.encode_both(uid=1234, gid=5678, cipher=c, mac=m, zip_=0, data=b"P" * L)
            if not (r and r["error_num"] == 0):
                continue
            body = hostile.unarmor(r["data"])
            name = "c%dm%d-padblock-L%d" % (c, m, L)
            for bit in range((len(body) - 32) * 8, len(body) * 8):
                x = bytearray(body); x[bit // 8] ^= 1 << (bit % 8)
                reject("bitflip-padblock", bytes(x), name)
            for k in (1, 7, 8, 15, 16):
                reject("truncate-padblock", body[:-k], name)
                reject("extend-padblock", body + body[-k:], name)
    # edits of the credential STRING (not of its decoded bytes): a second credential, text or padding between the first
    # and the last suffix, two armored bodies in one string, whitespace: extension and splice at the armor level
    for b in bases[:3]:
        for cls, s_ in hostile.armor_strings(ctx, b["cred"]):
            if not cls.startswith("armor/valid") or cls in ("armor/valid", "armor/valid-ws"):
                continue
            d, m, diff = cr.decode_both(s_, uid=1, gid=1)
            ctx.count(("string-edit", cls, s_[:60]))
            dist["string-edit"] = dist.get("string-edit", 0) + 1
            if diff:
                mism.append(dict(cr.mismatches[-1], kind="string-edit"))
            if d is None:
                fails.append({"why": "no reply for an edited credential string (%s of %s)" % (cls, b["name"]), "cred_hex": s_.hex()[:3000]})
            elif d["error_num"] in (0,) + SOFT:
                fails.append({"why": "ALTERED credential accepted: string edit %s of %s (text spliced in after the first armor suffix) answered "
                                     "with error %d, payload %r" % (cls, b["name"], d["error_num"], d["data"][:40]),
                              "cred_hex": s_.hex()[:3000], "kind": "string-edit"})
        other = [x for x in bases if x is not b][0]
        for name, s_ in (("cred||cred2", b["cred"].rstrip(b"\0") + other["cred"]),
                         ("body:body2:", b["cred"].rstrip(b"\0") + other["cred"].rstrip(b"\0")[6:] + b"\0")):
            d, m, diff = cr.decode_both(s_, uid=1, gid=1)
            ctx.count(("string-splice", name, s_[:60]))
            dist["string-edit"] = dist.get("string-edit", 0) + 1
            if d is not None and d["error_num"] in (0,) + SOFT:
                fails.append({"why": "ALTERED credential accepted: %s (two credentials in one string) answered with error %d, payload %r"
                                     % (name, d["error_num"], d["data"][:40]), "cred_hex": s_.hex()[:3000], "kind": "string-edit"})
    # large interiors (several MAC/cipher update chunks): edits far behind the first 64 KiB, tails spliced between two credentials
    bigs = []
    for (c, m) in ((0, 5), (4, 5), (2, 3)) if not ctx.thorough else ((0, 5), (4, 5), (2, 3), (5, 6), (0, 2), (3, 4)):
        for k in range(2):
            r, diff = cr.encode_both(uid=1234, gid=5678, cipher=c, mac=m, zip_=0, data=bytes(rng.getrandbits(8) for _ in range(200000)))
            if r and r["error_num"] == 0:
                bigs.append(((c, m), hostile.unarmor(r["data"])))
    for i, ((c, m), body) in enumerate(bigs):
        name = "c%dm%d-200k" % (c, m)
        for off in (66000, 70001, 131072 + 17, 180000, len(body) - 40, len(body) - 1):
            x = bytearray(body); x[off] ^= 0x10
            reject("bitflip-far", bytes(x), name)
        other = [b for (cm, b) in bigs if cm == (c, m) and b is not body]
        if other and len(other[0]) == len(body):
            cut = 100000 - (100000 % 16) + (len(body) % 16)
            reject("splice-far", body[:cut] + other[0][cut:], name)
    for b in bases:
        ctx.log("edits of", b["name"])
        body, n, name = b["body"], len(b["body"]), b["name"]
        hdr_end = b["olen"] + b["mlen"]
        bits = list(range(n * 8)) if ctx.thorough else \
            sorted(set(list(range(min(hdr_end, n) * 8))[::1 if b is bases[0] else 5] + rng.sample(range(n * 8), min(n * 8, 120)) + [n * 8 - 1, n * 8 - 8]))
        for bit in bits:
            x = bytearray(body); x[bit // 8] ^= 1 << (bit % 8)
            reject("bitflip", bytes(x), name)
        for k in range(0, n):
            reject("truncate", body[:k], name)
        for ext in (b"\0", b"A", bytes(8), bytes(rng.getrandbits(8) for _ in range(16)), bytes(rng.getrandbits(8) for _ in range(33))):
            reject("extend", body + ext, name)
        if b["c"]:
            bs = 8 if b["c"] in (2, 3) else 16
            ct = body[hdr_end:]
            if len(ct) >= 3 * bs:
                reject("blockswap", body[:hdr_end] + ct[bs:2 * bs] + ct[:bs] + ct[2 * bs:], name)
                reject("blockdup", body[:hdr_end] + ct[:bs] + ct, name)
                reject("blockdrop", body[:hdr_end] + ct[bs:], name)
        for off, vals in ((0, (0, 2, 4)), (1, (0, 2, 3, 4, 5)), (2, (2, 3, 4, 5, 6)), (3, (0, 2, 3)), (4, (1, 4))):
            for v in vals:
                if body[off] != v:
                    x = bytearray(body); x[off] = v
                    reject("header", bytes(x), name)
        # whitespace re-armoring leaves the body unchanged: the identity edit must still be ACCEPTED (once)
    if bases:
        r, _ = cr.encode_both(uid=1, gid=2, data=b"whitespace")
        s = r["data"].rstrip(b"\0")
        b64 = s[6:-1]
        ws = b"MUNGE:" + b"\n".join(b64[i:i + 16] for i in range(0, len(b64), 16)) + b" \t:\0"
        d, m, diff = cr.decode_both(b"  \n" + ws, uid=1, gid=1)
        ctx.count(("whitespace", ws))
        dist["identity-edit"] = 1
        if diff:
            mism.append(dict(cr.mismatches[-1], kind="whitespace"))
        if d is None or d["error_num"] != 0 or d["data"] != b"whitespace":
            fails.append({"why": "re-armoring with whitespace (body unchanged) was refused: %s" % (d and (d["error_num"], d["error_str"]),)})
    ctx.log("splices")
    # splices of two credentials at every field boundary (same options so that lengths line up, and different ones)
    for i in range(len(bases)):
        for j in range(len(bases)):
            if i == j:
                continue
            a, b = bases[i], bases[j]
            cuts_a = [1, 2, 3, 4, 5, a["olen"], a["olen"] + a["mlen"], a["olen"] + a["mlen"] + 16, len(a["body"]) - 16]
            cuts_b = [1, 2, 3, 4, 5, b["olen"], b["olen"] + b["mlen"], b["olen"] + b["mlen"] + 16, len(b["body"]) - 16]
            for ca, cb in zip(cuts_a, cuts_b):
                if 0 < ca < len(a["body"]) and 0 < cb < len(b["body"]):
                    sp = a["body"][:ca] + b["body"][cb:]
                    if sp != a["body"] and sp != b["body"]:
                        reject("splice", sp, a["name"] + "+" + b["name"])
            if not ctx.thorough and j > i + 2:
                break
    # second credential with the SAME options: splice tag of one onto the other, interior of one under header of other
    r1, _ = cr.encode_both(uid=1, gid=1, cipher=4, mac=5, zip_=0, data=b"first  payload 0123456789")
    r2, _ = cr.encode_both(uid=1, gid=1, cipher=4, mac=5, zip_=0, data=b"second payload 0123456789")
    if r1 and r2 and r1["error_num"] == 0 and r2["error_num"] == 0:
        b1, b2 = hostile.unarmor(r1["data"]), hostile.unarmor(r2["data"])
        for cut in (5, 21, 21 + 32, 21 + 32 + 16, len(b1) - 16):
            for sp in (b1[:cut] + b2[cut:], b2[:cut] + b1[cut:]):
                if sp not in (b1, b2):
                    reject("splice-same-options", sp, "two aes128/sha256")
    mism_main = list(mism)
    rc, rep = cr.stop()
    if rep.strip():
        ctx.violation("sanitizer report from the daemon during C02 cases", {"report": rep[:3000]}, found_input=False)
    ctx.log("foreign keys")
    # foreign keys: daemons whose key files differ in one byte / one bit / by one trailing byte
    variants = []
    k2 = bytearray(key); k2[0] ^= 1; variants.append(("first-bit", bytes(k2)))
    k2 = bytearray(key); k2[-1] ^= 0x80; variants.append(("last-byte", bytes(k2)))
    variants.append(("one-byte-longer", key + b"\0"))
    variants.append(("one-byte-shorter", key[:-1]))
    if ctx.thorough:
        k2 = bytearray(key); k2[31] ^= 4; variants.append(("byte31", bytes(k2)))
        k2 = bytearray(key); k2[32] ^= 4; variants.append(("byte32", bytes(k2)))
    # long key files (munged accepts any length >= 32): a difference beyond the first KiB must matter too
    longkey = bytes(rng.getrandbits(8) for _ in range(3000))
    lv = []
    for off in (1023, 1024, 1025, 2047, 2999):
        k2 = bytearray(longkey); k2[off] ^= 1
        lv.append(("long-key-byte%d" % off, bytes(k2)))
    lv.append(("long-key-truncated-to-1024", longkey[:1024]))
    if not ctx.thorough:
        lv = [lv[1], lv[4], lv[5]]
    a = credcorr.CredRig(ctx, exe, orc, key=longkey, tag="c02la")
    for (vn, vk) in lv:
        b = credcorr.CredRig(ctx, exe, orc, key=vk, tag="c02lb")
        if not (a.ok and b.ok):
            ctx.violation("daemon does not start for the long-key cases", {"obligation": "start"}, found_input=False)
            break
        for src, dst in ((a, b), (b, a)):
            r, _ = src.encode_both(uid=9, gid=9, cipher=4, mac=5, zip_=0, data=b"minted under another long key")
            if r is None or r["error_num"] != 0:
                continue
            d, mm, diff = dst.decode_both(r["data"], uid=1, gid=1)
            ctx.count(("foreign-long", vn, src is a))
            dist["foreign-key"] = dist.get("foreign-key", 0) + 1
            if diff:
                mism.append(dict(dst.mismatches[-1], kind="foreign-long"))
            if d is None or d["error_num"] in (0,) + SOFT or disclosed(d):
                fails.append({"why": "credential minted under a 3000-byte key differing by %s was not refused cleanly: %s"
                                     % (vn, d and (d["error_num"], d["error_str"], d["data"][:20]),), "variant": vn})
        b.stop()
    a.stop()
    a = credcorr.CredRig(ctx, exe, orc, key=key, tag="c02a")
    for (vn, vk) in variants:
        b = credcorr.CredRig(ctx, exe, orc, key=vk, tag="c02b")
        if not (a.ok and b.ok):
            ctx.violation("daemon does not start for the foreign-key cases", {"obligation": "start"}, found_input=False)
            break
        for (c, m, z) in ((4, 5, 0), (0, 3, 0), (2, 6, 3)):
            for src, dst in ((a, b), (b, a)):
                r, _ = src.encode_both(uid=9, gid=9, cipher=c, mac=m, zip_=z, data=b"minted under another key")
                if r is None or r["error_num"] != 0:
                    continue
                d, mm, diff = dst.decode_both(r["data"], uid=1, gid=1)
                ctx.count(("foreign", vn, c, m, z, src is a))
                dist["foreign-key"] = dist.get("foreign-key", 0) + 1
                if diff:
                    mism.append(dict(dst.mismatches[-1], kind="foreign"))
                if d is None or d["error_num"] in (0,) + SOFT or disclosed(d):
                    fails.append({"why": "credential minted under a key differing by %s was not refused cleanly: %s"
                                         % (vn, d and (d["error_num"], d["error_str"], d["data"][:20])), "variant": vn})
                # and each daemon still honours its own
                d, mm, diff = src.decode_both(r["data"], uid=1, gid=1)
                if d is None or d["error_num"] != 0:
                    fails.append({"why": "daemon refuses its own credential (%s)" % vn})
        b.stop()
    a.stop()
    # ... and in every phase of the daemon's life: requests still in progress when a graceful stop arrives are decoded under
    # the same key.  A decode request is parked half-sent, SIGTERM is delivered, and once the daemon has logged that it is
    # exiting the request is completed with a credential MAC'd under a subkey anybody can guess (all zero / all 0xff)
    import socket as _sk, signal as _sg
    for fill in (0x00, 0xFF):
        dd = rig.Daemon(ctx, exe, tag="c02drain", key=key, nthreads=2)
        if not dd.start():
            break
        forged = pyref.mint(b"", mac=5, mac_key=bytes([fill]) * 20, time0=int(time.time()), ttl=300, uid=0, gid=0, data=b"forged during shutdown")
        body = rig.dec_req_body(forged)
        raw = rig.hdr(rig.T_DEC_REQ, 0, len(body)) + body
        ctl, st = rig.decode(dd.sock, forged)                        # control: while running normally
        s_ = _sk.socket(_sk.AF_UNIX, _sk.SOCK_STREAM)
        s_.connect(dd.sock)
        s_.sendall(raw[:20])
        time.sleep(0.1)
        dd.p.send_signal(_sg.SIGTERM)
        t0 = time.time()
        while time.time() - t0 < 1.5 and b"Exiting on signal" not in open(os.path.join(dd.dir, "stderr"), "rb").read():
            time.sleep(0.02)
        s_.sendall(raw[20:])
        s_.settimeout(5)
        rep = b""
        try:
            while len(rep) < 11 or len(rep) < 11 + struct.unpack(">I", rep[7:11])[0]:
                c_ = s_.recv(65536)
                if not c_:
                    break
                rep += c_
        except OSError:
            pass
        s_.close()
        dd.stop()
        ctx.count(("drain-forgery", fill))
        dist["drain-forgery"] = dist.get("drain-forgery", 0) + 1
        for what, ans in (("while the daemon runs", ctl), ("completed after SIGTERM, during the graceful drain", None)):
            if ans is None and len(rep) > 11:
                try:
                    ans = rig.parse_dec_rsp(rep[11:])
                except rig.ParseError:
                    ans = None
            if ans is not None and (ans["error_num"] in (0,) + SOFT or ans["data_len"] != 0):
                fails.append({"why": "FORGED credential accepted: MAC computed under an all-0x%02x subkey (no knowledge of the key file), request %s: "
                                     "error %d, payload %r, uid %d" % (fill, what, ans["error_num"], ans["data"][:30], ans["cred_uid"]),
                              "cred_hex": forged.hex(), "kind": "drain-forgery"})
    # the statement holds whatever other clients do at the same time: genuine decodes race with altered copies
    import conc
    probs, rep, total = conc.forgery_race(ctx, exe, seconds=15.0 if ctx.thorough else 3.5, nthreads=2)
    if not probs and not rep.strip():
        # ... and on a daemon with more workers than cores are busy: more requests in progress at any instant
        probs, rep, t2 = conc.forgery_race(ctx, exe, seconds=15.0 if ctx.thorough else 6.0, nthreads=8, label="forge8")
        total += t2
    dist["concurrent-forgery-attempts"] = total
    ctx.count(("forgery-race", total))
    ctx.log("forgery race: %d decodes, %d problems" % (total, len(probs)))
    for pb in probs:
        fails.append(dict(pb, kind="race"))
    if rep.strip():
        ctx.violation("sanitizer report from the daemon during the concurrent forgery phase", {"report": rep[:3000]}, found_input=False)
    for k in list(dist)[:8]:
        ctx.sample({"edit_class": k, "count": dist[k]}, limit=10)
    ctx.cov["input_distribution"] = dist
    ctx.cov["traces_validated_against_impl"] = ctx.cov["evaluations"]
    seen = set()
    for f in fails:
        k = f["why"][:40] + str(f.get("kind"))
        if k in seen:
            continue
        seen.add(k)
        ctx.violation(f["why"], f, found_input=True)
    if not fails and mism:
        ctx.violation("model and daemon disagree on %d cases (first: %s: %s)" % (len(mism), mism[0].get("kind"), mism[0]["diff"]),
                      {"obligation": "correspondence CredModel ~ munged (C02)", "first": mism[0]}, found_input=False)
    if not fails and not mism and not proved:
        ctx.violation("proof obligation no longer checks: %s" % getattr(ctx, "broken_obligation", "?"),
                      {"obligation": getattr(ctx, "broken_obligation", "?"), "log": ctx.proof_log[-3000:]}, found_input=False)


MANIFEST["level"] = (MANIFEST["level"][0], MANIFEST["level"][1] + ' Also a concurrent phase: genuine decodes race, on a multi-threaded daemon, with altered copies that keep the genuine MAC field (none may ever be accepted; tools/conc.py).', MANIFEST["level"][2])
