"""C07 — replay memory lasts as long as the credential could still be valid (replay-cache component; the
pipeline-level part, t_expired from the capped ttl after the time check, is added by the maintainer)."""
import vlib
from props import replay_common

MANIFEST = dict(
    level=("proof", "Coq theorems over ReplayModel (hash.c + replay.c; the three cases of replay_is_expired sampled from the "
           "source on every run), for every slot function, every table satisfying hash.c's invariant and every history of "
           "presentations, removals, purges (reading a non-decreasing clock) and clock ticks: a purge at `now` keeps exactly "
           "the keys with now <= t_expired, in order, count down by the number removed; a key once presented is answered "
           "Exists at every later presentation up to and including its t_expired across any number and placement of purges; "
           "after a purge at p nothing with t_expired < p remains; the table holds no more records than were created during "
           "the last w + p seconds.  Tied to the code by differential runs of the extracted model against replay.c+hash.c "
           "(ASan, virtual clock, purge fired through the callback replay.c registered) with purge ticks at all 60 phases "
           "around an expiry second.", "7 C07"),
    note="Component level: that t_expired = time0 + capped ttl is the last second passing the C06 check, and that the "
         "timer fires every 60 s (C18), are pipeline/timer facts; C07_cache_bound takes the insertion window w and the "
         "purge gap p as premises.  Trusted: Coq kernel+vm_compute, gen_facts probe, extraction, harness/driver glue.",
    technique="Coq proof (history induction with clock monotonicity, ghost log for the retention bound) + facts translator "
              "+ differential correspondence under a virtual clock")

PROP = "C07"


def run(ctx):
    ctx.level = "proof"
    proved = vlib.prove(ctx, ["Properties_C07.v", "Properties_C07_pipeline.v"], facts=["replay", "cred", "base64"])
    ctx.log("proofs:", "ok" if proved else "BROKEN: " + getattr(ctx, "broken_obligation", "?"))
    ctx.cov["rule"] = ("proof: Properties_C07.v over ReplayModel (facts from replay.c); correspondence: the same histories "
                       "through /repo's replay.c+hash.c (virtual clock via --wrap=time, purge through the registered timer "
                       "callback) and the extracted model, table dumped after every operation; histories = purge ticks "
                       "every 60 s at each of the 60 phases relative to an expiry second with presentations at e-1, e, e+1 "
                       "and bucket neighbours expiring at e-1/e/e+1, plus random histories with purges at e-1/e/e+1 of "
                       "every key; every history is non-trivial (distinct by content)")
    res = replay_common.component_phase(ctx, PROP, proved)
    # (maintainer: live-daemon phase goes here)
    if not proved and not ctx.violations:
        ctx.violation("proof obligation no longer checks: %s" % getattr(ctx, "broken_obligation", "?"),
                      {"obligation": getattr(ctx, "broken_obligation", "?"), "log": ctx.proof_log[-3000:]},
                      found_input=False)
    return res
