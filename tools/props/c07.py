"""C07 — replay memory lasts as long as the credential could still be valid (replay-cache component; the
pipeline-level part, t_expired from the capped ttl after the time check, is added by the maintainer)."""
import time
import vlib
from props import replay_common

MANIFEST = dict(
    level=("proof", "Coq theorems over ReplayModel (hash.c + replay.c; the three cases of replay_is_expired sampled from the "
           "source on every run), for every slot function, every table satisfying hash.c's invariant and every history of "
           "presentations, removals, purges (reading a non-decreasing clock) and clock ticks: a purge at `now` keeps exactly "
           "the keys with now <= t_expired, in order, count down by the number removed; a key once presented is answered "
           "Exists at every later presentation up to and including its t_expired across any number and placement of purges; "
           "after a purge at p nothing with t_expired < p remains; the table holds no more records than were created during "
           "the last w + p seconds.  Tied to the code by differential runs of the extracted model against replay.c+hash.c "
           "(ASan, virtual clock, purge fired through the callback replay.c registered) with purge ticks at all 60 phases "
           "around an expiry second.", "7 C07"),
    note="Component level: that t_expired = time0 + capped ttl is the last second passing the C06 check, and that the "
         "timer fires every 60 s (C18), are pipeline/timer facts; C07_cache_bound takes the insertion window w and the "
         "purge gap p as premises.  Trusted: Coq kernel+vm_compute, gen_facts probe, extraction, harness/driver glue.",
    technique="Coq proof (history induction with clock monotonicity, ghost log for the retention bound) + facts translator "
              "+ differential correspondence under a virtual clock + clock.c translated from source (C text -> Gallina, "
              "Properties_C18_clock.v) and run on second-boundary readings")

PROP = "C07"


def live_phase(ctx):
    """Live daemon (virtual clock for the time check; the purge timer runs on the real clock): the record of a decoded
    credential survives replies that cannot be delivered and every presentation up to the last valid second."""
    import rig, credcorr
    from props import c05_live
    try:
        exe, orc = credcorr.build_all(ctx)
    except RuntimeError as e:
        ctx.violation(str(e), {"obligation": "build"}, found_input=False)
        return
    cr = credcorr.CredRig(ctx, exe, orc, tag="c07live", nthreads=2)
    if not cr.ok:
        ctx.violation("daemon does not start", {"obligation": "start"}, found_input=False)
        return
    fails, dist = [], {}
    c05_live.undelivered_phase(ctx, cr, fails, dist)
    # presentations at every second of the window after a first decode: replayed up to and including the last one
    T0 = 1500000000
    for ttl in (1, 2, 59, 60, 61):
        cr.set_clock(T0)
        r, _ = rig.encode(cr.d.sock, uid=3, gid=4, ttl=ttl, data=b"window")
        cred = r["data"]
        d, m, diff = cr.decode_both(cred, uid=5, gid=6)
        for dt in sorted(set([0, 1, ttl - 1, ttl, ttl + 1])):
            if dt < 0:
                continue
            cr.set_clock(T0 + dt)
            d, m, diff = cr.decode_both(cred, uid=5, gid=6)
            ctx.count(("live-window", ttl, dt))
            dist["live-window"] = dist.get("live-window", 0) + 1
            want = 17 if dt <= ttl else 15
            if d is None or d["error_num"] != want:
                fails.append({"why": "ttl=%d: presentation %d s after the encode time of an already decoded credential gives %s, expected %d"
                                     % (ttl, dt, d and d["error_num"], want), "kind": "live-window"})
    mism = list(cr.mismatches)
    rc, rep = cr.stop()
    if rep.strip():
        ctx.violation("sanitizer report from the daemon during the C07 live phase", {"report": rep[:3000]}, found_input=False)
    # the record must last as long as THIS daemon's time check can still pass: credentials whose TTL exceeds the decoder's
    # --max-ttl, with the periodic purge (timer thread fast-forwarded) firing inside and after the capped life
    pf = []
    pm = c05_live.purge_phase(ctx, orc, pf, dist)
    for f in pf:
        fails.append(dict(f, why="replay memory shorter than the time the credential can still pass the time check: " + f["why"],
                          kind="purge-history"))
    mism += pm
    sf = []
    mism += c05_live.straddle_phase(ctx, orc, sf, dist) or []
    for f in sf:
        fails.append(dict(f, why="replay memory shorter than the time the credential can still pass the time check: " + f["why"]))
    queued_across_expiry(ctx, orc, fails, dist)
    ctx.cov.setdefault("input_distribution", {}).update({"live-" + k: v for k, v in dist.items()})
    seen = set()
    for f in fails:
        if f["kind"] in seen:
            continue
        seen.add(f["kind"])
        ctx.violation(f["why"] + ("" if getattr(ctx, "proof_ok", True) else "  [and the proof obligation no longer checks: %s]"
                                  % getattr(ctx, "broken_obligation", "?")), f, found_input=True)
    if mism and not fails:
        ctx.violation("model and daemon disagree in the C07 live phase on %d cases (first: %s)" % (len(mism), mism[0]["diff"]),
                      {"obligation": "correspondence CredModel ~ munged (C07 live)", "first": mism[0]}, found_input=False)


def queued_across_expiry(ctx, orc, fails, dist):
    """A second presentation that WAITS in the work queue while the credential expires and the purge discards its record: it is
    judged at the time it is decoded (expired), not at the time it arrived (when it would pass the time check and find no
    record).  One worker thread, held by a stalled client for the I/O timeout; clock and timers moved while the request waits."""
    import rig, socket, struct
    exe, err = rig.build_daemon(ctx, name="munged-vt2", san="address", extra_src=rig.vtimer_src(), wraps=rig.VTIMER_WRAPS)
    if exe is None:
        ctx.violation("munged does not build with the timer fast-forward shim: " + err[-300:], {"obligation": "build"}, found_input=False)
        return
    T = 1500000000
    for ttl in (5, 30):
        d = rig.Daemon(ctx, exe, tag="c07q", nthreads=1, clock=T, extra=["--group-update-time=0"])
        if not d.start():
            ctx.violation("daemon does not start (queue phase)", {"obligation": "start"}, found_input=False)
            return
        try:
            r, st = rig.encode(d.sock, uid=3, gid=4, ttl=ttl, data=b"queued")
            first, st = rig.decode(d.sock, r["data"], uid=5, gid=6)
            d.set_clock(T + 1)
            stall = socket.socket(socket.AF_UNIX, socket.SOCK_STREAM)
            stall.connect(d.sock)
            stall.sendall(rig.MAGIC_BYTES + b"\x04")          # a partial header: holds the only worker for the I/O timeout
            time.sleep(0.15)
            body = rig.dec_req_body(r["data"])
            q = socket.socket(socket.AF_UNIX, socket.SOCK_STREAM)
            q.connect(d.sock)
            q.sendall(rig.hdr(rig.T_DEC_REQ, 0, len(body)) + body)   # arrives (and is accepted) at T+1, inside the window
            time.sleep(0.25)
            d.set_clock(T + ttl + 100)
            d.advance_timers(61000)                            # the purge tick: the record (expiry T+ttl) is discarded
            q.settimeout(8)
            rep = b""
            try:
                while len(rep) < 11 or len(rep) < 11 + struct.unpack(">I", rep[7:11])[0]:
                    c = q.recv(65536)
                    if not c:
                        break
                    rep += c
            except OSError:
                pass
            q.close(); stall.close()
            ans = None
            if len(rep) > 11:
                try:
                    ans = rig.parse_dec_rsp(rep[11:])
                except rig.ParseError:
                    ans = None
            ctx.count(("queued-across-expiry", ttl))
            dist["queued-across-expiry"] = dist.get("queued-across-expiry", 0) + 1
            if first is None or first["error_num"] != 0:
                fails.append({"why": "queue phase: the first decode failed (%s)" % (first and first["error_num"]), "kind": "queued"})
            elif ans is None:
                fails.append({"why": "a decode request that waited in the work queue got no reply", "kind": "queued"})
            elif ans["error_num"] == 0:
                fails.append({"why": "an already decoded credential (ttl %d) was ACCEPTED a second time: its second presentation arrived %d s before "
                                     "expiry, waited in the work queue while the credential expired and the purge discarded its record, and was "
                                     "then judged as of its arrival" % (ttl, ttl - 1), "cred_hex": r["data"].hex(), "kind": "queued"})
            elif ans["error_num"] not in (15, 17):
                fails.append({"why": "second presentation after a queue wait across expiry answered error %d %r, expected expired"
                                     % (ans["error_num"], ans["error_str"]), "kind": "queued"})
        finally:
            rc, rep_ = d.stop()
        if rep_.strip():
            ctx.violation("sanitizer report from the daemon during the C07 queue phase", {"report": rep_[:3000]}, found_input=False)


def run(ctx):
    ctx.level = "proof"
    proved = vlib.prove(ctx, ["Properties_C07.v", "Properties_C07_pipeline.v", "Properties_C18_clock.v"],
                        facts=["replay", "cred", "base64", "cfun", "timer", "clockfun"])
    ctx.log("proofs:", "ok" if proved else "BROKEN: " + getattr(ctx, "broken_obligation", "?"))
    ctx.cov["rule"] = ("proof: Properties_C07.v over ReplayModel (facts from replay.c); correspondence: the same histories "
                       "through /repo's replay.c+hash.c (virtual clock via --wrap=time, purge through the registered timer "
                       "callback) and the extracted model, table dumped after every operation; histories = purge ticks "
                       "every 60 s at each of the 60 phases relative to an expiry second with presentations at e-1, e, e+1 "
                       "and bucket neighbours expiring at e-1/e/e+1, plus random histories with purges at e-1/e/e+1 of "
                       "every key; every history is non-trivial (distinct by content)")
    res = replay_common.component_phase(ctx, PROP, proved)
    # the purge timer's place in the timer list and its firing rest on clock.c's order and deadline arithmetic: the functions
    # translated from its C text (Properties_C18_clock.v above) and /repo's clock.c on second-boundary readings
    from props import c18_clock
    c18_clock.clock_phase(ctx, proved)
    live_phase(ctx)
    if not proved and not ctx.violations:
        ctx.violation("proof obligation no longer checks: %s" % getattr(ctx, "broken_obligation", "?"),
                      {"obligation": getattr(ctx, "broken_obligation", "?"), "log": ctx.proof_log[-3000:]},
                      found_input=False)
    return res
