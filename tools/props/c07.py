"""C07 — replay memory lasts as long as the credential could still be valid (replay-cache component; the
pipeline-level part, t_expired from the capped ttl after the time check, is added by the maintainer)."""
import vlib
from props import replay_common

MANIFEST = dict(
    level=("proof", "Coq theorems over ReplayModel (hash.c + replay.c; the three cases of replay_is_expired sampled from the "
           "source on every run), for every slot function, every table satisfying hash.c's invariant and every history of "
           "presentations, removals, purges (reading a non-decreasing clock) and clock ticks: a purge at `now` keeps exactly "
           "the keys with now <= t_expired, in order, count down by the number removed; a key once presented is answered "
           "Exists at every later presentation up to and including its t_expired across any number and placement of purges; "
           "after a purge at p nothing with t_expired < p remains; the table holds no more records than were created during "
           "the last w + p seconds.  Tied to the code by differential runs of the extracted model against replay.c+hash.c "
           "(ASan, virtual clock, purge fired through the callback replay.c registered) with purge ticks at all 60 phases "
           "around an expiry second.", "7 C07"),
    note="Component level: that t_expired = time0 + capped ttl is the last second passing the C06 check, and that the "
         "timer fires every 60 s (C18), are pipeline/timer facts; C07_cache_bound takes the insertion window w and the "
         "purge gap p as premises.  Trusted: Coq kernel+vm_compute, gen_facts probe, extraction, harness/driver glue.",
    technique="Coq proof (history induction with clock monotonicity, ghost log for the retention bound) + facts translator "
              "+ differential correspondence under a virtual clock")

PROP = "C07"


def live_phase(ctx):
    """Live daemon (virtual clock for the time check; the purge timer runs on the real clock): the record of a decoded
    credential survives replies that cannot be delivered and every presentation up to the last valid second."""
    import rig, credcorr
    from props import c05_live
    try:
        exe, orc = credcorr.build_all(ctx)
    except RuntimeError as e:
        ctx.violation(str(e), {"obligation": "build"}, found_input=False)
        return
    cr = credcorr.CredRig(ctx, exe, orc, tag="c07live", nthreads=2)
    if not cr.ok:
        ctx.violation("daemon does not start", {"obligation": "start"}, found_input=False)
        return
    fails, dist = [], {}
    c05_live.undelivered_phase(ctx, cr, fails, dist)
    # presentations at every second of the window after a first decode: replayed up to and including the last one
    T0 = 1500000000
    for ttl in (1, 2, 59, 60, 61):
        cr.set_clock(T0)
        r, _ = rig.encode(cr.d.sock, uid=3, gid=4, ttl=ttl, data=b"window")
        cred = r["data"]
        d, m, diff = cr.decode_both(cred, uid=5, gid=6)
        for dt in sorted(set([0, 1, ttl - 1, ttl, ttl + 1])):
            if dt < 0:
                continue
            cr.set_clock(T0 + dt)
            d, m, diff = cr.decode_both(cred, uid=5, gid=6)
            ctx.count(("live-window", ttl, dt))
            dist["live-window"] = dist.get("live-window", 0) + 1
            want = 17 if dt <= ttl else 15
            if d is None or d["error_num"] != want:
                fails.append({"why": "ttl=%d: presentation %d s after the encode time of an already decoded credential gives %s, expected %d"
                                     % (ttl, dt, d and d["error_num"], want), "kind": "live-window"})
    mism = list(cr.mismatches)
    rc, rep = cr.stop()
    if rep.strip():
        ctx.violation("sanitizer report from the daemon during the C07 live phase", {"report": rep[:3000]}, found_input=False)
    # the record must last as long as THIS daemon's time check can still pass: credentials whose TTL exceeds the decoder's
    # --max-ttl, with the periodic purge (timer thread fast-forwarded) firing inside and after the capped life
    pf = []
    pm = c05_live.purge_phase(ctx, orc, pf, dist)
    for f in pf:
        fails.append(dict(f, why="replay memory shorter than the time the credential can still pass the time check: " + f["why"],
                          kind="purge-history"))
    mism += pm
    ctx.cov.setdefault("input_distribution", {}).update({"live-" + k: v for k, v in dist.items()})
    seen = set()
    for f in fails:
        if f["kind"] in seen:
            continue
        seen.add(f["kind"])
        ctx.violation(f["why"], f, found_input=True)
    if mism and not fails:
        ctx.violation("model and daemon disagree in the C07 live phase on %d cases (first: %s)" % (len(mism), mism[0]["diff"]),
                      {"obligation": "correspondence CredModel ~ munged (C07 live)", "first": mism[0]}, found_input=False)


def run(ctx):
    ctx.level = "proof"
    proved = vlib.prove(ctx, ["Properties_C07.v", "Properties_C07_pipeline.v"], facts=["replay", "cred", "base64"])
    ctx.log("proofs:", "ok" if proved else "BROKEN: " + getattr(ctx, "broken_obligation", "?"))
    ctx.cov["rule"] = ("proof: Properties_C07.v over ReplayModel (facts from replay.c); correspondence: the same histories "
                       "through /repo's replay.c+hash.c (virtual clock via --wrap=time, purge through the registered timer "
                       "callback) and the extracted model, table dumped after every operation; histories = purge ticks "
                       "every 60 s at each of the 60 phases relative to an expiry second with presentations at e-1, e, e+1 "
                       "and bucket neighbours expiring at e-1/e/e+1, plus random histories with purges at e-1/e/e+1 of "
                       "every key; every history is non-trivial (distinct by content)")
    res = replay_common.component_phase(ctx, PROP, proved)
    live_phase(ctx)
    if not proved and not ctx.violations:
        ctx.violation("proof obligation no longer checks: %s" % getattr(ctx, "broken_obligation", "?"),
                      {"obligation": getattr(ctx, "broken_obligation", "?"), "log": ctx.proof_log[-3000:]},
                      found_input=False)
    return res
