"""Shared component phase for C01 / C08 / C13: the timed, restartable socket I/O loops of src/libcommon/fd.c
(fd_timed_read_n, fd_timed_write_n, fd_timed_write_iov, _fd_get_poll_timeout) against the extracted FdModel.

fd_phase(ctx) proves coq/Properties_FD.v (facts: tools/facts/fd.py -> coq/gen/GenFd.v), builds extract/fd/oracle
and harness/fd_harness.c from the current sources (fd.c linked unchanged; poll/read/write/writev/gettimeofday/
malloc/free wrapped at link time so that the harness plays the kernel: short counts, 0, EINTR, EAGAIN, errors,
POLLHUP/NVAL/ERR, timeouts, late wake-ups, a virtual clock; the bytes travel through a real socketpair), generates
adversary scripts aimed at the case splits of the proofs, runs both, compares line by line, and evaluates the
properties themselves on the implementation's answers with a Python reference that knows nothing of the Coq
model (delivered == prefix of the concatenation, full iff full count, buffer == first n bytes sent, every poll
timeout within [remaining, remaining + 1998 us], back by the deadline, EOF/error final, interruptions harmless,
no leak).  It records violations in ctx and returns a dict.  It does not create a property of its own: the
caller is the C01 / C08 / C13 check."""
import hashlib, json, os, re, sys, threading
sys.path.insert(0, os.path.dirname(os.path.dirname(os.path.abspath(__file__))))
import vlib  # noqa: E402

HDR = 11                       # MUNGE_MSG_HDR_SIZE (shape of m_msg_send's iovec; the value used is in GenFd.v)
TIMEOUT_US = 2000000           # MUNGE_SOCKET_TIMEOUT_MSECS * 1000
T0 = 1700000000 * 1000000 + 250000
RANGE_US = 2000000000000       # FdModel.in_range
SLACK_US = 1998                # FD_poll_timeout_spec
WRAP = ["-Wl,--wrap=poll,--wrap=read,--wrap=write,--wrap=writev,--wrap=gettimeofday,--wrap=malloc,--wrap=free"]

RULE = ("fd.c component: Properties_FD.v over FdModel (the three timed loops as one engine instantiated three times, "
        "_fd_get_poll_timeout with the int wrap; timeout values on a probe grid regenerated from fd.c); "
        "correspondence: the same adversary scripts through /repo's fd.c on a socketpair with the libc calls it "
        "makes wrapped (ASan+UBSan) and through the extracted model, comparing return value, errno, clock, every "
        "poll timeout asked for, calls made and the bytes that reached the other end; the properties evaluated "
        "directly on the implementation's answers")


# ----------------------------------------------------------------------------- data tokens
_gcache = {}


def gen_bytes(n, seed):
    k = (n, seed)
    if k not in _gcache:
        x = seed
        b = bytearray(n)
        for i in range(n):
            x = (x * 1103515245 + 12345) & 0x7fffffff
            b[i] = (x >> 16) & 255
        if len(_gcache) > 40:
            _gcache.clear()
        _gcache[k] = bytes(b)
    return _gcache[k]


def data_of(tok):
    if tok in ("-", "", "x"):
        return b""
    if tok[0] == "x":
        return bytes.fromhex(tok[1:])
    if tok[0] == "g":
        n, seed = tok[1:].split(":")
        return gen_bytes(int(n), int(seed))
    raise ValueError(tok)


def tok_of(rng, n):
    """a data token of n bytes: literal when small (readable replays), generated when large"""
    if n == 0:
        return "x"
    if n <= 48:
        return "x" + bytes(rng.getrandbits(8) for _ in range(n)).hex()
    return "g%d:%d" % (n, rng.randrange(1, 1 << 30))


# ----------------------------------------------------------------------------- case generation
def when_tok(us):
    return "-" if us is None else "%d:%d" % (us // 1000000, us % 1000000)


def ready(n, dt=0):
    return ["v%d:0" % dt] * n


def splits_to_ks(points, total):
    """cumulative offsets -> the k of each short transfer; the last transfer takes the rest"""
    ks, prev = [], 0
    for p in sorted(set(p for p in points if 0 < p < total)):
        ks.append(p - prev)
        prev = p
    ks.append(total - prev + 7)          # "more than is left": the kernel takes what there is
    return ks


def boundary_points(rng, lens, nsplit):
    """offsets inside the first element, exactly at element boundaries, just around them, inside the body"""
    total = sum(lens)
    cands = set()
    acc = 0
    for l in lens:
        for d in (-1, 0, 1):
            cands.add(acc + d)
        if l > 2:
            cands.add(acc + l // 2)
            cands.add(acc + rng.randrange(1, l))
        acc += l
    cands.update([1, 2, total - 1, total - 2])
    cands = sorted(c for c in cands if 0 < c < total)
    if not cands:
        return []
    return sorted(rng.sample(cands, min(nsplit, len(cands))))


def interleave_storm(rng, evs, kinds, density):
    out = []
    for e in evs:
        for _ in range(rng.randrange(0, density + 1)):
            out.append(rng.choice(kinds))
        out.append(e)
    return out


def line_v(skip, oom, when, t0, bufs, ps, ios):
    return "V %d %d %s %d %s %s %s" % (skip, oom, when_tok(when), t0, ",".join(bufs) or "-", ",".join(ps) or "-",
                                       ",".join(ios) or "-")


def line_n(skip, when, t0, buf, ps, ios):
    return "N %d %s %d %s %s %s" % (skip, when_tok(when), t0, buf, ",".join(ps) or "-", ",".join(ios) or "-")


def line_r(skip, when, t0, n, peer, ps, ios):
    return "R %d %s %d %d %s %s %s" % (skip, when_tok(when), t0, n, peer, ",".join(ps) or "-", ",".join(ios) or "-")


def random_script(rng, total, nmax, deadline_near):
    """events of every kind; transfers sized so that the call usually needs several"""
    ps, ios = [], []
    n = rng.randrange(1, nmax + 1)
    for _ in range(n):
        r = rng.random()
        dt = rng.choice([0, 0, 0, 1, 999, 1000, 1001, 250000, 700000, 1999000, 2000000, 2001000]) if deadline_near \
            else rng.choice([0, 0, 3, 1000])
        if r < 0.62:
            ps.append("v%d:0" % dt)
        elif r < 0.74:
            ps.append("i%d" % dt)
        elif r < 0.82:
            ps.append("a%d" % dt)
        elif r < 0.87:
            ps.append("t%d" % rng.choice([0, 0, 1, 50, 4000]))
        elif r < 0.93:
            ps.append("v%d:%d" % (dt, rng.choice([1, 2, 4, 3, 5, 6, 7])))
        else:
            ps.append("f%d" % dt)
    for _ in range(n + 1):
        r = rng.random()
        if r < 0.60:
            ios.append("k%d" % rng.choice([1, 2, 3, max(1, total // 7), max(1, total // 3), total, total + 5]))
        elif r < 0.75:
            ios.append("i")
        elif r < 0.88:
            ios.append("a")
        elif r < 0.94:
            ios.append("z")
        else:
            ios.append("e")
    return ps, ios


def gen_cases(ctx):
    rng = ctx.rng
    th = ctx.thorough
    cases = []          # (kind, line)
    add = lambda k, l: cases.append((k, l))
    far = T0 + TIMEOUT_US

    # ---- m_msg_send shapes: 11-byte header + body, 1..8 short writes at the boundaries
    bodies = [0, 1, 2, 10, 11, 12, 100, 255, 4096, 65536] + ([1 << 20] if not th else [1 << 20, (1 << 20) - 1, 300000])
    for body in bodies:
        lens = [HDR, body]
        reps = (1 if body >= (1 << 20) else 2 if body >= 65536 else 4) if not th else (4 if body >= 65536 else 12)
        for _ in range(reps):
            bufs = [tok_of(rng, HDR), tok_of(rng, body)]
            nsplit = rng.randrange(1, 9) if (th or body < (1 << 20)) else rng.randrange(2, 4)
            ks = splits_to_ks(boundary_points(rng, lens, nsplit), HDR + body)
            skip = rng.randrange(2)
            when = rng.choice([None, far, far])
            ios = ["k%d" % k for k in ks]
            add("send-shape-short-writes", line_v(skip, 0, when, T0, bufs, ready(len(ios) + 1), ios))
    # the three canonical places, each alone and all together
    for body in (5, 64, 1000):
        bufs = lambda: [tok_of(rng, HDR), tok_of(rng, body)]
        for pts in ([4], [HDR], [HDR + 3], [4, 7], [4, HDR], [HDR, HDR + 2], [4, 7, HDR + 1, HDR + 3], [3, HDR, HDR + 2, HDR + 4],
                    list(range(1, HDR + body))[:8]):
            ks = splits_to_ks(pts, HDR + body)
            for skip in (0, 1):
                add("send-shape-canonical", line_v(skip, 0, far, T0, bufs(), ready(len(ks) + 1), ["k%d" % k for k in ks]))
    # ---- general iovec shapes, empty elements included
    for _ in range(2500 if th else 90):
        cnt = rng.randrange(1, 7)
        lens = [rng.choice([0, 0, 1, 2, 3, 5, 8, 13, 40, 200]) for _ in range(cnt)]
        total = sum(lens)
        bufs = [tok_of(rng, l) for l in lens]
        ks = splits_to_ks(boundary_points(rng, lens, rng.randrange(0, 9)), total) if total else [1]
        ios = ["k%d" % k for k in ks]
        ps = ready(len(ios) + 1)
        if rng.random() < 0.5:
            ios = interleave_storm(rng, ios, ["i", "a", "i", "a", "z"], 2)
            ps = ready(len(ios) + 1)
            ps = interleave_storm(rng, ps, ["i0", "a0"], 1)
        add("iov-shapes", line_v(rng.randrange(2), 0, rng.choice([None, far]), T0, bufs, ps, ios))
    # ---- EINTR / EAGAIN storms (benign scripts: the call must still deliver everything)
    for _ in range(800 if th else 30):
        lens = [HDR, rng.choice([0, 7, 300, 5000])]
        total = sum(lens)
        ks = splits_to_ks(boundary_points(rng, lens, rng.randrange(1, 6)), total)
        ios = interleave_storm(rng, ["k%d" % k for k in ks], ["i", "a"], rng.choice([1, 3, 12]))
        ps = interleave_storm(rng, ready(len(ios) + 1), ["i0", "a0"], rng.choice([0, 2, 8]))
        fn = rng.random()
        when = rng.choice([None, far])
        if fn < 0.5:
            add("storm-writev", line_v(rng.randrange(2), 0, when, T0, [tok_of(rng, l) for l in lens], ps, ios))
        elif fn < 0.7:
            add("storm-write", line_n(rng.randrange(2), when, T0, tok_of(rng, total), ps, ios))
        else:
            add("storm-read", line_r(rng.randrange(2), when, T0, total, tok_of(rng, total + rng.choice([0, 0, 9])), ps, ios))
    # ---- timeouts at each point: j transfers succeed, then the peer stalls / time runs out inside a poll
    for total_body in (0, 20, 700):
        lens = [HDR, total_body]
        total = sum(lens)
        pts = boundary_points(rng, lens, 4)
        ks = splits_to_ks(pts, total)
        for j in range(len(ks) + 1):
            for mode in ("stall", "late", "slow", "creep"):
                if mode == "stall":      # nothing happens any more: poll times out on its own
                    ps = ready(j) + ["t0"]
                elif mode == "late":     # ... and wakes up late
                    ps = ready(j) + ["t%d" % rng.choice([1, 999, 50000])]
                elif mode == "slow":     # readiness arrives after the deadline
                    ps = ready(j) + ["v%d:0" % (TIMEOUT_US + rng.choice([1, 1000, 1999, 5000])), "v0:0", "v0:0"]
                else:                    # every wake-up costs 0.7 s: the deadline passes between two polls
                    ps = ["v700000:0"] * (len(ks) + 2)
                ios = ["k%d" % k for k in ks]
                bufs = [tok_of(rng, HDR), tok_of(rng, total_body)]
                add("timeout-points-writev", line_v(rng.randrange(2), 0, far, T0, bufs, ps, ios))
                add("timeout-points-read", line_r(rng.randrange(2), far, T0, total, tok_of(rng, total), ps, ios))
    # ---- fd_timed_read_n: header then body sizes, EOF at each point, short peer
    for _ in range(2000 if th else 70):
        n = rng.choice([HDR, HDR, 1, 2, 30, 257, 5000, 0])
        have = rng.choice([n, n, n + 5, max(0, n - 1), n // 2, 0])
        peer = tok_of(rng, have)
        pts = boundary_points(rng, [n], rng.randrange(0, 6)) if n else []
        ks = splits_to_ks(pts, n) if n else [1]
        ios = ["k%d" % k for k in ks]
        cut = rng.randrange(0, len(ios) + 1)
        r = rng.random()
        if r < 0.35:
            ios = ios[:cut] + ["z"] + ios[cut:]                # EOF, with more events behind it
        elif r < 0.45:
            ios = ios[:cut] + ["e"] + ios[cut:]
        elif r < 0.7:
            ios = interleave_storm(rng, ios, ["i", "a"], 2)
        add("read-eof-points", line_r(rng.randrange(2), rng.choice([None, far]), T0, n, peer, ready(len(ios) + 2), ios))
    if not th:
        add("read-large", line_r(1, far, T0, 1 << 20, "g%d:77" % (1 << 20), ready(4), ["k11", "k500000", "k%d" % (1 << 20)]))
    else:
        for _ in range(4):
            n = rng.choice([1 << 20, 65536, 300000])
            ks = splits_to_ks([rng.randrange(1, n) for _ in range(rng.randrange(1, 7))], n)
            add("read-large", line_r(1, far, T0, n, "g%d:%d" % (n, rng.randrange(1, 99999)), ready(len(ks) + 1), ["k%d" % k for k in ks]))
    # ---- poll revents flags, poll failures, malloc failure, empty iovec
    for fl in range(1, 8):
        for j in (0, 1):
            ps = ready(j) + ["v0:%d" % fl, "v0:0"]
            add("poll-flags", line_v(0, 0, far, T0, [tok_of(rng, HDR), tok_of(rng, 9)], ps, ["k4", "k99"]))
            add("poll-flags", line_n(0, far, T0, tok_of(rng, 20), ps, ["k4", "k99"]))
            add("poll-flags", line_r(0, far, T0, 20, tok_of(rng, 20), ps, ["k4", "k99"]))
    add("precheck", line_v(1, 1, far, T0, [tok_of(rng, HDR), tok_of(rng, 9)], ready(2), ["k99"]))
    add("precheck", line_v(1, 0, far, T0, [], ready(2), ["k99"]))
    add("precheck", line_v(0, 0, None, T0, ["x", "x"], ready(2), ["k99"]))
    add("precheck", line_r(0, None, T0, 4, "-", ["t0"], []))                       # FD_no_deadline_can_block
    # ---- the timeout arithmetic: every rounding case, {0,0}, the int wrap (witnesses of the _refuted theorems)
    for (wsec, wusec, nus) in [(10, 0, 9999000), (10, 0, 9999001), (10, 0, 9998999), (10, 999, 10000000), (10, 999, 9000999),
                               (10, 1000, 9001000), (10, 500000, 9500001), (10, 0, 10000000), (10, 0, 10000001), (9, 999999, 10000000)]:
        add("timeout-arith", line_r(0, wsec * 1000000 + wusec, nus, 4, "x01020304", ["i0", "v0:0", "t0"], ["k2"]))
    add("timeout-arith", "R 0 0:0 %d 4 x01020304 v0:0,v0:0 k2,k2" % T0)
    add("timeout-arith", "V 1 0 0:0 %d x0102,x03 v0:0,v0:0 k1,k2" % T0)
    add("timeout-wrap", "R 0 1697000000:0 1700000000000000 4 x01020304 t0 -")   # FD_past_deadline_zero_timeout_refuted
    add("timeout-wrap", "R 0 1703000000:0 1700000000000000 4 x01020304 v0:0 k4")
    # ---- random scripts (every event kind), near and far deadlines
    for _ in range(20000 if th else 450):
        fn = rng.random()
        t0 = T0 + rng.choice([0, 0, 1, 999999 - 250000, 750000])
        when = rng.choice([None, t0 + TIMEOUT_US, t0 + TIMEOUT_US, t0 + 1500, t0 + 1000, t0 - 1, t0, 0])
        if fn < 0.45:
            cnt = rng.randrange(1, 5)
            lens = [rng.choice([0, 1, 2, HDR, 30, 100]) for _ in range(cnt)]
            ps, ios = random_script(rng, max(1, sum(lens)), 10, True)
            add("random-writev", line_v(rng.randrange(2), 0, when, t0, [tok_of(rng, l) for l in lens], ps, ios))
        elif fn < 0.6:
            n = rng.choice([0, 1, HDR, 40, 300])
            ps, ios = random_script(rng, max(1, n), 10, True)
            add("random-write", line_n(rng.randrange(2), when, t0, tok_of(rng, n), ps, ios))
        else:
            n = rng.choice([0, 1, HDR, 40, 300])
            ps, ios = random_script(rng, max(1, n), 10, True)
            add("random-read", line_r(rng.randrange(2), when, t0, n, tok_of(rng, rng.choice([n, n, n + 3, n // 2])), ps, ios))
    return cases


# ----------------------------------------------------------------------------- the properties themselves
_OUT = re.compile(r"^([VNR]) rc=(-?\d+|B|H) errno=(\w+) clk=(-?\d+) np=(\d+) nio=(\d+) exh=([01]) tr=(\S+) out=(\d+):([0-9a-f]{32})(?::[0-9a-f]+)?"
                  r"(?: left=(\d+))?(.*)$")


def parse_case(line):
    f = line.split(" ")
    c = {"fn": f[0], "skip": int(f[1])}
    i = 2
    if f[0] == "V":
        c["oom"] = int(f[2]); i = 3
    c["when"] = None if f[i] == "-" else tuple(int(x) for x in f[i].split(":"))
    c["t0"] = int(f[i + 1])
    if f[0] == "V":
        c["bufs"] = [] if f[i + 2] == "-" else f[i + 2].split(",")
        j = i + 3
    elif f[0] == "N":
        c["bufs"] = [f[i + 2]]
        j = i + 3
    else:
        c["n"] = int(f[i + 2]); c["peer"] = f[i + 3]
        j = i + 4
    c["ps"] = [] if f[j] == "-" else f[j].split(",")
    c["ios"] = [] if f[j + 1] == "-" else f[j + 1].split(",")
    return c


def expected_timeout_ok(when, clk, ms):
    """the documented contract of _fd_get_poll_timeout, with the slack FD_poll_timeout_spec proves; None = not
    covered (deadline further than 2*10^12 us away: the int wraps, FD_past_deadline_zero_timeout_refuted)"""
    if when is None:
        return ms == -1
    if when == (0, 0):
        return ms == 0
    d = when[0] * 1000000 + when[1] - clk
    if abs(d) > RANGE_US or not (0 <= when[1] < 1000000):
        return None
    if d <= 0:
        return ms == 0
    return d <= ms * 1000 <= d + SLACK_US


def property_holds(line, out):
    """Evaluate the FD properties on the implementation's answer.  Returns None or (tag, explanation)."""
    c = parse_case(line)
    m = _OUT.match(out)
    if not m:
        return ("answer", "malformed harness answer %r" % out[:120])
    fn, rc, err, clk, npolls, nio, exh, tr, olen, omd5, left, flags = m.groups()
    clk, npolls, nio, olen = int(clk), int(npolls), int(nio), int(olen)
    if "hang=1" in flags:
        return ("hang", "the call made more than 4 million system calls on a script of %d events (spins)" % (len(c["ps"]) + len(c["ios"])))
    if "leak=" in flags:
        return ("leak", "memory allocated by the call was not freed when it returned (%s)" % flags.strip())
    if "badfree=" in flags:
        return ("leak", "the call freed memory it did not allocate (%s)" % flags.strip())
    if "over=1" in flags:
        return ("stream", "more than twice the message reached the peer")
    if "tail=1" in flags:
        return ("stream", "fd_timed_read_n wrote into the buffer beyond the bytes it read")
    if fn == "R":
        total = c["n"]
        src = data_of(c["peer"])
    else:
        src = b"".join(data_of(t) for t in c["bufs"])
        total = len(src)
    what = "the buffer" if fn == "R" else "the byte stream that reached the peer"
    # (1)/(2) prefix, in order, nothing duplicated or dropped
    if olen > len(src) or hashlib.md5(src[:olen]).hexdigest() != omd5:
        return ("stream", "%s (%d bytes) is not the first %d bytes of %s" % (
            what, olen, olen, "what the peer sent" if fn == "R" else "the concatenation of the iovec buffers"))
    precheck = fn == "V" and (not c["bufs"] or c["oom"])
    if rc not in ("B", "H", "-1"):
        k = int(rc)
        if k < 0 or k > total:
            return ("count", "return value %d outside 0..%d" % (k, total))
        if k != olen:
            return ("count", "return value %d but %d bytes %s" % (k, olen, "are in the buffer" if fn == "R" else "reached the peer"))
        if err == "ETIMEDOUT" and k >= total:
            return ("count", "errno == ETIMEDOUT with the full count %d: m_msg would discard a complete message" % k)
    else:
        if olen >= total and total > 0:
            return ("count", "the call reports failure (%s) although all %d bytes were transferred" % (rc, total))
        if rc == "B" and c["when"] is not None:
            return ("deadline", "poll was asked to wait for ever although a deadline was given")
    if fn == "R" and left is not None and int(left) + olen != len(src):
        return ("stream", "bytes taken from the socket (%d) differ from the bytes in the buffer (%d)" % (len(src) - int(left), olen))
    if precheck:
        if rc != "-1" or olen:
            return ("count", "pre-check failure expected (empty iovec / malloc failure), got rc=%s with %d bytes sent" % (rc, olen))
        return None
    # (3) every poll timeout; the deadline
    polls = [] if tr == "-" else [tuple(int(x) for x in p.split(":")) for p in tr.split(";")]
    covered = True
    for (pc, ms) in polls:
        ok = expected_timeout_ok(c["when"], pc, ms)
        if ok is None:
            covered = False
        elif not ok:
            return ("timeout", "poll at clock %d was asked for %d ms; the deadline %s leaves %s us" % (
                pc, ms, c["when"], "no limit" if c["when"] is None else c["when"][0] * 1000000 + c["when"][1] - pc))
    if clk < c["t0"]:
        return ("deadline", "clock went backwards")
    lates = [max(0, int(p[1:])) for p in c["ps"] if p[0] == "t"]
    q = max(lates) if lates else 0
    if c["when"] is not None and covered and rc != "B":
        if c["when"] == (0, 0):
            bound = c["t0"] + q
        else:
            dl = c["when"][0] * 1000000 + c["when"][1]
            bound = max(c["t0"], dl + SLACK_US) + q if abs(dl - c["t0"]) <= RANGE_US else None
        if bound is not None and clk > bound:
            return ("deadline", "the call returned at clock %d, later than max (start, deadline + %d us) + %d us = %d" % (
                clk, SLACK_US, q, bound))
    # with a deadline, a poll that reports a timeout is the last system call and the call says ETIMEDOUT
    if c["when"] is not None:
        for i, p in enumerate(c["ps"][:npolls]):
            if p[0] == "t":
                if i + 1 != npolls:
                    return ("timeout-final", "poll #%d of the script timed out, yet the call went on (%d polls made)" % (i, npolls))
                if err != "ETIMEDOUT":
                    return ("timeout-final", "poll #%d of the script timed out but the call returned errno %s (rc=%s): "
                            "m_msg cannot tell the timeout from a short transfer" % (i, err, rc))
                break
    # final events: nothing is read or written after EOF / an error
    played = c["ios"][:nio]
    for i, e in enumerate(played[:-1]):
        if e == "e" or (e == "z" and fn == "R"):
            return ("final", "%s #%d of the script was %s, yet the call went on to make %d more I/O call(s)" % (
                "read" if fn == "R" else "write", i, "end of file" if e == "z" else "an error", nio - i - 1))
    # (4) interruptions are harmless: a script of ready / EINTR / EAGAIN polls (immediate when there is a deadline)
    # and transferring / EINTR / EAGAIN I/O calls that is not used up must end with everything transferred
    benign_p = all(p[0] in "ia" or (p[0] == "v" and p.endswith(":0")) for p in c["ps"])
    benign_io = all(e[0] in "kia" for e in c["ios"])
    if c["when"] is None:
        timed_ok = True
    else:
        d = c["when"][0] * 1000000 + c["when"][1] - c["t0"]
        timed_ok = c["when"] != (0, 0) and 0 < d <= RANGE_US and all(int(p[1:].split(":")[0]) <= 0 for p in c["ps"])
    if benign_p and benign_io and timed_ok and exh == "0":
        if rc != str(total):
            return ("interrupt", "only ready/EINTR/EAGAIN events were played and the script was not used up, yet the call "
                    "returned %s (errno %s) with %d of %d bytes" % (rc, err, olen, total))
    return None


# ----------------------------------------------------------------------------- the phase
def _oracle_cmd(oracle):
    return ["bash", "-c", "ulimit -s unlimited 2>/dev/null || ulimit -s 4000000 2>/dev/null; exec " + oracle]


def fd_phase(ctx):
    """Proves Properties_FD.v, ties FdModel to /repo's fd.c and evaluates the FD properties on the implementation.
    Records violations in ctx.  Returns {'ok', 'proved', 'cases', 'direct_fail', 'mismatches'}."""
    result = {"ok": False, "proved": False, "cases": 0, "direct_fail": [], "mismatches": []}
    prev_ok = ctx.proof_ok
    prev_broken = getattr(ctx, "broken_obligation", None)
    ctx.cov["rule"] = (ctx.cov.get("rule") or "") + (" || " if ctx.cov.get("rule") else "") + RULE

    # the proofs run in a thread while the harness is built and the implementation is exercised
    box = {}

    def _prove():
        try:
            box["proved"] = vlib.prove(ctx, ["Properties_FD.v", "Properties_FD_src.v"], facts=["fd", "fdfun"])
        except Exception as e:          # noqa: BLE001
            box["proved"] = False
            box["exc"] = repr(e)
    th = threading.Thread(target=_prove)
    th.start()

    src = [os.path.join(vlib.HARNESS, "fd_harness.c"), os.path.join(vlib.REPO, "src/libcommon/fd.c")]
    exe, err = vlib.cc(ctx, "fdh", src, extra=WRAP, libs=["-lcrypto"])
    cases = gen_cases(ctx)
    replay = getattr(ctx, "replay", None)
    if replay:
        try:
            r = json.load(open(replay))
        except Exception:               # noqa: BLE001
            r = {}
        if r.get("component") == "fd" and "case_line" in r:
            cases = [("replay", r["case_line"])]
    lines = [l for (_, l) in cases]
    dist = {}
    for k, _ in cases:
        dist["fd:" + k] = dist.get("fd:" + k, 0) + 1
    ctx.cov.setdefault("input_distribution", {}).update(dist)
    result["cases"] = len(lines)

    impl, rc, stderr = None, 0, ""
    if exe is not None:
        rc, impl, stderr = vlib.run_lines([exe], lines, timeout=900 if ctx.thorough else 240)
        ctx.log("fd.c ran %d scripts rc=%d" % (len(lines), rc))

    th.join()
    proved = bool(box.get("proved"))
    result["proved"] = proved
    fd_broken = None if proved else (getattr(ctx, "broken_obligation", None) or box.get("exc") or "Properties_FD.v")
    if prev_ok is False:                # the caller's own proofs had already failed: keep its diagnosis
        ctx.proof_ok = False
        if prev_broken:
            ctx.broken_obligation = prev_broken
    ctx.log("FD proofs:", "ok" if proved else "BROKEN: %s" % fd_broken)

    if exe is None:
        ctx.violation("fd harness does not build against /repo (fd.c interface changed?): " + err[-500:],
                      {"obligation": "correspondence FdModel ~ fd.c (build)", "component": "fd", "stderr": err},
                      found_input=False)
        return result

    def crash_violation(idx, stderr_txt, rc_):
        l = lines[idx]
        m = re.search(r"(heap-buffer-overflow|stack-buffer-overflow|heap-use-after-free|SEGV|double-free|runtime error|"
                      r"LeakSanitizer)[^\n]*", stderr_txt)
        ctx.violation("fd.c aborts under ASan/UBSan on adversary script #%d (%s): %s" % (
            idx, m.group(0)[:160] if m else "rc=%d" % rc_, l[:200]),
            {"case_line": l, "component": "fd", "case_kind": cases[idx][0], "stderr": stderr_txt[-3000:], "rc": rc_})

    if rc != 0 or len(impl) != len(lines):
        idx = min(len(impl), len(lines) - 1)
        # confirm on the single case (the output of the crashing case may have been lost in the pipe)
        r1, o1, e1 = vlib.run_lines([exe], [lines[idx]], timeout=30)
        if r1 == 0 and o1:
            # not reproducible alone: look for the first case that fails on its own nearby
            for j in range(max(0, idx - 3), min(len(lines), idx + 4)):
                r1, o1, e1 = vlib.run_lines([exe], [lines[j]], timeout=30)
                if r1 != 0 or not o1:
                    idx = j
                    break
        crash_violation(idx, e1 if (r1 != 0 or not o1) else stderr, r1 if r1 else rc)
        return result

    direct = []
    for (kind, l), o in zip(cases, impl):
        ctx.count(l)
        why = property_holds(l, o)
        if why:
            direct.append((l, o, why, kind))
    for i in (0, 1, len(lines) // 3, len(lines) // 2, len(lines) - 2, len(lines) - 1):
        if 0 <= i < len(lines):
            ctx.sample(lines[i][:300])

    mismatches = []
    oracle = vlib.build_oracle(ctx, "fd")
    if oracle is None:
        ctx.violation("oracle for group fd does not build", {"obligation": "oracle build", "component": "fd",
                                                               "notes": ctx.notes[-1:]}, found_input=False)
    else:
        rc2, mod, err2 = vlib.run_lines(_oracle_cmd(oracle), lines, timeout=1500)
        if rc2 != 0 or len(mod) != len(lines):
            ctx.violation("fd oracle failed to run: rc=%d %s" % (rc2, err2[-300:]), {"obligation": "oracle run", "component": "fd"},
                          found_input=False)
        else:
            for (kind, l), a, b in zip(cases, impl, mod):
                if a != b:
                    mismatches.append((l, a, b, kind))
            ctx.cov["traces_validated_against_impl"] = ctx.cov.get("traces_validated_against_impl", 0) + len(lines)
            ctx.log("FdModel ran %d scripts, %d mismatches, %d direct property failures" % (len(lines), len(mismatches), len(direct)))
    result["direct_fail"], result["mismatches"] = direct, mismatches

    if direct:
        direct.sort(key=lambda x: len(x[0]))          # the shortest failing script makes the best replay
        l, o, why, kind = direct[0]
        model_line = next((b for (ml, a, b, _) in mismatches if ml == l), None)
        ctx.violation("fd.c [%s] %s: script %s -> %s (%d failing scripts of %d)" % (why[0], why[1], l[:200], o[:200],
                                                                                    len(direct), len(lines)),
                      {"case_line": l, "component": "fd", "case_kind": kind, "impl_output": o[:2000], "model_output": model_line,
                       "why": why[1], "kind": why[0], "n_failing": len(direct),
                       "more": [(x[0][:300], x[1][:200], x[2][1]) for x in direct[1:5]]})
    elif mismatches:
        mismatches.sort(key=lambda x: len(x[0]))
        l, a, b, kind = mismatches[0]
        ctx.violation("FdModel and fd.c disagree on %d scripts (first: %s impl=%s model=%s) although the properties "
                      "evaluated directly on the implementation hold on all %d" % (len(mismatches), l[:200], a[:200], b[:200], len(lines)),
                      {"obligation": "correspondence FdModel ~ fd.c", "component": "fd", "case_line": l, "case_kind": kind,
                       "impl": a[:2000], "model": b[:2000], "n_mismatches": len(mismatches)}, found_input=False)
    elif not proved:
        ctx.violation("proof obligation no longer checks: %s" % fd_broken,
                      {"obligation": fd_broken, "component": "fd", "log": ctx.proof_log[-3000:], "exc": box.get("exc")},
                      found_input=False)
    result["ok"] = proved and not direct and not mismatches and oracle is not None
    return result


if __name__ == "__main__":
    # development runner (no property id, no evidence file): python3 tools/props/fd_common.py [quick|thorough] [replay.json]
    _tier = sys.argv[1] if len(sys.argv) > 1 else "quick"
    _ctx = vlib.Ctx("FDDEV", _tier, int(os.environ.get("VERIF_SEED", "1")))
    _ctx.replay = sys.argv[2] if len(sys.argv) > 2 else None
    _res = fd_phase(_ctx)
    for (_p, _what, _found) in _ctx.violations:
        print("VIOLATION component=fd replay=%s%s\n  -> %s" % (_p, "" if _found else " no-failing-input-found", _what[:600]))
    print("%s cases=%d proved=%s obligations=%d/%d direct=%d mismatches=%d wall=%.1fs" % (
        "OK" if _res["ok"] and not _ctx.violations else "FAIL", _res["cases"], _res["proved"], _ctx.cov["discharged"],
        _ctx.cov["obligations"], len(_res["direct_fail"]), len(_res["mismatches"]), __import__("time").time() - _ctx.t0))
    sys.exit(0 if _res["ok"] and not _ctx.violations else 1)
