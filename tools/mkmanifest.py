#!/usr/bin/env python3
"""Writes MANIFEST.json from the table below (kept in one place so it stays valid)."""
import json, os
V = os.path.dirname(os.path.dirname(os.path.abspath(__file__)))
props = [json.loads(l)["id"] for l in open(os.path.join(V, "properties.jsonl"))]

CHECKS = {
 "C19": dict(
    level=("proof", "Nine Coq theorems over an executable model of base64.c whose tables are regenerated from the "
           "source on every run (round trip, RFC 4648 canonicity, chunking independence, exact accept language, "
           "encode/decode write bounds), for all byte strings and all partitions; tied to the code by running "
           "model (extracted) and base64.c (ASan, exact-size buffers) on >130k aimed cases per run.", "7 C19"),
    note="Trusted: Coq kernel+vm_compute, gen_facts probe, extraction (ExtrOcamlBasic), harness/driver glue; "
         "the C code itself is modelled, tied by differential testing, not verified.",
    technique="Coq proof (induction + finite sweeps lifted by lemma) + translator for tables + differential correspondence"),
}
NOT_YET = "check not built yet (work in progress, see DESIGN.md sec. 10)"

m = {
 "version": 1,
 "setup_cmd": "make -C /verif all",
 "hooks": {"guard": "DUN_MUNGE_VERIF",
           "enable": "checks compile /repo sources directly with -DDUN_MUNGE_VERIF (no hook is needed in the sources so far)",
           "baseline_off_cmd": "bash /verif/tools/baseline_off.sh",
           "source_commits": [], "add_only": True},
 "engines": [{"name": "coq", "path": "/verif/coq", "serves_properties": sorted(CHECKS),
              "kind_free_text": "Coq 8.16.1 development: executable models, proofs, Properties_Cxx.v"},
             {"name": "oracle", "path": "/verif/extract", "serves_properties": sorted(CHECKS),
              "kind_free_text": "models extracted to OCaml, run against the C code on the same cases"}],
 "checks": [], "not_applicable": [],
 "notes": "Every check = regenerate facts from /repo, rebuild proofs, rebuild harness from /repo, run correspondence, search on break.",
}
for p in props:
    if p in CHECKS:
        c = CHECKS[p]
        m["checks"].append({
            "property_id": p,
            "quick_cmd": "python3 tools/check.py %s --tier quick" % p,
            "thorough_cmd": "python3 tools/check.py %s --tier thorough" % p,
            "evidence_file": "/verif/evidence/%s.json" % p,
            "replay_cmd_template": "python3 tools/check.py %s --replay {path}" % p,
            "engine": "coq",
            "level_claimed": {"category": c["level"][0], "text": c["level"][1], "design_ref": c["level"][2]},
            "level_note": c["note"], "technique": c["technique"]})
    else:
        m["not_applicable"].append({"property_id": p, "reason": NOT_YET})
json.dump(m, open(os.path.join(V, "MANIFEST.json"), "w"), indent=1)
print("wrote MANIFEST.json with %d checks" % len(m["checks"]))
