#!/usr/bin/env python3
"""Writes MANIFEST.json from the table below (kept in one place so it stays valid)."""
import json, os
V = os.path.dirname(os.path.dirname(os.path.abspath(__file__)))
props = [json.loads(l)["id"] for l in open(os.path.join(V, "properties.jsonl"))]

import importlib.util, sys
sys.path.insert(0, os.path.join(V, "tools"))
CHECKS = {}
NA = {}
# checks the maintainer has run green on the unchanged tree (one id per line)
ENABLED = set(open(os.path.join(V, 'tools', 'enabled.txt')).read().split())
for fn in sorted(os.listdir(os.path.join(V, "tools", "props"))):
    if fn.startswith("c") and fn.endswith(".py"):
        spec = importlib.util.spec_from_file_location("props." + fn[:-3], os.path.join(V, "tools", "props", fn))
        mod = importlib.util.module_from_spec(spec); spec.loader.exec_module(mod)
        e = getattr(mod, "MANIFEST", None)
        if e and fn[:-3].upper() in ENABLED:
            CHECKS[fn[:-3].upper()] = e
        n = getattr(mod, "NOT_APPLICABLE", None)
        if n:
            NA[fn[:-3].upper()] = n
NOT_YET = "check not built yet (work in progress, see DESIGN.md sec. 10)"

m = {
 "version": 1,
 "setup_cmd": "make -C /verif all",
 "hooks": {"guard": "DUN_MUNGE_VERIF",
           "enable": "checks compile /repo sources directly with -DDUN_MUNGE_VERIF (no hook is needed in the sources so far)",
           "baseline_off_cmd": "bash /verif/tools/baseline_off.sh",
           "source_commits": [], "add_only": True},
 "engines": [{"name": "coq", "path": "/verif/coq", "serves_properties": sorted(CHECKS),
              "kind_free_text": "Coq 8.16.1 development: executable models, proofs, Properties_Cxx.v"},
             {"name": "oracle", "path": "/verif/extract", "serves_properties": sorted(CHECKS),
              "kind_free_text": "models extracted to OCaml, run against the C code on the same cases"}],
 "checks": [], "not_applicable": [],
 "notes": "Every check = regenerate facts from /repo, rebuild proofs, rebuild harness from /repo, run correspondence, search on break.",
}
for p in props:
    if p in CHECKS:
        c = CHECKS[p]
        m["checks"].append({
            "property_id": p,
            "quick_cmd": "python3 tools/check.py %s --tier quick" % p,
            "thorough_cmd": "python3 tools/check.py %s --tier thorough" % p,
            "evidence_file": "/verif/evidence/%s.json" % p,
            "replay_cmd_template": "python3 tools/check.py %s --replay {path}" % p,
            "engine": "coq",
            "level_claimed": {"category": c["level"][0], "text": c["level"][1], "design_ref": c["level"][2]},
            "level_note": c["note"], "technique": c["technique"]})
    else:
        m["not_applicable"].append({"property_id": p, "reason": NA.get(p, NOT_YET)})
json.dump(m, open(os.path.join(V, "MANIFEST.json"), "w"), indent=1)
print("wrote MANIFEST.json with %d checks" % len(m["checks"]))
