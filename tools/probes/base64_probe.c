/* Prints the base64 tables of /repo's base64.c as a Coq file. */
#include <stdio.h>
#include "base64.c"
int main(void) {
    int i;
    printf("(* GENERATED from src/munged/base64.c by tools/gen_facts.py - do not edit *)\n");
    printf("From Coq Require Import List NArith.\nImport ListNotations.\nLocal Open Scope N_scope.\n");
    printf("Definition asc2bin_tab : list N := [");
    for (i = 0; i < 256; i++) printf("%s%u", i ? "; " : "", (unsigned) asc2bin[i]);
    printf("].\nDefinition bin2asc_tab : list N := [");
    for (i = 0; i < (int) sizeof(bin2asc) - 1; i++) printf("%s%u", i ? "; " : "", (unsigned) bin2asc[i]);
    printf("].\n");
    printf("Definition b64_ign : N := %u.\nDefinition b64_pad : N := %u.\nDefinition b64_err : N := %u.\nDefinition b64_pad_char : N := %u.\n",
           (unsigned) BASE64_IGN, (unsigned) BASE64_PAD, (unsigned) BASE64_ERR, (unsigned) BASE64_PAD_CHAR);
    return 0;
}
