/* start_seed_probe.c — runs /repo's random.c (_random_read_seed, _random_write_seed) on real files and prints, as
 * a continuation of coq/gen/GenStart.v:
 *   - whether reading a seed file that is EMPTY or SHORTER than RANDOM_SEED_BYTES (what a munged SIGKILLed between
 *     open(seed, O_CREAT|O_TRUNC) and write() of its shutdown leaves behind) returns, and whether reading a complete
 *     or longer one returns (each in a child under alarm(): a spinning read loop is a `false`);
 *   - what _random_write_seed asks the kernel for (unlink first?  open flags and mode), whether it creates a missing
 *     seed file, and whether it RENEWS an existing one (different inode or different bytes afterwards, complete). */
#include "config.h"
#include <errno.h>
#include <fcntl.h>
#include <signal.h>
#include <stdarg.h>
#include <stdio.h>
#include <stdlib.h>
#include <string.h>
#include <sys/stat.h>
#include <sys/wait.h>
#include <unistd.h>

static int n_unlink, n_open_w, open_flags, open_mode, unlink_before_open;
static int p_unlink(const char *p) { n_unlink++; if (!n_open_w) unlink_before_open++; return unlink(p); }
static int p_open(const char *path, int flags, ...) {
    va_list ap; int mode = 0;
    va_start(ap, flags); if (flags & O_CREAT) mode = va_arg(ap, int); va_end(ap);
    if ((flags & O_ACCMODE) != O_RDONLY && n_open_w++ == 0) { open_flags = flags; open_mode = mode; }
    return open(path, flags, mode);
}
static void p_fatal(int a, int b, const char *f, ...) { _exit(3); }
static void p_eow(int force, const char *f, ...) { }
static void p_msg(int pri, const char *f, ...) { }
static long p_timer(void (*cb)(void *), void *arg, long ms) { return 1; }
static int p_cancel(long id) { return 0; }
static int p_dirname(const char *s, char *d, size_t n) { char *q; snprintf(d, n, "%s", s); q = strrchr(d, '/'); if (q) *q = 0; return 0; }
static int p_secure(const char *p, char *e, size_t n, int fl) { return 1; }
static int p_entropy(void *b, size_t n, const char **src) { return -1; }
static int p_entropy_uint(unsigned *u) { return -1; }

#include "common.h"
#include "conf.h"
#include "crypto.h"
#include "entropy.h"
#include "log.h"
#include "munge_defs.h"
#include "path.h"
#include "random.h"
#include "timer.h"
struct conf probe_conf;
conf_t conf = &probe_conf;

#define unlink p_unlink
#define open p_open
#define log_err p_fatal
#define log_errno p_fatal
#define log_err_or_warn p_eow
#define log_msg p_msg
#define timer_set_relative p_timer
#define timer_cancel p_cancel
#define path_dirname p_dirname
#define path_is_secure p_secure
#define entropy_read p_entropy
#define entropy_read_uint p_entropy_uint
#include "random.c"
#undef unlink
#undef open

static const char *B(int x) { return x ? "true" : "false"; }

static int make_file(const char *f, size_t size) {
    int fd = open(f, O_WRONLY | O_CREAT | O_TRUNC, 0600);
    size_t i;
    if (fd < 0) return -1;
    for (i = 0; i < size; i++) { unsigned char c = (unsigned char) (i * 7 + 3); if (write(fd, &c, 1) != 1) return -1; }
    return close(fd);
}

/* 1 = returned the expected count in time, 0 = hung or wrong */
static int read_ok(const char *f, size_t size) {
    pid_t pid;
    int st;
    if (make_file(f, size) < 0) return 0;
    pid = fork();
    if (pid == 0) {
        int n, want = size < RANDOM_SEED_BYTES ? (int) size : RANDOM_SEED_BYTES;
        alarm(3);
        n = _random_read_seed(f, RANDOM_SEED_BYTES);
        _exit(n == want ? 0 : 1);
    }
    if (waitpid(pid, &st, 0) < 0) return 0;
    unlink(f);
    return WIFEXITED(st) && WEXITSTATUS(st) == 0;
}

int main(void) {
    char dir[] = "/tmp/verif-seedprobe-XXXXXX";
    char f[256];
    size_t shorts[] = {0, 1, 512, RANDOM_SEED_BYTES - 1}, fulls[] = {RANDOM_SEED_BYTES, RANDOM_SEED_BYTES + 1, 5000};
    unsigned i;
    int short_ok = 1, full_ok = 1, creates, renews, n, bad_keeps = 0, bad_removed = 0, good_ret = -1, absent_ret = -1;
    struct stat a, b;
    unsigned char old[RANDOM_SEED_BYTES], new[RANDOM_SEED_BYTES];
    if (!mkdtemp(dir)) return 2;
    chmod(dir, 0700);
    snprintf(f, sizeof f, "%s/seed", dir);
    for (i = 0; i < sizeof shorts / sizeof shorts[0]; i++) short_ok &= read_ok(f, shorts[i]);
    for (i = 0; i < sizeof fulls / sizeof fulls[0]; i++) full_ok &= read_ok(f, fulls[i]);
    /* write: missing file */
    n_unlink = n_open_w = unlink_before_open = 0;
    n = _random_write_seed(f, RANDOM_SEED_BYTES);
    creates = (n == RANDOM_SEED_BYTES) && stat(f, &a) == 0 && a.st_size == RANDOM_SEED_BYTES;
    /* write: existing complete file */
    {
        int fd = open(f, O_RDONLY); memset(old, 0, sizeof old);
        if (fd >= 0) { if (read(fd, old, sizeof old) < 0) { } close(fd); }
    }
    (void) _random_write_seed(f, RANDOM_SEED_BYTES);
    renews = 0;
    if (stat(f, &b) == 0 && b.st_size == RANDOM_SEED_BYTES) {
        int fd = open(f, O_RDONLY); memset(new, 0, sizeof new);
        if (fd >= 0) { if (read(fd, new, sizeof new) < 0) { } close(fd); }
        renews = memcmp(old, new, sizeof old) != 0;
    }
    unlink(f);
    /* start-up on an untrusted seed file (wrong mode, foreign owner, symbolic link): the file must be removed and the
       caller must NOT be told to forget the seed path (a negative return makes main() drop seed_name: no seed is
       written at the clean stop) */
    {
        char tgt[300]; int r1, r2, r3, r4, gone = 1; struct stat st;
        snprintf(tgt, sizeof tgt, "%s/target", dir);
        make_file(f, RANDOM_SEED_BYTES); chmod(f, 0644);
        r1 = _random_read_entropy_from_file(f); gone &= (lstat(f, &st) != 0); unlink(f);
        make_file(f, RANDOM_SEED_BYTES); chmod(f, 0660);
        r2 = _random_read_entropy_from_file(f); gone &= (lstat(f, &st) != 0); unlink(f);
        make_file(f, RANDOM_SEED_BYTES); if (chown(f, 4242, 4242) != 0) { }
        r3 = _random_read_entropy_from_file(f); gone &= (geteuid() != 0) || (lstat(f, &st) != 0); unlink(f);
        make_file(tgt, RANDOM_SEED_BYTES); if (symlink(tgt, f) != 0) { }
        r4 = _random_read_entropy_from_file(f); gone &= (lstat(f, &st) != 0); unlink(f); unlink(tgt);
        bad_keeps = (r1 >= 0) && (r2 >= 0) && (r3 >= 0) && (r4 >= 0);
        bad_removed = gone;
        make_file(f, RANDOM_SEED_BYTES);
        good_ret = _random_read_entropy_from_file(f); unlink(f);
        absent_ret = _random_read_entropy_from_file(f);
    }
    rmdir(dir);
    printf("(* random.c, observed by tools/probes/start_seed_probe.c *)\n");
    printf("Definition seed_bytes : N := %d.\n", RANDOM_SEED_BYTES);
    printf("(* _random_read_seed returns on an empty / short seed file (sizes 0, 1, 512, seed_bytes-1), on a complete or longer one *)\n");
    printf("Definition seed_read_short_returns : bool := %s.\n", B(short_ok));
    printf("Definition seed_read_full_returns : bool := %s.\n", B(full_ok));
    printf("(* _random_write_seed: unlink calls before its open; flags and mode of the open; outcome *)\n");
    printf("Definition seed_write_unlinks_first : N := %d.\n", unlink_before_open);
    printf("Definition seed_open_creat : bool := %s.\n", B(open_flags & O_CREAT));
    printf("Definition seed_open_trunc : bool := %s.\n", B(open_flags & O_TRUNC));
    printf("Definition seed_open_excl : bool := %s.\n", B(open_flags & O_EXCL));
    printf("Definition seed_create_mode : N := %u.\n", (unsigned) open_mode & 07777);
    printf("Definition seed_write_creates_missing : bool := %s.\n", B(creates));
    printf("Definition seed_write_renews_existing : bool := %s.\n", B(renews));
    printf("(* _random_read_entropy_from_file at start-up: on an absent and on a good seed file it does not return < 0; on an\n"
           "   untrusted one (mode 0644 / 0660, foreign owner, symbolic link) it removes the file and does not return < 0 either\n"
           "   (< 0 makes main() forget the seed path: no seed would be written at the clean stop) *)\n");
    printf("Definition seed_start_ok_keeps_path : bool := %s.\n", B(good_ret >= 0 && absent_ret >= 0));
    printf("Definition seed_start_bad_keeps_path : bool := %s.\n", B(bad_keeps));
    printf("Definition seed_start_bad_removed : bool := %s.\n", B(bad_removed));
    return 0;
}
