/* Prints constants and algorithm tables of the credential pipeline as a Coq file. */
#include <stdio.h>
#include <string.h>
#include <munge.h>
#include "munge_defs.h"
#include "cipher.h"
#include "mac.h"
#include "md.h"
#include "zip.h"
#include "cred.h"
#include "m_msg.h"
#include "crypto.h"

static void pstr(const char *name, const char *s) {
    size_t i; printf("Definition %s : list N := [", name);
    for (i = 0; i < strlen(s); i++) printf("%s%u", i ? "; " : "", (unsigned char) s[i]);
    printf("].\n");
}
int main(void) {
    int i;
    crypto_init();
    cipher_init_subsystem();
    md_init_subsystem();
    printf("(* GENERATED from /repo headers and the running cipher/mac/zip code by tools/gen_facts.py - do not edit *)\n");
    printf("From Coq Require Import List NArith ZArith.\nImport ListNotations.\nLocal Open Scope N_scope.\n");
    /* per code 0..255: (valid, key_size, block_size, iv_size); sizes 0 when invalid/negative */
    printf("Definition cipher_tab : list (bool * N * N * N) := [");
    for (i = 0; i < 256; i++) {
        int v = cipher_map_enum(i, NULL) >= 0;
        int k = cipher_key_size(i), b = cipher_block_size(i), iv = cipher_iv_size(i);
        printf("%s(%s, %d, %d, %d)", i ? "; " : "", v ? "true" : "false", k > 0 ? k : 0, b > 0 ? b : 0, iv > 0 ? iv : 0);
    }
    printf("].\nDefinition mac_tab : list (bool * N) := [");
    for (i = 0; i < 256; i++) {
        int v = mac_map_enum(i, NULL) >= 0; int s = mac_size(i);
        printf("%s(%s, %d)", i ? "; " : "", v ? "true" : "false", s > 0 ? s : 0);
    }
    printf("].\nDefinition zip_tab : list bool := [");
    for (i = 0; i < 256; i++) printf("%s%s", i ? "; " : "", zip_is_valid_type(i) ? "true" : "false");
    printf("].\n");
#define C(n, v) printf("Definition %s : N := %lu.\n", n, (unsigned long)(v))
    C("c_cipher_none", MUNGE_CIPHER_NONE); C("c_cipher_default", MUNGE_CIPHER_DEFAULT);
    C("c_mac_none", MUNGE_MAC_NONE); C("c_mac_default", MUNGE_MAC_DEFAULT);
    C("c_zip_none", MUNGE_ZIP_NONE); C("c_zip_default", MUNGE_ZIP_DEFAULT);
    C("c_def_cipher", MUNGE_DEFAULT_CIPHER); C("c_def_mac", MUNGE_DEFAULT_MAC);
    C("c_def_zip", zip_select_default_type(MUNGE_DEFAULT_ZIP));
    C("c_def_ttl", MUNGE_DEFAULT_TTL); C("c_max_ttl", MUNGE_MAXIMUM_TTL);
    C("c_ttl_default", (uint32_t) MUNGE_TTL_DEFAULT); C("c_ttl_maximum", (uint32_t) MUNGE_TTL_MAXIMUM);
    C("c_uid_any", (uint32_t) MUNGE_UID_ANY); C("c_gid_any", (uint32_t) MUNGE_GID_ANY);
    C("c_salt_len", MUNGE_CRED_SALT_LEN); C("c_cred_version", MUNGE_CRED_VERSION);
    C("c_retry_attempts", MUNGE_SOCKET_RETRY_ATTEMPTS); C("c_retry_flag", MUNGE_SOCKET_RETRY_FLAG);
    C("c_root_auth_flag", MUNGE_AUTH_ROOT_ALLOW_FLAG);
    C("c_max_req_len", MUNGE_MAXIMUM_REQ_LEN); C("c_zip_magic", 0xCACACACAUL);
    C("c_key_min_bytes", MUNGE_KEY_LEN_MIN_BYTES);
    C("c_addr_size", sizeof(((struct m_msg *)0)->addr));
    C("c_subkey_hash", MUNGE_MAC_SHA1);
    C("e_success", EMUNGE_SUCCESS); C("e_snafu", EMUNGE_SNAFU); C("e_bad_arg", EMUNGE_BAD_ARG);
    C("e_bad_length", EMUNGE_BAD_LENGTH); C("e_no_memory", EMUNGE_NO_MEMORY); C("e_socket", EMUNGE_SOCKET);
    C("e_bad_cred", EMUNGE_BAD_CRED); C("e_bad_version", EMUNGE_BAD_VERSION); C("e_bad_cipher", EMUNGE_BAD_CIPHER);
    C("e_bad_mac", EMUNGE_BAD_MAC); C("e_bad_zip", EMUNGE_BAD_ZIP); C("e_cred_invalid", EMUNGE_CRED_INVALID);
    C("e_cred_expired", EMUNGE_CRED_EXPIRED); C("e_cred_rewound", EMUNGE_CRED_REWOUND);
    C("e_cred_replayed", EMUNGE_CRED_REPLAYED); C("e_cred_unauthorized", EMUNGE_CRED_UNAUTHORIZED);
    pstr("c_prefix", MUNGE_CRED_PREFIX); pstr("c_suffix", MUNGE_CRED_SUFFIX);
    printf("Definition strerror_tab : list (list N) := [");
    for (i = 0; i < 20; i++) {
        const char *s = munge_strerror(i); size_t j;
        printf("%s[", i ? "; " : "");
        for (j = 0; j < strlen(s); j++) printf("%s%u", j ? "; " : "", (unsigned char) s[j]);
        printf("]");
    }
    printf("].\n");
    return 0;
}
