/* Measures the PRNG stir schedule of /repo's random.c by RUNNING it (the file is #included so that its statics
   can be set; entropy sources, path checks and the timer API are the probe's own):
     - for several amounts of seed entropy (kernel 128 bytes + seed file of k bytes + 4 process bytes): whether
       random_init arms the stir timer and with which first delay (low 10 bits of the entropy word = 0);
     - for every interval value a power of two up to the maximum (and the maximum): the delay the callback
       re-arms with; the stagger added for an all-ones entropy word.
   tools/facts/timer.py passes the private macros of random.c as -DPROBE_... (replacement texts from gcc -E -dM). */
#define _GNU_SOURCE 1
#include <stdarg.h>
#include <stdio.h>
#include <stdlib.h>
#include <string.h>
#include <unistd.h>
#include <sys/stat.h>
#include <fcntl.h>

static unsigned probe_word;            /* what entropy_read_uint hands out */
static int probe_kernel_bytes = 128;
static long armed_ms = -1; static int n_sets; static void (*armed_cb)(void *);

#include "random.c"

struct conf the_conf; conf_t conf = &the_conf;
void log_msg (int p, const char *f, ...) { (void) p; (void) f; }
void log_err (int s, int p, const char *f, ...) { fprintf (stderr, "probe: log_err: %s\n", f); exit (3); }
void log_errno (int s, int p, const char *f, ...) { fprintf (stderr, "probe: log_errno: %s\n", f); exit (3); }
void log_err_or_warn (int w, const char *f, ...) { (void) w; (void) f; }
int entropy_read (void *buf, size_t buflen, const char **srcp) {
    size_t i, n = (size_t) probe_kernel_bytes < buflen ? (size_t) probe_kernel_bytes : buflen;
    for (i = 0; i < n; i++) ((unsigned char *) buf)[i] = (unsigned char) (i * 37 + 11);
    if (srcp) *srcp = "probe";
    return (int) n;
}
int entropy_read_uint (unsigned *up) { *up = probe_word; return 0; }
int path_dirname (const char *src, char *dst, size_t dstlen) { snprintf (dst, dstlen, "/"); return 0; }
int path_is_secure (const char *path, char *errbuf, size_t errbuflen, path_security_flag_t flags) { return 1; }
ssize_t fd_read_n (int fd, void *buf, size_t n) {
    size_t got = 0; ssize_t r;
    while (got < n && (r = read (fd, (char *) buf + got, n - got)) > 0) got += r;
    return (ssize_t) got;
}
ssize_t fd_write_n (int fd, const void *buf, size_t n) { return write (fd, buf, n); }
long timer_set_relative (callback_f cb, void *arg, long msec) { armed_ms = msec; armed_cb = cb; n_sets++; return n_sets; }
int timer_cancel (long id) { (void) id; return 0; }

static char dir[] = "/tmp/verif-stirprobe-XXXXXX"; static char path[128];
static void seed_file (int k) {
    unlink (path);
    if (k >= 0) {
        int fd = open (path, O_WRONLY | O_CREAT | O_TRUNC, 0600), i; unsigned char b[4096];
        for (i = 0; i < k; i++) b[i] = (unsigned char) (i * 101 + 7);
        if (fd < 0 || write (fd, b, k) != k) { perror ("seed"); exit (3); }
        close (fd);
    }
}

int main (void) {
    int ks[] = { -1, 0, 100, PROBE_WANTED - 128 - 4 - 1, PROBE_WANTED - 128 - 4, PROBE_SEED_BYTES, 4000 }, i;
    long s;
    if (!mkdtemp (dir)) { perror ("mkdtemp"); return 3; }
    snprintf (path, sizeof path, "%s/seed", dir);
    printf ("Definition random_bytes_wanted : Z := %d.\n", (int) (PROBE_WANTED));
    printf ("Definition random_seed_bytes : Z := %d.\n", (int) (PROBE_SEED_BYTES));
    /* (bytes of entropy random_init counts, delay in ms of the timer it arms; -1 = no timer armed) */
    printf ("Definition stir_init_samples : list (Z * Z) := [");
    for (i = 0; i < (int) (sizeof ks / sizeof ks[0]); i++) {
        int k = ks[i], counted;
        if (k > 4000 || (k < 0 && k != -1)) continue;
        seed_file (k);
        probe_word = 0; armed_ms = -1; n_sets = 0; _random_timer_id = 0;
        random_init (path);
        counted = 128 + (k < 0 ? 0 : k > (int) (PROBE_SEED_BYTES) ? (int) (PROBE_SEED_BYTES) : k) + (int) sizeof (unsigned);
        printf ("%s(%d, %ld)", i ? "; " : "", counted, n_sets == 1 ? armed_ms : n_sets == 0 ? -1L : -2L);
    }
    printf ("].\n");
    /* (interval before the callback runs, delay it re-arms with), stagger bits 0 */
    printf ("Definition stir_run_samples : list (Z * Z) := [");
    for (s = 1, i = 0; ; s = (s * 2 < (long) (PROBE_STIR_MAX_SECS) ? s * 2 : (long) (PROBE_STIR_MAX_SECS)), i++) {
        probe_word = 0; armed_ms = -1; n_sets = 0;
        _random_stir_secs = (int) s;
        _random_stir_entropy (NULL);
        printf ("%s(%ld, %ld)", i ? "; " : "", s, n_sets == 1 ? armed_ms : -1L);
        if (s >= (long) (PROBE_STIR_MAX_SECS)) break;
    }
    printf ("].\n");
    /* 60 SUCCESSIVE stirs from each initial condition (no seed file / a complete one): (the interval variable after the
       call, the delay armed; -1 = the callback returned without arming) — far beyond the point where the maximum is
       reached, so that whatever state is kept behind the interval shows */
    for (i = 0; i < 2; i++) {
        int n;
        seed_file (i == 0 ? -1 : (int) (PROBE_SEED_BYTES));
        probe_word = 0; armed_ms = -1; n_sets = 0; _random_timer_id = 0;
        random_init (path);
        printf ("Definition %s : list (Z * Z) := [", i == 0 ? "stir_seq_first_start" : "stir_seq_seeded");
        for (n = 0; n < 60; n++) {
            if (n > 0) { armed_ms = -1; n_sets = 0; _random_stir_entropy (NULL); }
            printf ("%s(%d, %ld)", n ? "; " : "", _random_stir_secs, n_sets == 1 ? armed_ms : -1L);
        }
        printf ("].\n");
    }
    probe_word = 0xFFFFFFFFu; armed_ms = -1; _random_stir_secs = (int) (PROBE_STIR_MAX_SECS); _random_stir_entropy (NULL);
    printf ("Definition stir_jitter_max : Z := %ld.\n", armed_ms - 1000L * (long) (PROBE_STIR_MAX_SECS));
    unlink (path); rmdir (dir);
    return 0;
}
