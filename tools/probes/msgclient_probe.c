/* msgclient_probe.c — what /repo's libmunge does around a response, MEASURED by running it (coq/gen/GenMsgClient.v and
   coq/gen/GenMsgClientCopy.v):

   1. m_msg_client_xfer (src/libmunge/m_msg_client.c) is run for every request type code 0..255 against a listening
      socket nobody serves, with m_msg_send / m_msg_recv / nanosleep wrapped: the wrappers record the type and maxlen the
      function passes and answer with a chosen result, which gives
        xfer_exptype        the expected type handed to m_msg_recv per request code (None: nothing is sent or received)
        xfer_recv_maxlen, xfer_send_maxlen, xfer_send_type_is_req
        xfer_attempts       receive calls when each fails with EMUNGE_SOCKET;  xfer_attempts_bad_length  (EMUNGE_BAD_LENGTH)
   2. munge_decode / munge_encode (decode.c / encode.c) are run with m_msg_client_xfer replaced by a stub that hands back
      a response object of a chosen type whose members all hold distinct marker values, which gives
        dec_rsp_accepts / enc_rsp_accepts   the type codes that get past the "sanity check" of _decode_rsp / _encode_rsp
        measured_dec_src / measured_enc_src which member every output of the call was copied from
   Linked with -Wl,--wrap=m_msg_send,--wrap=m_msg_recv,--wrap=nanosleep,--wrap=m_msg_client_xfer. */
#include <stdio.h>
#include <stdlib.h>
#include <string.h>
#include <errno.h>
#include <fcntl.h>
#include <time.h>
#include <unistd.h>
#include <sys/socket.h>
#include <sys/un.h>
#include <munge.h>
#include "common.h"
#include "ctx.h"
#include "m_msg.h"
#include "m_msg_client.h"
#include "munge_defs.h"

static int recv_calls, send_calls, recv_type, recv_type_varies, recv_maxlen, send_type, send_maxlen;
static munge_err_t recv_rv;

munge_err_t __wrap_m_msg_send (m_msg_t m, m_msg_type_t type, int maxlen)
{
    (void) m; send_calls++; send_type = (int) type; send_maxlen = maxlen; return EMUNGE_SUCCESS;
}
munge_err_t __wrap_m_msg_recv (m_msg_t m, m_msg_type_t type, int maxlen)
{
    (void) m;
    if (recv_calls > 0 && recv_type != (int) type) recv_type_varies = 1;
    recv_calls++; recv_type = (int) type; recv_maxlen = maxlen; return recv_rv;
}
int __wrap_nanosleep (const struct timespec *a, struct timespec *b) { (void) a; (void) b; return 0; }

munge_err_t __real_m_msg_client_xfer (m_msg_t *pm, m_msg_type_t mreq_type, munge_ctx_t ctx);

/* ---- stub response --------------------------------------------------------------------------------------- */
static int stub_type;
enum { K_cipher = 111, K_mac = 112, K_zip = 113, K_retry = 123, K_error_num = 109, K_ttl = 1014, K_time0 = 1015,
       K_time1 = 1016, K_client_uid = 1017, K_client_gid = 1018, K_cred_uid = 1019, K_cred_gid = 1020,
       K_auth_uid = 1021, K_auth_gid = 1022 };
static const unsigned char K_addr[4] = { 0x0a, 0x0b, 0x0c, 0x0d };
#define S_realm "realm-marker"
#define S_data  "data-marker"
#define S_error "error-marker-xyz"

munge_err_t __wrap_m_msg_client_xfer (m_msg_t *pm, m_msg_type_t mreq_type, munge_ctx_t ctx)
{
    m_msg_t r;
    (void) mreq_type; (void) ctx;
    if (m_msg_create (&r) != EMUNGE_SUCCESS) return EMUNGE_NO_MEMORY;
    r->type = (uint8_t) stub_type; r->retry = K_retry;
    r->cipher = K_cipher; r->mac = K_mac; r->zip = K_zip;
    r->realm_str = strdup (S_realm); r->realm_len = strlen (S_realm) + 1;
    r->ttl = K_ttl; r->addr_len = 4; memcpy (&r->addr, K_addr, 4);
    r->time0 = K_time0; r->time1 = K_time1; r->client_uid = K_client_uid; r->client_gid = K_client_gid;
    r->cred_uid = K_cred_uid; r->cred_gid = K_cred_gid; r->auth_uid = K_auth_uid; r->auth_gid = K_auth_gid;
    r->data = strdup (S_data); r->data_len = strlen (S_data);
    r->error_num = K_error_num; r->error_str = strdup (S_error); r->error_len = strlen (S_error) + 1;
    m_msg_destroy (*pm);
    *pm = r;
    return EMUNGE_SUCCESS;
}

static const char *src_of_num (long long v)
{
    switch (v) {
        case K_cipher: return "SrcN Ncipher"; case K_mac: return "SrcN Nmac"; case K_zip: return "SrcN Nzip";
        case K_retry: return "SrcN Nretry"; case K_error_num: return "SrcN Nerror_num"; case K_ttl: return "SrcN Nttl";
        case K_time0: return "SrcN Ntime0"; case K_time1: return "SrcN Ntime1";
        case K_client_uid: return "SrcN Nclient_uid"; case K_client_gid: return "SrcN Nclient_gid";
        case K_cred_uid: return "SrcN Ncred_uid"; case K_cred_gid: return "SrcN Ncred_gid";
        case K_auth_uid: return "SrcN Nauth_uid"; case K_auth_gid: return "SrcN Nauth_gid";
    }
    if (v == (long long) strlen (S_data)) return "SrcN Ndata_len";
    if (v == (long long) strlen (S_realm) + 1) return "SrcN Nrealm_len";
    if (v == (long long) strlen (S_error) + 1) return "SrcN Nerror_len";
    return "SrcNone";
}
static const char *src_of_str (const char *s)
{
    if (!s) return "SrcNone";
    if (!strcmp (s, S_realm)) return "SrcB Brealm";
    if (!strcmp (s, S_data)) return "SrcB Bdata";
    if (!strcmp (s, S_error)) return "SrcB Berror";
    return "SrcNone";
}

static int lfd;
static void drain (void)
{
    int c;
    while ((c = accept (lfd, NULL, NULL)) >= 0) close (c);
}

int main (int argc, char **argv)
{
    char dir[100], path[128], *slash;
    struct sockaddr_un sa;
    munge_ctx_t ctx;
    int c, first, att_sock = -1, att_bad = -1, maxl_r = -1, maxl_s = -1, send_is_req = 1, varies = 0;
    static int ex[256];

    /* the socket lives next to the executable, i.e. in the private directory gen_facts.run_probe removes afterwards */
    (void) argc;
    snprintf (dir, sizeof dir, "%s", argv[0]);
    slash = strrchr (dir, '/');
    if (slash) *slash = 0; else strcpy (dir, ".");
    snprintf (path, sizeof path, "%s/s", dir);
    unlink (path);
    memset (&sa, 0, sizeof sa); sa.sun_family = AF_UNIX; strcpy (sa.sun_path, path);
    lfd = socket (AF_UNIX, SOCK_STREAM, 0);
    if (lfd < 0 || bind (lfd, (struct sockaddr *) &sa, sizeof sa) < 0 || listen (lfd, 128) < 0) { perror ("listen"); return 1; }
    fcntl (lfd, F_SETFL, O_NONBLOCK);
    ctx = munge_ctx_create ();
    munge_ctx_set (ctx, MUNGE_OPT_SOCKET, path);

    /* 1. m_msg_client_xfer */
    for (c = 0; c < 256; c++) {
        m_msg_t m;
        m_msg_create (&m);
        recv_calls = send_calls = 0; recv_type = -1; recv_type_varies = 0; recv_rv = EMUNGE_SOCKET;
        __real_m_msg_client_xfer (&m, (m_msg_type_t) c, ctx);
        ex[c] = recv_calls ? recv_type : -1;
        if (recv_calls) {
            if (recv_type_varies) varies = 1;
            if (att_sock >= 0 && att_sock != recv_calls) varies = 1;
            att_sock = recv_calls;
            if (maxl_r >= 0 && maxl_r != recv_maxlen) varies = 1;
            maxl_r = recv_maxlen;
            if (maxl_s >= 0 && maxl_s != send_maxlen) varies = 1;
            maxl_s = send_maxlen;
            if (send_type != c) send_is_req = 0;
        }
        m_msg_destroy (m);
        drain ();
        if (recv_calls) {
            m_msg_create (&m);
            recv_calls = 0; recv_rv = EMUNGE_BAD_LENGTH;
            __real_m_msg_client_xfer (&m, (m_msg_type_t) c, ctx);
            if (att_bad >= 0 && att_bad != recv_calls) varies = 1;
            att_bad = recv_calls;
            m_msg_destroy (m);
            drain ();
        }
    }
    printf ("(* GENERATED by tools/facts/msgclient.py: measured by running src/libmunge/m_msg_client.c - do not edit *)\n");
    printf ("From Coq Require Import NArith ZArith.\n");
    printf ("Definition xfer_exptype (req : N) : option N :=\n ");
    for (c = 0; c < 256; c++)
        if (ex[c] >= 0) printf (" if (req =? %d)%%N then Some %d%%N else", c, ex[c]);
    printf (" None.\n");
    printf ("Definition xfer_measure_consistent : bool := %s.\n", varies ? "false" : "true");
    printf ("Definition xfer_recv_maxlen : Z := %d%%Z.\n", maxl_r < 0 ? 0 : maxl_r);
    printf ("Definition xfer_send_maxlen : Z := %d%%Z.\n", maxl_s < 0 ? 0 : maxl_s);
    printf ("Definition xfer_send_type_is_req : bool := %s.\n", send_is_req ? "true" : "false");
    printf ("Definition xfer_attempts : N := %d%%N.\n", att_sock < 0 ? 0 : att_sock);
    printf ("Definition xfer_attempts_bad_length : N := %d%%N.\n", att_bad < 0 ? 0 : att_bad);
    printf ("Definition uid_sentinel : N := %lu%%N.\n", (unsigned long) UID_SENTINEL);
    printf ("Definition gid_sentinel : N := %lu%%N.\n", (unsigned long) GID_SENTINEL);
    printf ("Definition sizeof_ctx_addr : N := %u%%N.\n", (unsigned) sizeof (ctx->addr));
    printf ("Definition sizeof_int : N := %u%%N.\n", (unsigned) sizeof (int));
    printf ("Definition sizeof_time_t : N := %u%%N.\n", (unsigned) sizeof (time_t));

    /* 2. _decode_rsp / _encode_rsp */
    printf ("Definition dec_rsp_accepts (t : N) : bool :=\n  false");
    for (c = 0; c < 256; c++) {
        void *buf = NULL; int len = 0; uid_t u = 0; gid_t g = 0; munge_err_t e;
        stub_type = c;
        e = munge_decode ("MUNGE:probe:", ctx, &buf, &len, &u, &g);
        if (e == (munge_err_t) K_error_num || u == K_cred_uid) printf (" || (t =? %d)%%N", c);
        free (buf);
    }
    printf (".\n");
    printf ("Definition enc_rsp_accepts (t : N) : bool :=\n  false");
    for (c = 0; c < 256; c++) {
        char *cred = NULL; munge_err_t e;
        stub_type = c;
        e = munge_encode (&cred, ctx, "x", 1);
        if (e == (munge_err_t) K_error_num || cred) printf (" || (t =? %d)%%N", c);
        free (cred);
    }
    printf (".\n");
    printf ("(* ---8<--- *)\n");
    printf ("(* GENERATED by tools/facts/msgclient.py: measured by running src/libmunge/decode.c and encode.c on a response\n"
            "   object whose members hold distinct marker values - do not edit *)\n");
    printf ("From MV Require Import MsgModel MsgClientModel.\n");
    first = -1;
    for (c = 0; c < 256 && first < 0; c++) {
        void *buf = NULL; int len = 0; uid_t u = 0; gid_t g = 0; munge_err_t e;
        stub_type = c;
        e = munge_decode ("MUNGE:probe:", ctx, &buf, &len, &u, &g);
        if (e == (munge_err_t) K_error_num || u == K_cred_uid) {
            char *realm = ctx->realm_str; unsigned char a[4];
            first = c;
            memcpy (a, &ctx->addr, 4);
            printf ("Definition measured_dec_src (o : dslot) : dsrc :=\n  match o with\n");
            printf ("  | Oerr => %s\n", src_of_num ((long long) e));
            printf ("  | Ocipher => %s\n", src_of_num (ctx->cipher));
            printf ("  | Omac => %s\n", src_of_num (ctx->mac));
            printf ("  | Ozip => %s\n", src_of_num (ctx->zip));
            printf ("  | Orealm => %s\n", src_of_str (realm));
            printf ("  | Ottl => %s\n", src_of_num (ctx->ttl));
            printf ("  | Oaddr => %s\n", memcmp (a, K_addr, 4) ? "SrcNone" : "SrcB Baddr");
            printf ("  | Otime0 => %s\n", src_of_num ((long long) ctx->time0));
            printf ("  | Otime1 => %s\n", src_of_num ((long long) ctx->time1));
            printf ("  | Oauth_uid => %s\n", src_of_num ((long long) ctx->auth_uid));
            printf ("  | Oauth_gid => %s\n", src_of_num ((long long) ctx->auth_gid));
            printf ("  | Obuf => %s\n", buf ? src_of_str ((char *) buf) : "SrcNone");
            printf ("  | Olen => %s\n", src_of_num (len));
            printf ("  | Ouid => %s\n", src_of_num ((long long) u));
            printf ("  | Ogid => %s\n", src_of_num ((long long) g));
            printf ("  | Oerrstr => %s\n", src_of_str (ctx->error_str));
            printf ("  end.\n");
        }
        free (buf);
    }
    if (first < 0) printf ("Definition measured_dec_src (o : dslot) : dsrc := SrcNone.\n");
    first = -1;
    for (c = 0; c < 256 && first < 0; c++) {
        char *cred = NULL; munge_err_t e;
        stub_type = c;
        e = munge_encode (&cred, ctx, "x", 1);
        if (e == (munge_err_t) K_error_num || cred) {
            first = c;
            printf ("Definition measured_enc_src (o : eslot) : dsrc :=\n  match o with\n");
            printf ("  | Eerr => %s\n", src_of_num ((long long) e));
            printf ("  | Ecred => %s\n", src_of_str (cred));
            printf ("  | Eerrstr => %s\n", src_of_str (ctx->error_str));
            printf ("  end.\n");
        }
        free (cred);
    }
    if (first < 0) printf ("Definition measured_enc_src (o : eslot) : dsrc := SrcNone.\n");
    munge_ctx_destroy (ctx);
    close (lfd); unlink (path);
    return 0;
}
