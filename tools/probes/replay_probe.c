/* Prints the constants and sampled behaviour of /repo's replay.c (statics reached by inclusion) as a Coq file.
   Nothing here is trusted by the proofs beyond "these are the numbers in the source": the differential
   harness (harness/replay_harness.c) compares the model built on them with the running code. */
#include <stdio.h>
#include <stdint.h>
#include "replay.c"

/* link-time stubs; replay_init () needs conf and arms the (stub) timer */
static struct conf conf_storage;
conf_t conf = &conf_storage;
void log_msg (int priority, const char *format, ...) { }
void log_err (int status, int priority, const char *format, ...) { }
void log_errno (int status, int priority, const char *format, ...) { }
long timer_set_relative (callback_f cb, void *arg, long msec) { return 1; }

#define MACLEN ((int) sizeof (((replay_t) 0)->data.mac))

static long long grabbed_texp;
static int grab_f (void *data, const void *key, void *arg) { grabbed_texp = (long long) ((replay_t) data)->data.t_expired; return 1; }

int main(void) {
    union replay_node a, b;
    unsigned int w[MACLEN], sum, got;
    int i, j, lin = 1, cmplen = 0, lead = 1, anti = 1;
    time_t now;

    printf("(* GENERATED from src/munged/replay.c by tools/gen_facts.py - do not edit *)\n");
    printf("From Coq Require Import List NArith.\nImport ListNotations.\nLocal Open Scope N_scope.\n");
    printf("Definition replay_hash_size : N := %d.\n", (int) REPLAY_HASH_SIZE);
    printf("Definition replay_mac_len : nat := %d.\n", MACLEN);
    printf("Definition munge_minimum_md_len : N := %d.\n", (int) MUNGE_MINIMUM_MD_LEN);
    printf("Definition replay_purge_secs : N := %d.\n", (int) MUNGE_REPLAY_PURGE_SECS);
    printf("Definition munge_maximum_ttl : N := %d.\n", (int) MUNGE_MAXIMUM_TTL);
    printf("Definition munge_default_ttl : N := %d.\n", (int) MUNGE_DEFAULT_TTL);
    /* t_expired as replay_insert computes it from time0 = 2^32-1, ttl = 2: 1 if the sum is formed in
       32 bits, 2^32+1 if it is formed in time_t; replay_remove must build the same key */
    {
        struct munge_cred c; struct m_msg m; int rm;
        memset (&c, 0, sizeof c); memset (&m, 0, sizeof m);
        c.msg = &m; c.mac_len = MACLEN; m.time0 = 0xFFFFFFFFu; m.ttl = 2;
        replay_init ();
        grabbed_texp = -1;
        if (replay_insert (&c) != 0) grabbed_texp = -2;
        else hash_for_each (replay_hash, grab_f, NULL);
        rm = replay_remove (&c);
        replay_fini ();
        printf("Definition replay_texp_wraps32 : bool := %s.\n", grabbed_texp == 1 ? "true" : "false");
        printf("Definition replay_texp_exact : bool := %s.\n",
               (grabbed_texp == 4294967297LL && rm == 0) ? "true" : "false");
    }

    /* replay_key_f: weight of every MAC byte, then a linearity check on pseudo-random nodes */
    for (i = 0; i < MACLEN; i++) {
        memset(&a, 0, sizeof a); a.data.mac[i] = 1; w[i] = replay_key_f(&a);
    }
    memset(&a, 0, sizeof a);
    if (replay_key_f(&a) != 0) lin = 0;
    a.data.t_expired = 12345; if (replay_key_f(&a) != 0) lin = 0;   /* time is not hashed */
    for (j = 0; j < 64; j++) {
        unsigned int x = 2463534242u + 7919u * j;
        memset(&a, 0, sizeof a); sum = 0;
        for (i = 0; i < MACLEN; i++) {
            x ^= x << 13; x ^= x >> 17; x ^= x << 5;
            a.data.mac[i] = (unsigned char) x; sum += w[i] * (unsigned char) x;
        }
        got = replay_key_f(&a);
        if (got != sum) lin = 0;
    }
    printf("Definition replay_keyf_weights : list N := [");
    for (i = 0; i < MACLEN; i++) printf("%s%u", i ? "; " : "", w[i]);
    printf("].\nDefinition replay_keyf_modulus : N := %llu.\n", (unsigned long long) 1 << (8 * sizeof (unsigned int)));
    printf("Definition replay_keyf_linear : bool := %s.\n", lin ? "true" : "false");

    /* replay_cmp_f: how many leading MAC bytes take part, direction, time as tie-break */
    for (i = 0; i < MACLEN; i++) {
        memset(&a, 0, sizeof a); memset(&b, 0, sizeof b); b.data.mac[i] = 1;
        if (replay_cmp_f(&a, &b) < 0 && replay_cmp_f(&b, &a) > 0) { if (lead) cmplen++; }
        else { lead = 0; if (replay_cmp_f(&a, &b) != 0) anti = 0; }
    }
    printf("Definition replay_cmp_len : nat := %d.\n", cmplen);
    memset(&a, 0, sizeof a); memset(&b, 0, sizeof b);
    a.data.mac[0] = 0x7f; b.data.mac[0] = 0x80;               /* unsigned byte order */
    printf("Definition replay_cmp_unsigned : bool := %s.\n", (replay_cmp_f(&a, &b) < 0 && anti) ? "true" : "false");
    memset(&a, 0, sizeof a); memset(&b, 0, sizeof b);
    a.data.t_expired = 100; b.data.t_expired = 101;
    printf("Definition replay_cmp_time_tiebreak : bool := %s.\n",
           (replay_cmp_f(&a, &b) < 0 && replay_cmp_f(&b, &a) > 0 && replay_cmp_f(&a, &a) == 0) ? "true" : "false");
    a.data.mac[MACLEN - 1] = 1; a.data.t_expired = 50; b.data.t_expired = 60;   /* MAC first, then time */
    printf("Definition replay_cmp_mac_first : bool := %s.\n", (replay_cmp_f(&a, &b) > 0) ? "true" : "false");

    /* replay_is_expired at t_expired = 100 for now = 101 / 100 / 99 */
    memset(&a, 0, sizeof a); a.data.t_expired = 100;
    now = 101; printf("Definition replay_expired_when_lt : bool := %s.\n", replay_is_expired(&a, &a, &now) > 0 ? "true" : "false");
    now = 100; printf("Definition replay_expired_when_eq : bool := %s.\n", replay_is_expired(&a, &a, &now) > 0 ? "true" : "false");
    now = 99;  printf("Definition replay_expired_when_gt : bool := %s.\n", replay_is_expired(&a, &a, &now) > 0 ? "true" : "false");
    return 0;
}
