/* keys_probe.c — prints coq/gen/GenKeys.v from /repo's current sources.
 *
 * Everything below is obtained by compiling and *running* the repo's code:
 *   - MUNGE_KEY_LEN_{MIN,MAX,DFL}_BYTES from munge_defs.h, and the --bits
 *     bounds as mungekey/conf.c computes them (bytes * 8);
 *   - HKDF_MAX_ROUNDS (a #define private to hkdf.c: the file is #included);
 *   - digest sizes as mac_size()/md_size() report them at run time;
 *   - what mungekey/key.c does: key.c is #included with open/unlink/close and
 *     the hkdf_ctx_set_* setters and the entropy readers interposed by macros,
 *     so create_key() runs for real and the probe records the open flags and
 *     mode, whether unlink() precedes open() with and without --force, the
 *     digest, the IKM and salt lengths and the info string handed to HKDF.
 * Nothing in /repo is edited.
 */
#include <stdio.h>
#include <stdlib.h>
#include <string.h>
#include <fcntl.h>
#include <unistd.h>
#include <sys/stat.h>

#include "hkdf.c"                 /* real HKDF + HKDF_MAX_ROUNDS */
#include "munge_defs.h"
#include "md.h"
#include "mac.h"
#include "crypto.h"

/* ---- recorders ---------------------------------------------------------- */
static int   rec_open_calls, rec_open_flags, rec_open_mode, rec_unlink_calls, rec_unlink_before_open;
static int   rec_close_calls, rec_chmod_calls, rec_md, rec_ikm_len, rec_salt_len, rec_info_len;
static char  rec_info[2048];
static int   rec_entropy_len, rec_entropy_calls, rec_uint_calls;

static int probe_open (const char *path, int flags, int mode) {
    rec_open_calls++; rec_open_flags = flags; rec_open_mode = mode;
    return open ("/dev/null", O_WRONLY);
}
static int probe_unlink (const char *path) {
    rec_unlink_calls++; if (rec_open_calls == 0) rec_unlink_before_open = 1;
    errno = ENOENT; return -1;
}
static int probe_close (int fd) { rec_close_calls++; return close (fd); }
static int probe_fchmod (int fd, mode_t m) { rec_chmod_calls++; rec_open_mode = m; return 0; }
static int probe_chmod (const char *p, mode_t m) { rec_chmod_calls++; rec_open_mode = m; return 0; }
static mode_t probe_umask (mode_t m) { rec_chmod_calls += 100; return 022; }

static int probe_set_md (hkdf_ctx_t *c, munge_mac_t md) { rec_md = md; return hkdf_ctx_set_md (c, md); }
static int probe_set_key (hkdf_ctx_t *c, const void *k, size_t n) { rec_ikm_len = n; return hkdf_ctx_set_key (c, k, n); }
static int probe_set_salt (hkdf_ctx_t *c, const void *s, size_t n) { rec_salt_len = n; return hkdf_ctx_set_salt (c, s, n); }
static int probe_set_info (hkdf_ctx_t *c, const void *s, size_t n) {
    rec_info_len = n; memcpy (rec_info, s, n < sizeof rec_info ? n : sizeof rec_info - 1);
    rec_info[n < sizeof rec_info ? n : sizeof rec_info - 1] = 0;
    return hkdf_ctx_set_info (c, s, n);
}
int entropy_read (void *buf, size_t buflen, const char **srcp) {
    rec_entropy_calls++; rec_entropy_len = buflen; memset (buf, 0x5a, buflen); return buflen;
}
int entropy_read_uint (unsigned *up) { rec_uint_calls++; *up = 0x01020304u; return 0; }

/* key.c's other externals come from libcommon (fd.c, log.c, str.c) and libmunge/enum.c */
#include "entropy.h"
#include "fd.h"
#include "log.h"
#include "str.h"
#define open(p, f, m)          probe_open (p, f, m)
#define unlink(p)              probe_unlink (p)
#define close(fd)              probe_close (fd)
#define fchmod(fd, m)          probe_fchmod (fd, m)
#define chmod(p, m)            probe_chmod (p, m)
#define umask(m)               probe_umask (m)
#define hkdf_ctx_set_md        probe_set_md
#define hkdf_ctx_set_key       probe_set_key
#define hkdf_ctx_set_salt      probe_set_salt
#define hkdf_ctx_set_info      probe_set_info
#include "key.c"                  /* src/mungekey/key.c via -I */
#undef open
#undef unlink
#undef close

static void reset (void) {
    rec_open_calls = rec_open_flags = rec_open_mode = rec_unlink_calls = rec_unlink_before_open = 0;
    rec_close_calls = rec_chmod_calls = rec_md = rec_ikm_len = rec_salt_len = rec_info_len = 0;
    rec_entropy_len = rec_entropy_calls = rec_uint_calls = 0; rec_info[0] = 0;
}

static void coq_bytes (const char *name, const char *s, int n) {
    int i;
    printf ("Definition %s : list N := [", name);
    for (i = 0; i < n; i++) printf ("%s%u", i ? "; " : "", (unsigned char) s[i]);
    printf ("].\n");
}

int main (void) {
    conf_t c; int md, i;
    char prefix[2048]; char tail[64];

    crypto_init ();
    md_init_subsystem ();

    printf ("(* GENERATED from src/libcommon/munge_defs.h, src/common/hkdf.c, src/mungekey/key.c and the\n"
            "   running md/mac code by tools/gen_facts.py - do not edit *)\n");
    printf ("From Coq Require Import List NArith ZArith.\nImport ListNotations.\nLocal Open Scope N_scope.\n");
    printf ("Definition key_len_min_bytes : N := %d.\n", MUNGE_KEY_LEN_MIN_BYTES);
    printf ("Definition key_len_max_bytes : N := %d.\n", MUNGE_KEY_LEN_MAX_BYTES);
    printf ("Definition key_len_dfl_bytes : N := %d.\n", MUNGE_KEY_LEN_DFL_BYTES);
    /* the --bits bounds exactly as _conf_parse_bits_opt computes them */
    printf ("Definition key_len_min_bits : Z := %d%%Z.\n", MUNGE_KEY_LEN_MIN_BYTES * 8);
    printf ("Definition key_len_max_bits : Z := %d%%Z.\n", MUNGE_KEY_LEN_MAX_BYTES * 8);
    printf ("Definition hkdf_max_rounds : N := %d.\n", HKDF_MAX_ROUNDS);
    printf ("(* digest sizes: (munge_mac_t code, mac_size, md_size) as reported at run time; 0 = unsupported *)\n");
    printf ("Definition digest_sizes : list (N * N * N) := [");
    for (md = 2, i = 0; md < MUNGE_MAC_LAST_ITEM; md++, i++) {
        int a = mac_size (md), b = md_size (md);
        printf ("%s(%d, %d, %d)", i ? "; " : "", md, a < 0 ? 0 : a, b < 0 ? 0 : b);
    }
    printf ("].\n");

    /* create_key() without --force */
    memset (&c, 0, sizeof c); c.key_path = "/nonexistent/probe.key"; c.key_num_bytes = MUNGE_KEY_LEN_DFL_BYTES;
    reset (); create_key (&c);
    printf ("Definition key_open_creat : bool := %s.\n", (rec_open_flags & O_CREAT) ? "true" : "false");
    printf ("Definition key_open_excl : bool := %s.\n", (rec_open_flags & O_EXCL) ? "true" : "false");
    printf ("Definition key_open_trunc : bool := %s.\n", (rec_open_flags & O_TRUNC) ? "true" : "false");
    printf ("Definition key_open_wronly : bool := %s.\n", ((rec_open_flags & O_ACCMODE) == O_WRONLY) ? "true" : "false");
    printf ("Definition key_open_mode : N := %d. (* octal %04o *)\n", rec_open_mode & 07777, rec_open_mode & 07777);
    printf ("Definition key_open_calls : N := %d.\n", rec_open_calls);
    printf ("Definition key_mode_calls : N := %d. (* fchmod/chmod/umask calls made by create_key *)\n", rec_chmod_calls);
    printf ("Definition key_noforce_unlinks : bool := %s.\n", rec_unlink_calls ? "true" : "false");
    printf ("Definition key_hkdf_md : N := %d.\n", rec_md);
    printf ("Definition key_ikm_len : N := %d.\n", rec_ikm_len);
    printf ("Definition key_ikm_from_entropy_read : bool := %s.\n",
            (rec_entropy_calls == 1 && rec_entropy_len == rec_ikm_len) ? "true" : "false");
    printf ("Definition key_salt_len : N := %d.\n", rec_salt_len);
    /* info = prefix ++ decimal(bits) ++ tail: split the recorded string at the decimal rendering of the bit count */
    snprintf (tail, sizeof tail, "%d", MUNGE_KEY_LEN_DFL_BYTES * 8);
    {
        char *p = strstr (rec_info, tail);
        if (!p) { fprintf (stderr, "info string %s lacks the bit count\n", rec_info); return 1; }
        memcpy (prefix, rec_info, p - rec_info); prefix[p - rec_info] = 0;
        coq_bytes ("key_info_prefix", prefix, strlen (prefix));
        coq_bytes ("key_info_suffix", p + strlen (tail), strlen (p + strlen (tail)));
        printf ("(* info_prefix_str=%s info_suffix_str=%s *)\n", prefix, p + strlen (tail));
    }
    /* a second size, to see that the number in the info string is 8 * bytes in decimal */
    c.key_num_bytes = MUNGE_KEY_LEN_MIN_BYTES + 1; reset (); create_key (&c);
    printf ("(* info for %d bytes: %s *)\n", c.key_num_bytes, rec_info);
    coq_bytes ("key_info_sample", rec_info, rec_info_len);
    printf ("Definition key_info_sample_bytes : N := %d.\n", c.key_num_bytes);

    /* create_key() with --force */
    c.do_force = 1; reset (); create_key (&c);
    printf ("Definition key_force_unlinks : bool := %s.\n", rec_unlink_calls ? "true" : "false");
    printf ("Definition key_force_unlink_first : bool := %s.\n", rec_unlink_before_open ? "true" : "false");
    printf ("Definition key_force_open_excl : bool := %s.\n", (rec_open_flags & O_EXCL) ? "true" : "false");
    printf ("Definition key_force_open_mode : N := %d.\n", rec_open_mode & 07777);
    return 0;
}
