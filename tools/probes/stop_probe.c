/* stop_probe.c — prints coq/gen/GenStop.v: the time `munged --stop` (conf.c _conf_process_stop) waits after SIGTERM before it
   escalates to SIGKILL, and the per-message I/O time limit of the daemon (m_msg.c), as the repo's headers define them. */
#include <stdio.h>
#include "munge_defs.h"
int main (void) {
    printf ("(* GENERATED from src/libcommon/munge_defs.h by tools/gen_facts.py - do not edit *)\n");
    printf ("From Coq Require Import NArith.\nLocal Open Scope N_scope.\n");
    printf ("Definition c_signal_wait_msecs : N := %ld.\n", (long) MUNGE_SIGNAL_WAIT_MSECS);
    printf ("Definition c_signal_check_msecs : N := %ld.\n", (long) MUNGE_SIGNAL_CHECK_MSECS);
    printf ("Definition c_socket_timeout_msecs : N := %ld.\n", (long) MUNGE_SOCKET_TIMEOUT_MSECS);
    return 0;
}
