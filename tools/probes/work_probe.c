/* Probes the guards of the two wait loops of /repo's work.c (work_wait, work_fini)
 * and prints them as truth tables in a Coq file.
 * work.c is included textually with pthread_cond_wait redirected: a call with a
 * hand-made work_t either reaches pthread_cond_wait (guard true) or returns
 * (guard false).  Entry order: (n_working, work_head != NULL) =
 * (0,0) (0,1) (>0,0) (>0,1); n_working = 2, 3 must agree with n_working = 1. */
#include <pthread.h>
#include <stdio.h>
#include <stdlib.h>
#include <string.h>

static __thread int probe_blocked;
static int probe_cond_wait (pthread_cond_t *c, pthread_mutex_t *m)
{
    probe_blocked = 1;
    pthread_mutex_unlock (m);
    pthread_exit (NULL);
    return 0;
}
#define pthread_cond_wait probe_cond_wait
#include "work.c"
#undef pthread_cond_wait

struct probe { int which; int n; int h; int blocked; };

static void dummy (void *x) { (void) x; }

static void *probe_thread (void *arg)
{
    struct probe *p = arg;
    work_p wp = malloc (sizeof (work_t));
    static work_arg_t node;

    memset (wp, 0, sizeof (*wp));
    pthread_mutex_init (&wp->lock, NULL);
    pthread_cond_init (&wp->received_work, NULL);
    pthread_cond_init (&wp->finished_work, NULL);
    wp->workers = malloc (sizeof (pthread_t));
    wp->work_func = dummy;
    wp->n_workers = 0;                  /* work_fini: nothing to cancel or join */
    wp->n_working = p->n;
    wp->got_fini = 0;
    node.next = NULL; node.arg = &node;
    wp->work_head = wp->work_tail = p->h ? &node : NULL;
    probe_blocked = 0;
    p->blocked = 1;                     /* stays 1 when the call ends in pthread_exit */
    if (p->which == 0) {
        work_wait (wp);
    }
    else {
        work_fini (wp, 1);              /* frees wp when it returns */
    }
    p->blocked = probe_blocked;
    return NULL;
}

static int probe (int which, int n, int h)
{
    struct probe p;
    pthread_t t;
    p.which = which; p.n = n; p.h = h; p.blocked = -1;
    if (pthread_create (&t, NULL, probe_thread, &p) != 0) { perror ("pthread_create"); exit (3); }
    pthread_join (t, NULL);
    return p.blocked;
}

int main (void)
{
    int which, n, h, i;
    int tab[2][4];
    for (which = 0; which < 2; which++) {
        for (n = 0; n < 2; n++)
            for (h = 0; h < 2; h++)
                tab[which][2 * n + h] = probe (which, n, h);
        for (n = 2; n < 4; n++)
            for (h = 0; h < 2; h++)
                if (probe (which, n, h) != tab[which][2 + h]) {
                    fprintf (stderr, "work_probe: the %s guard distinguishes n_working = %d from 1: "
                             "the (zero / non-zero) abstraction of WorkModel no longer applies\n",
                             which ? "work_fini" : "work_wait", n);
                    return 4;
                }
    }
    printf ("(* GENERATED from src/munged/work.c by tools/gen_facts.py - do not edit *)\n");
    printf ("From Coq Require Import List Bool.\nFrom MV Require Import WorkModel.\nImport ListNotations.\n");
    printf ("(* value of the wait-loop guard for (n_working, work_head != NULL) =\n"
            "   (0, false); (0, true); (non-zero, false); (non-zero, true) *)\n");
    for (which = 0; which < 2; which++) {
        printf ("Definition code_%s_tab : list bool := [", which ? "fini" : "wait");
        for (i = 0; i < 4; i++) printf ("%s%s", i ? "; " : "", tab[which][i] ? "true" : "false");
        printf ("].\n");
    }
    printf ("Definition code_wait_cond : nat -> bool -> bool := tabguard code_wait_tab.\n");
    printf ("Definition code_fini_cond : nat -> bool -> bool := tabguard code_fini_tab.\n");
    return 0;
}
