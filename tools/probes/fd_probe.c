/* fd_probe.c — prints coq/gen/GenFd.v: the values of /repo's static _fd_get_poll_timeout() on a grid of
   (when, now) pairs (fd.c is #included with gettimeofday redirected to a settable clock), plus the constants
   m_msg.c hands to the timed I/O loops. */
#include <stdio.h>
#include <sys/time.h>
static struct timeval probe_now;
static int probe_fail;
static int probe_gettimeofday (struct timeval *tv, void *tz) { (void) tz; if (probe_fail) return -1; *tv = probe_now; return 0; }
#define gettimeofday probe_gettimeofday
#include "fd.c"
#undef gettimeofday
#include "munge_defs.h"
#include "m_msg.h"

int main (void) {
    static const long secs[] = { -3000000, -3, -1, 0, 1, 2, 2147483, 2147484, 3000000, 4294968 };
    static const long wus[] = { 0, 1, 999, 1000, 500000, 999999 };
    static const long nus[] = { 0, 1, 999, 1000, 1001, 500000, 998999, 999000, 999001, 999999 };
    const long base = 1700000000L;
    unsigned i, j, k; int first = 1;
    struct timeval when;
    printf ("(* GENERATED from src/libcommon/fd.c, m_msg.h, munge_defs.h by tools/gen_facts.py - do not edit *)\n");
    printf ("From Coq Require Import List ZArith.\nImport ListNotations.\nLocal Open Scope Z_scope.\n");
    printf ("Definition socket_timeout_msecs : Z := %d.\n", (int) MUNGE_SOCKET_TIMEOUT_MSECS);
    printf ("Definition msg_hdr_size : nat := %d%%nat.\n", (int) MUNGE_MSG_HDR_SIZE);
    printf ("Definition timeout_null : Z := %d.\n", _fd_get_poll_timeout (NULL));
    when.tv_sec = 0; when.tv_usec = 0; probe_now.tv_sec = base; probe_now.tv_usec = 5;
    printf ("Definition timeout_zero_when : Z := %d.\n", _fd_get_poll_timeout (&when));
    /* rows: (when.tv_sec, when.tv_usec, clock in us, result) */
    printf ("Definition timeout_table : list (Z * Z * Z * Z) := [\n");
    for (i = 0; i < sizeof secs / sizeof secs[0]; i++)
        for (j = 0; j < sizeof wus / sizeof wus[0]; j++)
            for (k = 0; k < sizeof nus / sizeof nus[0]; k++) {
                when.tv_sec = base + secs[i]; when.tv_usec = wus[j];
                probe_now.tv_sec = base; probe_now.tv_usec = nus[k];
                printf ("%s(%ld, %ld, %ld, %d)", first ? "  " : ";\n  ", (long) when.tv_sec, (long) when.tv_usec,
                        (long) (base * 1000000L + nus[k]), _fd_get_poll_timeout (&when));
                first = 0;
            }
    printf ("].\n");
    return 0;
}
