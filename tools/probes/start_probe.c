/* start_probe.c — runs /repo's lock.c (lock_create, _lock_stat) with open/fcntl/unlink/close and the
 * log_* exits interposed by macros, and prints what the code actually asks the kernel for as
 * coq/gen/GenStart.v: open flags and mode of the lock file, the fcntl command and lock shape, whether
 * a start without --force unlinks anything, and which file modes the fstat check accepts; the name
 * _lock_create_name derives from the socket name (suffix, longest name it can produce); and the sizes
 * sock_create's copy of the socket name into sockaddr_un works with: sizeof sun_path, and the values of the
 * two size expressions tools/facts/start.py cut out of sock_create's text (SOCK_COPY_SIZE_EXPR = third
 * argument of the strlcpy, SOCK_LEN_BOUND_EXPR = right-hand side of the length test), evaluated here with
 * the same headers and a variable of the same name (SOCK_ADDR_VAR). */
#include "config.h"
#include <assert.h>
#include <errno.h>
#include <fcntl.h>
#include <setjmp.h>
#include <stdarg.h>
#include <stdio.h>
#include <stdlib.h>
#include <string.h>
#include <sys/socket.h>
#include <sys/stat.h>
#include <sys/un.h>
#include <unistd.h>
#include "conf.h"
#include "log.h"
#include "str.h"

static jmp_buf jb;
static int n_open, open_flags, open_mode, n_unlink, n_close;
static int n_fcntl, first_cmd, l_type, l_whence;
static long l_start, l_len;
static int lock_result = 0;            /* what the interposed fcntl answers for F_SETLK */
static int q_flags;
static int n_getlk, getlk_answer, getlk_before_setlk;   /* getlk_answer: 0 = F_GETLK says unlocked, 1 = held by pid 1 */

static int p_open(const char *path, int flags, ...) {
    va_list ap; int mode; va_start(ap, flags); mode = va_arg(ap, int); va_end(ap);
    if (n_open++ == 0) { open_flags = flags; open_mode = mode; }
    return open(path, flags, mode);
}
static int p_fcntl(int fd, int cmd, ...) {
    va_list ap; struct flock *fl; va_start(ap, cmd); fl = va_arg(ap, struct flock *); va_end(ap);
    if (cmd == F_GETLK) {
        n_getlk++;
        if (n_fcntl == 0) getlk_before_setlk++;
        if (getlk_answer) { fl->l_type = F_WRLCK; fl->l_pid = 1; } else fl->l_type = F_UNLCK;
        return 0;
    }
    if (n_fcntl++ == 0) {
        first_cmd = cmd; l_type = fl->l_type; l_whence = fl->l_whence; l_start = fl->l_start; l_len = fl->l_len;
    }
    if (lock_result) { errno = EAGAIN; return -1; }
    return 0;
}
static int p_unlink(const char *p) { n_unlink++; return unlink(p); }
static int p_close(int fd) { n_close++; return close(fd); }
static void p_fatal(int a, int b, const char *f, ...) { longjmp(jb, 1); }
static void p_eow(int force, const char *f, ...) { if (!force) longjmp(jb, 2); }
static void p_msg(int pri, const char *f, ...) { }

#define open p_open
#define fcntl p_fcntl
#define unlink p_unlink
#define close p_close
#define log_err p_fatal
#define log_errno p_fatal
#define log_err_or_warn p_eow
#define log_msg p_msg
#include "lock.c"
#undef open
#undef fcntl
#undef unlink
#undef close

static const char *B(int x) { return x ? "true" : "false"; }

int main(void) {
    char dir[] = "/tmp/verif-startprobe-XXXXXX";
    char sock[256], lockp[256], f[256];
    struct conf c;
    int rc_ok, rc_busy, rc_busy_free, unl_ok, unl_busy, close_busy, getlk_first;
    unsigned modes[] = {0, 0200, 0400, 0600, 0644, 0220, 0202, 0300, 0700, 0777, 04200, 01200};
    unsigned i;
    if (!mkdtemp(dir)) return 2;
    snprintf(sock, sizeof sock, "%s/s", dir);
    snprintf(lockp, sizeof lockp, "%s/s.lock", dir);
    memset(&c, 0, sizeof c);
    c.socket_name = sock; c.lockfile_fd = -1; c.got_force = 0;
    /* 1: free lock */
    rc_ok = setjmp(jb);
    if (rc_ok == 0) lock_create(&c);
    unl_ok = n_unlink;
    getlk_first = getlk_before_setlk > 0;
    if (c.lockfile_fd >= 0) close(c.lockfile_fd);
    c.lockfile_fd = -1;
    /* 2: lock held by somebody else: F_SETLK answers EAGAIN, F_GETLK names the holder */
    lock_result = 1; getlk_answer = 1; n_unlink = 0; n_close = 0;
    rc_busy = setjmp(jb);
    if (rc_busy == 0) lock_create(&c);
    unl_busy = n_unlink; close_busy = n_close;
    if (c.lockfile_fd >= 0) close(c.lockfile_fd);
    c.lockfile_fd = -1;
    /* 3: the same, but every F_GETLK finds the file unlocked (the holder took the lock after / dropped it before
          the query): F_SETLK still answers EAGAIN */
    getlk_answer = 0;
    rc_busy_free = setjmp(jb);
    if (rc_busy_free == 0) lock_create(&c);
    unl_busy += n_unlink - unl_busy;
    if (c.lockfile_fd >= 0) close(c.lockfile_fd);
    unlink(lockp);
    printf("(* GENERATED from src/munged/lock.c by tools/gen_facts.py (probes/start_probe.c) - do not edit *)\n");
    printf("From Coq Require Import List NArith Bool.\nImport ListNotations.\nLocal Open Scope N_scope.\n");
    printf("(* first open() of lock_create without --force *)\n");
    printf("Definition lock_open_creat : bool := %s.\n", B(open_flags & O_CREAT));
    printf("Definition lock_open_excl : bool := %s.\n", B(open_flags & O_EXCL));
    printf("Definition lock_open_trunc : bool := %s.\n", B(open_flags & O_TRUNC));
    printf("Definition lock_create_mode : N := %u.\n", (unsigned) open_mode & 07777);
    printf("(* access mode of that open: 0 = O_RDONLY, 1 = O_WRONLY, 2 = O_RDWR *)\n");
    printf("Definition lock_open_access : N := %d.\n", (open_flags & O_ACCMODE) == O_RDONLY ? 0 : (open_flags & O_ACCMODE) == O_WRONLY ? 1 : 2);
    printf("(* first fcntl() on the lock file *)\n");
    printf("Definition lock_cmd_nonblocking : bool := %s.\n", B(first_cmd == F_SETLK));
    printf("Definition lock_type_exclusive : bool := %s.\n", B(l_type == F_WRLCK));
    printf("Definition lock_whole_file : bool := %s.\n", B(l_whence == SEEK_SET && l_start == 0 && l_len == 0));
    printf("(* lock_create when the lock is free: returns normally (0) / exits (non-0); unlink calls made *)\n");
    printf("Definition lock_free_exits : bool := %s.\n", B(rc_ok != 0));
    printf("Definition lock_free_unlinks : N := %d.\n", unl_ok);
    printf("(* lock_create when F_SETLK answers EAGAIN: exits?; unlink calls made before exiting *)\n");
    printf("(* ... whatever F_GETLK answers before or after (holder named / file found unlocked) *)\n");
    printf("Definition lock_busy_exits : bool := %s.\n", B(rc_busy != 0 && rc_busy_free != 0));
    printf("(* lock_create queries the lock (F_GETLK) before its first F_SETLK; exits when the query or the refused F_SETLK names a holder *)\n");
    printf("Definition lock_getlk_first : bool := %s.\n", B(getlk_first));
    printf("Definition lock_getlk_held_exits : bool := %s.\n", B(rc_busy != 0));
    printf("Definition lock_busy_unlinks : N := %d.\n", unl_busy);
    /* 3: which modes does the fstat check accept (regular file owned by us) */
    printf("(* permission bits (of a regular file owned by the caller) that _lock_stat accepts *)\n");
    printf("Definition lock_stat_accepts : list N := [");
    {
        int first = 1;
        for (i = 0; i < sizeof modes / sizeof modes[0]; i++) {
            int fd, rej;
            snprintf(f, sizeof f, "%s/m%u", dir, i);
            fd = open(f, O_CREAT | O_WRONLY, 0600);
            if (fd < 0) continue;
            fchmod(fd, modes[i]);
            rej = setjmp(jb);
            if (rej == 0) _lock_stat(fd, f);
            if (!rej) { printf("%s%u", first ? "" : "; ", modes[i]); first = 0; }
            close(fd); unlink(f);
        }
    }
    printf("].\n");
    /* 4: does the check accept a non-regular file (a directory)? */
    {
        int fd = open(dir, O_RDONLY), rej;
        rej = setjmp(jb);
        if (rej == 0) _lock_stat(fd, dir);
        printf("Definition lock_stat_accepts_nonregular : bool := %s.\n", B(!rej));
        close(fd);
    }
    /* 4b: lock_query (munged --stop / --status): how it opens the lock file, and whether a query with no lock file
           present leaves anything behind */
    {
        struct conf cq; struct stat stq; int n0 = n_open;
        memset(&cq, 0, sizeof cq);
        cq.socket_name = sock; cq.lockfile_fd = -1;
        unlink(lockp);
        q_flags = -1;
        if (setjmp(jb) == 0) { n_open = 0; (void) lock_query(&cq); q_flags = open_flags; }
        n_open = n0 + 1;
        printf("(* lock_query (munged --stop): flags of its open of the lock file; does a query without a lock file create one *)\n");
        printf("Definition lock_query_creat : bool := %s.\n", B(q_flags >= 0 && (q_flags & O_CREAT)));
        printf("Definition lock_query_leaves_file : bool := %s.\n", B(lstat(lockp, &stq) == 0));
        if (cq.lockfile_fd >= 0) close(cq.lockfile_fd);
        unlink(lockp);
    }
    /* 5: the lock file's name as _lock_create_name derives it from the socket name */
    {
        struct conf c2;
        char longname[3001];
        size_t k, sl = strlen(sock);
        memset(&c2, 0, sizeof c2);
        c2.socket_name = sock; c2.lockfile_fd = -1;
        if (setjmp(jb) == 0) _lock_create_name(&c2);
        printf("(* conf->lockfile_name = conf->socket_name ++ suffix, as long as the result fits lock_name_max bytes *)\n");
        if (!c2.lockfile_name || strncmp(c2.lockfile_name, sock, sl) != 0) {
            fprintf(stderr, "lockfile_name does not start with socket_name\n"); return 3;
        }
        printf("Definition lock_name_suffix : list N := [");
        for (k = sl; c2.lockfile_name[k]; k++) printf("%s%u", k == sl ? "" : "; ", (unsigned char) c2.lockfile_name[k]);
        printf("].\n");
        memset(longname, 'a', sizeof longname - 1); longname[0] = '/'; longname[sizeof longname - 1] = 0;
        c2.socket_name = longname;
        if (setjmp(jb) == 0) _lock_create_name(&c2);
        k = c2.lockfile_name ? strlen(c2.lockfile_name) : 0;
        if (k > sizeof longname - 1 || strncmp(c2.lockfile_name, longname, k < 3000 ? k : 3000) != 0) {
            fprintf(stderr, "lockfile_name of a long socket_name is not a prefix of socket_name ++ suffix\n"); return 3;
        }
        printf("Definition lock_name_max : N := %lu.\n", (unsigned long) k);
    }
    /* 6: sizes in sock_create's copy of the socket name into the socket address */
    {
        struct sockaddr_un SOCK_ADDR_VAR;
        (void) SOCK_ADDR_VAR;
        printf("(* sock_create: n = strlcpy (addr.sun_path, conf->socket_name, sock_copy_size); if (n OP sock_len_bound) exit *)\n");
        printf("Definition sun_path_cap : N := %lu.\n", (unsigned long) sizeof (((struct sockaddr_un *) 0)->sun_path));
        printf("Definition sock_copy_size : N := %lu.\n", (unsigned long) (SOCK_COPY_SIZE_EXPR));
        printf("Definition sock_len_bound : N := %lu.\n", (unsigned long) (SOCK_LEN_BOUND_EXPR));
    }
    rmdir(dir);
    return 0;
}
