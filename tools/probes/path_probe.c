/* Prints the constants PathModel takes from /repo's headers (path.h, common.h) and <sys/stat.h>
   as the first part of coq/gen/GenPath.v.  tools/facts/path.py appends the call-site facts
   (flags handed to path_is_secure, mode/umask recipe of every created file) observed on a real start. */
#include <stdio.h>
#include <sys/types.h>
#include <sys/stat.h>
#include "common.h"
#include "path.h"
#define N(name, v) printf("Definition %s : N := %lu.\n", name, (unsigned long) (v))
int main(void) {
    printf("(* GENERATED from src/munged/{path.h,munged.c,lock.c,random.c,conf.c} by tools/facts/path.py - do not edit *)\n");
    printf("From Coq Require Import List NArith.\nImport ListNotations.\nLocal Open Scope N_scope.\n");
    N("path_security_no_flags", PATH_SECURITY_NO_FLAGS);
    N("path_security_ignore_group_write", PATH_SECURITY_IGNORE_GROUP_WRITE);
    N("gid_sentinel", (gid_t) GID_SENTINEL);
    N("gid_maximum", (gid_t) GID_MAXIMUM);
    N("s_isvtx", S_ISVTX);
    N("s_irusr", S_IRUSR); N("s_iwusr", S_IWUSR); N("s_ixusr", S_IXUSR);
    N("s_irgrp", S_IRGRP); N("s_iwgrp", S_IWGRP); N("s_ixgrp", S_IXGRP);
    N("s_iroth", S_IROTH); N("s_iwoth", S_IWOTH); N("s_ixoth", S_IXOTH);
    return 0;
}
