/* Prints the constants, sizes, codes and the observed bound on DEC_RSP addr_len of /repo's m_msg.[ch]
   as a Coq file (coq/gen/GenMsg.v).  m_msg.c is #included so that the static _msg_unpack can be run:
   `addr_len_accept_max` is *measured* - the largest addr_len for which _msg_unpack(DEC_RSP) of an
   otherwise complete body succeeds (the struct sits inside a large buffer, so an unguarded copy of up to
   255 bytes stays inside memory the probe owns). */
#include <stdio.h>
#include <stddef.h>
#include <string.h>
#include <stdlib.h>
#include "m_msg.c"

#define W(f) ((unsigned) sizeof (((struct m_msg *) 0)->f))

static int accept_max (void)
{
    int k, best = -1;
    for (k = 0; k <= 255; k++) {
        /* DEC_RSP body: error_num, error_len=0, cipher, mac, zip, realm_len=0, ttl, addr_len=k, k bytes,
           6 x u32, data_len=0 */
        unsigned char body[2 + 4 + 4 + 1 + 255 + 24 + 4];
        unsigned char *p = body;
        union { struct m_msg m; unsigned char pad[sizeof (struct m_msg) + 1024]; } *u;
        munge_err_t e;
        memset (body, 0, sizeof body);
        p += 2 + 4 + 4;
        *p++ = (unsigned char) k;
        memset (p, 0x41, k);
        p += k + 24 + 4;
        u = calloc (1, sizeof *u);
        u->m.sd = -1;
        e = _msg_unpack (&u->m, MUNGE_MSG_DEC_RSP, body, (int) (p - body));
        if (e == EMUNGE_SUCCESS) best = k;
        /* nothing was allocated on the heap (all variable lengths are 0) unless an error string was set */
        free (u);
    }
    return best;
}

int main (void)
{
    printf ("(* GENERATED from src/libcommon/m_msg.[ch], munge_defs.h, munge.h by tools/gen_facts.py - do not edit *)\n");
    printf ("From Coq Require Import NArith.\nLocal Open Scope N_scope.\n");
    printf ("Definition msg_magic : N := %lu.\n", (unsigned long) MUNGE_MSG_MAGIC);
    printf ("Definition msg_version : N := %u.\n", (unsigned) MUNGE_MSG_VERSION);
    printf ("Definition msg_hdr_size : N := %u.\n", (unsigned) MUNGE_MSG_HDR_SIZE);
    printf ("Definition mt_undef : N := %u.\n", (unsigned) MUNGE_MSG_UNDEF);
    printf ("Definition mt_hdr : N := %u.\n", (unsigned) MUNGE_MSG_HDR);
    printf ("Definition mt_enc_req : N := %u.\n", (unsigned) MUNGE_MSG_ENC_REQ);
    printf ("Definition mt_enc_rsp : N := %u.\n", (unsigned) MUNGE_MSG_ENC_RSP);
    printf ("Definition mt_dec_req : N := %u.\n", (unsigned) MUNGE_MSG_DEC_REQ);
    printf ("Definition mt_dec_rsp : N := %u.\n", (unsigned) MUNGE_MSG_DEC_RSP);
    printf ("Definition mt_auth_fd_req : N := %u.\n", (unsigned) MUNGE_MSG_AUTH_FD_REQ);
    printf ("Definition max_req_len : N := %lu.\n", (unsigned long) MUNGE_MAXIMUM_REQ_LEN);
    printf ("Definition e_success : N := %u.\n", (unsigned) EMUNGE_SUCCESS);
    printf ("Definition e_snafu : N := %u.\n", (unsigned) EMUNGE_SNAFU);
    printf ("Definition e_bad_length : N := %u.\n", (unsigned) EMUNGE_BAD_LENGTH);
    printf ("Definition e_no_memory : N := %u.\n", (unsigned) EMUNGE_NO_MEMORY);
    printf ("Definition e_socket : N := %u.\n", (unsigned) EMUNGE_SOCKET);
    /* widths of the wire fields = sizeof of the struct members (the code packs sizeof (m->f) bytes) */
    printf ("Definition w_magic : N := %u.\n", (unsigned) sizeof (m_msg_magic_t));
    printf ("Definition w_version : N := %u.\n", (unsigned) sizeof (m_msg_version_t));
#define PW(f) printf ("Definition w_" #f " : N := %u.\n", W (f))
    PW (type); PW (retry); PW (pkt_len); PW (cipher); PW (mac); PW (zip); PW (realm_len); PW (ttl);
    PW (addr_len); PW (time0); PW (time1); PW (client_uid); PW (client_gid); PW (cred_uid); PW (cred_gid);
    PW (auth_uid); PW (auth_gid); PW (data_len); PW (auth_s_len); PW (auth_c_len); PW (error_num); PW (error_len);
    /* fixed-size destinations */
    printf ("Definition sizeof_addr : N := %u.\n", W (addr));
    printf ("Definition sizeof_in_addr : N := %u.\n", (unsigned) sizeof (struct in_addr));
    printf ("Definition sizeof_m_msg : N := %u.\n", (unsigned) sizeof (struct m_msg));
    printf ("Definition off_addr : N := %u.\n", (unsigned) offsetof (struct m_msg, addr));
    /* measured: largest addr_len the DEC_RSP unpacker accepts */
    { int k = accept_max ();                 /* -1: the unpacker accepts no DEC_RSP body at all */
      printf ("Definition addr_len_accept_max : N := %d.\n", k < 0 ? 0 : k);
      printf ("Definition dec_rsp_probe_accepted : bool := %s.\n", k < 0 ? "false" : "true"); }
    return 0;
}
