/* Prints the numeric facts GidsModel takes from /repo as a Coq file:
   the reserved uid, the widths of uid_t/gid_t/time_t, the starting sizes of the
   xgetgrent/xgetpwnam buffers (the static helpers of xgetgr.c/xgetpw.c are called
   directly), and the doubling step of _xgetgrbuf_grow measured on a real buffer. */
#include <stdio.h>
#include <stdarg.h>
#include <sys/types.h>
#include "common.h"
#include "gids.h"
#include "xgetgr.c"
#undef _UNUSED_
#include "xgetpw.c"

/* log.h is satisfied here; nothing is printed by the probe's callees */
void log_msg (int priority, const char *format, ...) { (void) priority; (void) format; }
void log_errno (int status, int priority, const char *format, ...) { (void) status; (void) priority; (void) format; }

int main(void) {
    xgrbuf_p g = xgetgrbuf_create (0);
    xpwbuf_p p = xgetpwbuf_create (0);
    size_t g0 = xgetgrbuf_get_len (g), p0 = xgetpwbuf_get_len (p);
    size_t g1, p1;
    if (_xgetgrbuf_grow (g, 0) < 0 || _xgetpwbuf_grow (p, 0) < 0) return 1;
    g1 = xgetgrbuf_get_len (g); p1 = xgetpwbuf_get_len (p);
    printf("(* GENERATED from src/libcommon/common.h, src/common/xgetgr.c, xgetpw.c by tools/gen_facts.py - do not edit *)\n");
    printf("From Coq Require Import NArith.\nLocal Open Scope N_scope.\n");
    printf("Definition uid_sentinel : N := %lu.\n", (unsigned long) (uid_t) UID_SENTINEL);
    printf("Definition uid_bits : N := %u.\n", (unsigned) (8 * sizeof (uid_t)));
    printf("Definition gid_bits : N := %u.\n", (unsigned) (8 * sizeof (gid_t)));
    printf("Definition time_bits : N := %u.\n", (unsigned) (8 * sizeof (time_t)));
    printf("Definition size_bits : N := %u.\n", (unsigned) (8 * sizeof (size_t)));
    printf("Definition grbuf_init : N := %lu.\n", (unsigned long) g0);
    printf("Definition pwbuf_init : N := %lu.\n", (unsigned long) p0);
    printf("Definition grbuf_grow_factor : N := %lu.\n", (unsigned long) (g1 / g0));
    printf("Definition pwbuf_grow_factor : N := %lu.\n", (unsigned long) (p1 / p0));
    xgetgrbuf_destroy (g); xgetpwbuf_destroy (p);
    return 0;
}
