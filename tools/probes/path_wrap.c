/* Linked into a scratch build of munged with -Wl,--wrap=path_is_secure by tools/facts/path.py:
   records (directory, flags) of every path_is_secure() call of a real start, then calls the real one. */
#include <stdio.h>
#include <stdlib.h>
#include "path.h"
int __real_path_is_secure (const char *path, char *errbuf, size_t errbuflen, path_security_flag_t flags);
int __wrap_path_is_secure (const char *path, char *errbuf, size_t errbuflen, path_security_flag_t flags)
{
    const char *f = getenv ("VERIF_PIS_LOG");
    if (f) {
        FILE *fp = fopen (f, "a");
        if (fp) { fprintf (fp, "PIS %s %u\n", path, (unsigned) flags); fclose (fp); }
    }
    return __real_path_is_secure (path, errbuf, errbuflen, flags);
}
