/* Prints the numbers the timer model takes from /repo: width of `long` (timer ids), the periods of the
   periodic services (munge_defs.h, random.c) and the unit constants clock.c uses, measured by calling
   clock_get_timespec itself with a pinned clock_gettime. */
#include <stdio.h>
#include <limits.h>
#include <time.h>
#include "munge_defs.h"
#include "clock.h"

/* random.c keeps RANDOM_STIR_MAX_SECS private: tools/facts/timer.py reads the macro's replacement text
   out of `gcc -E -dM random.c` and passes it here as -DPROBE_STIR_MAX_SECS=(...) */
#ifndef PROBE_STIR_MAX_SECS
#error "PROBE_STIR_MAX_SECS not given"
#endif

static struct timespec pinned;
int __wrap_clock_gettime(clockid_t id, struct timespec *ts) { (void) id; *ts = pinned; return 0; }

int main(void) {
    struct timespec a;
    long nsec_per_sec, msec_per_sec;
    /* one second = the smallest ms offset that bumps tv_sec with tv_nsec = 0; nsec per ms from a 1 ms offset */
    pinned.tv_sec = 1000; pinned.tv_nsec = 0;
    clock_get_timespec(&a, 1);
    long nsec_per_ms = a.tv_nsec;
    for (msec_per_sec = 1; msec_per_sec < 100000; msec_per_sec++) {
        clock_get_timespec(&a, msec_per_sec);
        if (a.tv_sec == 1001) break;
    }
    nsec_per_sec = nsec_per_ms * msec_per_sec;
    printf("(* GENERATED from src/munged/{timer,clock,random}.c and src/libcommon/munge_defs.h by tools/gen_facts.py - do not edit *)\n");
    printf("From Coq Require Import ZArith.\nLocal Open Scope Z_scope.\n");
    printf("Definition long_max : Z := %ld.\n", LONG_MAX);
    printf("Definition msec_per_sec : Z := %ld.\n", msec_per_sec);
    printf("Definition nsec_per_msec : Z := %ld.\n", nsec_per_ms);
    printf("Definition nsec_per_sec : Z := %ld.\n", nsec_per_sec);
    printf("Definition replay_purge_secs : Z := %d.\n", (int) MUNGE_REPLAY_PURGE_SECS);
    printf("Definition group_update_secs : Z := %d.\n", (int) MUNGE_GROUP_UPDATE_SECS);
    printf("Definition stir_max_secs : Z := %d.\n", (int) (PROBE_STIR_MAX_SECS));
    return 0;
}
