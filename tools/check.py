#!/usr/bin/env python3
"""check.py <property id> [--tier quick|thorough] [--replay FILE]"""
import importlib, os, sys
sys.path.insert(0, os.path.dirname(os.path.abspath(__file__)))
import vlib

if len(sys.argv) < 2:
    print(__doc__); sys.exit(2)
prop = sys.argv[1].upper()
mod = importlib.import_module("props.%s" % prop.lower())
vlib.main_entry(mod.run, prop)
