#!/usr/bin/env python3
"""hostile.py — hostile-input streams for the live ASan/LSan daemon (C08; reused by C02/C09/C14).
Every item is (class, raw bytes to write on a fresh connection)."""
import base64, os, re, struct, time
import rig, pyref

LENS = [0, 1, 2 ** 20, 2 ** 20 + 1, 2 ** 31 - 1, 2 ** 31, 2 ** 32 - 1]


def rnd(rng, n):
    return bytes(rng.getrandbits(8) for _ in range(n))


def header_stream(ctx, valid_cred):
    rng = ctx.rng
    items = []
    enc_body = rig.enc_req_body(data=b"payload")
    dec_body = rig.dec_req_body(valid_cred)
    rsp_body = bytes([0, 0]) + struct.pack(">I", 3) + b"abc"
    decrsp = bytes([0, 0, 4, 5, 0, 0]) + struct.pack(">IB", 300, 4) + b"\x7f\0\0\1" + struct.pack(">IIIIIII", 1, 2, 3, 4, 5, 6, 0)
    authfd = struct.pack(">I", 4) + b"abc\0" + struct.pack(">I", 4) + b"def\0"
    bodies = {"enc": enc_body, "dec": dec_body, "encrsp": rsp_body, "decrsp": decrsp, "authfd": authfd,
              "hdr": rig.hdr(2, 0, 0), "empty": b"", "rand16": rnd(rng, 16), "rand200": rnd(rng, 200)}
    types = range(256) if ctx.thorough else list(range(0, 10)) + [rng.randrange(10, 256) for _ in range(6)] + [255]
    for t in types:
        for name, b in bodies.items():
            items.append(("hdr/type%d/%s" % (t, name), rig.hdr(t, 0, len(b)) + b))
        for L in LENS:
            items.append(("hdr/type%d/len%d-nobody" % (t, L), rig.hdr(t, 0, L)))
            items.append(("hdr/type%d/len%d-short" % (t, L), rig.hdr(t, 0, L) + rnd(rng, 7)))
    # a header inside a header: the body of a type-1 (header) message is itself a header whose type/retry/length words are
    # unpacked over the message's own; every inner type code, with and without a further body
    for inner in range(256):
        for ilen in (0, 11, 0x7FFFFFFF):
            b = rig.hdr(inner, 0, ilen)
            items.append(("nested/inner%d" % inner, rig.hdr(1, 0, len(b)) + b))
    # every truncation point of each well-formed body, for each of the real type codes
    for t, b in ((2, enc_body), (4, dec_body), (3, rsp_body), (5, decrsp), (6, authfd)):
        step = 1 if (ctx.thorough or len(b) < 64) else max(1, len(b) // 40)
        for k in range(0, len(b), step):
            items.append(("trunc/type%d/at%d" % (t, k), rig.hdr(t, 0, len(b)) + b[:k]))       # stalls then EOF
            items.append(("trunc/type%d/declared%d" % (t, k), rig.hdr(t, 0, k) + b[:k]))      # shorter declared len
    # header itself truncated, bad magic / version / retry
    h = rig.hdr(2, 0, len(enc_body))
    for k in range(0, 11):
        items.append(("hdrtrunc/%d" % k, h[:k]))
    items.append(("badmagic", rig.hdr(2, 0, len(enc_body), magic=0x12345678) + enc_body))
    for v in (0, 3, 5, 255):
        items.append(("badversion/%d" % v, rig.hdr(2, 0, len(enc_body), version=v) + enc_body))
    for r in (1, 5, 6, 255):
        items.append(("retry/%d/enc" % r, rig.hdr(2, r, len(enc_body)) + enc_body))
        items.append(("retry/%d/dec" % r, rig.hdr(4, r, len(dec_body)) + dec_body))
    return items


def errstr_stream(ctx):
    """response-type messages sent TO the daemon with a non-zero error code and an error string the client chose: the only
    client-chosen text that reaches the daemon's log (file, stderr or syslog).  printf conversions, very long strings, control
    bytes, strings without NUL."""
    strs = [b"%s" * 12, b"%s" * 60, b"%n%n%n%n", b"%11$s %12$n", b"%x" * 40 + b"%s", b"%999999d", b"%*d%*d%*d", b"%ls%ls%ls%ls%ls%ls%ls%ls%ls%ls%ls",
            b"%%", b"%", b"plain text", b"\x1b[2J\r\nmunged: Notice: forged line", b"A" * 254, b"\xff" * 100, b"%s%s%s%s%s%s%s%s%s%s%s\0tail"]
    items = []
    for st in strs:
        for nul in (b"\0", b""):
            e = st + nul
            if len(e) > 255:
                e = e[:255]
            for t, tail in ((3, struct.pack(">I", 0)),
                            (5, bytes([4, 5, 0, 0]) + struct.pack(">IB", 300, 4) + b"\x7f\0\0\1" + struct.pack(">IIIIIII", 1, 2, 3, 4, 5, 6, 0))):
                for code in (1, 8, 255):
                    b = bytes([code, len(e)]) + e + tail
                    items.append(("errstr/type%d" % t, rig.hdr(t, 0, len(b)) + b))
    return items


def encreq_stream(ctx):
    rng = ctx.rng
    items = []
    codes = range(256) if ctx.thorough else [0, 1, 2, 3, 4, 5, 6, 7, 8, 127, 128, 255]
    for c in codes:
        for field in ("cipher", "mac", "zip_"):
            kw = {field: c}
            b = rig.enc_req_body(data=b"x" * 20, **kw)
            items.append(("encreq/%s%d" % (field, c), rig.hdr(2, 0, len(b)) + b))
    for ttl in (0, 1, 299, 300, 301, 3599, 3600, 3601, 2 ** 31, 2 ** 32 - 1):
        b = rig.enc_req_body(ttl=ttl, data=b"t")
        items.append(("encreq/ttl%d" % ttl, rig.hdr(2, 0, len(b)) + b))
    for rl in (0, 1, 4, 254, 255):
        realm = b"r" * max(rl - 1, 0) + (b"\0" if rl else b"")
        b = rig.enc_req_body(realm=realm, data=b"d")
        items.append(("encreq/realm%d" % rl, rig.hdr(2, 0, len(b)) + b))
        b = rig.enc_req_body(realm=b"", realm_len=rl, data=b"d")
        items.append(("encreq/realmlen%d-missing" % rl, rig.hdr(2, 0, len(b)) + b))
    for dl in (0, 1, 9, 11, 255, 2 ** 20, 2 ** 31 - 1, 2 ** 31, 2 ** 32 - 1):
        b = rig.enc_req_body(data=b"0123456789", data_len=dl)
        items.append(("encreq/datalen%d" % dl, rig.hdr(2, 0, len(b)) + b))
    for n in (0, 1, 100, 4096, 65536, 700000, 2 ** 20 - 30, 2 ** 20 - 29, 2 ** 20 - 28):
        b = rig.enc_req_body(data=rnd(rng, min(n, 64)) * (n // 64 + 1) if n else b"")
        b = rig.enc_req_body(data=(rnd(rng, 64) * (n // 64 + 1))[:n])
        items.append(("encreq/size%d" % n, rig.hdr(2, 0, len(b)) + b))
    return items


def decreq_stream(ctx, valid_cred):
    rng = ctx.rng
    items = []
    strs = [b"", b"\0", b" ", b"\n\t ", b"MUNGE", b"MUNGE:", b"MUNGE::", b"MUNGE:A:", b"MUNGE:AA==:", b"MUNGE:AwAFAAA=:\0",
            b"MUNGE:====:", b"munge:AAAA:", b"  MUNGE:AAAA:", b"MUNGE:AAAA", b":", b"::", b"MUNGE:\0AAAA:", b"MUNGE:AA\0AA:",
            b"MUNGE:" + b"A" * 4096 + b":", b"MUNGE:" + b":" * 100, valid_cred.rstrip(b"\0"), valid_cred + b"junk",
            b" \n" + valid_cred, valid_cred.replace(b":", b": ", 1), valid_cred[:-2] + b"\n:\0",
            b"MUNGE:" + base64.b64encode(rnd(rng, 300)) + b":"]
    for s in strs:
        b = rig.dec_req_body(s)
        items.append(("decreq/str", rig.hdr(4, 0, len(b)) + b))
    for dl in (0, 1, len(valid_cred) - 1, len(valid_cred) + 1, 2 ** 20, 2 ** 31 - 1, 2 ** 31, 2 ** 32 - 1):
        b = rig.dec_req_body(valid_cred, data_len=dl)
        items.append(("decreq/datalen%d" % dl, rig.hdr(4, 0, len(b)) + b))
    for _ in range(200 if ctx.thorough else 40):
        s = b"MUNGE:" + base64.b64encode(rnd(rng, rng.randrange(0, 120))) + b":\0"
        b = rig.dec_req_body(s)
        items.append(("decreq/randbody", rig.hdr(4, 0, len(b)) + b))
    return items


def armor_strings(ctx, valid_cred):
    """the armor layer as dec_unarmor sees it: what lies between the prefix and the LAST suffix is handed to the base64
    decoder whose output buffer is sized by base64_decode_length().  Classes: base64 bodies of every length mod 4 with
    padding stripped, shortened, doubled or misplaced; embedded whitespace; more than one suffix (text, padding, a second
    credential between the first and the last ':'); the same around a valid credential body.  Returns (class, string)."""
    rng = ctx.rng
    vb = valid_cred.rstrip(b"\0")[6:-1]              # base64 text of a credential the daemon minted
    items = []
    def add(cls, s):
        for tail in (b"", b"\0", b"\n\0"):
            items.append(("armor/" + cls, s + tail))
    sizes = list(range(0, 13)) + [rng.randrange(13, 400) for _ in range(12 if ctx.thorough else 5)]
    for n in sizes:
        e = base64.b64encode(rnd(rng, n))
        st = e.rstrip(b"=")
        add("nopad%d" % (len(st) % 4), b"MUNGE:" + st + b":")
        if st:
            add("short%d" % ((len(st) - 1) % 4), b"MUNGE:" + st[:-1] + b":")
        add("onepad", b"MUNGE:" + st + b"=:")
        add("morepad", b"MUNGE:" + e + b"=:")
        add("padmid", b"MUNGE:" + e[:len(e) // 2] + b"=" + e[len(e) // 2:] + b":")
        add("ws", b"MUNGE:" + b" ".join(e[i:i + 3] for i in range(0, len(e), 3)) + b"\n:")
        add("ws-after-pad", b"  MUNGE:" + e + b" \t:")
        add("twosuffix", b"MUNGE:" + e + b":" + st + b":")
        add("suffix-junk", b"MUNGE:" + e + b":!@#$:")
    stv = vb.rstrip(b"=")
    for k in range(1, 4):
        add("valid-nopad", b"MUNGE:" + stv[:len(stv) - k + 1] + b":")
    add("valid-twice", b"MUNGE:" + vb + b":" + vb + b":")
    add("valid-suffix-junk", b"MUNGE:" + vb + b":junk:")
    add("valid-suffix-pad", b"MUNGE:" + vb + b":==:")
    add("valid-suffix-empty", b"MUNGE:" + vb + b"::")
    add("valid-ws", b"MUNGE:" + vb[:20] + b"\r\n" + vb[20:] + b" :")
    add("valid-after-pad", b"MUNGE:" + vb + b"AAAA:")
    add("valid", b"MUNGE:" + vb + b":")
    return items


def armor_stream(ctx, valid_cred):
    out = []
    for cls, s in armor_strings(ctx, valid_cred):
        b = rig.dec_req_body(s)
        out.append((cls, rig.hdr(4, 0, len(b)) + b))
    return out


def unarmor(cred):
    s = cred.rstrip(b"\0")
    assert s.startswith(b"MUNGE:") and s.endswith(b":")
    return base64.b64decode(s[6:-1])


def cred_edit_stream(ctx, creds):
    """byte-level edits of daemon-minted credentials (any cipher): flips, truncations, extensions, swaps"""
    rng = ctx.rng
    items = []
    for name, cred in creds:
        body = unarmor(cred)
        n = len(body)
        trunc = range(0, n) if (ctx.thorough or n <= 120) else sorted(set(list(range(0, 80)) + [rng.randrange(80, n) for _ in range(40)] + [n - 1]))
        for k in trunc:
            items.append(("edit/%s/trunc%d" % (name, k), body[:k]))
        nflip = n * 8 if ctx.thorough else min(n * 8, 160)
        for bit in (range(n * 8) if ctx.thorough else sorted(rng.sample(range(n * 8), nflip))):
            b = bytearray(body)
            b[bit // 8] ^= 1 << (bit % 8)
            items.append(("edit/%s/flip%d" % (name, bit), bytes(b)))
        for ext in (b"\0", b"A", rnd(rng, 8), rnd(rng, 16), rnd(rng, 33)):
            items.append(("edit/%s/ext%d" % (name, len(ext)), body + ext))
        if n > 48:
            b = body[:n - 32] + body[n - 16:] + body[n - 32:n - 16]
            items.append(("edit/%s/blockswap" % name, b))
            items.append(("edit/%s/dupblock" % name, body + body[n - 16:]))
    out = []
    for cls, body in items:
        b = rig.dec_req_body(pyref.armor(body))
        out.append((cls, rig.hdr(4, 0, len(b)) + b))
    return out


def validmac_stream(ctx, key):
    """credentials with a VALID MAC (cipher NONE, minted in Python) and malformed interiors"""
    rng = ctx.rng
    items = []
    macs = [m for m in (2, 3, 4, 5, 6) if pyref.mac_supported(m)]
    base_inner = pyref.inner(salt=rnd(rng, 8), time0=int(time.time()), data=b"interior-data")
    for mac in (macs if ctx.thorough else [5, 3]):
        for k in range(0, len(base_inner) + 1):
            items.append(("vmac/mac%d/innertrunc%d" % (mac, k), pyref.mint(key, mac=mac, inner_bytes=base_inner[:k])))
    now = int(time.time())
    for al in (range(256) if ctx.thorough else [0, 1, 3, 4, 5, 16, 127, 128, 255]):
        for have in (0, 4, al):
            items.append(("vmac/addrlen%d-have%d" % (al, have),
                          pyref.mint(key, inner_bytes=pyref.inner(time0=now, addr=b"\x7f" * have, addr_len=al, data=b"d"))))
    for dl in (0, 1, 12, 13, 14, 255, 2 ** 20, 2 ** 31 - 1, 2 ** 31, 2 ** 32 - 1):
        items.append(("vmac/datalen%d" % dl, pyref.mint(key, inner_bytes=pyref.inner(time0=now, data=b"interior-data", data_len=dl))))
    items.append(("vmac/trailing", pyref.mint(key, inner_bytes=pyref.inner(time0=now, data=b"abc") + b"trailing-bytes")))
    for rl in (1, 2, 128, 254, 255):
        items.append(("vmac/realm%d" % rl, pyref.mint(key, realm=b"R" * rl, time0=now, data=b"r")))
    # compressed interiors
    good = pyref.inner(time0=now, data=b"z" * 300)
    for z in (2, 3):
        w = pyref.zip_wrap(z, good)
        items.append(("vmac/zip%d/good" % z, pyref.mint(key, zip_=z, inner_bytes=w)))
        items.append(("vmac/zip%d/badmagic" % z, pyref.mint(key, zip_=z, inner_bytes=pyref.zip_wrap(z, good, magic=0xCACACACB))))
        for claimed in (0, 1, len(good) - 1, len(good) + 1, 100000, (2 ** 31 - 1 if ctx.thorough else 2 ** 26), 2 ** 31, 2 ** 32 - 1):
            items.append(("vmac/zip%d/claimed%d" % (z, claimed), pyref.mint(key, zip_=z, inner_bytes=pyref.zip_wrap(z, good, claimed=claimed))))
        items.append(("vmac/zip%d/garbage" % z, pyref.mint(key, zip_=z, inner_bytes=struct.pack(">II", pyref.ZIP_MAGIC, 100000) + b"garbage-not-compressed")))
        for k in range(0, 9):
            items.append(("vmac/zip%d/hdrtrunc%d" % (z, k), pyref.mint(key, zip_=z, inner_bytes=w[:k])))
        for k in sorted(set([9, 10, len(w) // 2, len(w) - 1])):
            items.append(("vmac/zip%d/bodytrunc%d" % (z, k), pyref.mint(key, zip_=z, inner_bytes=w[:k])))
        items.append(("vmac/zip%d/innertrunc" % z, pyref.mint(key, zip_=z, inner_bytes=pyref.zip_wrap(z, good[:20]))))
        # the zip header claims MORE than the stream inflates to, and the interior's data_len reaches into that
        # unwritten tail: must be refused ("Truncated data"), never answered with buffer contents
        for extra in (1, 64, 5000, 600000):
            short = pyref.inner(time0=now, data=b"q" * 40, data_len=40 + extra)
            items.append(("vmac/zip%d/claimed-tail%d!fail" % (z, extra),
                          pyref.mint(key, zip_=z, inner_bytes=pyref.zip_wrap(z, short, claimed=len(short) + extra))))
    # valid MAC over a header announcing a cipher but no room for IV / ciphertext
    for cipher in (2, 3, 4, 5):
        for extra in (0, 7, 8, 15, 16, 17):
            outer = bytes([3, cipher, 5 if cipher != 5 else 6, 0, 0]) + rnd(rng, extra)
            body = outer  # nothing after the (partial) IV
            items.append(("vmac/cipher%d-short%d" % (cipher, extra), pyref.armor(body)))
    out = []
    for cls, cred in items:
        b = rig.dec_req_body(cred)
        out.append((cls, rig.hdr(4, 0, len(b)) + b))
    return out


def outer_prefix_stream(ctx, creds):
    """every prefix of OUTER||MAC of sample credentials (no valid MAC needed)"""
    out = []
    for name, cred in creds:
        body = unarmor(cred)
        for k in range(0, min(len(body), 100)):
            b = rig.dec_req_body(pyref.armor(body[:k]))
            out.append(("outerprefix/%s/%d" % (name, k), rig.hdr(4, 0, len(b)) + b))
    return out


ASAN_RE = re.compile(r"ERROR: AddressSanitizer: (\S+).*?\n(.*?)\n\n", re.S)


def summarize_report(rep):
    """(kind, top frames in munge code) of the first sanitizer error / leak in a report"""
    kinds = []
    for m in re.finditer(r"ERROR: (AddressSanitizer|LeakSanitizer): ([^\n]*)", rep):
        kinds.append(m.group(2).strip())
    frames = re.findall(r"#\d+ 0x[0-9a-f]+ in (\w+) (/[^\s:]+):(\d+)", rep)
    mine = [(f, os.path.basename(p), int(l)) for f, p, l in frames if "/src/" in p]
    return kinds, mine[:6]
