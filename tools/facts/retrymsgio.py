"""GenRetryMsgIO.v: the acceptance tests m_msg_send / m_msg_recv (src/libcommon/m_msg.c) apply to what
fd_timed_write_iov / fd_timed_read_n return, TRANSLATED FROM THE SOURCE TEXT into Gallina predicates on
(n, errno, wanted):

    src_send_accepts, src_recv_hdr_accepts, src_recv_body_accepts : Z -> errno -> Z -> bool

`n` is the value assigned from the call (-1 for a failure), `errno` the value after `(errno = 0, n = ...)`, `wanted`
the byte count that was asked for.  The predicate is the negation of the disjunction of the conditions of the
`if / else if` arms that follow the call and look at `n` or `errno` (each of them must return an error); the chain is
followed up to the first arm that looks at something else.  coq/RetryMsgIO.v proves from these predicates, with
FdModel/FdProofs, that an accepted send delivered the complete message and an accepted receive holds the complete
message, for every kernel behaviour.

The translator also checks that `wanted` is what it is taken to be: nsend is the sum of the two iov_len passed to
writev, nrecv is sizeof (hdr) and is the count passed to the header read, m->pkt_len the count of the body read.
Any other shape raises GenError."""
import os, re


class Bad(Exception):
    pass


def strip_comments(t):
    return re.sub(r"/\*.*?\*/", " ", t, flags=re.S)


def func_body(src, name):
    m = re.search(r"^%s \([^)]*\)\s*\n\{\n(.*?)^\}" % re.escape(name), src, re.S | re.M)
    if not m:
        raise Bad("function %s not found" % name)
    return strip_comments(m.group(1))


TOK = re.compile(r"\s*(->|\+\+|>=|<=|==|!=|&&|\|\||\+=|[A-Za-z_]\w*|\d+|\"(?:[^\"\\]|\\.)*\"|[-+*/%&|!<>=(){};,\[\].:?])")


def tokenize(t):
    out, pos = [], 0
    t = t.strip()
    while pos < len(t):
        m = TOK.match(t, pos)
        if not m:
            raise Bad("cannot tokenize near %r" % t[pos:pos + 30])
        out.append(m.group(1))
        pos = m.end()
        while pos < len(t) and t[pos].isspace():
            pos += 1
    return out


def matching(toks, i):
    """index of the parenthesis / brace closing the one at i"""
    op = toks[i]
    cl = {"(": ")", "{": "}"}[op]
    d = 0
    for j in range(i, len(toks)):
        if toks[j] == op:
            d += 1
        elif toks[j] == cl:
            d -= 1
            if d == 0:
                return j
    raise Bad("unbalanced %s" % op)


class Cond:
    """recursive descent over  ||  &&  !  ( )  and the atoms  <call-assign> < 0 | errno ==/!= ETIMEDOUT | n <op> WANTED"""

    def __init__(self, toks, wanted, callname):
        self.t, self.i, self.wanted, self.callname = toks, 0, wanted, callname
        self.call_args = None

    def peek(self, k=0):
        return self.t[self.i + k] if self.i + k < len(self.t) else None

    def at(self, *seq):
        return self.t[self.i:self.i + len(seq)] == list(seq)

    def parse(self):
        e = self.p_or()
        if self.i != len(self.t):
            raise Bad("condition not understood at `%s`" % " ".join(self.t[self.i:self.i + 8]))
        return e

    def p_or(self):
        e = self.p_and()
        while self.at("||"):
            self.i += 1
            e = "(%s || %s)" % (e, self.p_and())
        return e

    def p_and(self):
        e = self.p_not()
        while self.at("&&"):
            self.i += 1
            e = "(%s && %s)" % (e, self.p_not())
        return e

    def p_not(self):
        if self.at("!"):
            self.i += 1
            return "negb %s" % self.p_not()
        return self.p_atom()

    def p_wanted(self):
        w = self.wanted
        if self.t[self.i:self.i + len(w)] != w:
            raise Bad("`n` is compared with `%s`, expected `%s`" % (" ".join(self.t[self.i:self.i + 4]), " ".join(w)))
        self.i += len(w)

    def p_atom(self):
        # ((errno = 0, n = CALL (...)) < 0)  -- also without the outer parentheses
        if self.at("(", "errno", "=", "0", ",", "n", "=", self.callname, "("):
            j = matching(self.t, self.i + 8)
            self.call_args = self.t[self.i + 9:j]
            self.i = j + 1
            if not self.at(")", "<", "0"):
                raise Bad("the result of %s is not tested with `< 0`" % self.callname)
            self.i += 3
            return "(n <? 0)"
        if self.at("("):
            self.i += 1
            e = self.p_or()
            if not self.at(")"):
                raise Bad("missing `)` in a condition")
            self.i += 1
            return e
        if self.at("errno", "==", "ETIMEDOUT"):
            self.i += 3
            return "(is_timedout e)"
        if self.at("errno", "!=", "ETIMEDOUT"):
            self.i += 3
            return "(negb (is_timedout e))"
        if self.at("n") and self.peek(1) in ("!=", "==", "<", ">", "<=", ">="):
            op = self.peek(1)
            self.i += 2
            if self.at("0"):
                self.i += 1
                rhs = "0"
            else:
                self.p_wanted()
                rhs = "w"
            return {"!=": "negb (n =? %s)", "==": "(n =? %s)", "<": "(n <? %s)", ">": "(%s <? n)",
                    "<=": "(n <=? %s)", ">=": "(%s <=? n)"}[op] % rhs
        raise Bad("condition not understood at `%s`" % " ".join(self.t[self.i:self.i + 8]))


def io_chain(toks, start, callname, wanted):
    """toks[start] is the `if` whose condition contains the call.  Returns (gallina, call_args, index after the I/O arms).
    The arms taken are this one and the following `else if` arms whose conditions mention `n` or `errno`."""
    conds = []
    i = start
    args = None
    first = True
    while True:
        if toks[i] != "if" or toks[i + 1] != "(":
            raise Bad("expected `if (` at `%s`" % " ".join(toks[i:i + 6]))
        j = matching(toks, i + 1)
        ctoks = toks[i + 2:j]
        if not first and not ("n" in ctoks or "errno" in ctoks):
            break
        c = Cond(ctoks, wanted, callname)
        conds.append(c.parse())
        if first:
            if c.call_args is None:
                raise Bad("the call of %s is not in the condition it was found in" % callname)
            args = c.call_args
        elif c.call_args is not None:
            raise Bad("a second call of %s in the same chain" % callname)
        if toks[j + 1] != "{":
            raise Bad("an arm without braces")
        k = matching(toks, j + 1)
        body = toks[j + 2:k]
        # every I/O arm must be an error return
        if "return" not in body or "EMUNGE_SUCCESS" in body:
            raise Bad("an arm testing the I/O result does not return an error: `%s`" % " ".join(body[-8:]))
        r = body.index("return")
        if body[r + 1] != "(" or not body[r + 2].startswith("EMUNGE_") or body[r + 3:r + 5] != [")", ";"] or r + 5 != len(body):
            raise Bad("an arm testing the I/O result does not end in `return (EMUNGE_...);`")
        first = False
        if toks[k + 1:k + 3] == ["else", "if"]:
            i = k + 2
            continue
        i = k + 1
        break
    return "negb (%s)" % " || ".join(conds), args, i


def find_call(toks, callname, nth=0):
    """index of the `if` whose condition holds the nth call of callname"""
    hits = [i for i, t in enumerate(toks) if t == callname]
    if len(hits) <= nth:
        raise Bad("call #%d of %s not found" % (nth + 1, callname))
    h = hits[nth]
    # walk back to the `if` that opens this condition
    for i in range(h, -1, -1):
        if toks[i] == "if" and toks[i + 1] == "(" and matching(toks, i + 1) > h:
            return i
    raise Bad("%s is not called inside an if-condition" % callname)


def gen(api):
    R = api.REPO
    try:
        src = open(os.path.join(R, "src/libcommon/m_msg.c")).read()
        # ---- m_msg_send
        st = tokenize(func_body(src, "m_msg_send"))
        txt = " ".join(st)
        for need in ("nsend = 0 ;", "nsend += iov [ 0 ] . iov_len = sizeof ( hdr ) ;", "nsend += iov [ 1 ] . iov_len = m -> pkt_len ;"):
            if need not in txt:
                raise Bad("m_msg_send: `%s` not found (nsend must be the sum of the iov_len handed to writev)" % need.replace(" ", ""))
        if len(re.findall(r"nsend (?:=|\+=|-=|\+\+|--|\*=) ", txt)) != 3 or "& nsend" in txt:
            raise Bad("m_msg_send: nsend is modified elsewhere")
        i = find_call(st, "fd_timed_write_iov")
        send, args, after = io_chain(st, i, "fd_timed_write_iov", ["nsend"])
        if args[:8] != ["m", "->", "sd", ",", "iov", ",", "2", ","]:
            raise Bad("m_msg_send: fd_timed_write_iov is not called with (m->sd, iov, 2, ...)")
        if st[after:after + 5] != ["return", "(", "EMUNGE_SUCCESS", ")", ";"] or after + 5 != len(st):
            raise Bad("m_msg_send: the tests on the result of fd_timed_write_iov are not followed by `return (EMUNGE_SUCCESS);`")
        # ---- m_msg_recv
        rt = tokenize(func_body(src, "m_msg_recv"))
        rtxt = " ".join(rt)
        if "nrecv = sizeof ( hdr ) ;" not in rtxt or rtxt.count("nrecv =") != 1:
            raise Bad("m_msg_recv: `nrecv = sizeof (hdr);` not found or nrecv assigned more than once")
        i1 = find_call(rt, "fd_timed_read_n", 0)
        hdr, a1, _ = io_chain(rt, i1, "fd_timed_read_n", ["nrecv"])
        if a1[:8] != ["m", "->", "sd", ",", "&", "hdr", ",", "nrecv"]:
            raise Bad("m_msg_recv: the header read is not fd_timed_read_n (m->sd, &hdr, nrecv, ...)")
        i2 = find_call(rt, "fd_timed_read_n", 1)
        body, a2, _ = io_chain(rt, i2, "fd_timed_read_n", ["m", "->", "pkt_len"])
        if a2[:12] != ["m", "->", "sd", ",", "m", "->", "pkt", ",", "m", "->", "pkt_len", ","]:
            raise Bad("m_msg_recv: the body read is not fd_timed_read_n (m->sd, m->pkt, m->pkt_len, ...)")
        if i2 < i1 or "else" != rt[i2 - 1]:
            raise Bad("m_msg_recv: the body read is not an arm of the chain that starts with the header read")
        if not rtxt.rstrip().endswith("return ( EMUNGE_SUCCESS ) ;"):
            raise Bad("m_msg_recv does not end in `return (EMUNGE_SUCCESS);`")
    except (Bad, OSError, IndexError, ValueError) as e:
        raise api.GenError("retrymsgio: m_msg_send / m_msg_recv are no longer in the shape the translator knows: %s" % e)
    out = "\n".join([
        "(* GENERATED from the text of src/libcommon/m_msg.c (m_msg_send, m_msg_recv) by tools/facts/retrymsgio.py - do not edit *)",
        "From Coq Require Import ZArith Bool.", "From MV Require Import FdModel.", "Local Open Scope Z_scope.",
        "Definition is_timedout (e : errno) : bool := match e with ETIMEDOUT => true | _ => false end.",
        "(* n: the value assigned from the call (-1 = failure); e: errno after `(errno = 0, n = ...)`; w: the count asked for *)",
        "Definition src_send_accepts (n : Z) (e : errno) (w : Z) : bool :=\n  %s." % send,
        "Definition src_recv_hdr_accepts (n : Z) (e : errno) (w : Z) : bool :=\n  %s." % hdr,
        "Definition src_recv_body_accepts (n : Z) (e : errno) (w : Z) : bool :=\n  %s." % body, ""])
    return api.write_gen("GenRetryMsgIO.v", out)
