"""GenCredFun.v: the small decision functions of the credential pipeline TRANSLATED FROM THE C TEXT into Gallina on every
run (a translator, not a probe): enc_validate_msg (enc.c), dec_validate_auth and dec_validate_time (dec.c).

The translator understands a subset of C that these functions stay inside: local declarations of integer type,
assignments to locals and to members of `m`, if / else-if / else, empty statements, `return (0)`,
`return (m_msg_set_err (m, CODE, ...))`, `goto label` to a trailing label, assert (ignored), integer expressions with
casts, + - comparisons && || ! and ?:, members of `m` (struct m_msg, types read from m_msg.h) and `conf`, and calls of a
fixed table of pure helpers (cipher_map_enum, mac_map_enum, mac_size, cipher_key_size, zip_is_valid_type, gids_is_member)
that are mapped to the model's tables.  C's integer semantics are made explicit: every operand carries its C type
(uint8_t, uint32_t, int, time_t/long, bool), the usual arithmetic conversions are applied, unsigned 32-bit results wrap
(mod 2^32), conversions to int wrap to the signed range; signed overflow (undefined behaviour) is not modelled.
Anything outside the subset makes the generation fail, which the check reports.

coq/CredFun.v proves that CredModel's enc_validate / dec_authorized / dec_time ARE these functions."""
import os, re

U32 = 4294967296

MSG_FIELD = {"cipher": "m_cipher", "mac": "m_mac", "zip": "m_zip", "realm_len": "m_realm_len", "ttl": "m_ttl",
             "addr_len": "m_addr_len", "time0": "m_time0", "time1": "m_time1", "cred_uid": "m_cred_uid", "cred_gid": "m_cred_gid",
             "auth_uid": "m_auth_uid", "auth_gid": "m_auth_gid", "data_len": "m_data_len", "client_uid": "m_client_uid",
             "client_gid": "m_client_gid", "retry": "m_retry"}
CONF_FIELD = {"def_cipher": ("(Z.of_N (cf_def_cipher cf))", "int"), "def_mac": ("(Z.of_N (cf_def_mac cf))", "int"),
              "def_zip": ("(Z.of_N (cf_def_zip cf))", "int"), "def_ttl": ("(Z.of_N (cf_def_ttl cf))", "int"),
              "max_ttl": ("(Z.of_N (cf_max_ttl cf))", "int"), "got_clock_skew": ("(b2z (cf_clock_skew cf))", "int"),
              "got_root_auth": ("(b2z (cf_root_auth cf))", "int"), "gids": ("0", "int")}
MACROS = {"MUNGE_CIPHER_DEFAULT": "c_cipher_default", "MUNGE_CIPHER_NONE": "c_cipher_none", "MUNGE_MAC_DEFAULT": "c_mac_default",
          "MUNGE_MAC_NONE": "c_mac_none", "MUNGE_ZIP_DEFAULT": "c_zip_default", "MUNGE_ZIP_NONE": "c_zip_none",
          "MUNGE_TTL_DEFAULT": "c_ttl_default", "MUNGE_UID_ANY": "c_uid_any", "MUNGE_GID_ANY": "c_gid_any"}
ERRS = {"EMUNGE_BAD_CIPHER": "e_bad_cipher", "EMUNGE_BAD_MAC": "e_bad_mac", "EMUNGE_BAD_ZIP": "e_bad_zip",
        "EMUNGE_CRED_REWOUND": "e_cred_rewound", "EMUNGE_CRED_EXPIRED": "e_cred_expired",
        "EMUNGE_CRED_UNAUTHORIZED": "e_cred_unauthorized", "EMUNGE_BAD_CRED": "e_bad_cred", "EMUNGE_SNAFU": "e_snafu"}
CTYPE = {"uint8_t": "u8", "uint32_t": "u32", "int": "int", "unsigned": "u32", "unsigned int": "u32", "time_t": "long", "long": "long",
         "uid_t": "u32", "gid_t": "u32"}


class TErr(Exception):
    pass


# ------------------------------------------------------------------ lexer
TOK = re.compile(r"\s*(?:(\d+[uUlL]*)|([A-Za-z_]\w*)|(->|==|!=|<=|>=|&&|\|\||[-+*/%<>=!?:;,(){}&|~.]))")


def lex(src):
    src = re.sub(r"/\*.*?\*/", " ", src, flags=re.S)
    src = re.sub(r'"(?:\\.|[^"\\])*"', '"S"', src)          # string literals carry no logic here
    out, i = [], 0
    src = src.replace('"S"', " STRLIT ")
    while True:
        m = TOK.match(src, i)
        if not m:
            if src[i:].strip():
                raise TErr("cannot tokenize at %r" % src[i:i + 30])
            break
        i = m.end()
        if m.group(1):
            out.append(("num", int(re.sub(r"[uUlL]", "", m.group(1)))))
        elif m.group(2):
            out.append(("id", m.group(2)))
        else:
            out.append(("op", m.group(3)))
    return out


# ------------------------------------------------------------------ parser (expressions -> AST tuples)
class P:
    def __init__(self, toks):
        self.t, self.i = toks, 0

    def peek(self, k=0):
        return self.t[self.i + k] if self.i + k < len(self.t) else ("eof", None)

    def eat(self, kind=None, val=None):
        tk = self.peek()
        if (kind and tk[0] != kind) or (val is not None and tk[1] != val):
            raise TErr("expected %s %s, found %s" % (kind, val, tk))
        self.i += 1
        return tk

    def at(self, val):
        return self.peek()[1] == val and self.peek()[0] in ("op", "id")

    # expr := ternary
    def expr(self):
        c = self.lor()
        if self.at("?"):
            self.eat()
            a = self.expr()
            self.eat("op", ":")
            b = self.expr()
            return ("?:", c, a, b)
        return c

    def lor(self):
        a = self.land()
        while self.at("||"):
            self.eat()
            a = ("||", a, self.land())
        return a

    def land(self):
        a = self.cmp()
        while self.at("&&"):
            self.eat()
            a = ("&&", a, self.cmp())
        return a

    def cmp(self):
        a = self.add()
        while self.peek()[0] == "op" and self.peek()[1] in ("==", "!=", "<", ">", "<=", ">="):
            op = self.eat()[1]
            a = (op, a, self.add())
        return a

    def add(self):
        a = self.unary()
        while self.peek()[0] == "op" and self.peek()[1] in ("+", "-"):
            op = self.eat()[1]
            a = (op, a, self.unary())
        return a

    def unary(self):
        if self.at("!"):
            self.eat()
            return ("!", self.unary())
        if self.at("-"):
            self.eat()
            return ("neg", self.unary())
        if self.at("("):
            # cast or parenthesis
            k = 1
            words = []
            while self.peek(k)[0] == "id":
                words.append(self.peek(k)[1])
                k += 1
            ty = " ".join(words)
            if words and self.peek(k) == ("op", ")") and ty in CTYPE:
                self.i += k + 1
                return ("cast", CTYPE[ty], self.unary())
            self.eat()
            e = self.expr()
            self.eat("op", ")")
            return e
        return self.postfix()

    def postfix(self):
        tk = self.eat()
        if tk[0] == "num":
            return ("num", tk[1])
        if tk[0] != "id":
            raise TErr("unexpected token %s" % (tk,))
        name = tk[1]
        if self.at("->"):
            self.eat()
            f = self.eat("id")[1]
            return ("mem", name, f)
        if self.at("("):
            self.eat()
            args = []
            while not self.at(")"):
                args.append(self.expr())
                if self.at(","):
                    self.eat()
            self.eat("op", ")")
            return ("call", name, args)
        return ("var", name)

    # statements
    def block(self):
        if self.at("{"):
            self.eat()
            out = []
            while not self.at("}"):
                out.append(self.stmt())
            self.eat()
            return out
        return [self.stmt()]

    def stmt(self):
        tk = self.peek()
        if tk == ("op", ";"):
            self.eat()
            return ("skip",)
        if tk == ("id", "if"):
            self.eat()
            self.eat("op", "(")
            c = self.expr()
            self.eat("op", ")")
            th = self.block()
            el = []
            if self.peek() == ("id", "else"):
                self.eat()
                el = self.block()
            return ("if", c, th, el)
        if tk == ("id", "return"):
            self.eat()
            e = self.expr()
            self.eat("op", ";")
            return ("return", e)
        if tk == ("id", "goto"):
            self.eat()
            l = self.eat("id")[1]
            self.eat("op", ";")
            return ("goto", l)
        if tk == ("id", "assert"):
            self.eat()
            self.eat("op", "(")
            self.expr()
            self.eat("op", ")")
            self.eat("op", ";")
            return ("skip",)
        if tk[0] == "id" and self.peek(1) == ("op", ":"):
            self.eat()
            self.eat()
            return ("label", tk[1])
        # declaration?  type words then identifier then ; or =
        if tk[0] == "id" and (tk[1] in CTYPE or tk[1] in ("m_msg_t", "munge_cred_t", "unsigned")):
            k = 0
            words = []
            while self.peek(k)[0] == "id":
                words.append(self.peek(k)[1])
                k += 1
            name, ty = words[-1], " ".join(words[:-1])
            self.i += k
            init = None
            if self.at("="):
                self.eat()
                init = self.expr()
            self.eat("op", ";")
            return ("decl", ty, name, init)
        lhs = self.unary()
        self.eat("op", "=")
        rhs = self.expr()
        self.eat("op", ";")
        return ("assign", lhs, rhs)


# ------------------------------------------------------------------ typed translation to Gallina (Z_scope)
def conv(term, frm, to):
    if frm == to or to == "long":
        return term
    if frm == "bool":
        return "(b2z %s)" % term if to != "bool" else term
    if to == "u32":
        return term if frm in ("u8",) or re.fullmatch(r"\d+", term) else "(wrap32 %s)" % term
    if to == "int":
        return term if frm in ("u8",) or re.fullmatch(r"\d+", term) else "(wrapi32 %s)" % term
    if to == "u8":
        return "(%s mod 256)" % term
    raise TErr("conversion %s -> %s" % (frm, to))


def common(a, b):
    p = lambda t: "int" if t in ("u8", "bool") else t
    a, b = p(a), p(b)
    if "long" in (a, b):
        return "long"
    if "u32" in (a, b):
        return "u32"
    return "int"


class Fn:
    def __init__(self, name, locals_, msgtypes):
        self.name, self.locals, self.msgtypes = name, locals_, msgtypes      # locals: name -> type

    def val(self, e):
        """-> (Z term, type)"""
        k = e[0]
        if k == "num":
            return str(e[1]), "int"
        if k == "var":
            n = e[1]
            if n in self.locals:
                return "l_" + n, self.locals[n]
            if n in MACROS:
                return "(Z.of_N %s)" % MACROS[n], "int"
            if n == "NULL":
                return "0", "int"
            raise TErr("%s: unknown identifier %s" % (self.name, n))
        if k == "mem":
            if e[1] == "m":
                if e[2] not in MSG_FIELD or e[2] not in self.msgtypes:
                    raise TErr("%s: member m->%s is not modelled" % (self.name, e[2]))
                return "(Z.of_N (%s m))" % MSG_FIELD[e[2]], self.msgtypes[e[2]]
            if e[1] == "conf":
                if e[2] not in CONF_FIELD:
                    raise TErr("%s: conf->%s is not modelled" % (self.name, e[2]))
                return CONF_FIELD[e[2]]
            raise TErr("%s: member of %s" % (self.name, e[1]))
        if k == "cast":
            t, ty = self.val(e[2])
            return conv(t, ty, e[1]), e[1]
        if k == "neg":
            t, ty = self.val(e[1])
            ty2 = common(ty, "int")
            r = "(- %s)" % conv(t, ty, ty2)
            return ("(wrap32 %s)" % r if ty2 == "u32" else r), ty2
        if k in ("+", "-"):
            a, ta = self.val(e[1])
            b, tb = self.val(e[2])
            ty = common(ta, tb)
            r = "(%s %s %s)" % (conv(a, ta, ty), k, conv(b, tb, ty))
            return ("(wrap32 %s)" % r if ty == "u32" else r), ty
        if k == "?:":
            c = self.cond(e[1])
            a, ta = self.val(e[2])
            b, tb = self.val(e[3])
            ty = common(ta, tb)
            return "(if %s then %s else %s)" % (c, conv(a, ta, ty), conv(b, tb, ty)), ty
        if k == "call":
            f, args = e[1], e[2]
            av = [self.val(x) for x in args]
            if f in ("cipher_map_enum", "mac_map_enum") and len(args) == 2:
                tab = "cipher_valid" if f.startswith("cipher") else "mac_valid"
                return "(if %s (Z.to_N %s) then 0 else -1)" % (tab, conv(av[0][0], av[0][1], "int")), "int"
            if f in ("mac_size", "cipher_key_size") and len(args) == 1:
                return "(Z.of_N (%s (Z.to_N %s)))" % (f, conv(av[0][0], av[0][1], "int")), "int"
            if f == "zip_is_valid_type" and len(args) == 1:
                return "(b2z (zip_valid (Z.to_N %s)))" % conv(av[0][0], av[0][1], "int"), "int"
            if f == "gids_is_member" and len(args) == 3:
                return "(b2z (is_member (Z.to_N %s) (Z.to_N %s)))" % (conv(av[1][0], av[1][1], "u32"), conv(av[2][0], av[2][1], "u32")), "int"
            raise TErr("%s: call of %s is outside the translated subset" % (self.name, f))
        # boolean-valued expression used as a number
        return "(b2z %s)" % self.cond(e), "int"

    def cond(self, e):
        """-> bool term"""
        k = e[0]
        if k in ("==", "!=", "<", ">", "<=", ">="):
            a, ta = self.val(e[1])
            b, tb = self.val(e[2])
            ty = common(ta, tb)
            a, b = conv(a, ta, ty), conv(b, tb, ty)
            op = {"==": "=?", "<": "<?", ">": ">?", "<=": "<=?", ">=": ">=?"}.get(k)
            return "(negb (%s =? %s))" % (a, b) if k == "!=" else "(%s %s %s)" % (a, op, b)
        if k == "&&":
            return "(%s && %s)" % (self.cond(e[1]), self.cond(e[2]))
        if k == "||":
            return "(%s || %s)" % (self.cond(e[1]), self.cond(e[2]))
        if k == "!":
            return "(negb %s)" % self.cond(e[1])
        t, ty = self.val(e)
        return "(negb (%s =? 0))" % t

    # statements: each list of statements becomes a term of type  (N * msg) + state   given the state variables in scope
    def state(self):
        return "(m, (%s))" % ", ".join(["l_" + n for n in self.locals] + ["tt"])

    def seq(self, stmts, labels, ind):
        """term of type N * msg: run stmts; falling off the end is an error in these int functions"""
        sp = " " * ind
        if not stmts:
            raise TErr("%s: control reaches the end of the function without a return" % self.name)
        s, rest = stmts[0], stmts[1:]
        k = s[0]
        if k in ("skip", "label"):
            return self.seq(rest, labels, ind)
        if k == "decl":
            if s[3] is None:
                return self.seq(rest, labels, ind)
            s = ("assign", ("var", s[2]), s[3])
            k = "assign"
        if k == "return":
            return sp + self.ret(s[1])
        if k == "goto":
            if s[1] not in labels:
                raise TErr("%s: goto %s: no such trailing label" % (self.name, s[1]))
            return self.seq(labels[s[1]], labels, ind)
        if k == "assign":
            return sp + self.assign(s) + "\n" + self.seq(rest, labels, ind)
        if k == "if":
            if self.falls(s):
                # the if-statement as a state transformer with early exits:  match (...) with inl r => r | inr s => rest end
                body = self.ifsum(s, labels, ind + 2)
                return ("%smatch (\n%s\n%s) with\n%s| inl r => r\n%s| inr %s =>\n%s\n%send" %
                        (sp, body, sp, sp, sp, self.state(), self.seq(rest, labels, ind + 2), sp))
            return self.ifsum(s, labels, ind, final=True)
        raise TErr("%s: statement %s" % (self.name, k))

    def ret(self, e):
        if e == ("num", 0):
            return "(0%N, m)"
        if e[0] == "call" and e[1] == "m_msg_set_err" and len(e[2]) >= 2 and e[2][1][0] == "var" and e[2][1][1] in ERRS:
            return "(%s, m)" % ERRS[e[2][1][1]]
        raise TErr("%s: return value outside the subset: %s" % (self.name, str(e)[:80]))

    def assign(self, s):
        lhs, rhs = s[1], s[2]
        t, ty = self.val(rhs)
        if lhs[0] == "var" and lhs[1] in self.locals:
            return "let l_%s := %s in" % (lhs[1], conv(t, ty, self.locals[lhs[1]]))
        if lhs[0] == "mem" and lhs[1] == "m" and lhs[2] in MSG_FIELD and lhs[2] in self.msgtypes:
            return "let m := m <| %s := Z.to_N %s |> in" % (MSG_FIELD[lhs[2]], conv(t, ty, self.msgtypes[lhs[2]]))
        raise TErr("%s: assignment to %s" % (self.name, str(lhs)))

    def falls(self, s):
        """can control fall out of this statement (list)?"""
        if isinstance(s, list):
            for x in s:
                if not self.falls(x):
                    return False
            return True
        if s[0] in ("return", "goto"):
            return False
        if s[0] == "if":
            return self.falls(s[2]) or self.falls(s[3]) or not s[3]
        return True

    def blocksum(self, stmts, labels, ind, final):
        """term of type (N*msg) + state (or N*msg when final) for a block that may fall through"""
        sp = " " * ind
        if not stmts:
            if final:
                raise TErr("%s: control reaches the end of the function without a return" % self.name)
            return sp + "inr %s" % self.state()
        s, rest = stmts[0], stmts[1:]
        k = s[0]
        if k in ("skip", "label"):
            return self.blocksum(rest, labels, ind, final)
        if k == "decl":
            raise TErr("%s: declaration inside a block" % self.name)
        if k == "return":
            return sp + (self.ret(s[1]) if final else "inl %s" % self.ret(s[1]))
        if k == "goto":
            t = self.seq(labels[s[1]], labels, ind + 2) if s[1] in labels else None
            if t is None:
                raise TErr("%s: goto %s" % (self.name, s[1]))
            return t if final else "%sinl (\n%s)" % (sp, t)
        if k == "assign":
            return sp + self.assign(s) + "\n" + self.blocksum(rest, labels, ind, final)
        if k == "if":
            if rest and self.falls(s):
                body = self.ifsum(s, labels, ind + 2)
                cont = self.blocksum(rest, labels, ind + 2, final)
                return ("%smatch (\n%s\n%s) with\n%s| inl r => %s\n%s| inr %s =>\n%s\n%send" %
                        (sp, body, sp, sp, "r" if final else "inl r", sp, self.state(), cont, sp))
            return self.ifsum(s, labels, ind, final=final)
        raise TErr("%s: statement %s" % (self.name, k))

    def ifsum(self, s, labels, ind, final=False):
        sp = " " * ind
        c = self.cond(s[1])
        th = self.blocksum(s[2], labels, ind + 2, final)
        if s[3]:
            el = self.blocksum(s[3], labels, ind + 2, final)
        else:
            if final:
                raise TErr("%s: control reaches the end of the function without a return" % self.name)
            el = " " * (ind + 2) + "inr %s" % self.state()
        return "%sif %s then\n%s\n%selse\n%s" % (sp, c, th, sp, el)


def func_text(src, name):
    m = re.search(r"^%s \((.*?)\)\n\{(.*?)^\}" % re.escape(name), src, re.S | re.M)
    if not m:
        raise TErr("function %s not found" % name)
    return m.group(2)


def translate(src, name, msgtypes, extra_params=""):
    body = func_text(src, name)
    p = P(lex(body))
    stmts = []
    while p.peek()[0] != "eof":
        stmts.append(p.stmt())
    # locals = integer declarations; `m_msg_t m = c->msg;` just names the message
    locals_ = {}
    keep = []
    for s in stmts:
        if s[0] == "decl":
            if s[1] in ("m_msg_t", "munge_cred_t"):
                continue
            if s[1] not in CTYPE:
                raise TErr("%s: local %s of type %s" % (name, s[2], s[1]))
            locals_[s[2]] = CTYPE[s[1]]
        keep.append(s)
    # trailing labels: label L: followed by statements to the end
    labels = {}
    for i, st in enumerate(keep):
        if st[0] == "label":
            labels[st[1]] = keep[i + 1:]
    main = keep                      # control falls through a label into the statements after it
    fn = Fn(name, locals_, msgtypes)
    init = "".join("  let l_%s := 0 in\n" % n for n in locals_)
    term = fn.seq(main, labels, 2)
    return "Definition src_%s (cf : conf)%s (m : msg) : N * msg :=\n%s%s." % (name, extra_params, init, term)


def msg_types(hsrc):
    m = re.search(r"struct m_msg \{(.*?)\n\};", hsrc, re.S)
    if not m:
        raise TErr("struct m_msg not found in m_msg.h")
    out = {}
    for ty, nm in re.findall(r"^\s*(uint8_t|uint32_t|int|unsigned)\s+(\w+)\s*;", re.sub(r"/\*.*?\*/", "", m.group(1), flags=re.S), re.M):
        out[nm] = CTYPE[ty]
    return out


def gen(api):
    R = api.REPO
    try:
        mt = msg_types(open(os.path.join(R, "src/libcommon/m_msg.h")).read())
        dsrc = open(os.path.join(R, "src/munged/dec.c")).read()
        esrc = open(os.path.join(R, "src/munged/enc.c")).read()
        defs = [translate(esrc, "enc_validate_msg", mt),
                translate(dsrc, "dec_validate_auth", mt, " (is_member : N -> N -> bool)"),
                translate(dsrc, "dec_validate_time", mt)]
    except (TErr, OSError, IndexError) as e:
        raise api.GenError("cfun: " + str(e))
    out = "\n".join([
        "(* GENERATED from the C text of enc.c (enc_validate_msg) and dec.c (dec_validate_auth, dec_validate_time) by tools/facts/cfun.py - do not edit *)",
        "From Coq Require Import List NArith ZArith Bool.", "From RecordUpdate Require Import RecordSet.",
        "From MV Require Import Bytes CredModel.", "From MV.gen Require Import GenCred.",
        "Import ListNotations RecordSetNotations.", "Local Open Scope Z_scope.",
        "Definition b2z (b : bool) : Z := if b then 1 else 0.",
        "Definition wrap32 (z : Z) : Z := z mod 4294967296.",
        "Definition wrapi32 (z : Z) : Z := (z + 2147483648) mod 4294967296 - 2147483648.",
        ""] + [d + "\n" for d in defs])
    return api.write_gen("GenCredFun.v", out)
