"""GenCredFun.v: the decision functions AND the control skeleton of the credential pipeline TRANSLATED FROM THE C TEXT into
Gallina on every run (a translator, not a probe):
  enc.c: enc_validate_msg, enc_authenticate, enc_check_retry, enc_timestamp, enc_process_msg (skeleton)
  dec.c: dec_validate_msg, dec_timestamp, dec_authenticate, dec_check_retry, dec_validate_auth, dec_validate_time,
         dec_validate_replay, dec_process_msg (skeleton)

The translator understands a subset of C that these functions stay inside: local declarations of integer type,
assignments to locals and to members of `m`, if / else-if / else, empty statements, `return (0)`,
`return (m_msg_set_err (m, CODE, ...))`, `goto label` to a trailing label, assert (ignored), integer expressions with
casts, + - comparisons && || ! and ?:, members of `m` (struct m_msg, types read from m_msg.h) and `conf`, and calls of a
fixed table of pure helpers (cipher_map_enum, mac_map_enum, mac_size, cipher_key_size, zip_is_valid_type, gids_is_member)
that are mapped to the model's tables.  C's integer semantics are made explicit: every operand carries its C type
(uint8_t, uint32_t, int, time_t/long, bool), the usual arithmetic conversions are applied, unsigned 32-bit results wrap
(mod 2^32), conversions to int wrap to the signed range; signed overflow (undefined behaviour) is not modelled.
Anything outside the subset makes the generation fail, which the check reports.

Modelling decisions for what is outside pure integer code (each one is a visible PARAMETER of the generated function,
never a hidden assumption):
  * log_msg (...) as a statement is dropped: it has no effect on the message or on the reply.
  * a function returns (code, m): `return (0)` is (0, m); `return (m_msg_set_err (m, E, str))` is (E, m) - the C function
    then returns -1 and the error member is set by m_msg_set_err (first error wins; CredModel.set_err); the string is
    not translated.
  * m->data (a pointer member) is the parameter `p_data : Z` (the address, 0 = NULL).
  * time (&x): the clock is the parameter `clk : Z` (a time_t, 64 bit); the call stores clk in the local x and has the
    value clk (so the failure test `== (time_t) -1` is translated as written).
  * auth_recv (m, P, Q): an opaque source of a pair.  Parameters `auth_rc peer_uid peer_gid : Z` (peer_* are uid_t/gid_t
    values, 32-bit unsigned).  The call has the value auth_rc and, when auth_rc = 0, stores peer_uid through P and
    peer_gid through Q (auth_recv.c returns before its stores on every failure path).  P and Q are resolved AT
    TRANSLATION TIME to the object they point to: `&local`, `&(m->member)`, or a pointer local that was assigned one of
    these at the top level of the function (`p_uid = (uid_t *) &(m->client_uid);`); pointer casts are dropped (the
    pointed-to member's own type, from m_msg.h, decides the stored width).  Any other pointer use fails the generation.
  * dec_validate_replay reads the clock a SECOND time (after replay_insert): the same `clk` parameter convention, so the
    generated src_dec_validate_replay takes the clock reading AT THE REPLAY STEP (the model's now2), independent of the
    reading dec_timestamp stored in m->time1.
  * replay_insert (c): its result is the parameter `ins : Z` (0 inserted, > 0 already there, < 0 failure); `errno` after
    it is the parameter `errno_ : Z`; ENOMEM is 12 (Linux).
  * c->MEMBER for an integer member of struct munge_cred (types read from cred.h; today: is_replay_new) is a state bit of
    the request.  In a decision function that is declared to thread it, it is the parameter `c_MEMBER : Z` on entry and
    an extra component of the result (code, m, c_MEMBER) on exit; assignments to it are translated as written.  In the
    skeletons it is read through `op_cred ops "MEMBER"`.  `c->msg` only names the message.
  * a call with a side effect (the ones above and, in the skeletons, the stage calls and m_msg_send) may appear only
    where it is evaluated unconditionally (not to the right of && or ||, not in a ?: arm), at most one per
    condition/assignment; it is hoisted in front of the condition as a `let`.
  * the skeletons (enc_process_msg, dec_process_msg) are translated in "pipe" mode, polymorphic in the state S of one
    request (message + credential aux data + replay hash), over a record of operations
        pipe_ops S = { op_msg : S -> msg;  op_cred : string -> S -> Z;  op_stage : string -> S -> Z * S;
                       op_reset : S -> S;  op_send : S -> Z * S;  op_unplay : S -> S }
    - `NAME (m)` / `NAME (c)` for NAME = cred_create or any dec_*/enc_* function is `op_stage ops "NAME"`: the C return
      value (int; for cred_create the pointer, 0 = NULL) and the new state;
    - `c = cred_create (m)` inside a condition: an assignment expression to the local `c` (pointers held in locals are
      integers, NULL = 0);
    - m->member is read through op_msg, c->member through op_cred; `m_msg_reset (m);` is op_reset; `m_msg_send (m, TYPE, 0)` is op_send (its
      munge_err_t value and the new state; TYPE and the length limit are not translated); `replay_remove (c);` is
      op_unplay; `cred_destroy (c);` is dropped (it releases the aux data; nothing of it is observable afterwards);
    - `return (rc)` is (rc, state).
    Which stage runs after which, that a failing stage ends the chain, the guard of m_msg_reset and exactly when
    replay_remove is called are therefore read from the source text.

coq/CredFun.v proves that CredModel's decision functions ARE these functions; coq/CredPipe.v proves that the two
skeletons are the reference control structure (pipe_control) over the model's stage order and that CredModel's
dec_process + dec_rollback / enc_process are that control structure over the model's stage functions."""
import os, re

U32 = 4294967296

MSG_FIELD = {"cipher": "m_cipher", "mac": "m_mac", "zip": "m_zip", "realm_len": "m_realm_len", "ttl": "m_ttl",
             "addr_len": "m_addr_len", "time0": "m_time0", "time1": "m_time1", "cred_uid": "m_cred_uid", "cred_gid": "m_cred_gid",
             "auth_uid": "m_auth_uid", "auth_gid": "m_auth_gid", "data_len": "m_data_len", "client_uid": "m_client_uid",
             "client_gid": "m_client_gid", "retry": "m_retry", "error_num": "m_err"}
PTR_FIELD = {"data": ("p_data", "data_ptr")}          # pointer members: (parameter, environment key)
CONF_FIELD = {"def_cipher": ("(Z.of_N (cf_def_cipher cf))", "int"), "def_mac": ("(Z.of_N (cf_def_mac cf))", "int"),
              "def_zip": ("(Z.of_N (cf_def_zip cf))", "int"), "def_ttl": ("(Z.of_N (cf_def_ttl cf))", "int"),
              "max_ttl": ("(Z.of_N (cf_max_ttl cf))", "int"), "got_clock_skew": ("(b2z (cf_clock_skew cf))", "int"),
              "got_root_auth": ("(b2z (cf_root_auth cf))", "int"), "got_socket_retry": ("(b2z (cf_socket_retry cf))", "int"),
              "gids": ("0", "int")}
MACROS = {"MUNGE_CIPHER_DEFAULT": "c_cipher_default", "MUNGE_CIPHER_NONE": "c_cipher_none", "MUNGE_MAC_DEFAULT": "c_mac_default",
          "MUNGE_MAC_NONE": "c_mac_none", "MUNGE_ZIP_DEFAULT": "c_zip_default", "MUNGE_ZIP_NONE": "c_zip_none",
          "MUNGE_TTL_DEFAULT": "c_ttl_default", "MUNGE_UID_ANY": "c_uid_any", "MUNGE_GID_ANY": "c_gid_any",
          "MUNGE_SOCKET_RETRY_ATTEMPTS": "c_retry_attempts"}
ERRS = {"EMUNGE_SUCCESS": "e_success", "EMUNGE_SNAFU": "e_snafu", "EMUNGE_BAD_ARG": "e_bad_arg", "EMUNGE_NO_MEMORY": "e_no_memory",
        "EMUNGE_SOCKET": "e_socket", "EMUNGE_BAD_CRED": "e_bad_cred", "EMUNGE_BAD_VERSION": "e_bad_version",
        "EMUNGE_BAD_CIPHER": "e_bad_cipher", "EMUNGE_BAD_MAC": "e_bad_mac", "EMUNGE_BAD_ZIP": "e_bad_zip",
        "EMUNGE_CRED_INVALID": "e_cred_invalid", "EMUNGE_CRED_EXPIRED": "e_cred_expired", "EMUNGE_CRED_REWOUND": "e_cred_rewound",
        "EMUNGE_CRED_REPLAYED": "e_cred_replayed", "EMUNGE_CRED_UNAUTHORIZED": "e_cred_unauthorized"}
CTYPE = {"uint8_t": "u8", "uint32_t": "u32", "int": "int", "unsigned": "u32", "unsigned int": "u32", "time_t": "long", "long": "long",
         "uid_t": "u32", "gid_t": "u32"}
TYPEWORDS = set(w for t in CTYPE for w in t.split()) | {"m_msg_t", "munge_cred_t"}
ENOMEM = 12
# parameters a function may take from its environment, in the order they are declared
ENV_PARAMS = [("gids", "(is_member : N -> N -> bool)"), ("data_ptr", "(p_data : Z)"), ("time", "(clk : Z)"),
              ("auth_recv", "(auth_rc peer_uid peer_gid : Z)"), ("replay_insert", "(ins : Z)"), ("errno", "(errno_ : Z)")]
STAGE_RE = re.compile(r"^(?:(?:dec|enc)_\w+|cred_create)$")


class TErr(Exception):
    pass


# ------------------------------------------------------------------ lexer
TOK = re.compile(r"\s*(?:(\d+[uUlL]*)|([A-Za-z_]\w*)|(->|==|!=|<=|>=|&&|\|\||[-+*/%<>=!?:;,(){}&|~.]))")


def lex(src):
    src = re.sub(r"/\*.*?\*/", " ", src, flags=re.S)
    src = re.sub(r'"(?:\\.|[^"\\])*"', '"S"', src)          # string literals carry no logic here
    out, i = [], 0
    src = src.replace('"S"', " STRLIT ")
    src = re.sub(r"(?:STRLIT\s+)+", "STRLIT ", src)         # adjacent literals are one literal
    while True:
        m = TOK.match(src, i)
        if not m:
            if src[i:].strip():
                raise TErr("cannot tokenize at %r" % src[i:i + 30])
            break
        i = m.end()
        if m.group(1):
            out.append(("num", int(re.sub(r"[uUlL]", "", m.group(1)))))
        elif m.group(2):
            out.append(("id", m.group(2)))
        else:
            out.append(("op", m.group(3)))
    return out


# ------------------------------------------------------------------ parser (expressions -> AST tuples)
class P:
    def __init__(self, toks):
        self.t, self.i = toks, 0

    def peek(self, k=0):
        return self.t[self.i + k] if self.i + k < len(self.t) else ("eof", None)

    def eat(self, kind=None, val=None):
        tk = self.peek()
        if (kind and tk[0] != kind) or (val is not None and tk[1] != val):
            raise TErr("expected %s %s, found %s" % (kind, val, tk))
        self.i += 1
        return tk

    def at(self, val):
        return self.peek()[1] == val and self.peek()[0] in ("op", "id")

    # expr := ternary | lvalue = expr
    def expr(self):
        c = self.lor()
        if self.at("?"):
            self.eat()
            a = self.expr()
            self.eat("op", ":")
            b = self.expr()
            return ("?:", c, a, b)
        if self.peek() == ("op", "="):
            self.eat()
            return ("assignexpr", c, self.expr())
        return c

    def lor(self):
        a = self.land()
        while self.at("||"):
            self.eat()
            a = ("||", a, self.land())
        return a

    def land(self):
        a = self.cmp()
        while self.at("&&"):
            self.eat()
            a = ("&&", a, self.cmp())
        return a

    def cmp(self):
        a = self.add()
        while self.peek()[0] == "op" and self.peek()[1] in ("==", "!=", "<", ">", "<=", ">="):
            op = self.eat()[1]
            a = (op, a, self.add())
        return a

    def add(self):
        a = self.unary()
        while self.peek()[0] == "op" and self.peek()[1] in ("+", "-"):
            op = self.eat()[1]
            a = (op, a, self.unary())
        return a

    def unary(self):
        if self.at("!"):
            self.eat()
            return ("!", self.unary())
        if self.at("-"):
            self.eat()
            return ("neg", self.unary())
        if self.peek() == ("op", "&"):
            self.eat()
            return ("addr", self.unary())
        if self.at("("):
            # cast or parenthesis
            k = 1
            words = []
            while self.peek(k)[0] == "id":
                words.append(self.peek(k)[1])
                k += 1
            stars = 0
            while self.peek(k) == ("op", "*"):
                stars += 1
                k += 1
            ty = " ".join(words)
            if words and self.peek(k) == ("op", ")") and (ty in CTYPE or ty == "void"):
                self.i += k + 1
                inner = self.unary()
                if stars:
                    return ("cast", "ptr", inner)
                return ("cast", "void" if ty == "void" else CTYPE[ty], inner)
            self.eat()
            e = self.expr()
            self.eat("op", ")")
            return e
        return self.postfix()

    def postfix(self):
        tk = self.eat()
        if tk[0] == "num":
            return ("num", tk[1])
        if tk[0] != "id":
            raise TErr("unexpected token %s" % (tk,))
        name = tk[1]
        if self.at("->"):
            self.eat()
            f = self.eat("id")[1]
            return ("mem", name, f)
        if self.at("("):
            self.eat()
            args = []
            while not self.at(")"):
                args.append(self.expr())
                if self.at(","):
                    self.eat()
            self.eat("op", ")")
            return ("call", name, args)
        return ("var", name)

    # statements
    def block(self):
        if self.at("{"):
            self.eat()
            out = []
            while not self.at("}"):
                out.append(self.stmt())
            self.eat()
            return out
        return [self.stmt()]

    def stmt(self):
        tk = self.peek()
        if tk == ("op", ";"):
            self.eat()
            return ("skip",)
        if tk == ("id", "if"):
            self.eat()
            self.eat("op", "(")
            c = self.expr()
            self.eat("op", ")")
            th = self.block()
            el = []
            if self.peek() == ("id", "else"):
                self.eat()
                el = self.block()
            return ("if", c, th, el)
        if tk == ("id", "return"):
            self.eat()
            e = self.expr()
            self.eat("op", ";")
            return ("return", e)
        if tk == ("id", "goto"):
            self.eat()
            l = self.eat("id")[1]
            self.eat("op", ";")
            return ("goto", l)
        if tk == ("id", "assert"):
            self.eat()
            self.eat("op", "(")
            self.expr()
            self.eat("op", ")")
            self.eat("op", ";")
            return ("skip",)
        if tk[0] == "id" and self.peek(1) == ("op", ":"):
            self.eat()
            self.eat()
            return ("label", tk[1])
        # declaration:  type words, stars, identifier, then ; or = initialiser
        if tk[0] == "id" and tk[1] in TYPEWORDS:
            k = 0
            words = []
            while self.peek(k)[0] == "id" and self.peek(k)[1] in TYPEWORDS:
                words.append(self.peek(k)[1])
                k += 1
            stars = 0
            while self.peek(k) == ("op", "*"):
                stars += 1
                k += 1
            if self.peek(k)[0] != "id":
                raise TErr("declaration: expected a name after %s" % " ".join(words))
            name, ty = self.peek(k)[1], " ".join(words)
            self.i += k + 1
            init = None
            if self.at("="):
                self.eat()
                init = self.expr()
            self.eat("op", ";")
            return ("decl", ty, name, init, stars)
        lhs = self.unary()
        if self.peek() == ("op", ";"):
            self.eat()
            return ("expr", lhs)
        self.eat("op", "=")
        rhs = self.expr()
        self.eat("op", ";")
        return ("assign", lhs, rhs)


# ------------------------------------------------------------------ typed translation to Gallina (Z_scope)
def conv(term, frm, to):
    if frm == to or to == "long":
        return term
    if frm == "bool":
        return "(b2z %s)" % term if to != "bool" else term
    if to == "u32":
        return term if frm in ("u8",) or re.fullmatch(r"\d+", term) else "(wrap32 %s)" % term
    if to == "int":
        return term if frm in ("u8",) or re.fullmatch(r"\d+", term) else "(wrapi32 %s)" % term
    if to == "u8":
        return "(%s mod 256)" % term
    raise TErr("conversion %s -> %s" % (frm, to))


def common(a, b):
    p = lambda t: "int" if t in ("u8", "bool") else t
    a, b = p(a), p(b)
    if "long" in (a, b):
        return "long"
    if "u32" in (a, b):
        return "u32"
    return "int"


def strip_casts(e, kinds=("ptr", "void")):
    while e[0] == "cast" and e[1] in kinds:
        e = e[2]
    return e


class Fn:
    def __init__(self, name, locals_, msgtypes, mode="msg", env=(), ptrs=None, credtypes=None, cred=()):
        self.name, self.locals, self.msgtypes = name, locals_, msgtypes      # locals: name -> type
        self.mode, self.env, self.ptrs = mode, set(env), dict(ptrs or {})    # ptrs: pointer local -> lvalue it points to
        self.credtypes, self.cred = dict(credtypes or {}), list(cred)        # cred: members of struct munge_cred threaded
        for f in self.cred:                                                  # through this function, as pseudo-locals
            if f not in self.credtypes:
                raise TErr("%s: struct munge_cred has no integer member %s" % (name, f))
            self.locals["c__" + f] = self.credtypes[f]
        self.nv = 0

    def credmem(self, f):
        if self.mode == "msg" and f in self.cred:
            return "c__" + f
        raise TErr("%s: member c->%s is not part of this function's translated environment" % (self.name, f))

    def need(self, key, what):
        if key not in self.env:
            raise TErr("%s: %s is not part of this function's translated environment" % (self.name, what))

    # ---- pointers, resolved statically
    def lvalue(self, e):
        """the object an address expression designates: ("local", x) or ("member", field)"""
        e = strip_casts(e)
        if e[0] == "var" and e[1] in self.ptrs:
            if self.ptrs[e[1]] is None:
                raise TErr("%s: pointer %s is used before it is assigned" % (self.name, e[1]))
            return self.ptrs[e[1]]
        if e[0] == "addr":
            t = e[1]
            if t[0] == "var" and t[1] in self.locals:
                return ("local", t[1])
            if t[0] == "mem" and t[1] == "m" and t[2] in MSG_FIELD and t[2] in self.msgtypes and self.mode == "msg":
                return ("member", t[2])
        raise TErr("%s: pointer expression outside the subset: %s" % (self.name, str(e)[:80]))

    def store(self, lv, term, ty, guard=None):
        """the `let` that stores a value of type ty through an lvalue (only when guard holds, if given)"""
        if lv[0] == "local":
            new = conv(term, ty, self.locals[lv[1]])
            return "let l_%s := %s in" % (lv[1], new if guard is None else "(if %s then %s else l_%s)" % (guard, new, lv[1]))
        new = "m <| %s := Z.to_N %s |>" % (MSG_FIELD[lv[1]], conv(term, ty, self.msgtypes[lv[1]]))
        return "let m := %s in" % (new if guard is None else "(if %s then %s else m)" % (guard, new))

    # ---- calls with an effect: hoisted in front of the condition / assignment that contains them
    def effect(self, e):
        """-> None, or (lets, replacement expression) for an effectful call"""
        f, args = e[1], e[2]
        if f == "time" and len(args) == 1:
            self.need("time", "time ()")
            lv = self.lvalue(args[0])
            return [self.store(lv, "clk", "long")], ("raw", "clk", "long")
        if f == "auth_recv" and len(args) == 3 and args[0] == ("var", "m"):
            self.need("auth_recv", "auth_recv ()")
            g = "(auth_rc =? 0)"
            return [self.store(self.lvalue(args[1]), "peer_uid", "u32", g),
                    self.store(self.lvalue(args[2]), "peer_gid", "u32", g)], ("raw", "auth_rc", "int")
        if f == "replay_insert" and args == [("var", "c")]:
            self.need("replay_insert", "replay_insert ()")
            return [], ("raw", "ins", "int")
        if self.mode == "pipe":
            if STAGE_RE.match(f) and args in ([("var", "m")], [("var", "c")]):
                self.nv += 1
                return (["let '(v%d, m) := op_stage ops \"%s\"%%string m in" % (self.nv, f)],
                        ("raw", "v%d" % self.nv, "long" if f == "cred_create" else "int"))
            if f == "m_msg_send" and args and args[0] == ("var", "m"):
                self.nv += 1
                return ["let '(v%d, m) := op_send ops m in" % self.nv], ("raw", "v%d" % self.nv, "int")
        return None

    def has_effect(self, e):
        if not isinstance(e, tuple):
            return False
        if e[0] == "call" and (e[1] in ("time", "auth_recv", "replay_insert", "m_msg_send", "m_msg_reset", "replay_remove",
                                        "cred_destroy", "m_msg_set_err") or STAGE_RE.match(e[1])):
            return True
        if e[0] == "assignexpr":
            return True
        return any(self.has_effect(x) for x in e[1:] if isinstance(x, tuple)) or \
            any(self.has_effect(y) for x in e[1:] if isinstance(x, list) for y in x)

    def hoist(self, e):
        lets = []
        n = {"call": 0, "assign": 0}

        def pure(x, where):
            if self.has_effect(x):
                raise TErr("%s: a call with a side effect %s is outside the subset" % (self.name, where))
            return x

        def go(x):
            k = x[0]
            if k in ("num", "var", "mem", "raw", "addr"):
                return x
            if k == "cast":
                return ("cast", x[1], go(x[2]))
            if k in ("neg", "!"):
                return (k, go(x[1]))
            if k in ("==", "!=", "<", ">", "<=", ">=", "+", "-"):
                return (k, go(x[1]), go(x[2]))
            if k in ("&&", "||"):
                return (k, go(x[1]), pure(x[2], "to the right of %s" % k))
            if k == "?:":
                return (k, go(x[1]), pure(x[2], "in an arm of ?:"), pure(x[3], "in an arm of ?:"))
            if k == "assignexpr":
                if not (x[1][0] == "var" and x[1][1] in self.locals):
                    raise TErr("%s: assignment expression to %s" % (self.name, str(x[1])[:60]))
                r = go(x[2])
                t, ty = self.val(r)
                n["assign"] += 1
                lets.append("let l_%s := %s in" % (x[1][1], conv(t, ty, self.locals[x[1][1]])))
                return ("var", x[1][1])
            if k == "call":
                eff = self.effect(x)
                if eff is not None:
                    n["call"] += 1
                    lets.extend(eff[0])
                    return eff[1]
                if self.has_effect(x) and x[1] != "m_msg_set_err":
                    raise TErr("%s: call of %s in this form is outside the subset" % (self.name, x[1]))
                return x
            raise TErr("%s: expression %s" % (self.name, k))
        r = go(e)
        if n["call"] > 1 or n["assign"] > 1:
            raise TErr("%s: more than one side effect in one expression" % self.name)
        return lets, r

    def val(self, e):
        """-> (Z term, type)"""
        k = e[0]
        if k == "num":
            return str(e[1]), "int"
        if k == "raw":
            return e[1], e[2]
        if k == "var":
            n = e[1]
            if n in self.locals:
                return "l_" + n, self.locals[n]
            if n in MACROS:
                return "(Z.of_N %s)" % MACROS[n], "int"
            if n in ERRS:
                return "(Z.of_N %s)" % ERRS[n], "int"
            if n == "NULL":
                return "0", "int"
            if n == "ENOMEM":
                return str(ENOMEM), "int"
            if n == "errno":
                self.need("errno", "errno")
                return "errno_", "int"
            raise TErr("%s: unknown identifier %s" % (self.name, n))
        if k == "mem":
            if e[1] == "m":
                if e[2] in PTR_FIELD and self.mode == "msg":
                    self.need(PTR_FIELD[e[2]][1], "the pointer member m->%s" % e[2])
                    return PTR_FIELD[e[2]][0], "long"
                if e[2] not in MSG_FIELD or e[2] not in self.msgtypes:
                    raise TErr("%s: member m->%s is not modelled" % (self.name, e[2]))
                if self.mode == "pipe":
                    return "(Z.of_N (%s (op_msg ops m)))" % MSG_FIELD[e[2]], self.msgtypes[e[2]]
                return "(Z.of_N (%s m))" % MSG_FIELD[e[2]], self.msgtypes[e[2]]
            if e[1] == "c":
                if self.mode == "pipe":
                    if e[2] not in self.credtypes:
                        raise TErr("%s: member c->%s is not modelled" % (self.name, e[2]))
                    return "(op_cred ops \"%s\"%%string m)" % e[2], self.credtypes[e[2]]
                n = self.credmem(e[2])
                return "l_" + n, self.locals[n]
            if e[1] == "conf" and self.mode == "msg":
                if e[2] not in CONF_FIELD:
                    raise TErr("%s: conf->%s is not modelled" % (self.name, e[2]))
                return CONF_FIELD[e[2]]
            raise TErr("%s: member of %s" % (self.name, e[1]))
        if k == "cast":
            if e[1] in ("ptr", "void"):
                raise TErr("%s: pointer/void cast in an integer expression" % self.name)
            t, ty = self.val(e[2])
            return conv(t, ty, e[1]), e[1]
        if k == "neg":
            t, ty = self.val(e[1])
            ty2 = common(ty, "int")
            r = "(- %s)" % conv(t, ty, ty2)
            return ("(wrap32 %s)" % r if ty2 == "u32" else r), ty2
        if k in ("+", "-"):
            a, ta = self.val(e[1])
            b, tb = self.val(e[2])
            ty = common(ta, tb)
            r = "(%s %s %s)" % (conv(a, ta, ty), k, conv(b, tb, ty))
            return ("(wrap32 %s)" % r if ty == "u32" else r), ty
        if k == "?:":
            c = self.cond(e[1])
            a, ta = self.val(e[2])
            b, tb = self.val(e[3])
            ty = common(ta, tb)
            return "(if %s then %s else %s)" % (c, conv(a, ta, ty), conv(b, tb, ty)), ty
        if k == "call":
            f, args = e[1], e[2]
            if self.has_effect(e):
                raise TErr("%s: call of %s where it is not evaluated unconditionally" % (self.name, f))
            av = [self.val(x) for x in args]
            if f in ("cipher_map_enum", "mac_map_enum") and len(args) == 2:
                tab = "cipher_valid" if f.startswith("cipher") else "mac_valid"
                return "(if %s (Z.to_N %s) then 0 else -1)" % (tab, conv(av[0][0], av[0][1], "int")), "int"
            if f in ("mac_size", "cipher_key_size") and len(args) == 1:
                return "(Z.of_N (%s (Z.to_N %s)))" % (f, conv(av[0][0], av[0][1], "int")), "int"
            if f == "zip_is_valid_type" and len(args) == 1:
                return "(b2z (zip_valid (Z.to_N %s)))" % conv(av[0][0], av[0][1], "int"), "int"
            if f == "gids_is_member" and len(args) == 3:
                self.need("gids", "gids_is_member ()")
                return "(b2z (is_member (Z.to_N %s) (Z.to_N %s)))" % (conv(av[1][0], av[1][1], "u32"), conv(av[2][0], av[2][1], "u32")), "int"
            raise TErr("%s: call of %s is outside the translated subset" % (self.name, f))
        if k in ("addr", "assignexpr"):
            raise TErr("%s: %s in an integer expression" % (self.name, k))
        # boolean-valued expression used as a number
        return "(b2z %s)" % self.cond(e), "int"

    def cond(self, e):
        """-> bool term"""
        k = e[0]
        if k in ("==", "!=", "<", ">", "<=", ">="):
            a, ta = self.val(e[1])
            b, tb = self.val(e[2])
            ty = common(ta, tb)
            a, b = conv(a, ta, ty), conv(b, tb, ty)
            op = {"==": "=?", "<": "<?", ">": ">?", "<=": "<=?", ">=": ">=?"}.get(k)
            return "(negb (%s =? %s))" % (a, b) if k == "!=" else "(%s %s %s)" % (a, op, b)
        if k == "&&":
            return "(%s && %s)" % (self.cond(e[1]), self.cond(e[2]))
        if k == "||":
            return "(%s || %s)" % (self.cond(e[1]), self.cond(e[2]))
        if k == "!":
            return "(negb %s)" % self.cond(e[1])
        t, ty = self.val(e)
        return "(negb (%s =? 0))" % t

    # statements: each list of statements becomes a term of type  R + state   given the state variables in scope
    # (R = N * msg, or Z * S for a skeleton)
    def state(self):
        return "(m, (%s))" % ", ".join(["l_" + n for n in self.locals] + ["tt"])

    def simple(self, s):
        """lines for a statement without control flow (assignment, expression statement), or None"""
        if s[0] == "assign":
            return self.assign(s)
        if s[0] == "expr":
            e = strip_casts(s[1], ("void",))
            if e[0] != "call":
                raise TErr("%s: expression statement %s" % (self.name, e[0]))
            if e[1] == "log_msg":
                return []
            if self.mode == "pipe" and e[2] in ([("var", "m")], [("var", "c")]):
                if e[1] == "m_msg_reset":
                    return ["let m := op_reset ops m in"]
                if e[1] == "replay_remove":
                    return ["let m := op_unplay ops m in"]
                if e[1] == "cred_destroy":
                    return []
            lets, r = self.hoist(e)
            if r[0] == "raw":
                return lets                   # the value of the call is discarded
            raise TErr("%s: call of %s as a statement is outside the subset" % (self.name, e[1]))
        return None

    def seq(self, stmts, labels, ind):
        """term of type R: run stmts; falling off the end is an error in these int functions"""
        sp = " " * ind
        if not stmts:
            raise TErr("%s: control reaches the end of the function without a return" % self.name)
        s, rest = stmts[0], stmts[1:]
        k = s[0]
        if k in ("skip", "label"):
            return self.seq(rest, labels, ind)
        if k == "decl":
            if s[3] is None:
                return self.seq(rest, labels, ind)
            s = ("assign", ("var", s[2]), s[3])
            k = "assign"
        if k == "return":
            return sp + self.ret(s[1])
        if k == "goto":
            if s[1] not in labels:
                raise TErr("%s: goto %s: no such trailing label" % (self.name, s[1]))
            return self.seq(labels[s[1]], labels, ind)
        if k in ("assign", "expr"):
            return "".join(sp + l + "\n" for l in self.simple(s)) + self.seq(rest, labels, ind)
        if k == "if":
            if self.falls(s):
                # the if-statement as a state transformer with early exits:  match (...) with inl r => r | inr s => rest end
                body = self.ifsum(s, labels, ind + 2)
                return ("%smatch (\n%s\n%s) with\n%s| inl r => r\n%s| inr %s =>\n%s\n%send" %
                        (sp, body, sp, sp, sp, self.state(), self.seq(rest, labels, ind + 2), sp))
            return self.ifsum(s, labels, ind, final=True)
        raise TErr("%s: statement %s" % (self.name, k))

    def ret(self, e):
        if self.mode == "pipe":
            t, ty = self.val(e)
            return "(%s, m)" % conv(t, ty, "int")
        tail = "".join(", l_c__" + f for f in self.cred)
        if e == ("num", 0):
            return "(0%%N, m%s)" % tail
        if e[0] == "call" and e[1] == "m_msg_set_err" and len(e[2]) >= 2 and e[2][0] == ("var", "m") and \
                e[2][1][0] == "var" and e[2][1][1] in ERRS and e[2][1][1] != "EMUNGE_SUCCESS":
            return "(%s, m%s)" % (ERRS[e[2][1][1]], tail)
        raise TErr("%s: return value outside the subset: %s" % (self.name, str(e)[:80]))

    def assign(self, s):
        lhs = s[1]
        lets, rhs = self.hoist(s[2])
        t, ty = self.val(rhs)
        if lhs[0] == "var" and lhs[1] in self.locals:
            return lets + [self.store(("local", lhs[1]), t, ty)]
        if lhs[0] == "mem" and lhs[1] == "m" and lhs[2] in MSG_FIELD and lhs[2] in self.msgtypes and self.mode == "msg" \
                and lhs[2] != "error_num":
            return lets + [self.store(("member", lhs[2]), t, ty)]
        if lhs[0] == "mem" and lhs[1] == "c":
            return lets + [self.store(("local", self.credmem(lhs[2])), t, ty)]
        raise TErr("%s: assignment to %s" % (self.name, str(lhs)))

    def falls(self, s):
        """can control fall out of this statement (list)?"""
        if isinstance(s, list):
            for x in s:
                if not self.falls(x):
                    return False
            return True
        if s[0] in ("return", "goto"):
            return False
        if s[0] == "if":
            return self.falls(s[2]) or self.falls(s[3]) or not s[3]
        return True

    def blocksum(self, stmts, labels, ind, final):
        """term of type R + state (or R when final) for a block that may fall through"""
        sp = " " * ind
        if not stmts:
            if final:
                raise TErr("%s: control reaches the end of the function without a return" % self.name)
            return sp + "inr %s" % self.state()
        s, rest = stmts[0], stmts[1:]
        k = s[0]
        if k in ("skip", "label"):
            return self.blocksum(rest, labels, ind, final)
        if k == "decl":
            raise TErr("%s: declaration inside a block" % self.name)
        if k == "return":
            return sp + (self.ret(s[1]) if final else "inl %s" % self.ret(s[1]))
        if k == "goto":
            t = self.seq(labels[s[1]], labels, ind + 2) if s[1] in labels else None
            if t is None:
                raise TErr("%s: goto %s" % (self.name, s[1]))
            return t if final else "%sinl (\n%s)" % (sp, t)
        if k in ("assign", "expr"):
            return "".join(sp + l + "\n" for l in self.simple(s)) + self.blocksum(rest, labels, ind, final)
        if k == "if":
            if rest and self.falls(s):
                body = self.ifsum(s, labels, ind + 2)
                cont = self.blocksum(rest, labels, ind + 2, final)
                return ("%smatch (\n%s\n%s) with\n%s| inl r => %s\n%s| inr %s =>\n%s\n%send" %
                        (sp, body, sp, sp, "r" if final else "inl r", sp, self.state(), cont, sp))
            return self.ifsum(s, labels, ind, final=final)
        raise TErr("%s: statement %s" % (self.name, k))

    def ifsum(self, s, labels, ind, final=False):
        sp = " " * ind
        lets, ce = self.hoist(s[1])
        c = self.cond(ce)
        th = self.blocksum(s[2], labels, ind + 2, final)
        if s[3]:
            el = self.blocksum(s[3], labels, ind + 2, final)
        else:
            if final:
                raise TErr("%s: control reaches the end of the function without a return" % self.name)
            el = " " * (ind + 2) + "inr %s" % self.state()
        return "%s%sif %s then\n%s\n%selse\n%s" % ("".join(sp + l + "\n" for l in lets), sp, c, th, sp, el)


def func_text(src, name):
    m = re.search(r"^%s \((.*?)\)\n\{(.*?)^\}" % re.escape(name), src, re.S | re.M)
    if not m:
        raise TErr("function %s not found" % name)
    return m.group(2)


def translate(src, name, msgtypes, env=(), mode="msg", credtypes=None, cred=()):
    body = func_text(src, name)
    p = P(lex(body))
    stmts = []
    while p.peek()[0] != "eof":
        stmts.append(p.stmt())
    # locals = integer declarations; `m_msg_t m = c->msg;` just names the message; pointer locals are resolved statically
    locals_, ptrs = {}, {}
    keep = []
    for s in stmts:
        if s[0] == "decl":
            ty, nm, init, stars = s[1], s[2], s[3], s[4]
            if ty in ("m_msg_t", "munge_cred_t") and not stars and init == ("mem", "c", "msg") and nm == "m":
                continue
            if stars:
                if stars > 1 or init is not None or ty not in CTYPE:
                    raise TErr("%s: pointer local %s" % (name, nm))
                ptrs[nm] = None
                continue
            if ty in ("m_msg_t", "munge_cred_t"):
                if mode != "pipe":
                    raise TErr("%s: local %s of type %s" % (name, nm, ty))
                locals_[nm] = "long"                      # a pointer held in a local: an integer, NULL = 0
            elif ty not in CTYPE:
                raise TErr("%s: local %s of type %s" % (name, nm, ty))
            else:
                locals_[nm] = CTYPE[ty]
        keep.append(s)
    plain = list(locals_)
    fn = Fn(name, locals_, msgtypes, mode, env, ptrs, credtypes, cred)
    # top-level assignments to pointer locals bind them (before any use)
    keep2 = []
    for s in keep:
        if s[0] == "assign" and s[1][0] == "var" and s[1][1] in fn.ptrs:
            if fn.ptrs[s[1][1]] is not None or any(x[0] in ("if", "label", "goto") for x in keep2):
                raise TErr("%s: pointer %s is re-assigned or assigned after a branch" % (name, s[1][1]))
            fn.ptrs[s[1][1]] = fn.lvalue(s[2])
            continue
        keep2.append(s)
    keep = keep2
    # trailing labels: label L: followed by statements to the end
    labels = {}
    for i, st in enumerate(keep):
        if st[0] == "label":
            labels[st[1]] = keep[i + 1:]
    main = keep                      # control falls through a label into the statements after it
    init = "".join("  let l_%s := 0 in\n" % n for n in plain) + \
        "".join("  let l_c__%s := c_%s in\n" % (f, f) for f in fn.cred)
    term = fn.seq(main, labels, 2)
    if mode == "pipe":
        return "Definition src_%s {S : Type} (ops : pipe_ops S) (m : S) : Z * S :=\n%s%s." % (name, init, term)
    params = "".join(" " + d for k, d in ENV_PARAMS if k in fn.env) + "".join(" (c_%s : Z)" % f for f in fn.cred)
    rty = "N * msg" + " * Z" * len(fn.cred)
    return "Definition src_%s (cf : conf)%s (m : msg) : %s :=\n%s%s." % (name, params, rty, init, term)


def msg_types(hsrc):
    m = re.search(r"struct m_msg \{(.*?)\n\};", hsrc, re.S)
    if not m:
        raise TErr("struct m_msg not found in m_msg.h")
    out = {}
    for ty, nm in re.findall(r"^\s*(uint8_t|uint32_t|int|unsigned)\s+(\w+)\s*;", re.sub(r"/\*.*?\*/", "", m.group(1), flags=re.S), re.M):
        out[nm] = CTYPE[ty]
    return out


def cred_types(hsrc):
    m = re.search(r"struct munge_cred \{(.*?)\n\};", hsrc, re.S)
    if not m:
        raise TErr("struct munge_cred not found in cred.h")
    out = {}
    for ty, nm in re.findall(r"^\s*(uint8_t|uint32_t|int|unsigned)\s+(\w+)\s*;", re.sub(r"/\*.*?\*/", "", m.group(1), flags=re.S), re.M):
        out[nm] = CTYPE[ty]
    return out


PIPE_OPS = """(* the operations a request-processing skeleton is translated over: S is the state of one request *)
Record pipe_ops (S : Type) : Type := {
  op_msg : S -> msg;                   (* the m_msg the members m->... are read from *)
  op_cred : string -> S -> Z;          (* an integer member c->... of the request's struct munge_cred, by its C name *)
  op_stage : string -> S -> Z * S;     (* a stage function, by its C name: its return value and the new state *)
  op_reset : S -> S;                   (* m_msg_reset (m) *)
  op_send : S -> Z * S;                (* m_msg_send (m, ...): its munge_err_t value and the new state *)
  op_unplay : S -> S                   (* replay_remove (c) *)
}.
Arguments op_msg {S}. Arguments op_cred {S}. Arguments op_stage {S}. Arguments op_reset {S}. Arguments op_send {S}. Arguments op_unplay {S}.
"""


def gen(api):
    R = api.REPO
    try:
        mt = msg_types(open(os.path.join(R, "src/libcommon/m_msg.h")).read())
        ct = cred_types(open(os.path.join(R, "src/munged/cred.h")).read())
        dsrc = open(os.path.join(R, "src/munged/dec.c")).read()
        esrc = open(os.path.join(R, "src/munged/enc.c")).read()
        defs = [translate(esrc, "enc_validate_msg", mt),
                translate(dsrc, "dec_validate_auth", mt, env=["gids"]),
                translate(dsrc, "dec_validate_time", mt),
                translate(dsrc, "dec_validate_msg", mt, env=["data_ptr"]),
                translate(dsrc, "dec_timestamp", mt, env=["time"]),
                translate(esrc, "enc_timestamp", mt, env=["time"]),
                translate(dsrc, "dec_authenticate", mt, env=["auth_recv"]),
                translate(esrc, "enc_authenticate", mt, env=["auth_recv"]),
                translate(dsrc, "dec_check_retry", mt),
                translate(esrc, "enc_check_retry", mt),
                translate(dsrc, "dec_validate_replay", mt, env=["time", "replay_insert", "errno"], credtypes=ct, cred=["is_replay_new"]),
                translate(dsrc, "dec_process_msg", mt, mode="pipe", credtypes=ct),
                translate(esrc, "enc_process_msg", mt, mode="pipe", credtypes=ct)]
    except (TErr, OSError, IndexError) as e:
        raise api.GenError("cfun: " + str(e))
    out = "\n".join([
        "(* GENERATED from the C text of enc.c and dec.c (decision functions and the enc_process_msg / dec_process_msg skeletons) by tools/facts/cfun.py - do not edit *)",
        "From Coq Require Import List NArith ZArith Bool String.", "From RecordUpdate Require Import RecordSet.",
        "From MV Require Import Bytes CredModel.", "From MV.gen Require Import GenCred.",
        "Import ListNotations RecordSetNotations.", "Local Open Scope Z_scope.",
        "Definition b2z (b : bool) : Z := if b then 1 else 0.",
        "Definition wrap32 (z : Z) : Z := z mod 4294967296.",
        "Definition wrapi32 (z : Z) : Z := (z + 2147483648) mod 4294967296 - 2147483648.",
        PIPE_OPS] + [d + "\n" for d in defs])
    return api.write_gen("GenCredFun.v", out)
