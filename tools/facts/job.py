"""GenJob.v: job_accept () of src/munged/job.c TRANSLATED FROM THE SOURCE TEXT on every run into the small
program language of coq/JobModel.v (src_job : prog = pre; while (cond) { body }; post).

The function body is tokenized and parsed (declarations, assert, if/else, while, switch (errno) with case
labels, break/continue/return, expression statements); every condition and expression statement must be
one the model knows (tables below), otherwise the translation fails with a GenError naming the text, which
check.py C12 reports as a broken obligation.  Properties_C12_job.v states src_job = job_prog src_log_limit, the program (for any limit) the
theorems are about: a moved statement, a new test of got_terminate, a changed errno list, a statement
that slipped into or out of a block all change that theorem's input."""
import os, re

ERRNOS = ["EINTR", "ECONNABORTED", "EMFILE", "ENFILE", "ENOBUFS", "ENOMEM", "EAGAIN", "EBADF", "EINVAL", "EPERM",
          "ENOTSOCK", "EPROTO"]
PRIO = {"LOG_ERR": "PErr", "LOG_WARNING": "PWarning", "LOG_NOTICE": "PNotice", "LOG_INFO": "PInfo", "LOG_DEBUG": "PDebug"}
LOGTAG = [("Created %d work thread", "TCreated"), ("Processing signal", "TReconfig"),
          ("Failed to accept connection: %s", "TAcceptFail"), ("Failed to set nonblocking client socket", "TNonblock"),
          ("Failed to create client request", "TCreate"), ("Failed to bind socket for client request", "TBind"),
          ("Failed to queue client request", "TQueue"), ("Exiting on signal", "TExiting")]
FATALTAG = [("Failed to create %d work thread", "FInit"), ("Failed to query current time", "FTime"),
            ("Failed to accept connection", "FAccept")]
# what log_msg's arguments must be for the tags whose argument the model records
LOGARGS = {"TAcceptFail": ["strerror ( curr_errno )"],
           "TReconfig": ["got_reconfig", "strsignal ( got_reconfig )"],
           "TExiting": ["got_terminate", "strsignal ( got_terminate )"]}

ATOMS = {
    "got_terminate": "CTerm", "got_reconfig": "CReconf", "sd < 0": "CSdNeg", "sd >= 0": "CSdNonneg",
    "curr_time == ( time_t ) - 1": "CTimeFailed", "curr_errno != last_log_errno": "CErrnoChanged",
    "! ( w = work_init ( ( work_func_t ) _job_exec , conf -> nthreads ) )": "CInitFails",
    "fd_set_nonblocking ( sd ) < 0": "CNonblockFails", "m_msg_create ( & m ) != EMUNGE_SUCCESS": "CCreateFails",
    "m_msg_bind ( m , sd ) != EMUNGE_SUCCESS": "CBindFails", "work_queue ( w , m ) < 0": "CQueueFails",
}
STMTS = {
    "got_reconfig = 0": "SClearReconf", "gids_update ( conf -> gids )": "SGids",
    "sd = accept ( conf -> ld , NULL , NULL )": "SAccept", "curr_errno = errno": "SSaveErrno",
    "curr_time = time ( NULL )": "STime", "last_log_errno = curr_errno": "SSetLastErrno",
    "last_log_time = curr_time": "SSetLastTime", "work_wait ( w )": "SWait", "close ( sd )": "SClose",
    "( void ) close ( sd )": "SClose", "m_msg_destroy ( m )": "SDestroy",
    "work_fini ( w , 1 )": "SFini true", "work_fini ( w , 0 )": "SFini false",
}
TYPES = {"work_p", "m_msg_t", "int", "time_t", "long", "unsigned", "char", "const", "size_t"}
DECL_INIT_OK = {"last_log_errno = 0", "last_log_time = 0"}

TOKEN = re.compile(r'\s*("(?:\\.|[^"\\])*"|[A-Za-z_]\w*|\d+|->|==|!=|<=|>=|&&|\|\||\+\+|--|[-+*/%<>=!&|^~?:;,.(){}\[\]])')


class TransError(Exception):
    pass


def tokenize(text):
    toks, pos = [], 0
    text = text.rstrip()
    while pos < len(text):
        m = TOKEN.match(text, pos)
        if not m:
            raise TransError("cannot tokenize at: %r" % text[pos:pos + 40])
        toks.append(m.group(1)); pos = m.end()
    # adjacent string literals are one string
    out = []
    for t in toks:
        if t.startswith('"') and out and out[-1].startswith('"'):
            out[-1] = out[-1][:-1] + t[1:]
        else:
            out.append(t)
    return out


class Parser:
    def __init__(self, toks, limit):
        self.t, self.i, self.limit = toks, 0, limit

    def peek(self, k=0):
        return self.t[self.i + k] if self.i + k < len(self.t) else None

    def eat(self, x=None):
        tok = self.peek()
        if tok is None or (x is not None and tok != x):
            raise TransError("expected %r, found %r (token %d)" % (x, tok, self.i))
        self.i += 1
        return tok

    def paren(self):
        """tokens of a balanced ( ... ), without the outer parentheses"""
        self.eat("(")
        depth, out = 1, []
        while True:
            tok = self.eat()
            if tok == "(":
                depth += 1
            elif tok == ")":
                depth -= 1
                if depth == 0:
                    return out
            out.append(tok)

    def until_semicolon(self):
        out, depth = [], 0
        while True:
            tok = self.eat()
            if tok in "([{":
                depth += 1
            elif tok in ")]}":
                depth -= 1
            elif tok == ";" and depth == 0:
                return out
            out.append(tok)

    def block_or_stmt(self):
        if self.peek() == "{":
            return self.block()
        return self.stmt()

    def block(self):
        self.eat("{")
        out = []
        while self.peek() != "}":
            out += self.stmt()
        self.eat("}")
        return out

    # every statement parser returns a LIST of model statements (text)
    def stmt(self):
        tok = self.peek()
        if tok == "{":
            return self.block()
        if tok == ";":
            self.eat(); return []
        if tok == "if":
            self.eat()
            c = cond(self.paren(), self.limit)
            a = self.block_or_stmt()
            b = []
            if self.peek() == "else":
                self.eat()
                b = self.block_or_stmt()
            return ["SIf (%s) %s %s" % (c, seq(a), seq(b))]
        if tok == "while":
            self.eat()
            c = cond(self.paren(), self.limit)
            body = self.block_or_stmt()
            return [("WHILE", c, body)]
        if tok == "switch":
            self.eat()
            what = " ".join(self.paren())
            if what != "errno":
                raise TransError("switch (%s): only switch (errno) is modelled" % what)
            return [self.switch_body()]
        if tok in ("break", "continue", "return"):
            self.eat()
            rest = self.until_semicolon()
            if rest:
                raise TransError("%s with an operand" % tok)
            return [{"break": "SBreak", "continue": "SContinue", "return": "SReturn"}[tok]]
        if tok in ("for", "do", "goto"):
            raise TransError("statement `%s` is not modelled" % tok)
        if tok == "assert":
            self.eat(); self.paren(); self.eat(";")
            return []
        if tok in TYPES:
            decl = self.until_semicolon()
            txt = " ".join(decl[1:]).lstrip("* ")
            if "=" in decl and txt not in DECL_INIT_OK:
                raise TransError("declaration with an initializer the model does not know: `%s`" % " ".join(decl))
            return []
        return [expr_stmt(self.until_semicolon())]

    def switch_body(self):
        """switch (errno) { case A: case B: stmts  ...  default: stmts } as an if-chain; an arm must end in
        break/continue/return or in a statement that does not return, or be the last one (no fall-through)"""
        self.eat("{")
        arms = []           # (labels or None, stmts)
        while self.peek() != "}":
            labels = []
            isdef = False
            while self.peek() in ("case", "default"):
                if self.eat() == "case":
                    lab = self.eat()
                    if lab not in ERRNOS:
                        raise TransError("case %s: errno value unknown to the model" % lab)
                    labels.append(lab)
                else:
                    isdef = True
                self.eat(":")
            if not labels and not isdef:
                raise TransError("statement before the first case label")
            if isdef and labels:
                raise TransError("default shares an arm with case labels")
            body = []
            while self.peek() not in ("case", "default", "}"):
                body += self.stmt()
            arms.append((None if isdef else labels, body))
        self.eat("}")
        for k, (labels, body) in enumerate(arms):
            last = body[-1] if body else None
            closed = isinstance(last, str) and (last in ("SBreak", "SContinue", "SReturn") or last.startswith("SFatal"))
            if isinstance(last, str) and last == "SBreak":
                body.pop()
                # a fatal statement followed by break: the break is dead code
            if not closed and k != len(arms) - 1:
                raise TransError("switch arm %s falls through into the next one" % (labels or "default"))
            for s in body:
                if s == "SBreak" or (isinstance(s, str) and re.search(r"\bSBreak\b", s)):
                    raise TransError("break inside a switch arm other than at its end is not modelled")
        if sum(1 for l, _ in arms if l is None) > 1:
            raise TransError("two default arms")
        default = [b for l, b in arms if l is None]
        chain = default[0] if default else []
        for labels, body in reversed([a for a in arms if a[0] is not None]):
            chain = ["SIf (CErrnoIn [%s]) %s %s" % ("; ".join(labels), seq(body), seq(chain))]
        return chain[0] if chain else "SSkip"


def seq(stmts):
    for s in stmts:
        if not isinstance(s, str):
            raise TransError("a nested loop is not modelled")
    return "(seq [%s])" % "; ".join(stmts)


def strip_parens(toks):
    while toks and toks[0] == "(" and toks[-1] == ")":
        depth = 0
        for k, t in enumerate(toks):
            depth += (t == "(") - (t == ")")
            if depth == 0 and k != len(toks) - 1:
                return toks
        toks = toks[1:-1]
    return toks


def split_top(toks, op):
    parts, cur, depth = [], [], 0
    for t in toks:
        if t == "(":
            depth += 1
        elif t == ")":
            depth -= 1
        if t == op and depth == 0:
            parts.append(cur); cur = []
        else:
            cur.append(t)
    parts.append(cur)
    return parts


def cond(toks, limit):
    toks = strip_parens(toks)
    txt = " ".join(toks)
    if txt in ATOMS:
        return ATOMS[txt]
    if txt == "curr_time > last_log_time + LOG_LIMIT_SECS":
        return "CTimeAfter %d" % limit
    m = re.fullmatch(r"curr_time > last_log_time \+ (\d+)", txt)
    if m:
        return "CTimeAfter %s" % m.group(1)
    parts = split_top(toks, "||")
    if len(parts) > 1:
        r = cond(parts[-1], limit)
        for p in reversed(parts[:-1]):
            r = "COr (%s) (%s)" % (cond(p, limit), r)
        return r
    parts = split_top(toks, "&&")
    if len(parts) > 1:
        r = cond(parts[-1], limit)
        for p in reversed(parts[:-1]):
            r = "CAnd (%s) (%s)" % (cond(p, limit), r)
        return r
    if toks and toks[0] == "!":
        return "CNot (%s)" % cond(toks[1:], limit)
    raise TransError("condition the model does not know: `%s`" % txt)


def expr_stmt(toks):
    txt = " ".join(toks)
    if txt in STMTS:
        return STMTS[txt]
    if toks[:2] == ["log_msg", "("] and toks[-1] == ")":
        args = [" ".join(a) for a in split_top(toks[2:-1], ",")]
        if len(args) < 2 or args[0] not in PRIO or not args[1].startswith('"'):
            raise TransError("log_msg call not understood: `%s`" % txt)
        fmt = args[1][1:-1]
        tag = next((t for pre, t in LOGTAG if fmt.startswith(pre)), "TOther")
        if tag in LOGARGS and args[2:] != LOGARGS[tag]:
            raise TransError("log_msg arguments changed: `%s`" % txt)
        return "SLog %s %s" % (PRIO[args[0]], tag)
    if toks[:2] == ["log_errno", "("] and toks[-1] == ")":
        args = [" ".join(a) for a in split_top(toks[2:-1], ",")]
        if len(args) < 3 or not args[2].startswith('"'):
            raise TransError("log_errno call not understood: `%s`" % txt)
        fmt = args[2][1:-1]
        return "SFatal %s" % next((t for pre, t in FATALTAG if fmt.startswith(pre)), "FOther")
    raise TransError("statement the model does not know: `%s`" % txt)


def func_body(src, name):
    m = re.search(r"^%s \([^)]*\)\n\{\n(.*?)^\}" % re.escape(name), src, re.S | re.M)
    if not m:
        raise TransError("function %s not found" % name)
    return m.group(1)


def translate(src):
    src_nc = re.sub(r"/\*.*?\*/", " ", src, flags=re.S)
    m = re.search(r"^#\s*define\s+LOG_LIMIT_SECS\s+(\d+)\s*$", src_nc, re.M)
    if not m:
        raise TransError("#define LOG_LIMIT_SECS <n> not found")
    limit = int(m.group(1))
    body = func_body(src_nc, "job_accept")
    if re.search(r"^\s*#", body, re.M):
        raise TransError("preprocessor directive inside job_accept")
    p = Parser(tokenize(body), limit)
    stmts = []
    while p.peek() is not None:
        stmts += p.stmt()
    loops = [k for k, s in enumerate(stmts) if not isinstance(s, str)]
    if len(loops) != 1:
        raise TransError("job_accept has %d top-level loops, the model has one" % len(loops))
    k = loops[0]
    _, c, body_stmts = stmts[k]
    return limit, "mkprog\n  %s\n  (%s)\n  %s\n  %s" % (seq(stmts[:k]), c, seq(body_stmts), seq(stmts[k + 1:]))


SIGS = ["SIGHUP", "SIGINT", "SIGTERM"]
FLAG = {"got_terminate = sig": "FTerm", "got_reconfig = sig": "FReconf"}


def eval_sig_cond(toks, signame):
    """value of a condition over `sig` (==, !=, ||, &&, !, parentheses) for sig = signame"""
    toks = strip_parens(toks)
    parts = split_top(toks, "||")
    if len(parts) > 1:
        return any(eval_sig_cond(p, signame) for p in parts)
    parts = split_top(toks, "&&")
    if len(parts) > 1:
        return all(eval_sig_cond(p, signame) for p in parts)
    if toks and toks[0] == "!":
        return not eval_sig_cond(toks[1:], signame)
    if len(toks) == 3 and toks[0] == "sig" and toks[1] in ("==", "!=") and re.fullmatch(r"SIG[A-Z0-9]+", toks[2]):
        return (toks[2] == signame) == (toks[1] == "==")
    raise TransError("sig_handler: condition not understood: `%s`" % " ".join(toks))


def handler_of(p, signame):
    """runs the statement list of sig_handler for one signal: which flag is assigned"""
    flags = []

    def block():
        out = []
        if p.peek() == "{":
            p.eat("{")
            while p.peek() != "}":
                out.append(stmt())
            p.eat("}")
        else:
            out.append(stmt())
        return out

    def stmt():
        tok = p.peek()
        if tok == "if":
            p.eat()
            c = p.paren()
            a = block()
            b = []
            if p.peek() == "else":
                p.eat()
                b = block()
            return ("if", c, a, b)
        if tok == "return":
            p.eat(); p.until_semicolon()
            return ("return",)
        txt = " ".join(p.until_semicolon())
        if txt not in FLAG:
            raise TransError("sig_handler: statement not understood: `%s`" % txt)
        return ("set", FLAG[txt])

    def run(stmts):
        for st in stmts:
            if st[0] == "if":
                if run(st[2] if eval_sig_cond(st[1], signame) else st[3]):
                    return True
            elif st[0] == "return":
                return True
            else:
                flags.append(st[1])
        return False
    prog = []
    while p.peek() is not None:
        prog.append(stmt())
    run(prog)
    if len(flags) > 1:
        raise TransError("sig_handler assigns more than one flag for %s" % signame)
    return flags[0] if flags else "FNone"


def translate_handler(src):
    src_nc = re.sub(r"/\*.*?\*/", " ", src, flags=re.S)
    body = func_body(src_nc, "sig_handler")
    res = {}
    for sg in SIGS:
        res[sg] = handler_of(Parser(tokenize(body), 0), sg)
    hs = func_body(src_nc, "handle_signals")
    if not re.search(r"sa\.sa_handler\s*=\s*sig_handler\s*;", hs) or not re.search(r"sa\.sa_flags\s*=\s*0\s*;", hs):
        raise TransError("handle_signals: `sa.sa_handler = sig_handler; sa.sa_flags = 0;` not found")
    installed = [sg for sg in re.findall(r"sig\s*=\s*(SIG[A-Z0-9]+)\s*;\s*rv\s*=\s*sigaction\s*\(\s*sig\s*,\s*&sa\s*,\s*NULL\s*\)", hs) if sg in SIGS]
    return res, installed


def gen(api):
    try:
        limit, term = translate(open(os.path.join(api.REPO, "src/munged/job.c")).read())
    except (TransError, OSError) as e:
        raise api.GenError("job: src/munged/job.c, job_accept: " + str(e))
    try:
        hres, installed = translate_handler(open(os.path.join(api.REPO, "src/munged/munged.c")).read())
    except (TransError, OSError) as e:
        raise api.GenError("job: src/munged/munged.c, sig_handler / handle_signals: " + str(e))
    out = "\n".join([
        "(* GENERATED from the text of src/munged/job.c (job_accept) and src/munged/munged.c (sig_handler, handle_signals) by tools/facts/job.py - do not edit *)",
        "From Coq Require Import List ZArith.", "From MV Require Import JobModel.",
        "Import ListNotations.", "Local Open Scope Z_scope.",
        "(* #define LOG_LIMIT_SECS *)", "Definition src_log_limit : Z := %d." % limit,
        "Definition src_job : prog := " + term + ".",
        "(* munged.c: sig_handler evaluated for each signal; the signals handle_signals installs it for (sa_flags = 0) *)",
        "Definition src_handler (s : sig) : sigflag := match s with %s end." % " | ".join("%s => %s" % (k, hres[k]) for k in SIGS),
        "Definition src_installed : list sig := [%s]." % "; ".join(installed), ""])
    return api.write_gen("GenJob.v", out)
