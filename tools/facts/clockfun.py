"""GenClockFun.v: the three functions of src/munged/clock.c TRANSLATED FROM THE C TEXT into Gallina on every run
(a translator, not a probe): clock_get_timespec, clock_is_timespec_le, clock_is_timespec_expired.

Subset of C understood (anything else fails the generation, which the check reports): local declarations of `int`/`long`
and `struct timespec`; `if (...) {...} [else {...}]`; `return E;`; assignments `=`, `+=`, `-=`, `%=`, `/=` to integer
locals and to the members tv_sec / tv_nsec of a `struct timespec` reached through a pointer parameter or a struct local;
`errno = ...;` (dropped: no caller in /repo reads it after these functions); integer expressions with
+ - * / % comparisons && || ! and parentheses; `rv = F (args);` for F in {clock_gettime, the functions of this file}.

Modelling decisions, each visible in the generated text:
  * integers are mathematical (Z): tv_sec, tv_nsec, long and int are 64/32-bit signed and signed overflow is undefined
    behaviour, so it is not modelled; C's `/` and `%` truncate toward zero and are translated as Z.quot and Z.rem (the
    theorems relating them to the model's floor division state the sign conditions they need).
  * a `struct timespec` object is a pair (tv_sec, tv_nsec); a non-const pointer parameter becomes a value parameter and a
    second component of the result (the object's final value); a const pointer parameter is a value parameter.
  * `P == NULL` for a pointer parameter P is `false`: the translator CHECKS that every call of these functions in
    src/munged/*.c passes the address of an object (`&...`) for each pointer parameter and fails otherwise.
  * clock_gettime (CLOCK_REALTIME, P): parameters `gt_rc : Z` (its return value) and `clk : Z * Z` (the clock reading);
    the reading is stored through P when gt_rc = 0.
  * comparison operators have the C value 0/1 (b2z)."""
import os, re
import importlib.util
_spec = importlib.util.spec_from_file_location("facts__ctrans", os.path.join(os.path.dirname(os.path.abspath(__file__)), "_ctrans.py"))
_ctrans = importlib.util.module_from_spec(_spec)
_spec.loader.exec_module(_ctrans)      # by path: tools/facts must never be on sys.path (facts/base64.py would shadow the stdlib module)
TErr, Fn, find_fn, strip_comments = _ctrans.TErr, _ctrans.Fn, _ctrans.find_fn, _ctrans.strip_comments


NAMES = ["clock_get_timespec", "clock_is_timespec_le", "clock_is_timespec_expired"]


def check_call_sites(R, fns):
    """every pointer argument of every call outside clock.c is `&object` (so `P == NULL` is false at every call)"""
    d = os.path.join(R, "src/munged")
    n = 0
    for fn in sorted(os.listdir(d)):
        if not fn.endswith(".c") or fn == "clock.c":
            continue
        src = strip_comments(open(os.path.join(d, fn)).read())
        for name, f in fns.items():
            for m in re.finditer(r"\b%s \(([^;]*?)\)\s*[;)&|]" % name, src, re.S):
                args = [a.strip() for a in m.group(1).split(",")]
                if len(args) != len(f.order):
                    raise TErr("%s: call of %s with %d arguments" % (fn, name, len(args)))
                for a, p in zip(args, f.order):
                    if p in f.ptr and not a.startswith("&"):
                        raise TErr("%s: %s is called with %r for pointer parameter %s (not the address of an object)" % (fn, name, a, p))
                n += 1
    if n < 4:
        raise TErr("only %d call sites of clock.c functions found in src/munged" % n)
    return n


def gen(api):
    R = api.REPO
    try:
        src = strip_comments(open(os.path.join(R, "src/munged/clock.c")).read())
        fns = {}
        for n in NAMES:
            params, body = find_fn(src, n)
            fns[n] = Fn(n, params, body, dict(fns))
        sites = check_call_sites(R, fns)
        defs = [fns[n].gallina() for n in NAMES]
    except (TErr, OSError, IndexError) as e:
        raise api.GenError("clockfun: " + str(e))
    out = "\n".join([
        "(* GENERATED from the C text of src/munged/clock.c by tools/facts/clockfun.py - do not edit *)",
        "From Coq Require Import ZArith Bool.", "Local Open Scope Z_scope.",
        "Definition b2z (b : bool) : Z := if b then 1 else 0.",
        "Definition wrapi32 (z : Z) : Z := (z + 2147483648) mod 4294967296 - 2147483648.",
        "(* call sites of these functions in src/munged/*.c whose pointer arguments were checked to be addresses of objects *)",
        "Definition clock_call_sites : Z := %d." % sites] + [d + "\n" for d in defs])
    return api.write_gen("GenClockFun.v", out)
