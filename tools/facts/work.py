"""GenWork.v: truth tables of the guards of the two wait loops of src/munged/work.c (work_wait, work_fini)."""
import os
def gen(api):
    libc = [os.path.join(api.REPO, "src/libcommon", f) for f in ("log.c", "daemonpipe.c", "str.c", "fd.c")]
    return api.write_gen("GenWork.v", api.run_probe("work_probe.c", extra_srcs=libc, libs=["-lpthread"]))
