"""GenStart.v:
  * what src/munged/lock.c asks the kernel for (open flags/mode, fcntl command and lock shape, modes accepted by
    the fstat check, no unlink on the failure path), the suffix _lock_create_name appends to the socket name and
    the longest lock-file name it can produce — observed by running lock.c with the system calls interposed
    (probes/start_probe.c);
  * how sock_create (src/munged/munged.c) copies the configured socket name into sockaddr_un.sun_path —
    TRANSLATED FROM THE SOURCE TEXT: the size argument of the strlcpy, the comparison operator and the bound of
    the length test that follows it (`n = strlcpy (addr.sun_path, conf->socket_name, SIZE); if (n OP BOUND)
    { log_err ...`).  SIZE and BOUND are evaluated by the probe with the same headers; OP becomes the Gallina
    function sock_len_refuses.  StartPathProofs proves from these that an accepted name was copied whole."""
import os, re, shutil, tempfile

OPS = {">=": "(sock_len_bound <=? n)", ">": "(sock_len_bound <? n)", "==": "(n =? sock_len_bound)",
       "<": "(n <? sock_len_bound)", "<=": "(n <=? sock_len_bound)", "!=": "negb (n =? sock_len_bound)"}


def func_body(src, name):
    m = re.search(r"^%s \(.*?\)\n\{(.*?)^\}" % re.escape(name), src, re.S | re.M)
    if not m:
        raise ValueError("function %s not found" % name)
    return m.group(1)


def balanced(text, i):
    """text[i] == '(' -> index just past the matching ')'"""
    depth = 0
    for j in range(i, len(text)):
        if text[j] == "(":
            depth += 1
        elif text[j] == ")":
            depth -= 1
            if depth == 0:
                return j + 1
    raise ValueError("unbalanced parentheses")


def split_args(s):
    out, depth, cur = [], 0, ""
    for ch in s:
        if ch == "," and depth == 0:
            out.append(cur.strip())
            cur = ""
            continue
        depth += ch == "("
        depth -= ch == ")"
        cur += ch
    out.append(cur.strip())
    return out


def translate_sock_copy(msrc):
    """-> (address variable, SIZE text, OP, BOUND text) of sock_create's copy + length test"""
    body = re.sub(r"/\*.*?\*/", "", func_body(msrc, "sock_create"), flags=re.S)
    m = re.search(r"struct\s+sockaddr_un\s+(\w+)\s*;", body)
    if not m:
        raise ValueError("sock_create: no `struct sockaddr_un <var>;`")
    var = m.group(1)
    copies = [c for c in re.finditer(r"(?:(\w+)\s*=\s*)?\b(strlcpy|strncpy|strcpy|memcpy|snprintf|strlcat|strncat|stpcpy|"
                                     r"stpncpy|strcatf)\s*\(", body)
              if body[c.end():balanced(body, c.end() - 1)].lstrip().startswith(var + ".sun_path")]
    if len(copies) != 1 or copies[0].group(2) != "strlcpy" or not copies[0].group(1):
        raise ValueError("sock_create: expected exactly one `n = strlcpy (%s.sun_path, ...)`, found %s"
                         % (var, [c.group(0) for c in copies]))
    c = copies[0]
    nvar = c.group(1)
    end = balanced(body, c.end() - 1)
    args = split_args(body[c.end():end - 1])
    if len(args) != 3 or args[0] != var + ".sun_path" or args[1] != "conf->socket_name":
        raise ValueError("sock_create: strlcpy arguments are %s" % args)
    rest = body[end:]
    m = re.match(r"\s*;\s*if\s*\(", rest)
    if not m:
        raise ValueError("sock_create: the strlcpy is not followed by a length test")
    cend = balanced(rest, m.end() - 1)
    cond = rest[m.end():cend - 1].strip()
    mm = re.match(r"%s\s*(>=|<=|==|!=|>|<)\s*(.+)$" % re.escape(nvar), cond, re.S)
    if not mm:
        raise ValueError("sock_create: cannot translate the length test `%s`" % cond)
    bound = mm.group(2).strip()
    if re.search(r"&&|\|\||\?", bound):
        raise ValueError("sock_create: cannot translate the length test `%s`" % cond)
    then = rest[cend:].lstrip()
    if not re.match(r"\{?\s*log_err\s*\(", then):
        raise ValueError("sock_create: the length test is not followed by log_err (exit)")
    # nothing may touch the address between the test and the bind
    tail = rest[cend:]
    b = re.search(r"\bbind\s*\(", tail)
    if not b:
        raise ValueError("sock_create: no bind after the length test")
    bargs = split_args(tail[b.end():balanced(tail, b.end() - 1) - 1])
    if len(bargs) != 3 or not re.search(r"&\s*%s\b" % var, bargs[1]) or bargs[2].replace(" ", "") != "sizeof(%s)" % var:
        raise ValueError("sock_create: bind arguments are %s" % bargs)
    between = tail[:b.start()]
    if re.search(r"\b%s\s*[.\[]|\b%s\s*[,)]" % (var, var), re.sub(r"sizeof\s*\(\s*%s\.sun_path\s*\)" % var, "", between)):
        raise ValueError("sock_create: the socket address is used between the length test and the bind")
    return var, args[2], mm.group(1), bound


STD = {"STDIN_FILENO": 0, "STDOUT_FILENO": 1, "STDERR_FILENO": 2, "0": 0, "1": 1, "2": 2}


def translate_std_fds(msrc):
    """-> (does main() begin by making descriptors 0-2 open?, the descriptors daemonize_fini dup2()s /dev/null onto)"""
    main = re.sub(r"/\*.*?\*/", "", func_body(msrc, "main"), flags=re.S)
    main = re.sub(r"^#.*$", "", main, flags=re.M)
    calls = re.findall(r"\b([a-z_]\w*)\s*\(", main)
    first = next((c for c in calls if c not in ("sizeof",)), None)
    sanitizes = False
    if first == "sanitize_std_fds":
        body = re.sub(r"/\*.*?\*/", "", func_body(msrc, "sanitize_std_fds"), flags=re.S)
        sanitizes = bool(re.search(r"do\s*\{\s*fd\s*=\s*open\s*\(\s*\"/dev/null\"\s*,\s*O_RDWR\s*\)\s*;\s*\}\s*while\s*\(\s*"
                                   r"\(\s*fd\s*>=\s*0\s*\)\s*&&\s*\(\s*fd\s*<=\s*STDERR_FILENO\s*\)\s*\)\s*;", body)) \
            and bool(re.search(r"if\s*\(\s*fd\s*>\s*STDERR_FILENO\s*\)\s*\{\s*\(void\)\s*close\s*\(\s*fd\s*\)", body))
    # the --syslog branch closes stderr (log_close_file): is the table repaired right after it?
    resan = bool(re.search(r"if\s*\(\s*conf->got_syslog\s*\)\s*\{\s*log_close_file\s*\(\s*\)\s*;\s*sanitize_std_fds\s*\(\s*\)\s*;",
                           main)) and sanitizes
    if not re.search(r"if\s*\(\s*conf->got_syslog\s*\)\s*\{\s*log_close_file\s*\(\s*\)\s*;", main):
        raise ValueError("main: the --syslog branch does not begin with log_close_file ()")
    fini = re.sub(r"/\*.*?\*/", "", func_body(msrc, "daemonize_fini"), flags=re.S)
    dups = re.findall(r"dup2\s*\(\s*dev_null\s*,\s*(\w+)\s*\)", fini)
    if any(d not in STD for d in dups):
        raise ValueError("daemonize_fini: dup2 onto %s" % dups)
    return sanitizes, resan, [STD[d] for d in dups]


LOG_PROBE = r'''
#include "config.h"
#include <errno.h>
#include <limits.h>
#include <setjmp.h>
#include <stdarg.h>
#include <stdio.h>
#include <stdlib.h>
#include <string.h>
#include <syslog.h>
#include <sys/stat.h>
#include <sys/types.h>
#include <unistd.h>
#include <munge.h>
#include "log.h"
#include "path.h"
static jmp_buf jb;
static void p_fatal(int a, int b, const char *f, ...) { longjmp(jb, 1); }
static void p_eow(int force, const char *f, ...) { if (!force) longjmp(jb, 2); }
static int p_log_open_file(FILE *fp, const char *id, int pri, int opt) { if (fp) fclose(fp); return 0; }
static int p_dirname(const char *s, char *d, size_t n) { snprintf(d, n, "%s", s); char *q = strrchr(d, '/'); if (q) *q = 0; return 0; }
static int p_secure(const char *p, char *e, size_t n, int fl) { return 1; }
#define log_err p_fatal
#define log_errno p_fatal
#define log_err_or_warn p_eow
#define log_open_file p_log_open_file
#define path_dirname p_dirname
#define path_is_secure p_secure
static void open_logfile (const char *logfile, int priority, int got_force)
{
@BODY@
}
int main(void) {
    char dir[] = "/tmp/verif-logprobe-XXXXXX", f[256];
    unsigned masks[] = {0, 022, 027, 077, 0777}, bits[] = {0400, 0200, 0100, 040, 020, 010, 04, 02, 01}, i, refused = 0;
    struct stat st;
    if (!mkdtemp(dir)) return 2;
    snprintf(f, sizeof f, "%s/log", dir);
    printf("(* munged.c open_logfile, its text compiled and run by tools/facts/start.py: mode of the log file it creates under\n"
           "   a process umask (pairs umask, mode), and the permission bits of an existing log file it refuses without --force *)\n");
    printf("Definition log_mode_under_umask : list (N * N) := [");
    for (i = 0; i < sizeof masks / sizeof masks[0]; i++) {
        unlink(f); umask(masks[i]);
        if (setjmp(jb) == 0) open_logfile(f, 0, 0);
        umask(0);
        if (stat(f, &st) != 0) { fprintf(stderr, "open_logfile created nothing under umask %o\n", masks[i]); return 3; }
        printf("%s(%u, %u)", i ? "; " : "", masks[i], (unsigned) st.st_mode & 07777);
    }
    printf("].\n");
    for (i = 0; i < sizeof bits / sizeof bits[0]; i++) {
        unlink(f); { FILE *fp = fopen(f, "w"); if (fp) fclose(fp); } chmod(f, 0600 | bits[i]);
        if (setjmp(jb) != 0) refused |= bits[i]; else open_logfile(f, 0, 0);
    }
    printf("Definition log_refused_mask : N := %u.\n", refused);
    unlink(f); rmdir(dir);
    return 0;
}
'''


def translate_daemon_umask(msrc):
    body = re.sub(r"/\*.*?\*/", "", func_body(msrc, "daemonize_init"), flags=re.S)
    calls = re.findall(r"\bumask\s*\(\s*([^)]*?)\s*\)", body)
    if not calls:
        return "None"
    if len(calls) == 1 and re.fullmatch(r"0[0-7]*", calls[0]):
        return "Some %d" % int(calls[0], 8)
    raise ValueError("daemonize_init: umask calls %s" % calls)


def gen(api):
    R = api.REPO
    extra = [os.path.join(R, "src/libcommon/str.c"), os.path.join(R, "src/libmissing/strlcpy.c"),
             os.path.join(R, "src/libmissing/strlcat.c")]
    try:
        msrc = open(os.path.join(R, "src/munged/munged.c")).read()
        var, size, op, bound = translate_sock_copy(msrc)
        sanitizes, resan, dups = translate_std_fds(msrc)
        dumask = translate_daemon_umask(msrc)
        logbody = func_body(msrc, "open_logfile")
    except (ValueError, OSError) as e:
        raise api.GenError("start: " + str(e))
    tmp = tempfile.mkdtemp(prefix="verif-startgen-")
    try:
        wrapper = os.path.join(tmp, "start_probe_w.c")
        with open(wrapper, "w") as f:
            f.write("#define SOCK_ADDR_VAR %s\n#define SOCK_COPY_SIZE_EXPR %s\n#define SOCK_LEN_BOUND_EXPR %s\n"
                    '#include "%s"\n' % (var, size, bound, os.path.join(api.PROBES, "start_probe.c")))
        out = api.run_probe(wrapper, extra_srcs=extra)
    finally:
        shutil.rmtree(tmp, ignore_errors=True)
    out += ("(* the length test, translated from the text: `if (n %s %s)` exits *)\n"
            "Definition sock_len_refuses (n : N) : bool := %s.\n" % (op, " ".join(bound.split()).replace("(*", "( *").replace("*)", "* )"), OPS[op]))
    seed_extra = [os.path.join(R, "src/libcommon/fd.c")]
    out += api.run_probe("start_seed_probe.c", extra_srcs=seed_extra, libs=["-lcrypto"])
    out += ("(* munged.c, translated from the text: main() first makes descriptors 0-2 open (sanitize_std_fds: open /dev/null\n"
            "   until the descriptor is > 2, close the last one); daemonize_fini dup2()s /dev/null onto these descriptors *)\n"
            "Definition main_sanitizes_std_fds : bool := %s.\n"
            "(* ... and again right after log_close_file () (= fclose (stderr)) in the --syslog branch *)\n"
            "Definition syslog_branch_resanitizes : bool := %s.\nDefinition fini_dup2_targets : list nat := [%s].\n"
            % ("true" if sanitizes else "false", "true" if resan else "false", "; ".join("%d%%nat" % d for d in dups)))
    tmp = tempfile.mkdtemp(prefix="verif-startgen-")
    try:
        w = os.path.join(tmp, "start_log_probe_w.c")
        with open(w, "w") as f:
            f.write(LOG_PROBE.replace("@BODY@", logbody))
        out += api.run_probe(w)
    finally:
        shutil.rmtree(tmp, ignore_errors=True)
    out += ("(* daemonize_init, translated from the text: the umask the daemon runs under in background mode (None: inherited) *)\n"
            "Definition daemon_umask : option N := %s.\n" % dumask)
    return api.write_gen("GenStart.v", out)
