"""GenStart.v:
  * what src/munged/lock.c asks the kernel for (open flags/mode, fcntl command and lock shape, modes accepted by
    the fstat check, no unlink on the failure path), the suffix _lock_create_name appends to the socket name and
    the longest lock-file name it can produce — observed by running lock.c with the system calls interposed
    (probes/start_probe.c);
  * how sock_create (src/munged/munged.c) copies the configured socket name into sockaddr_un.sun_path —
    TRANSLATED FROM THE SOURCE TEXT: the size argument of the strlcpy, the comparison operator and the bound of
    the length test that follows it (`n = strlcpy (addr.sun_path, conf->socket_name, SIZE); if (n OP BOUND)
    { log_err ...`).  SIZE and BOUND are evaluated by the probe with the same headers; OP becomes the Gallina
    function sock_len_refuses.  StartPathProofs proves from these that an accepted name was copied whole."""
import os, re, shutil, tempfile

OPS = {">=": "(sock_len_bound <=? n)", ">": "(sock_len_bound <? n)", "==": "(n =? sock_len_bound)",
       "<": "(n <? sock_len_bound)", "<=": "(n <=? sock_len_bound)", "!=": "negb (n =? sock_len_bound)"}


def func_body(src, name):
    m = re.search(r"^%s \(.*?\)\n\{(.*?)^\}" % re.escape(name), src, re.S | re.M)
    if not m:
        raise ValueError("function %s not found" % name)
    return m.group(1)


def balanced(text, i):
    """text[i] == '(' -> index just past the matching ')'"""
    depth = 0
    for j in range(i, len(text)):
        if text[j] == "(":
            depth += 1
        elif text[j] == ")":
            depth -= 1
            if depth == 0:
                return j + 1
    raise ValueError("unbalanced parentheses")


def split_args(s):
    out, depth, cur = [], 0, ""
    for ch in s:
        if ch == "," and depth == 0:
            out.append(cur.strip())
            cur = ""
            continue
        depth += ch == "("
        depth -= ch == ")"
        cur += ch
    out.append(cur.strip())
    return out


def translate_sock_copy(msrc):
    """-> (address variable, SIZE text, OP, BOUND text) of sock_create's copy + length test"""
    body = re.sub(r"/\*.*?\*/", "", func_body(msrc, "sock_create"), flags=re.S)
    m = re.search(r"struct\s+sockaddr_un\s+(\w+)\s*;", body)
    if not m:
        raise ValueError("sock_create: no `struct sockaddr_un <var>;`")
    var = m.group(1)
    copies = [c for c in re.finditer(r"(?:(\w+)\s*=\s*)?\b(strlcpy|strncpy|strcpy|memcpy|snprintf|strlcat|strncat|stpcpy|"
                                     r"stpncpy|strcatf)\s*\(", body)
              if body[c.end():balanced(body, c.end() - 1)].lstrip().startswith(var + ".sun_path")]
    if len(copies) != 1 or copies[0].group(2) != "strlcpy" or not copies[0].group(1):
        raise ValueError("sock_create: expected exactly one `n = strlcpy (%s.sun_path, ...)`, found %s"
                         % (var, [c.group(0) for c in copies]))
    c = copies[0]
    nvar = c.group(1)
    end = balanced(body, c.end() - 1)
    args = split_args(body[c.end():end - 1])
    if len(args) != 3 or args[0] != var + ".sun_path" or args[1] != "conf->socket_name":
        raise ValueError("sock_create: strlcpy arguments are %s" % args)
    rest = body[end:]
    m = re.match(r"\s*;\s*if\s*\(", rest)
    if not m:
        raise ValueError("sock_create: the strlcpy is not followed by a length test")
    cend = balanced(rest, m.end() - 1)
    cond = rest[m.end():cend - 1].strip()
    mm = re.match(r"%s\s*(>=|<=|==|!=|>|<)\s*(.+)$" % re.escape(nvar), cond, re.S)
    if not mm:
        raise ValueError("sock_create: cannot translate the length test `%s`" % cond)
    bound = mm.group(2).strip()
    if re.search(r"&&|\|\||\?", bound):
        raise ValueError("sock_create: cannot translate the length test `%s`" % cond)
    then = rest[cend:].lstrip()
    if not re.match(r"\{?\s*log_err\s*\(", then):
        raise ValueError("sock_create: the length test is not followed by log_err (exit)")
    # nothing may touch the address between the test and the bind
    tail = rest[cend:]
    b = re.search(r"\bbind\s*\(", tail)
    if not b:
        raise ValueError("sock_create: no bind after the length test")
    bargs = split_args(tail[b.end():balanced(tail, b.end() - 1) - 1])
    if len(bargs) != 3 or not re.search(r"&\s*%s\b" % var, bargs[1]) or bargs[2].replace(" ", "") != "sizeof(%s)" % var:
        raise ValueError("sock_create: bind arguments are %s" % bargs)
    between = tail[:b.start()]
    if re.search(r"\b%s\s*[.\[]|\b%s\s*[,)]" % (var, var), re.sub(r"sizeof\s*\(\s*%s\.sun_path\s*\)" % var, "", between)):
        raise ValueError("sock_create: the socket address is used between the length test and the bind")
    return var, args[2], mm.group(1), bound


STD = {"STDIN_FILENO": 0, "STDOUT_FILENO": 1, "STDERR_FILENO": 2, "0": 0, "1": 1, "2": 2}


def translate_std_fds(msrc):
    """-> (does main() begin by making descriptors 0-2 open?, the descriptors daemonize_fini dup2()s /dev/null onto)"""
    main = re.sub(r"/\*.*?\*/", "", func_body(msrc, "main"), flags=re.S)
    main = re.sub(r"^#.*$", "", main, flags=re.M)
    calls = re.findall(r"\b([a-z_]\w*)\s*\(", main)
    first = next((c for c in calls if c not in ("sizeof",)), None)
    sanitizes = False
    if first == "sanitize_std_fds":
        body = re.sub(r"/\*.*?\*/", "", func_body(msrc, "sanitize_std_fds"), flags=re.S)
        sanitizes = bool(re.search(r"do\s*\{\s*fd\s*=\s*open\s*\(\s*\"/dev/null\"\s*,\s*O_RDWR\s*\)\s*;\s*\}\s*while\s*\(\s*"
                                   r"\(\s*fd\s*>=\s*0\s*\)\s*&&\s*\(\s*fd\s*<=\s*STDERR_FILENO\s*\)\s*\)\s*;", body)) \
            and bool(re.search(r"if\s*\(\s*fd\s*>\s*STDERR_FILENO\s*\)\s*\{\s*\(void\)\s*close\s*\(\s*fd\s*\)", body))
    fini = re.sub(r"/\*.*?\*/", "", func_body(msrc, "daemonize_fini"), flags=re.S)
    dups = re.findall(r"dup2\s*\(\s*dev_null\s*,\s*(\w+)\s*\)", fini)
    if any(d not in STD for d in dups):
        raise ValueError("daemonize_fini: dup2 onto %s" % dups)
    return sanitizes, [STD[d] for d in dups]


def gen(api):
    R = api.REPO
    extra = [os.path.join(R, "src/libcommon/str.c"), os.path.join(R, "src/libmissing/strlcpy.c"),
             os.path.join(R, "src/libmissing/strlcat.c")]
    try:
        msrc = open(os.path.join(R, "src/munged/munged.c")).read()
        var, size, op, bound = translate_sock_copy(msrc)
        sanitizes, dups = translate_std_fds(msrc)
    except (ValueError, OSError) as e:
        raise api.GenError("start: " + str(e))
    tmp = tempfile.mkdtemp(prefix="verif-startgen-")
    try:
        wrapper = os.path.join(tmp, "start_probe_w.c")
        with open(wrapper, "w") as f:
            f.write("#define SOCK_ADDR_VAR %s\n#define SOCK_COPY_SIZE_EXPR %s\n#define SOCK_LEN_BOUND_EXPR %s\n"
                    '#include "%s"\n' % (var, size, bound, os.path.join(api.PROBES, "start_probe.c")))
        out = api.run_probe(wrapper, extra_srcs=extra)
    finally:
        shutil.rmtree(tmp, ignore_errors=True)
    out += ("(* the length test, translated from the text: `if (n %s %s)` exits *)\n"
            "Definition sock_len_refuses (n : N) : bool := %s.\n" % (op, " ".join(bound.split()).replace("(*", "( *").replace("*)", "* )"), OPS[op]))
    seed_extra = [os.path.join(R, "src/libcommon/fd.c")]
    out += api.run_probe("start_seed_probe.c", extra_srcs=seed_extra, libs=["-lcrypto"])
    out += ("(* munged.c, translated from the text: main() first makes descriptors 0-2 open (sanitize_std_fds: open /dev/null\n"
            "   until the descriptor is > 2, close the last one); daemonize_fini dup2()s /dev/null onto these descriptors *)\n"
            "Definition main_sanitizes_std_fds : bool := %s.\nDefinition fini_dup2_targets : list nat := [%s].\n"
            % ("true" if sanitizes else "false", "; ".join("%d%%nat" % d for d in dups)))
    return api.write_gen("GenStart.v", out)
