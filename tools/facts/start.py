"""GenStart.v: what src/munged/lock.c asks the kernel for (open flags/mode, fcntl command and lock shape,
modes accepted by the fstat check, no unlink on the failure path) — observed by running lock.c with the
system calls interposed (probes/start_probe.c)."""
import os
def gen(api):
    R = api.REPO
    extra = [os.path.join(R, "src/libcommon/str.c"), os.path.join(R, "src/libmissing/strlcpy.c"),
             os.path.join(R, "src/libmissing/strlcat.c")]
    return api.write_gen("GenStart.v", api.run_probe("start_probe.c", extra_srcs=extra))
