"""GenFd.v: the values of _fd_get_poll_timeout() of src/libcommon/fd.c on a grid of (when, now) pairs (the probe
#includes fd.c with gettimeofday redirected), MUNGE_SOCKET_TIMEOUT_MSECS and MUNGE_MSG_HDR_SIZE."""


def gen(api):
    return api.write_gen("GenFd.v", api.run_probe("fd_probe.c"))
