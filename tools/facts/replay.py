"""GenReplay.v: constants and sampled comparison behaviour of src/munged/replay.c (hash size, MAC bytes kept /
compared / hashed, purge period, the three cases of replay_is_expired)."""
import os


def gen(api):
    return api.write_gen("GenReplay.v", api.run_probe(
        "replay_probe.c", extra_srcs=[os.path.join(api.REPO, "src/munged/hash.c")], libs=["-lpthread"]))
