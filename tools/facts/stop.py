"""GenStop.v: MUNGE_SIGNAL_WAIT_MSECS (how long `munged --stop` waits after SIGTERM before SIGKILL), MUNGE_SIGNAL_CHECK_MSECS
and MUNGE_SOCKET_TIMEOUT_MSECS (the daemon's per-message I/O limit), from the repo's munge_defs.h."""


def gen(api):
    return api.write_gen("GenStop.v", api.run_probe("stop_probe.c"))
