"""GenBase64.v: the asc2bin/bin2asc tables and marker constants of src/munged/base64.c."""
def gen(api):
    return api.write_gen("GenBase64.v", api.run_probe("base64_probe.c"))
