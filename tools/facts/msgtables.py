"""GenMsgTables.v: the field tables of _msg_length / _msg_pack / _msg_unpack, TRANSLATED FROM THE SOURCE TEXT of
src/libcommon/m_msg.c (and the member widths from m_msg.h) on every run.  MsgSource.v proves that the hand-written
tables of MsgModel are exactly these, so a reordered, added, dropped or re-typed field in the C code changes a
theorem's input.  The translator understands the idiom the file is written in:
    case MUNGE_MSG_X:   n += sizeof (m->f);  |  n += m->f_len;            (length)
    _pack (&p, &(m->f), sizeof (m->f), q)   |  _copy (p, m->buf, m->len, p, q, &p)        (pack)
    _unpack (&(m->f), &p, sizeof (m->f), q) |  _alloc (.. &(m->buf), m->len) + _copy (m->buf, p, m->len, ..)   (unpack)
    else if (m->addr_len > sizeof (m->addr)) ;      the bound in front of the copy into the fixed-size member
Anything it does not understand makes the generation fail (the check then reports a broken obligation)."""
import os, re

TYPES = ["HDR", "ENC_REQ", "ENC_RSP", "DEC_REQ", "DEC_RSP", "AUTH_FD_REQ"]
BUF = {"realm_str": "Brealm", "data": "Bdata", "error_str": "Berror", "addr": "Baddr", "auth_s_str": "Bauth_s", "auth_c_str": "Bauth_c"}
LEN2BUF = {"realm_len": "Brealm", "data_len": "Bdata", "error_len": "Berror", "addr_len": "Baddr",
           "auth_s_len": "Bauth_s", "auth_c_len": "Bauth_c"}


class TranslateError(Exception):
    pass


def func_body(src, name):
    m = re.search(r"^%s \(.*?\)\n\{(.*?)^\}" % re.escape(name), src, re.S | re.M)
    if not m:
        raise TranslateError("function %s not found" % name)
    return m.group(1)


def cases(body):
    out = {}
    parts = re.split(r"case MUNGE_MSG_(\w+):", body)
    for i in range(1, len(parts), 2):
        txt = parts[i + 1]
        txt = re.split(r"\bdefault:", txt)[0]
        out[parts[i]] = txt
    return out


def widths(hdr):
    w = {}
    m = re.search(r"struct m_msg \{(.*?)\};", hdr, re.S)
    for t, n in re.findall(r"\b(uint8_t|uint32_t)\s+(\w+);", m.group(1)):
        w[n] = "U8" if t == "uint8_t" else "U32"
    w["magic"] = "U32"      # m_msg_magic_t
    w["version"] = "U8"     # m_msg_version_t
    tm = re.search(r"typedef\s+(uint\d+_t)\s+m_msg_magic_t;", hdr)
    tv = re.search(r"typedef\s+(uint\d+_t)\s+m_msg_version_t;", hdr)
    if not tm or not tv:
        raise TranslateError("magic/version typedefs not found")
    w["magic"] = "U8" if tm.group(1) == "uint8_t" else "U32"
    w["version"] = "U8" if tv.group(1) == "uint8_t" else "U32"
    return w


def scalar(w, f):
    if f not in w:
        raise TranslateError("unknown scalar member %s" % f)
    return "%s N%s" % (w[f], f)


def tr_length(txt, w):
    out = []
    for stmt in re.findall(r"n \+= ([^;]+);", txt):
        stmt = re.sub(r"\s+", "", stmt)
        m = re.fullmatch(r"sizeof\(m->(\w+)\)", stmt)
        if m:
            out.append(scalar(w, m.group(1)))
            continue
        m = re.fullmatch(r"sizeof\(m_msg_(magic|version)_t\)", stmt)
        if m:
            out.append(scalar(w, m.group(1)))
            continue
        m = re.fullmatch(r"m->(\w+)", stmt)
        if m and m.group(1) in LEN2BUF:
            b = LEN2BUF[m.group(1)]
            out.append("Var %s N%s %s" % (b, m.group(1), "(Fixed sizeof_addr 255)" if b == "Baddr" else "Heap"))
            continue
        raise TranslateError("_msg_length: cannot translate `n += %s`" % stmt)
    return out


def tr_pack(txt, w):
    out = []
    for cond in re.findall(r"(?:if|else if)\s*\((.*?)\)\s*;", txt, re.S):
        cond = re.sub(r"\s+", "", cond)
        m = re.fullmatch(r"!_pack\(&p,&\(?(?:m->)?(\w+)\)?,sizeof\((?:m->)?(\w+)\),q\)", cond)
        if m and m.group(1) == m.group(2):
            out.append(scalar(w, m.group(1)))
            continue
        m = re.fullmatch(r"_copy\(p,&?\(?m->(\w+)\)?,m->(\w+),p,q,&p\)<0", cond)
        if m and m.group(1) in BUF and LEN2BUF.get(m.group(2)) == BUF[m.group(1)]:
            b = BUF[m.group(1)]
            out.append("Var %s N%s %s" % (b, m.group(2), "(Fixed sizeof_addr 255)" if b == "Baddr" else "Heap"))
            continue
        raise TranslateError("_msg_pack: cannot translate `%s`" % cond)
    return out


def tr_unpack(txt, w):
    out = []
    pending_alloc = None
    addr_bound = False
    conds = re.findall(r"(?:if|else if)\s*\((.*?)\)\s*(?:;|goto nomem;)", txt, re.S)
    for cond in conds:
        cond = re.sub(r"\s+", "", cond)
        m = re.fullmatch(r"!_unpack\(&\(?(?:m->)?(\w+)\)?,&p,sizeof\((?:m->)?(\w+)\),q\)", cond)
        if m and m.group(1) == m.group(2):
            out.append(scalar(w, m.group(1)))
            continue
        m = re.fullmatch(r"!_alloc\((?:\(vpp\))?&\(m->(\w+)\),m->(\w+)\)", cond)
        if m:
            pending_alloc = (m.group(1), m.group(2))
            continue
        m = re.fullmatch(r"m->addr_len>sizeof\(m->addr\)", cond)
        if m:
            addr_bound = True
            continue
        m = re.fullmatch(r"_copy\(&?\(?m->(\w+)\)?,p,m->(\w+),p,q,&p\)<0", cond)
        if m and m.group(1) in BUF and LEN2BUF.get(m.group(2)) == BUF[m.group(1)]:
            b = BUF[m.group(1)]
            if b == "Baddr":
                out.append("Var Baddr N%s (Fixed sizeof_addr %s)" % (m.group(2), "sizeof_addr" if addr_bound else "255"))
            else:
                if pending_alloc != (m.group(1), m.group(2)):
                    raise TranslateError("_msg_unpack: copy into m->%s without the matching _alloc" % m.group(1))
                out.append("Var %s N%s Heap" % (b, m.group(2)))
            pending_alloc = None
            continue
        raise TranslateError("_msg_unpack: cannot translate `%s`" % cond)
    return out


def gen(api):
    R = api.REPO
    src = open(os.path.join(R, "src/libcommon/m_msg.c")).read()
    hdr = open(os.path.join(R, "src/libcommon/m_msg.h")).read()
    w = widths(hdr)
    tabs = {}
    try:
        for fn, tr, nm in (("_msg_length", tr_length, "src_len_fields"), ("_msg_pack", tr_pack, "src_pack_fields"),
                           ("_msg_unpack", tr_unpack, "src_unpack_fields")):
            cs = cases(func_body(src, fn))
            if sorted(cs) != sorted(TYPES):
                raise TranslateError("%s handles types %s, expected %s" % (fn, sorted(cs), sorted(TYPES)))
            tabs[nm] = {t: tr(cs[t], w) for t in TYPES}
    except TranslateError as e:
        raise api.GenError("msgtables: " + str(e))
    out = ["(* GENERATED from the text of src/libcommon/m_msg.c and m_msg.h by tools/facts/msgtables.py - do not edit *)",
           "From Coq Require Import List NArith.", "From MV Require Import MsgModel.", "From MV.gen Require Import GenMsg.",
           "Import ListNotations."]
    for nm in ("src_len_fields", "src_pack_fields", "src_unpack_fields"):
        out.append("Definition %s (t : mtype) : list fdesc :=\n  match t with" % nm)
        for t in TYPES:
            out.append("  | T_%s => [%s]" % (t, "; ".join(tabs[nm][t])))
        out.append("  end.")
    return api.write_gen("GenMsgTables.v", "\n".join(out) + "\n")
