"""GenCred.v: constants, cipher/mac/zip tables (as the running code reports them), error codes and
munge_strerror strings used by CredModel."""
import os
def gen(api):
    R = api.REPO
    srcs = [R + "/src/munged/cipher.c", R + "/src/munged/zip.c", R + "/src/common/mac.c", R + "/src/common/md.c",
            R + "/src/common/crypto.c", R + "/src/libmunge/strerror.c", R + "/src/libcommon/log.c", R + "/src/libcommon/daemonpipe.c", R + "/src/libcommon/fd.c",
            R + "/src/libcommon/str.c", R + "/src/libmissing/strlcpy.c", R + "/src/libmissing/strlcat.c"]
    out = api.run_probe("cred_probe.c", extra_srcs=srcs, libs=["-lcrypto", "-lz", "-lbz2", "-lpthread"])
    return api.write_gen("GenCred.v", out)
