"""GenTimer.v: width of long (timer ids), clock.c unit constants (measured), periods of the periodic services, and the
PRNG stir schedule of random.c measured by running random_init / _random_stir_entropy (timer_stir_probe.c)."""
import os, re, subprocess
def gen(api):
    clock = os.path.join(api.REPO, "src/munged/clock.c")
    rnd = os.path.join(api.REPO, "src/munged/random.c")
    r = subprocess.run(["gcc", "-E", "-dM"] + api.DEFS + api.INCS + [rnd], capture_output=True, text=True)
    macros = {}
    for name in ("RANDOM_STIR_MAX_SECS", "RANDOM_BYTES_WANTED", "RANDOM_SEED_BYTES"):
        m = re.search(r"^#define %s\s+(.+)$" % name, r.stdout, re.M)
        if r.returncode != 0 or not m:
            raise api.GenError("%s not found in random.c: %s" % (name, r.stderr[-500:]))
        macros[name] = m.group(1).strip()
    out = api.run_probe("timer_probe.c", extra_srcs=[clock],
                        libs=["-Wl,--wrap=clock_gettime", "-DPROBE_STIR_MAX_SECS=(%s)" % macros["RANDOM_STIR_MAX_SECS"]])
    stir = api.run_probe("timer_stir_probe.c",
                         libs=["-DPROBE_STIR_MAX_SECS=(%s)" % macros["RANDOM_STIR_MAX_SECS"],
                               "-DPROBE_WANTED=(%s)" % macros["RANDOM_BYTES_WANTED"],
                               "-DPROBE_SEED_BYTES=(%s)" % macros["RANDOM_SEED_BYTES"], "-lcrypto"])
    out = out.replace("From Coq Require Import ZArith.\n", "From Coq Require Import ZArith List.\nImport ListNotations.\n")
    return api.write_gen("GenTimer.v", out + stir)
