"""GenTimer.v: width of long (timer ids), clock.c unit constants (measured), periods of the periodic services."""
import os, re, subprocess
def gen(api):
    clock = os.path.join(api.REPO, "src/munged/clock.c")
    rnd = os.path.join(api.REPO, "src/munged/random.c")
    r = subprocess.run(["gcc", "-E", "-dM"] + api.DEFS + api.INCS + [rnd], capture_output=True, text=True)
    m = re.search(r"^#define RANDOM_STIR_MAX_SECS\s+(.+)$", r.stdout, re.M)
    if r.returncode != 0 or not m:
        raise api.GenError("RANDOM_STIR_MAX_SECS not found in random.c: " + r.stderr[-500:])
    out = api.run_probe("timer_probe.c", extra_srcs=[clock],
                        libs=["-Wl,--wrap=clock_gettime", "-DPROBE_STIR_MAX_SECS=(%s)" % m.group(1).strip()])
    return api.write_gen("GenTimer.v", out)
