"""GenLibFun.v: what LIBMUNGE does with the application's context, TRANSLATED FROM THE C TEXT of src/libmunge/encode.c and
decode.c on every run (a translator, not a probe): _encode_init, _encode_req, _encode_rsp, _decode_init, _decode_req,
_decode_rsp, as Gallina functions over
  * `lctx`, a record GENERATED from struct munge_ctx in ctx.h (the members these functions touch; int / time_t / uid_t /
    gid_t / munge_err_t members are Z, `char *` members are `option bytes`, `struct in_addr addr` is the 4 bytes of
    addr.s_addr as they lie in memory), and
  * CredModel.msg for struct m_msg (integer members as in tools/facts/cfun.py; m->type is the parameter `m_type`).

How C objects are represented (every decision is visible in the generated signature):
  * a pointer to bytes (`char *`, `void *`, `const void *buf`, `const char *cred`, m->data, m->realm_str, ctx->realm_str,
    ctx->error_str) is `option bytes`: None = NULL, Some b = the object it designates (for a C string: its characters
    INCLUDING the terminating NUL; strlen is the position of the first NUL, `c_strlen`).  The pointer members of msg are
    byte strings in CredModel ([] = NULL): reading gives `mptr`, storing gives `pmem`.
  * `munge_ctx_t ctx` is `option lctx` (None = NULL).  ctx->f may only be used where ctx is KNOWN to be non-NULL (inside
    `if (ctx)`, after `assert (ctx != NULL)`): anywhere else the translator refuses (a dropped guard fails the generation
    instead of being given a meaning).  The same rule applies to every pointer that is dereferenced or passed to strlen.
  * an out-parameter (`char **cred`, `void **buf`, `int *len`, `uid_t *uid`, `gid_t *gid`) is `option T`: None = the caller
    passed NULL, Some v = the current value of the object; `*p = e` is translated only where p is known non-NULL.
  * integer semantics as in cfun.py: every operand carries its C type, stores convert (uint8 mod 256, uint32 mod 2^32,
    int to the signed range), so `ctx->ttl = m->ttl` of a TTL >= 2^31 is the negative int C produces.
  * the function's value: (return code : Z, state) where state is the tuple of the objects the function can change, in
    parameter order; a void function returns 0.
  * `free (p);` is dropped (memory release only); the ownership flags m->realm_is_copy / data_is_copy / error_is_copy
    (who frees the member) are dropped when assigned a constant; `assert (p != NULL)` is used as knowledge, every other
    assert is dropped.
  * `m_msg_set_err (m, CODE, text)` is `set_err m CODE (Some (txt k))`: the k-th error text built in the function is the
    parameter `txt : nat -> bytes` (strdup / strdupf texts are not translated).
What the translator REFUSES (gen_facts fails, naming function and statement): local variable declarations, loops, goto,
switch, calls other than strlen / free / m_msg_set_err, pointer arithmetic, members of m or ctx that are not in its
tables, reads through out-parameters, a dereference that is not dominated by a non-NULL test, an `if` in which only
one of two branches returns, assignment expressions other than `(p = q) != NULL` at the top of a condition, and any
type it does not know.

coq/LibCtxProofs.v proves what these functions do with every ctx option; coq/Properties_C01_lib.v states it."""
import os, re, importlib.util

_spec = importlib.util.spec_from_file_location("facts_cfun_for_lib", os.path.join(os.path.dirname(os.path.abspath(__file__)), "cfun.py"))
cfun = importlib.util.module_from_spec(_spec)
_spec.loader.exec_module(cfun)
TErr = cfun.TErr
conv, common = cfun.conv, cfun.common

INT_TYPES = ("u8", "u32", "int", "long", "bool")
CTX_CTYPE = {"int": "int", "time_t": "long", "uid_t": "u32", "gid_t": "u32", "munge_err_t": "int", "unsigned": "u32"}
MSG_PTR = {"realm_str": "m_realm", "data": "m_data"}
MSG_FLAGS = ("realm_is_copy", "data_is_copy", "error_is_copy")
FUNCS = [("encode.c", "_encode_init"), ("encode.c", "_encode_req"), ("encode.c", "_encode_rsp"),
         ("decode.c", "_decode_init"), ("decode.c", "_decode_req"), ("decode.c", "_decode_rsp")]


class LP(cfun.P):
    """cfun's parser plus: *p, a.b, `return;`"""
    def unary(self):
        if self.peek() == ("op", "*"):
            self.eat()
            return ("deref", self.unary())
        if self.at("("):
            # casts to types cfun does not list: (void *), (unsigned char *), (char *)
            k, words = 1, []
            while self.peek(k)[0] == "id":
                words.append(self.peek(k)[1])
                k += 1
            stars = 0
            while self.peek(k) == ("op", "*"):
                stars += 1
                k += 1
            if words and stars and self.peek(k) == ("op", ")") and all(w in ("const", "void", "char", "unsigned", "signed") for w in words):
                self.i += k + 1
                return ("cast", "ptr", self.unary())
        return super().unary()

    def postfix(self):
        e = super().postfix()
        while self.peek() == ("op", "."):
            self.eat()
            e = ("dot", e, self.eat("id")[1])
        return e

    def stmt(self):
        if self.peek() == ("id", "return") and self.peek(1) == ("op", ";"):
            self.eat()
            self.eat()
            return ("return", None)
        for kw in ("while", "for", "do", "switch"):
            if self.peek() == ("id", kw):
                raise TErr("`%s` statement" % kw)
        return super().stmt()


def strip_asserts(body):
    """-> (body without assert statements, names asserted != NULL)"""
    known, out, i = [], [], 0
    for m in re.finditer(r"\bassert\s*\(", body):
        if m.start() < i:
            continue
        out.append(body[i:m.start()])
        depth, j = 1, m.end()
        while depth and j < len(body):
            depth += {"(": 1, ")": -1}.get(body[j], 0)
            j += 1
        inner = body[m.end():j - 1]
        k = re.fullmatch(r"\s*(\w+)\s*!=\s*NULL\s*", inner)
        if k:
            known.append(k.group(1))
        j2 = body.index(";", j)
        i = j2 + 1
    out.append(body[i:])
    return "".join(out), known


class Lib:
    def __init__(self, name, params, ctxtypes, msgtypes, macros, known):
        self.name, self.ctxtypes, self.msgtypes, self.macros = name, ctxtypes, msgtypes, macros
        self.params = params                  # list of (kind, name, extra)
        self.kind = {n: (k, x) for k, n, x in params}
        self.state = [n for k, n, x in params if k in ("msg", "ctx", "outp", "outi")]
        self.nonnull = set(("var", n) for n in known)
        self.ntxt = 0
        self.uses_type = False

    def err(self, what):
        raise TErr("%s: %s" % (self.name, what))

    # ---- names
    def gv(self, n):
        k = self.kind[n][0]
        return {"msg": "m", "ctx": "ctx", "outp": "o_" + n, "outi": "o_" + n, "ptr": "p_" + n, "int": "a_" + n}[k]

    def state_term(self):
        return "(%s)" % ", ".join([self.gv(n) for n in self.state] + ["tt"])

    def need_nonnull(self, e, why):
        if e not in self.nonnull:
            self.err("%s where it is not known to be non-NULL: %s" % (why, str(e)[:70]))

    # ---- expressions -> (term, type)
    def val(self, e):
        k = e[0]
        if k == "num":
            return str(e[1]), "int"
        if k == "var":
            n = e[1]
            if n in self.kind:
                kd, x = self.kind[n]
                if kd == "int":
                    return self.gv(n), x
                if kd == "ptr":
                    return self.gv(n), "ptr"
                if kd == "ctx":
                    return "ctx", "ctxp"
                if kd in ("outp", "outi"):
                    return self.gv(n), "outp"
                self.err("the message object used as a value")
            if n == "NULL":
                return "None", "null"
            if n in cfun.MACROS:
                return "(Z.of_N %s)" % cfun.MACROS[n], "int"
            if n in cfun.ERRS:
                return "(Z.of_N %s)" % cfun.ERRS[n], "int"
            if n in self.macros:
                return self.macros[n]
            self.err("unknown identifier %s" % n)
        if k == "mem":
            o, f = e[1], e[2]
            if o == "m" and self.kind.get("m", ("",))[0] == "msg":
                if f == "type":
                    self.uses_type = True
                    return "m_type", self.msgtypes.get("type", "u8")
                if f in MSG_PTR:
                    return "(mptr (%s m))" % MSG_PTR[f], "ptr"
                if f in cfun.MSG_FIELD and f in self.msgtypes:
                    return "(Z.of_N (%s m))" % cfun.MSG_FIELD[f], self.msgtypes[f]
                self.err("member m->%s is not modelled" % f)
            if o == "ctx" and self.kind.get("ctx", ("",))[0] == "ctx":
                self.need_nonnull(("var", "ctx"), "ctx->%s is read" % f)
                if f not in self.ctxtypes or self.ctxtypes[f] == "addr":
                    self.err("member ctx->%s is not an integer or pointer member of struct munge_ctx" % f)
                return "(x_%s (ctxv ctx))" % f, self.ctxtypes[f]
            self.err("member of %s" % o)
        if k == "dot":
            b, f = e[1], e[2]
            if f == "s_addr" and b == ("mem", "m", "addr"):
                return "(m_addr m)", "addr4"
            if f == "s_addr" and b == ("mem", "ctx", "addr") and self.ctxtypes.get("addr") == "addr":
                self.need_nonnull(("var", "ctx"), "ctx->addr is read")
                return "(x_addr (ctxv ctx))", "addr4"
            self.err("member access %s" % str(e)[:60])
        if k == "cast":
            t, ty = self.val(e[2])
            if e[1] in ("ptr", "void"):
                if ty not in ("ptr", "null"):
                    self.err("pointer cast of a non-pointer")
                return t, ty
            if ty not in INT_TYPES:
                self.err("integer cast of a pointer")
            return conv(t, ty, e[1]), e[1]
        if k == "neg":
            t, ty = self.val(e[1])
            if ty not in INT_TYPES:
                self.err("negation of a pointer")
            ty2 = common(ty, "int")
            r = "(- %s)" % conv(t, ty, ty2)
            return ("(wrap32 %s)" % r if ty2 == "u32" else r), ty2
        if k in ("+", "-"):
            a, ta = self.val(e[1])
            b, tb = self.val(e[2])
            if ta not in INT_TYPES or tb not in INT_TYPES:
                self.err("pointer arithmetic")
            ty = common(ta, tb)
            r = "(%s %s %s)" % (conv(a, ta, ty), k, conv(b, tb, ty))
            return ("(wrap32 %s)" % r if ty == "u32" else r), ty
        if k == "call":
            if e[1] == "strlen" and len(e[2]) == 1:
                a = cfun.strip_casts(e[2][0])
                t, ty = self.val(a)
                if ty != "ptr":
                    self.err("strlen of a non-pointer")
                self.need_nonnull(a, "strlen is applied to a pointer")
                return "(Z.of_N (c_strlen (ptrv %s)))" % t, "long"
            self.err("call of %s is outside the translated subset" % e[1])
        if k == "deref":
            self.err("read through a pointer parameter: %s" % str(e)[:60])
        if k in ("==", "!=", "<", ">", "<=", ">=", "&&", "||", "!"):
            return "(b2z %s)" % self.cond(e), "int"
        self.err("expression %s" % k)

    def ptrish(self, e):
        """-> bool term `e is not NULL`, or None when e is not a pointer-valued expression"""
        e0 = cfun.strip_casts(e)
        if e0[0] in ("var", "mem") :
            try:
                t, ty = self.val(e0)
            except TErr:
                raise
            if ty in ("ptr", "ctxp", "outp"):
                return "(is_some %s)" % t
        return None

    def cond(self, e):
        k = e[0]
        if k in ("==", "!="):
            for a, b in ((e[1], e[2]), (e[2], e[1])):
                if cfun.strip_casts(b) == ("var", "NULL"):
                    p = self.ptrish(a)
                    if p is None:
                        self.err("comparison of a non-pointer with NULL")
                    return p if k == "!=" else "(negb %s)" % p
        if k in ("==", "!=", "<", ">", "<=", ">="):
            a, ta = self.val(e[1])
            b, tb = self.val(e[2])
            if ta not in INT_TYPES or tb not in INT_TYPES:
                self.err("comparison of pointers")
            ty = common(ta, tb)
            a, b = conv(a, ta, ty), conv(b, tb, ty)
            op = {"==": "=?", "<": "<?", ">": ">?", "<=": "<=?", ">=": ">=?"}.get(k)
            return "(negb (%s =? %s))" % (a, b) if k == "!=" else "(%s %s %s)" % (a, op, b)
        if k == "&&":
            a = self.cond(e[1])
            saved = set(self.nonnull)
            self.nonnull |= self.facts(e[1])          # the right operand is evaluated only when the left one holds
            b = self.cond(e[2])
            self.nonnull = saved
            return "(%s && %s)" % (a, b)
        if k == "||":
            return "(%s || %s)" % (self.cond(e[1]), self.cond(e[2]))
        if k == "!":
            return "(negb %s)" % self.cond(e[1])
        p = self.ptrish(e)
        if p is not None:
            return p
        t, ty = self.val(e)
        if ty not in INT_TYPES:
            self.err("condition of type %s" % ty)
        return "(negb (%s =? 0))" % t

    def facts(self, e):
        """pointer expressions known non-NULL when the condition e holds"""
        k = e[0]
        if k == "&&":
            return self.facts(e[1]) | self.facts(e[2])
        if k == "!=":
            for a, b in ((e[1], e[2]), (e[2], e[1])):
                if cfun.strip_casts(b) == ("var", "NULL"):
                    return {cfun.strip_casts(a)}
            return set()
        if k in ("var", "mem") and self.ptrish(e) is not None:
            return {e}
        return set()

    # ---- statements
    def assign(self, lhs, rhs):
        """-> list of `let` lines"""
        lhs0 = lhs
        t, ty = self.val(rhs)
        self.nonnull.discard(lhs0)
        if lhs[0] == "mem" and lhs[1] == "m" and self.kind.get("m", ("",))[0] == "msg":
            f = lhs[2]
            if f in MSG_FLAGS:
                if rhs[0] != "num":
                    self.err("ownership flag m->%s assigned a non-constant" % f)
                return []
            if f in MSG_PTR:
                if ty not in ("ptr", "null"):
                    self.err("m->%s assigned a non-pointer" % f)
                return ["let m := m <| %s := pmem %s |> in" % (MSG_PTR[f], t)]
            if f in cfun.MSG_FIELD and f in self.msgtypes and f != "error_num" and ty in INT_TYPES:
                return ["let m := m <| %s := Z.to_N %s |> in" % (cfun.MSG_FIELD[f], conv(t, ty, self.msgtypes[f]))]
            self.err("assignment to m->%s" % f)
        if lhs[0] == "mem" and lhs[1] == "ctx" and self.kind.get("ctx", ("",))[0] == "ctx":
            f = lhs[2]
            self.need_nonnull(("var", "ctx"), "ctx->%s is assigned" % f)
            if f not in self.ctxtypes or self.ctxtypes[f] == "addr":
                self.err("assignment to ctx->%s" % f)
            cty = self.ctxtypes[f]
            if cty == "ptr":
                if ty not in ("ptr", "null"):
                    self.err("ctx->%s assigned a non-pointer" % f)
                v = t
            else:
                if ty not in INT_TYPES:
                    self.err("ctx->%s assigned a pointer" % f)
                v = conv(t, ty, cty)
            return ["let ctx := Some ((ctxv ctx) <| x_%s := %s |>) in" % (f, v)]
        if lhs[0] == "dot" and lhs == ("dot", ("mem", "ctx", "addr"), "s_addr") and self.ctxtypes.get("addr") == "addr":
            self.need_nonnull(("var", "ctx"), "ctx->addr is assigned")
            if ty == "addr4":
                v = t
            elif rhs == ("num", 0):
                v = "zero4"
            else:
                self.err("ctx->addr.s_addr assigned %s" % str(rhs)[:50])
            return ["let ctx := Some ((ctxv ctx) <| x_addr := %s |>) in" % v]
        if lhs[0] == "deref" and lhs[1][0] == "var" and self.kind.get(lhs[1][1], ("",))[0] in ("outp", "outi"):
            n = lhs[1][1]
            kd, x = self.kind[n]
            self.need_nonnull(("var", n), "*%s is assigned" % n)
            if kd == "outp":
                if ty not in ("ptr", "null"):
                    self.err("*%s assigned a non-pointer" % n)
                v = t
            else:
                if ty not in INT_TYPES:
                    self.err("*%s assigned a pointer" % n)
                v = conv(t, ty, x)
            self.nonnull.add(("var", n))
            return ["let o_%s := Some %s in" % (n, v)]
        self.err("assignment to %s" % str(lhs)[:60])

    def simple(self, s):
        if s[0] == "assign":
            return self.assign(s[1], s[2])
        if s[0] == "expr":
            e = cfun.strip_casts(s[1], ("void",))
            if e[0] == "call" and e[1] == "free" and len(e[2]) == 1:
                return []
            if e[0] == "call" and e[1] == "m_msg_set_err" and len(e[2]) == 3 and e[2][0] == ("var", "m") and \
                    e[2][1][0] == "var" and e[2][1][1] in cfun.ERRS:
                if cfun.strip_casts(e[2][2]) == ("var", "NULL"):
                    s_ = "None"
                else:
                    s_ = "(Some (txt %d%%nat))" % self.ntxt
                    self.ntxt += 1
                return ["let m := set_err m %s %s in" % (cfun.ERRS[e[2][1][1]], s_)]
            self.err("expression statement %s" % str(e)[:60])
        if s[0] == "skip":
            return []
        return None

    def returns(self, stmts):
        """does every path through stmts end in a return?  (None = some do, some do not)"""
        r = False
        for s in stmts:
            if s[0] == "return":
                return True
            if s[0] == "if":
                a, b = self.returns(s[2]), self.returns(s[3]) if s[3] else False
                if a is None or b is None or a != b and (a or b) and s[3]:
                    return None
                if a and b:
                    return True
                if a or b:
                    r = "partial"          # one branch returns, the other falls through: handled by seq()
        return False if r is False else r

    def split_cond(self, c):
        """`(p = q) != NULL` at the top of a condition -> (lets, condition without the assignment)"""
        if c[0] in ("!=", "==") and c[1][0] == "assignexpr" and cfun.strip_casts(c[2]) == ("var", "NULL"):
            lets = self.assign(c[1][1], c[1][2])
            return lets, (c[0], c[1][1], c[2])
        if "assignexpr" in str(c):
            self.err("assignment inside a condition in a form other than `(p = q) != NULL`")
        return [], c

    def seq(self, stmts, ind):
        sp = " " * ind
        if not stmts:
            self.err("control reaches the end of the function without a return")
        s, rest = stmts[0], stmts[1:]
        if s[0] == "return":
            if s[1] is None:
                return sp + "(0, %s)" % self.state_term()
            t, ty = self.val(s[1])
            if ty not in INT_TYPES:
                self.err("return of a pointer")
            return sp + "(%s, %s)" % (conv(t, ty, "int"), self.state_term())
        lines = self.simple(s)
        if lines is not None:
            return "".join(sp + l + "\n" for l in lines) + self.seq(rest, ind)
        if s[0] == "decl":
            self.err("local variable %s" % s[2])
        if s[0] == "if":
            lets, c = self.split_cond(s[1])
            pre = "".join(sp + l + "\n" for l in lets)
            ct = self.cond(c)
            th_ret, el_ret = self.returns(s[2]), (self.returns(s[3]) if s[3] else False)
            saved = set(self.nonnull)
            if th_ret is True and not s[3]:
                self.nonnull = saved | self.facts(c)
                th = self.seq(s[2], ind + 2)
                self.nonnull = set(saved)
                return "%s%sif %s then\n%s\n%selse\n%s" % (pre, sp, ct, th, sp, self.seq(rest, ind + 2))
            if th_ret is False and el_ret is False:
                self.nonnull = saved | self.facts(c)
                th = self.block(s[2], ind + 4)
                nn_t = set(self.nonnull)
                self.nonnull = set(saved)
                el = self.block(s[3], ind + 4)
                nn_e = set(self.nonnull)
                self.nonnull = (nn_t & nn_e) & saved       # knowledge that survives both branches
                return "%s%slet '%s :=\n%s  if %s then\n%s\n%s  else\n%s in\n%s" % (
                    pre, sp, self.state_term(), sp, ct, th, sp, el, self.seq(rest, ind))
            self.err("an `if` in which the branches differ in whether they return (only `if (c) { ...; return x; }` "
                     "without else, or no return in either branch, is translated)")
        self.err("statement %s" % s[0])

    def block(self, stmts, ind):
        """a block that does not return: -> the state after it"""
        sp = " " * ind
        out = ""
        for i, s in enumerate(stmts):
            lines = self.simple(s)
            if lines is not None:
                out += "".join(sp + l + "\n" for l in lines)
                continue
            if s[0] == "if":
                lets, c = self.split_cond(s[1])
                out += "".join(sp + l + "\n" for l in lets)
                ct = self.cond(c)
                if self.returns(s[2]) is not False or (s[3] and self.returns(s[3]) is not False):
                    self.err("return inside a nested block")
                saved = set(self.nonnull)
                self.nonnull = saved | self.facts(c)
                th = self.block(s[2], ind + 4)
                nn_t = set(self.nonnull)
                self.nonnull = set(saved)
                el = self.block(s[3], ind + 4)
                nn_e = set(self.nonnull)
                self.nonnull = (nn_t & nn_e) & saved
                out += "%slet '%s :=\n%s  if %s then\n%s\n%s  else\n%s in\n" % (sp, self.state_term(), sp, ct, th, sp, el)
                continue
            if s[0] == "decl":
                self.err("local variable %s" % s[2])
            self.err("statement %s inside a block" % s[0])
        return out + sp + self.state_term()


def parse_params(name, text):
    out = []
    for p in [x.strip() for x in text.replace("\n", " ").split(",")]:
        m = re.fullmatch(r"(const\s+)?([\w ]+?)\s*(\*{0,2})\s*(\w+)", p)
        if not m:
            raise TErr("%s: parameter `%s`" % (name, p))
        const, ty, stars, nm = m.group(1), m.group(2).strip(), m.group(3), m.group(4)
        if ty == "m_msg_t" and not stars:
            if nm != "m":
                raise TErr("%s: the message parameter is not called m" % name)
            out.append(("msg", nm, None))
        elif ty == "munge_ctx_t" and not stars:
            if nm != "ctx":
                raise TErr("%s: the context parameter is not called ctx" % name)
            out.append(("ctx", nm, None))
        elif ty in ("void", "char") and stars == "*" and const:
            out.append(("ptr", nm, None))
        elif ty in ("void", "char") and stars == "**":
            out.append(("outp", nm, None))
        elif ty in ("int", "uid_t", "gid_t") and stars == "*":
            out.append(("outi", nm, cfun.CTYPE[ty]))
        elif ty in cfun.CTYPE and not stars:
            out.append(("int", nm, cfun.CTYPE[ty]))
        else:
            raise TErr("%s: parameter `%s` has a type outside the subset" % (name, p))
    return out


def func_parts(src, name):
    m = re.search(r"^%s \((.*?)\)\n\{(.*?)^\}" % re.escape(name), src, re.S | re.M)
    if not m:
        raise TErr("function %s not found" % name)
    return m.group(1), m.group(2)


def translate(src, name, ctxtypes, msgtypes, macros):
    ptxt, body = func_parts(src, name)
    params = parse_params(name, ptxt)
    body = re.sub(r"/\*.*?\*/", " ", body, flags=re.S)
    body, known = strip_asserts(body)
    try:
        p = LP(cfun.lex(body))
        stmts = []
        while p.peek()[0] != "eof":
            stmts.append(p.stmt())
    except TErr as e:
        raise TErr("%s: %s" % (name, e))
    fn = Lib(name, params, ctxtypes, msgtypes, macros, known)
    if not stmts or stmts[-1][0] != "return":
        stmts.append(("return", None))             # a void function may fall off its end
    term = fn.seq(stmts, 2)
    gty = {"msg": "msg", "ctx": "option lctx", "outp": "option (option bytes)", "outi": "option Z", "ptr": "option bytes", "int": "Z"}
    ps = "".join(" (%s : %s)" % (fn.gv(n), gty[k]) for k, n, x in params)
    extra = (" (txt : nat -> bytes)" if fn.ntxt else "") + (" (m_type : Z)" if fn.uses_type else "")
    sty = " * ".join([gty[fn.kind[n][0]] for n in fn.state] + ["unit"])
    return "Definition lib%s%s%s : Z * (%s) :=\n%s." % (name, extra, ps, sty, term)


def ctx_types(hsrc):
    m = re.search(r"struct munge_ctx \{(.*?)\n\};", hsrc, re.S)
    if not m:
        raise TErr("struct munge_ctx not found in ctx.h")
    out = []
    for line in re.sub(r"/\*.*?\*/", "", m.group(1), flags=re.S).split(";"):
        line = line.strip()
        if not line:
            continue
        k = re.fullmatch(r"(struct\s+in_addr|[\w]+)\s*(\*?)\s*(\w+)", line)
        if not k:
            raise TErr("struct munge_ctx: member declaration `%s`" % line)
        ty, star, nm = k.group(1), k.group(2), k.group(3)
        if star and ty == "char":
            out.append((nm, "ptr"))
        elif ty.startswith("struct") and not star:
            out.append((nm, "addr"))
        elif ty in CTX_CTYPE and not star:
            out.append((nm, CTX_CTYPE[ty]))
        else:
            raise TErr("struct munge_ctx: member `%s` has a type outside the subset" % line)
    return out


def enum_values(hsrc, ename):
    m = re.search(r"enum %s \{(.*?)\};" % ename, hsrc, re.S)
    if not m:
        raise TErr("enum %s not found" % ename)
    out, v = {}, 0
    for it in re.sub(r"/\*.*?\*/", "", m.group(1), flags=re.S).split(","):
        it = it.strip()
        if not it:
            continue
        k = re.fullmatch(r"(\w+)(?:\s*=\s*(\d+))?", it)
        if not k:
            raise TErr("enum %s: enumerator `%s`" % (ename, it))
        if k.group(2):
            v = int(k.group(2))
        out[k.group(1)] = v
        v += 1
    return out


def sentinel(csrc, name):
    m = re.search(r"#define\s+%s\s+(.*)" % name, csrc)
    if not m:
        raise TErr("macro %s not found in common.h" % name)
    p = LP(cfun.lex(m.group(1)))
    e = p.expr()
    t, ty = Lib("macro " + name, [], {}, {}, {}, []).val(e)
    return t, ty


def gen(api):
    R = api.REPO
    try:
        rd = lambda p: open(os.path.join(R, p)).read()
        ct = ctx_types(rd("src/libmunge/ctx.h"))
        mh = rd("src/libcommon/m_msg.h")
        mt = cfun.msg_types(mh)
        mtypes = enum_values(mh, "m_msg_type")
        gname = lambda n: "msgt_" + re.sub(r"^MUNGE_MSG_", "", n).lower()
        macros = {n: (gname(n), "int") for n in mtypes}
        for s in ("UID_SENTINEL", "GID_SENTINEL"):
            macros[s] = sentinel(rd("src/libcommon/common.h"), s)
        srcs = {f: rd("src/libmunge/" + f) for f in ("encode.c", "decode.c")}
        used = set()
        for f, n in FUNCS:
            b = func_parts(srcs[f], n)[1]
            used |= set(re.findall(r"ctx->(\w+)", b))
        fields = [(n, t) for n, t in ct if n in used]
        unknown = used - set(n for n, t in ct)
        if unknown:
            raise TErr("members of ctx used but not declared in struct munge_ctx: %s" % sorted(unknown))
        ctd = dict(fields)
        defs = [translate(srcs[f], n, ctd, mt, macros) for f, n in FUNCS]
    except (TErr, OSError, IndexError, ValueError) as e:
        raise api.GenError("libfun: " + str(e))
    gty = {"ptr": "option bytes", "addr": "bytes"}
    dflt = {"ptr": "None", "addr": "[]"}
    rec = "Record lctx : Type := {\n" + ";\n".join("  x_%s : %s" % (n, gty.get(t, "Z")) for n, t in fields) + "\n}."
    inst = "#[export] Instance eta_lctx : Settable _ := settable! Build_lctx <%s>." % "; ".join("x_" + n for n, t in fields)
    l0 = "Definition lctx0 : lctx := {| " + "; ".join("x_%s := %s" % (n, dflt.get(t, "0")) for n, t in fields) + " |}."
    out = "\n".join([
        "(* GENERATED from the C text of src/libmunge/encode.c, decode.c and ctx.h by tools/facts/libfun.py - do not edit *)",
        "From Coq Require Import List NArith ZArith Bool.", "From Coq.Strings Require Import Byte.",
        "From RecordUpdate Require Import RecordSet.",
        "From MV Require Import Bytes CredModel.", "From MV.gen Require Import GenCred.",
        "Import ListNotations RecordSetNotations.", "Local Open Scope Z_scope.",
        "Definition b2z (b : bool) : Z := if b then 1 else 0.",
        "Definition wrap32 (z : Z) : Z := z mod 4294967296.",
        "Definition wrapi32 (z : Z) : Z := (z + 2147483648) mod 4294967296 - 2147483648.",
        "(* enum m_msg_type (m_msg.h) *)"] + ["Definition %s : Z := %d." % (gname(n), v) for n, v in mtypes.items()] + [
        "(* struct munge_ctx (ctx.h), the members the translated functions touch *)",
        rec, inst, l0,
        "Definition ctxv (c : option lctx) : lctx := match c with Some x => x | None => lctx0 end.",
        "Definition is_some {A : Type} (o : option A) : bool := match o with Some _ => true | None => false end.",
        "Definition ptrv (p : option bytes) : bytes := match p with Some b => b | None => [] end.",
        "(* pointer members of struct m_msg are byte strings in CredModel.msg, [] = NULL *)",
        "Definition pmem (p : option bytes) : bytes := ptrv p.",
        "Definition mptr (b : bytes) : option bytes := match b with [] => None | _ => Some b end.",
        "Definition zero4 : bytes := [x00; x00; x00; x00].",
        "(* strlen: the position of the first NUL *)",
        "Fixpoint c_strlen (b : bytes) : N := match b with [] => 0%N | c :: r => if (b2n c =? 0)%N then 0%N else N.succ (c_strlen r) end.",
        ""] + [d + "\n" for d in defs])
    return api.write_gen("GenLibFun.v", out)
