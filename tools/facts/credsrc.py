"""GenCredSrc.v: pieces of the credential pipeline TRANSLATED FROM THE SOURCE TEXT on every run:
  * src_msg_reset  — the assignments of m_msg_reset() in libcommon/m_msg.c, as record updates on CredModel.msg;
  * src_soft_err   — the error codes dec_process_msg() exempts from m_msg_reset (the `m->error_num != X` conjuncts);
  * src_enc_stages / src_dec_stages — the order of the stage functions in enc_process_msg / dec_process_msg.
CredSource.v proves that CredModel's msg_reset / soft_err are these, so a field that is no longer reset, a new
exempted error code or a re-ordered stage changes a theorem's input."""
import os, re

CONST = {"MUNGE_CIPHER_NONE": "c_cipher_none", "MUNGE_MAC_NONE": "c_mac_none", "MUNGE_ZIP_NONE": "c_zip_none",
         "MUNGE_TTL_DEFAULT": "c_ttl_default", "MUNGE_UID_ANY": "c_uid_any", "MUNGE_GID_ANY": "c_gid_any", "0": "0", "NULL": "[]"}
FIELD = {"cipher": "m_cipher", "mac": "m_mac", "zip": "m_zip", "realm_len": "m_realm_len", "realm_str": "m_realm",
         "ttl": "m_ttl", "addr_len": "m_addr_len", "time0": "m_time0", "time1": "m_time1", "cred_uid": "m_cred_uid",
         "cred_gid": "m_cred_gid", "auth_uid": "m_auth_uid", "auth_gid": "m_auth_gid", "data_len": "m_data_len", "data": "m_data",
         "client_uid": "m_client_uid", "client_gid": "m_client_gid", "retry": "m_retry", "error_num": "m_err"}
ERR = {"EMUNGE_CRED_EXPIRED": "e_cred_expired", "EMUNGE_CRED_REWOUND": "e_cred_rewound", "EMUNGE_CRED_REPLAYED": "e_cred_replayed",
       "EMUNGE_CRED_UNAUTHORIZED": "e_cred_unauthorized", "EMUNGE_CRED_INVALID": "e_cred_invalid", "EMUNGE_SNAFU": "e_snafu",
       "EMUNGE_BAD_CRED": "e_bad_cred", "EMUNGE_SOCKET": "e_socket", "EMUNGE_SUCCESS": "e_success"}
# model order of the fields in CredModel.msg_reset (record updates are applied left to right)
ORDER = ["m_cipher", "m_mac", "m_zip", "m_realm_len", "m_realm", "m_ttl", "m_addr_len", "m_time0", "m_time1", "m_cred_uid",
         "m_cred_gid", "m_auth_uid", "m_auth_gid", "m_data_len", "m_data"]


def func_body(src, name):
    m = re.search(r"^%s \(.*?\)\n\{(.*?)^\}" % re.escape(name), src, re.S | re.M)
    if not m:
        raise ValueError("function %s not found" % name)
    return m.group(1)


def strip_comments(t):
    return re.sub(r"/\*.*?\*/", "", t, flags=re.S)


def gen(api):
    R = api.REPO
    try:
        msrc = open(os.path.join(R, "src/libcommon/m_msg.c")).read()
        dsrc = open(os.path.join(R, "src/munged/dec.c")).read()
        esrc = open(os.path.join(R, "src/munged/enc.c")).read()
        body = strip_comments(func_body(msrc, "m_msg_reset"))
        assigns = {}
        for f, v in re.findall(r"m->(\w+)\s*=\s*([\w]+)\s*;", body):
            if f not in FIELD or v not in CONST:
                raise ValueError("m_msg_reset: cannot translate `m->%s = %s`" % (f, v))
            assigns[FIELD[f]] = CONST[v]
        extra = [f for f in assigns if f not in ORDER]
        if extra:
            raise ValueError("m_msg_reset assigns members the model does not know: %s" % extra)
        ups = "".join(" <| %s := %s |>" % (f, assigns[f]) for f in ORDER if f in assigns)
        # exempted codes in dec_process_msg
        dbody = strip_comments(func_body(dsrc, "dec_process_msg"))
        m = re.search(r"if \(\(rc != 0\)(.*?)\) \{\s*m_msg_reset \(m\);", dbody, re.S)
        if not m:
            raise ValueError("dec_process_msg: the guard of m_msg_reset was not found in its usual form")
        codes = re.findall(r"m->error_num\s*!=\s*(\w+)", m.group(1))
        other = re.sub(r"\(m->error_num\s*!=\s*\w+\)", "", m.group(1))
        if re.search(r"[A-Za-z_]", other.replace("&&", "")):
            raise ValueError("dec_process_msg: the guard of m_msg_reset has a conjunct the translator does not understand: %r" % other.strip())
        for c in codes:
            if c not in ERR:
                raise ValueError("unknown error code %s" % c)
        # sort by the numeric value as the running code reports it is not available here: keep the enum order of munge.h
        enum = re.findall(r"\b(EMUNGE_\w+)\s*=\s*(\d+)", open(os.path.join(R, "src/libmunge/munge.h")).read())
        val = {n: int(v) for n, v in enum}
        codes = sorted(set(codes), key=lambda c: val[c])
        soft = " || ".join("(e =? %s)" % ERR[c] for c in codes) or "false"
        # enc_process_msg's guard: reset on every failure
        ebody = strip_comments(func_body(esrc, "enc_process_msg"))
        if not re.search(r"if \(rc != 0\) \{\s*m_msg_reset \(m\);", ebody):
            raise ValueError("enc_process_msg: `if (rc != 0) m_msg_reset (m)` not found")
        dst = re.findall(r"\b(dec_\w+) \([cm]\) < 0|!\(c = (cred_create) \(m\)\)", dbody)
        est = re.findall(r"\b(enc_\w+) \([cm]\) < 0|!\(c = (cred_create) \(m\)\)", ebody)
        dstages = [a or b for a, b in dst]
        estages = [a or b for a, b in est]
    except (ValueError, OSError) as e:
        raise api.GenError("credsrc: " + str(e))
    q = lambda l: "[" + "; ".join('"%s"' % x for x in l) + "]"
    out = "\n".join([
        "(* GENERATED from the text of m_msg.c (m_msg_reset), dec.c (dec_process_msg) and enc.c (enc_process_msg) by tools/facts/credsrc.py - do not edit *)",
        "From Coq Require Import List NArith Bool String.", "From RecordUpdate Require Import RecordSet.",
        "From MV Require Import Bytes CredModel.", "From MV.gen Require Import GenCred.",
        "Import ListNotations RecordSetNotations.", "Local Open Scope N_scope.",
        "Definition src_msg_reset (m : msg) : msg :=\n  m%s." % ups,
        "Definition src_soft_err (e : N) : bool := %s." % soft,
        "Definition src_dec_stages : list string := %s%%string." % q(dstages),
        "Definition src_enc_stages : list string := %s%%string." % q(estages), ""])
    return api.write_gen("GenCredSrc.v", out)
