"""GenMsgClientSrc.v: what m_msg_client_xfer hands to m_msg_recv / m_msg_send and what the sanity checks of _decode_rsp /
_encode_rsp compare with, TRANSLATED FROM THE SOURCE TEXT of src/libmunge/m_msg_client.c, decode.c and encode.c on every run
(MsgClientSource.v proves that these are the values measured by running the code, gen/GenMsgClient.v, which the model
uses).  The translator understands the idioms the files are written in:
    m_msg_recv (mrsp, <MUNGE_MSG_X | local variable>, <integer | MUNGE_MAXIMUM_REQ_LEN>)
    m_msg_send (mreq, mreq_type, <integer | MUNGE_MAXIMUM_REQ_LEN>)
    if (mreq_type == MUNGE_MSG_A) { v = MUNGE_MSG_B; } else if (...) { ... } else { return (EMUNGE_SNAFU); }
    if ((mreq_type != MUNGE_MSG_A) && (mreq_type != MUNGE_MSG_B)) { return (EMUNGE_SNAFU); }
    if (m->type != MUNGE_MSG_X) { ... return (EMUNGE_SNAFU); }          (first statement of _decode_rsp / _encode_rsp)
Anything it does not understand makes the generation fail (the check then reports a broken obligation)."""
import os, re

NAMES = {"UNDEF": "mt_undef", "HDR": "mt_hdr", "ENC_REQ": "mt_enc_req", "ENC_RSP": "mt_enc_rsp", "DEC_REQ": "mt_dec_req",
         "DEC_RSP": "mt_dec_rsp", "AUTH_FD_REQ": "mt_auth_fd_req"}


class TranslateError(Exception):
    pass


def strip_comments(src):
    return re.sub(r"/\*.*?\*/", " ", src, flags=re.S)


def func_body(src, name):
    m = re.search(r"^%s \(.*?\)\n\{(.*?)^\}" % re.escape(name), src, re.S | re.M)
    if not m:
        raise TranslateError("function %s not found" % name)
    return strip_comments(m.group(1))


def mt(name):
    if name not in NAMES:
        raise TranslateError("unknown message type MUNGE_MSG_%s" % name)
    return NAMES[name]


def maxlen(tok):
    tok = tok.strip()
    if re.fullmatch(r"\d+", tok):
        return "%s%%Z" % tok
    if tok == "MUNGE_MAXIMUM_REQ_LEN":
        return "(Z.of_N max_req_len)"
    raise TranslateError("cannot translate maxlen argument `%s`" % tok)


def tr_xfer(body):
    flat = re.sub(r"\s+", " ", body)
    calls = re.findall(r"m_msg_recv \( ?(\w+) ?, ?(\w+) ?, ?(\w+) ?\)", flat)
    if len(calls) != 1:
        raise TranslateError("m_msg_client_xfer: expected one call of m_msg_recv, found %d" % len(calls))
    _, arg, rmax = calls[0]
    sends = re.findall(r"m_msg_send \( ?(\w+) ?, ?(\w+) ?, ?(\w+) ?\)", flat)
    if len(sends) != 1 or sends[0][1] != "mreq_type":
        raise TranslateError("m_msg_client_xfer: expected one m_msg_send (mreq, mreq_type, ...)")
    smax = sends[0][2]
    # which request types get as far as the loop
    chain = re.findall(r"(?:else )?if \( ?mreq_type == MUNGE_MSG_(\w+) ?\) \{ ?(\w+) = MUNGE_MSG_(\w+) ?; ?\}", flat)
    neg = re.search(r"if \( ?((?:\(? ?mreq_type != MUNGE_MSG_\w+ ?\)?(?: && )?)+) ?\) \{ ?return \(EMUNGE_SNAFU\) ?; ?\}", flat)
    table = []          # (request type, expected type)
    if arg.startswith("MUNGE_MSG_"):
        const = mt(arg[len("MUNGE_MSG_"):])
        if neg:
            reqs = re.findall(r"mreq_type != MUNGE_MSG_(\w+)", neg.group(1))
        elif chain:
            reqs = [c[0] for c in chain]
        else:
            raise TranslateError("m_msg_client_xfer: cannot find the validation of mreq_type")
        table = [(mt(r), const) for r in reqs]
    else:
        mine = [c for c in chain if c[1] == arg]
        if not mine:
            raise TranslateError("m_msg_client_xfer: m_msg_recv is passed `%s`, which is not assigned in an if-chain on mreq_type" % arg)
        if not re.search(r"\} else \{ ?return \(EMUNGE_SNAFU\) ?; ?\}", flat):
            raise TranslateError("m_msg_client_xfer: the if-chain on mreq_type has no refusing else branch")
        if len(re.findall(r"\b%s =[^=]" % re.escape(arg), flat)) != len(mine):
            raise TranslateError("m_msg_client_xfer: `%s` is assigned outside the if-chain" % arg)
        table = [(mt(c[0]), mt(c[2])) for c in mine]
    return table, maxlen(rmax), maxlen(smax)


def tr_sanity(body, fn):
    flat = re.sub(r"\s+", " ", body)
    m = re.search(r"if \( ?m->type != MUNGE_MSG_(\w+) ?\) \{[^}]*return \(EMUNGE_SNAFU\) ?; ?\}", flat)
    if not m:
        return "None"
    before = flat[:m.start()]
    if re.search(r"(\*\w+|ctx->\w+) ?=[^=]", before):
        raise TranslateError("%s: outputs are written before the type check" % fn)
    return "(Some %s)" % mt(m.group(1))


def gen(api):
    R = api.REPO
    rd = lambda p: open(os.path.join(R, p)).read()
    try:
        table, rmax, smax = tr_xfer(func_body(rd("src/libmunge/m_msg_client.c"), "m_msg_client_xfer"))
        dsan = tr_sanity(func_body(rd("src/libmunge/decode.c"), "_decode_rsp"), "_decode_rsp")
        esan = tr_sanity(func_body(rd("src/libmunge/encode.c"), "_encode_rsp"), "_encode_rsp")
    except TranslateError as e:
        raise api.GenError("msgclientsrc: " + str(e))
    out = ["(* GENERATED from the text of src/libmunge/m_msg_client.c, decode.c and encode.c by tools/facts/msgclientsrc.py - do not edit *)",
           "From Coq Require Import NArith ZArith.", "From MV.gen Require Import GenMsg.",
           "Definition src_xfer_exptype (req : N) : option N :="]
    out.append("  " + "".join("if (req =? %s)%%N then Some %s else " % (r, x) for (r, x) in table) + "None.")
    out.append("Definition src_xfer_recv_maxlen : Z := %s." % rmax)
    out.append("Definition src_xfer_send_maxlen : Z := %s." % smax)
    out.append("Definition src_dec_sanity : option N := %s." % dsan)
    out.append("Definition src_enc_sanity : option N := %s." % esan)
    return api.write_gen("GenMsgClientSrc.v", "\n".join(out) + "\n")
