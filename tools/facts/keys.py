"""GenKeys.v: key-length bounds (munge_defs.h, mungekey/conf.c), HKDF_MAX_ROUNDS (hkdf.c), digest sizes reported by
the running md/mac code, and what mungekey/key.c's create_key() really does (open flags/mode, unlink-if-force,
HKDF digest / IKM length / salt length / info string) — observed by running key.c with its syscalls interposed."""
import os


def gen(api):
    R = api.REPO
    srcs = [os.path.join(R, "src/common", f) for f in ("crypto.c", "mac.c", "md.c")] \
        + [os.path.join(R, "src/libcommon", f) for f in ("fd.c", "log.c", "str.c", "daemonpipe.c")] \
        + [os.path.join(R, "src/libmunge", f) for f in ("enum.c", "strerror.c")]
    return api.write_gen("GenKeys.v", api.run_probe("keys_probe.c", extra_srcs=srcs, libs=["-lcrypto", "-lpthread"]))
