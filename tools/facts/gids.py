"""GenGids.v: reserved uid, integer widths, xgetgr/xgetpw buffer start sizes and growth factor (gids.c, xgetgr.c, xgetpw.c)."""
def gen(api):
    return api.write_gen("GenGids.v", api.run_probe("gids_probe.c"))
