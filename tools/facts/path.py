"""GenPath.v: PATH_SECURITY_* flags, permission constants (tools/probes/path_probe.c), and — observed with
strace + a --wrap shim on a real start of munged built from the repo's current sources — the flags every
call site hands to path_is_secure(), the (requested mode, umask in force) recipe of each created file
(socket, lock, pid, log, seed) in foreground and in daemon mode, how each of them is created (is the name
unlinked first, O_EXCL, O_NOFOLLOW), and — observed by starting munged with real uid != effective uid and the
file or directory in question owned by either — which of the two each ownership test compares with."""
import os, re, shutil, signal, stat, subprocess, tempfile, threading, time

PROBE_UMASKS = (0o000, 0o777, 0o525)     # two determine the bitwise-affine recipe, the third checks it
FILES = ("sock", "lock", "pid", "log", "seed")
SITES = ("key", "seed", "log", "sock", "pid")
SOCK_INODE_MODE = 0o777                  # Linux unix_bind(): S_IFSOCK | (0777 & ~umask); checked against stat below


def munged_sources(repo):
    """munged_SOURCES of src/munged/Makefile.am + libcommon + libmissing strl* + libmunge strerror/enum"""
    t = open(os.path.join(repo, "src/munged/Makefile.am")).read()
    m = re.search(r"munged_SOURCES\s*=\s*\\\n(.*?)# End of munged_SOURCES", t, re.S)
    if not m:
        raise RuntimeError("munged_SOURCES not found in src/munged/Makefile.am")
    out = []
    for tok in m.group(1).replace("\\", " ").split():
        if tok.endswith(".c"):
            out.append(tok.replace("$(top_srcdir)", repo) if tok.startswith("$") else os.path.join(repo, "src/munged", tok))
    lc = os.path.join(repo, "src/libcommon")
    out += sorted(os.path.join(lc, f) for f in os.listdir(lc) if f.endswith(".c") and not f.endswith("_test.c"))
    out += [os.path.join(repo, "src/libmissing", f) for f in ("strlcpy.c", "strlcat.c")]
    out += [os.path.join(repo, "src/libmunge", f) for f in ("strerror.c", "enum.c")]
    return out


def build_munged(repo, incs, defs, exe, extra=()):
    cmd = ["gcc", "-w", "-g", "-O1"] + list(defs) + list(incs) + ["-I%s/src/munged" % repo, "-o", exe] \
        + munged_sources(repo) + list(extra) + ["-lpthread", "-lbz2", "-lrt", "-lz", "-lcrypto"]
    r = subprocess.run(cmd, capture_output=True, text=True, timeout=300)
    return r.returncode, r.stderr[-3000:]


def kill_by_marker(marker, sig=signal.SIGKILL):
    """kill every process whose command line mentions marker (a scratch directory); returns the count"""
    n = 0
    me = os.getpid()
    for p in os.listdir("/proc"):
        if not p.isdigit() or int(p) == me:
            continue
        try:
            cl = open("/proc/%s/cmdline" % p, "rb").read()
        except OSError:
            continue
        if marker.encode() in cl:
            try:
                os.kill(int(p), sig)
                n += 1
            except OSError:
                pass
    return n


def _merged_lines(trace_file):
    """strace -f splits a call into '... <unfinished ...>' and '<... name resumed>...' when another
    tracee reports in between; glue the halves together again (per pid)"""
    pending = {}
    for line in open(trace_file, errors="replace"):
        line = line.rstrip("\n")
        m = re.match(r"(\d+)\s+(.*)$", line)
        if not m:
            continue
        pid, rest = m.group(1), m.group(2)
        if rest.endswith("<unfinished ...>"):
            pending[pid] = rest[:-len("<unfinished ...>")].rstrip()
            continue
        r = re.match(r"<\.\.\. \w+ resumed>(.*)$", rest)
        if r and pid in pending:
            rest = pending.pop(pid) + r.group(1)
        yield pid + "  " + rest


REUSE_UID = 4242        # the non-root daemon of the reuse probes


def _trace_one(exe, top, tag, fg, umask, res, reuse=None):
    """one traced start/stop in its own tree; res[tag] = dict(created=..., pis=..., err=...).
    reuse = (launcher, owner): the daemon runs as uid REUSE_UID, its seed and pid file live in root-owned 0755
    directories (secure, but not writable by the daemon) and exist already, owned by `owner`: unlink fails, open
    reuses them; res[tag]["reuse"] = {file: dict(fchmod=(mode, ok) | None, size=bytes afterwards)}"""
    T = os.path.join(top, tag)
    os.mkdir(T, 0o755)
    os.chmod(T, 0o755)
    paths = {}
    for d, f in (("kd", "key"), ("sd", "seed"), ("ld", "log"), ("rd", "sock"), ("pd", "pid")):
        os.mkdir(os.path.join(T, d), 0o755)
        os.chmod(os.path.join(T, d), 0o755)
        paths[f] = os.path.join(T, d, f)
    paths["lock"] = paths["sock"] + ".lock"
    with open(paths["key"], "wb") as f:
        f.write(os.urandom(32))
    os.chmod(paths["key"], 0o600)
    pre = []
    if reuse:
        launcher, owner = reuse
        for d in ("kd", "ld", "rd"):
            os.chown(os.path.join(T, d), REUSE_UID, 0)
        os.chown(paths["key"], REUSE_UID, 0)
        for f, data, mode in (("seed", os.urandom(1024), 0o644 if owner == REUSE_UID else 0o666), ("pid", b"", 0o666)):
            with open(paths[f], "wb") as fh:
                fh.write(data)
            os.chown(paths[f], owner, 0)
            os.chmod(paths[f], mode)
        pre = [launcher, str(REUSE_UID), str(REUSE_UID), str(REUSE_UID), str(REUSE_UID), "%o" % umask]
    pis = os.path.join(T, "pis.log")
    tr = os.path.join(T, "trace")
    argv = ["strace", "-f", "-o", tr, "-e", "trace=umask,open,openat,creat,bind,chmod,fchmod,fchmodat,unlink,unlinkat"] \
        + pre + [exe] + (["-F"] if fg else []) + ["-S", paths["sock"], "--key-file=" + paths["key"],
            "--pid-file=" + paths["pid"], "--seed-file=" + paths["seed"], "--log-file=" + paths["log"],
            "--group-update-time=-1", "--origin=127.0.0.1"]
    env = dict(os.environ, VERIF_PIS_LOG=pis)
    out = {"err": None}
    res[tag] = out
    p = subprocess.Popen(argv, env=env, stdout=subprocess.DEVNULL, stderr=subprocess.PIPE,
                         preexec_fn=lambda: os.umask(umask))
    try:
        t0 = time.time()
        sock_seen = None
        while time.time() - t0 < 15 and not (os.path.exists(paths["pid"]) and os.path.getsize(paths["pid"]) > 0):
            if p.poll() is not None:
                break
            if reuse:       # a reused pid file of another owner may be left alone: the socket tells that munged is up
                try:
                    if stat.S_ISSOCK(os.lstat(paths["sock"]).st_mode):
                        sock_seen = sock_seen or time.time()
                except OSError:
                    pass
                if sock_seen and time.time() - sock_seen > 0.5:
                    break
            time.sleep(0.01)
        observed, sizes = {}, {}
        try:
            sizes["pid"] = os.lstat(paths["pid"]).st_size
        except OSError:
            pass
        for f in ("sock", "lock", "pid", "log"):
            try:
                observed[f] = os.lstat(paths[f]).st_mode & 0o7777
            except OSError:
                pass
        try:
            dpid = int(open(paths["pid"]).read().strip())
        except Exception:
            dpid = None
            if reuse and sock_seen:
                for q in os.listdir("/proc"):
                    try:
                        cl = open("/proc/%s/cmdline" % q, "rb").read() if q.isdigit() else b""
                    except OSError:
                        continue
                    if cl.startswith(exe.encode() + b"\0") and T.encode() in cl:
                        dpid = int(q)
        if dpid is None:
            out["err"] = "munged did not come up (%s, umask %03o): %s" % (
                "foreground" if fg else "daemon", umask, (p.stderr.read() or b"").decode(errors="replace")[-400:] if p.poll() is not None else "no pid file")
        # SIGTERM is repeated: one that lands between job_accept's flag test and accept() is lost
        for _ in range(40):
            if dpid is not None:
                try:
                    os.kill(dpid, signal.SIGTERM)
                except OSError:
                    pass
            try:
                p.wait(timeout=0.5)
                break
            except subprocess.TimeoutExpired:
                pass
        else:
            out["err"] = out["err"] or "munged did not stop"
        try:
            observed["seed"] = os.lstat(paths["seed"]).st_mode & 0o7777
            sizes["seed"] = os.lstat(paths["seed"]).st_size
        except OSError:
            pass
    finally:
        if p.poll() is None:
            p.kill()
        kill_by_marker(T)
    if out["err"]:
        return
    # parse the trace
    in_force = umask
    fd_path = {}
    created = {}
    last_op = {}          # path -> "unlink" when the last call that named it was unlink(2)/unlinkat(2)
    stuck = {}            # path -> True when that unlink failed with an errno other than ENOENT
    reused = {}           # file -> dict(fd=..., fchmod=(mode, ok) | None): created by an open that found the old file
    rev = {v: k for k, v in paths.items()}
    for line in _merged_lines(tr):
        m = re.search(r'\b(?:unlink\(|unlinkat\(AT_FDCWD, )"([^"]*)"', line)
        if m:
            last_op[m.group(1)] = "unlink"
            stuck[m.group(1)] = bool(re.search(r"=\s*-1\s+(?!ENOENT)[A-Z]+", line))
            continue
        m = re.search(r"\bumask\((0[0-7]*|0)\)", line)
        if m:
            in_force = int(m.group(1), 8)
            continue
        m = re.search(r'\b(?:openat\(AT_FDCWD, |open\(|creat\()"([^"]*)", ?([A-Z_|0-9x]*)(?:, (0[0-7]*))?\)\s*=\s*(-?\d+)', line)
        if m:
            path, flags, mode, fd = m.group(1), m.group(2), m.group(3), int(m.group(4))
            if fd >= 0:
                fd_path[fd] = path
            if path == paths["seed"] and "O_CREAT" not in flags and "O_RDONLY" in flags:
                out.setdefault("seed_open", set()).add("O_NONBLOCK" in flags or "O_NDELAY" in flags)
            if path in rev and ("O_CREAT" in flags or "creat(" in line) and fd >= 0 and mode is not None:
                created[rev[path]] = {"req": int(mode, 8), "mask": in_force, "chmod": None,
                                      "how": (last_op.get(path) == "unlink", "O_EXCL" in flags, "O_NOFOLLOW" in flags)}
                if last_op.get(path) == "unlink" and stuck.get(path):
                    reused[rev[path]] = {"fd": fd, "fchmod": None}
            last_op[path] = "open"
            continue
        m = re.search(r'\bbind\((\d+), \{sa_family=AF_UNIX, sun_path="([^"]*)"\}, \d+\)\s*=\s*0', line)
        if m:
            fd_path[int(m.group(1))] = m.group(2)
            if m.group(2) in rev:
                created[rev[m.group(2)]] = {"req": SOCK_INODE_MODE, "mask": in_force, "chmod": None,
                                            "how": (last_op.get(m.group(2)) == "unlink", False, False)}
            last_op[m.group(2)] = "bind"
            continue
        m = re.search(r'\b(?:chmod\(|fchmodat\(AT_FDCWD, )"([^"]*)", (0[0-7]*)', line)
        if m and m.group(1) in rev and rev[m.group(1)] in created and re.search(r"=\s*0\s*$", line):
            created[rev[m.group(1)]]["chmod"] = int(m.group(2), 8)
            continue
        m = re.search(r"\bfchmod\((\d+), (0[0-7]*)\)\s*=\s*(-?\d+)", line)
        if m and fd_path.get(int(m.group(1))) in rev and rev[fd_path[int(m.group(1))]] in reused \
                and reused[rev[fd_path[int(m.group(1))]]]["fd"] == int(m.group(1)):
            reused[rev[fd_path[int(m.group(1))]]]["fchmod"] = (int(m.group(2), 8), m.group(3) == "0")
            continue
        m = re.search(r"\bfchmod\((\d+), (0[0-7]*)\)\s*=\s*0", line)
        if m and fd_path.get(int(m.group(1))) in rev and rev[fd_path[int(m.group(1))]] in created:
            created[rev[fd_path[int(m.group(1))]]]["chmod"] = int(m.group(2), 8)
    out["created"] = created
    out["observed"] = observed
    out["reuse"] = {f: {"fchmod": r["fchmod"], "size": sizes.get(f)} for f, r in reused.items()}
    sites = {}
    dirs = {os.path.join(T, d): s for d, s in (("kd", "key"), ("sd", "seed"), ("ld", "log"), ("rd", "sock"), ("pd", "pid"))}
    if os.path.exists(pis):
        for line in open(pis):
            f = line.split()
            if len(f) == 3 and f[0] == "PIS" and f[1] in dirs:
                sites.setdefault(dirs[f[1]], set()).add(int(f[2]))
    out["pis"] = sites


ID_REAL, ID_EFF = 4343, 4242        # two unprivileged uids for the identity probe
OWNER_SITES = ("dir", "key", "seed", "log", "lock")
OWNER_COMPLAINT = {
    "dir": r'PRNG seed dir is insecure: invalid ownership of',
    "key": r'Keyfile is insecure: "[^"]*" should be owned by UID',
    "seed": r'Ignoring PRNG seed "[^"]*": must be owned by UID',
    "log": r'Logfile is insecure: "[^"]*" should be owned by UID',
    "lock": r'Failed to validate lockfile: "[^"]*" should be owned by',
}


def build_launcher(top):
    exe = os.path.join(top, "c16_launch")
    src = os.path.join(os.path.dirname(os.path.dirname(os.path.dirname(os.path.abspath(__file__)))), "harness", "c16_launch.c")
    r = subprocess.run(["gcc", "-w", "-O1", "-o", exe, src], capture_output=True, text=True, timeout=120)
    if r.returncode != 0:
        raise RuntimeError("c16_launch.c does not compile: " + r.stderr[-500:])
    return exe


def _id_probe(exe, launcher, top, tag, site, ruid, euid, owner, res, key_owner=None):
    """one start with real uid != effective uid where the object vetted at `site` belongs to `owner`;
    res[tag] = (munged complained about that ownership, text).  The start-up checks run in the order log file,
    seed directory, seed file, key file, ..., lock file: a probe only needs the checks before its own to pass."""
    T = os.path.join(top, tag)
    os.mkdir(T, 0o755)
    os.chmod(T, 0o755)
    paths = {}
    for d, f in (("kd", "key"), ("sd", "seed"), ("ld", "log"), ("rd", "sock"), ("pd", "pid")):
        dd = os.path.join(T, d)
        os.mkdir(dd, 0o755)
        if site == "dir" and f == "seed":
            os.chown(dd, owner, 0)
            os.chmod(dd, 0o755)
            dd = os.path.join(dd, "k2")
            os.mkdir(dd, 0o755)         # stays root's: acceptable whichever uid the test consults
        else:
            os.chown(dd, euid, 0)
        os.chmod(dd, 0o755)
        paths[f] = os.path.join(dd, f)
    paths["lock"] = paths["sock"] + ".lock"

    def mk(path, uid, mode, data):
        with open(path, "wb") as f:
            f.write(data)
        os.chown(path, uid, 0)
        os.chmod(path, mode)

    mk(paths["key"], owner if site == "key" else (euid if key_owner is None else key_owner), 0o600, os.urandom(32))
    if site == "seed":
        mk(paths["seed"], owner, 0o600, os.urandom(1024))
    if site == "log":
        mk(paths["log"], owner, 0o600, b"")
    if site == "lock":
        mk(paths["lock"], owner, 0o200, b"")
    fg = site != "log"
    errf = os.path.join(T, "stderr")
    argv = [launcher, str(ruid), str(euid), "0", "0", "022", exe] + (["-F"] if fg else []) + [
        "-S", paths["sock"], "--key-file=" + paths["key"], "--pid-file=" + paths["pid"],
        "--seed-file=" + paths["seed"], "--log-file=" + paths["log"], "--group-update-time=-1",
        "--origin=127.0.0.1", "--num-threads=1"]
    with open(errf, "wb") as ef:
        os.chmod(errf, 0o666)
        p = subprocess.Popen(argv, stdin=subprocess.DEVNULL, stdout=ef, stderr=ef, cwd="/")
    try:
        t0 = time.time()
        while time.time() - t0 < 15:
            if fg and p.poll() is not None:
                break
            if not fg and p.poll() is not None and p.returncode != 0:
                break
            try:
                if os.path.getsize(paths["pid"]) > 0:
                    break
            except OSError:
                pass
            time.sleep(0.01)
        try:
            dpid = int(open(paths["pid"]).read().strip())
        except Exception:
            dpid = None
        for _ in range(40):
            if dpid is None:
                break
            try:
                os.kill(dpid, signal.SIGTERM)
            except OSError:
                break
            time.sleep(0.05)
            if not os.path.exists("/proc/%d" % dpid) or open("/proc/%d/stat" % dpid).read().split(")")[-1].split()[0] == "Z":
                break
        try:
            p.wait(timeout=5)
        except subprocess.TimeoutExpired:
            pass
    finally:
        if p.poll() is None:
            p.kill()
            p.wait()
        kill_by_marker(T)
    text = open(errf, errors="replace").read()
    if not fg:
        try:
            text += open(paths["log"], errors="replace").read()
        except OSError:
            pass
    res[tag] = (re.search(OWNER_COMPLAINT[site], text) is not None, text[-600:])


def owner_ids(exe, launcher, top):
    """{site: 0 (real uid) | 1 (effective uid)}: which uid the ownership test at each site compares with"""
    res = {}

    def probe(sites, key_owner=None):
        th = []
        for site in sites:
            ruid, euid = (ID_REAL, ID_EFF) if site == "dir" else (ID_REAL, 0)
            for who, owner in (("r", ruid), ("e", euid)):
                tag = "id_%s_%s" % (site, who)
                ko = None if key_owner is None else (ruid if key_owner == 0 else euid)
                t = threading.Thread(target=_id_probe, args=(exe, launcher, top, tag, site, ruid, euid, owner, res, ko))
                t.start()
                th.append(t)
        for t in th:
            t.join()

    out = {}
    probe([x for x in OWNER_SITES if x != "lock"])
    for site in OWNER_SITES:
        if site == "lock":      # the lock comes after the key: hand the key to whichever uid the key test wants
            probe(["lock"], key_owner=out["key"])
        cr, ce = res.get("id_%s_r" % site), res.get("id_%s_e" % site)
        if cr is None or ce is None:
            raise RuntimeError("identity probe for the %s ownership test did not run" % site)
        if cr[0] and not ce[0]:
            out[site] = 1
        elif ce[0] and not cr[0]:
            out[site] = 0
        else:
            raise RuntimeError("the %s ownership test follows neither the real nor the effective uid "
                               "(owned by real uid: %s; owned by effective uid: %s)\n%s\n%s"
                               % (site, "refused" if cr[0] else "accepted", "refused" if ce[0] else "accepted",
                                  cr[1][-300:], ce[1][-300:]))
    return out


def _walk_probe(exe, top, tag, fg, res):
    """one start/stop with files already sitting at the seed, log, pid and socket names (key: always);
    res[tag] = {site: set of flags path_is_secure was called with for that site's directory} or an error string"""
    T = os.path.join(top, tag)
    os.mkdir(T, 0o755)
    os.chmod(T, 0o755)
    paths, dirs = {}, {}
    for d, f in (("kd", "key"), ("sd", "seed"), ("ld", "log"), ("rd", "sock"), ("pd", "pid")):
        os.mkdir(os.path.join(T, d), 0o755)
        os.chmod(os.path.join(T, d), 0o755)
        paths[f] = os.path.join(T, d, f)
        dirs[os.path.join(T, d)] = f
    for f, data, mode in (("key", os.urandom(32), 0o600), ("seed", os.urandom(1024), 0o600), ("log", b"", 0o600),
                          ("pid", b"", 0o644), ("sock", b"", 0o600)):
        with open(paths[f], "wb") as fh:
            fh.write(data)
        os.chmod(paths[f], mode)
    pis = os.path.join(T, "pis.log")
    errf = os.path.join(T, "stderr")
    argv = [exe] + (["-F"] if fg else []) + ["-S", paths["sock"], "--key-file=" + paths["key"],
            "--pid-file=" + paths["pid"], "--seed-file=" + paths["seed"], "--log-file=" + paths["log"],
            "--group-update-time=-1", "--origin=127.0.0.1", "--num-threads=1"]
    with open(errf, "wb") as ef:
        p = subprocess.Popen(argv, env=dict(os.environ, VERIF_PIS_LOG=pis), stdin=subprocess.DEVNULL, stdout=ef,
                             stderr=ef, cwd="/")
    try:
        t0 = time.time()
        while time.time() - t0 < 15 and not (os.path.exists(paths["pid"]) and os.path.getsize(paths["pid"]) > 0):
            if p.poll() is not None and (fg or p.returncode != 0):
                break
            time.sleep(0.01)
        try:
            dpid = int(open(paths["pid"]).read().strip())
        except Exception:
            dpid = None
        for _ in range(40):
            if dpid is None:
                break
            try:
                os.kill(dpid, signal.SIGTERM)
            except OSError:
                break
            time.sleep(0.05)
            try:
                if open("/proc/%d/stat" % dpid).read().split(")")[-1].split()[0] == "Z":
                    break
            except OSError:
                break
        try:
            p.wait(timeout=5)
        except subprocess.TimeoutExpired:
            pass
    finally:
        if p.poll() is None:
            p.kill()
            p.wait()
        kill_by_marker(T)
    if dpid is None:
        res[tag] = "munged did not come up over existing files (%s): %s" % (
            "foreground" if fg else "daemon", open(errf, errors="replace").read()[-400:])
        return
    sites = {}
    if os.path.exists(pis):
        for line in open(pis):
            f = line.split()
            if len(f) == 3 and f[0] == "PIS" and f[1] in dirs:
                sites.setdefault(dirs[f[1]], set()).add(int(f[2]))
    res[tag] = sites


def observe(repo, incs, defs, probes_dir):
    """returns (flags per call site, {('fg'|'bg', file): (req, keep, or, chmod, how)}, {site: owner id})"""
    if not shutil.which("strace"):
        raise RuntimeError("strace not found")
    top = tempfile.mkdtemp(prefix="verif-pathfacts-")
    try:
        os.chmod(top, 0o755)
        exe = os.path.join(top, "munged")
        rc, err = build_munged(repo, incs, defs, exe,
                               extra=[os.path.join(probes_dir, "path_wrap.c"), "-Wl,--wrap=path_is_secure"])
        if rc != 0:
            raise RuntimeError("munged does not build from the repo's sources:\n" + err)
        launcher = build_launcher(top)
        ids_box = {}

        def run_ids():
            try:
                ids_box["ids"] = owner_ids(exe, launcher, top)
            except Exception as e:          # re-raised in the caller's thread below
                ids_box["err"] = e

        idt = threading.Thread(target=run_ids)
        idt.start()
        wres, wth = {}, []
        for fg in (True, False):
            t = threading.Thread(target=_walk_probe, args=(exe, top, "walk_" + ("fg" if fg else "bg"), fg, wres))
            t.start()
            wth.append(t)
        res, th = {}, []
        for fg in (True, False):
            for u in PROBE_UMASKS:
                tag = "%s%03o" % ("fg" if fg else "bg", u)
                t = threading.Thread(target=_trace_one, args=(exe, top, tag, fg, u, res))
                t.start()
                th.append(t)
        # an old seed / pid file the daemon cannot unlink (it is not root and may not write to their directory)
        rres, rth = {}, []
        for (fg, u, owner) in [(True, uu, REUSE_UID) for uu in PROBE_UMASKS] + [(False, PROBE_UMASKS[0], REUSE_UID),
                                (False, PROBE_UMASKS[1], REUSE_UID), (True, PROBE_UMASKS[0], 0)]:
            tag = "reuse_%s%03o_%d" % ("fg" if fg else "bg", u, owner)
            t = threading.Thread(target=_trace_one, args=(exe, top, tag, fg, u, rres, (launcher, owner)))
            t.start()
            rth.append(t)
        for t in th:
            t.join()
        idt.join()
        for t in wth + rth:
            t.join()
        for tag, r in sorted(rres.items()):
            if r["err"]:
                raise RuntimeError("%s: %s" % (tag, r["err"]))
        if "err" in ids_box:
            raise RuntimeError(str(ids_box["err"]))
        for tag, r in sorted(res.items()):
            if r["err"]:
                raise RuntimeError("%s: %s" % (tag, r["err"]))
        flags = {}
        for s in SITES:
            seen = set()
            for tag, r in res.items():
                seen |= r["pis"].get(s, set())
            if s == "log":
                if any(not r["pis"].get("log") for tag, r in res.items() if tag.startswith("bg")):
                    raise RuntimeError("path_is_secure is not called for the log directory in daemon mode")
            elif any(not r["pis"].get(s) for r in res.values()):
                raise RuntimeError("path_is_secure is not called for the %s directory on every start" % s)
            if len(seen) != 1:
                raise RuntimeError("call site %s passes varying flags %s" % (s, sorted(seen)))
            flags[s] = seen.pop()
        # the same walks over names that are occupied already: (walk runs on a fresh name, on an occupied one)
        walk = {}
        for s in SITES:
            tags = ("walk_bg",) if s == "log" else ("walk_fg", "walk_bg")
            for tg_ in tags:
                if not isinstance(wres.get(tg_), dict):
                    raise RuntimeError(str(wres.get(tg_, "walk probe %s did not run" % tg_)))
            seen = [wres[tg_].get(s, set()) for tg_ in tags]
            if any(x and x != {flags[s]} for x in seen):
                raise RuntimeError("call site %s passes other flags when the file exists already: %s" % (s, seen))
            if any(seen) and not all(seen):
                raise RuntimeError("call site %s walks the directory of an existing file in one mode only" % s)
            occupied = all(seen)
            # the key always exists when its directory is looked at (a missing key is fatal before)
            walk[s] = (occupied if s == "key" else True, occupied)
        flags["walk"] = walk
        # what happens to the reused file: fchmod (base & ~(inherited & keep)); failing fchmod abandons the file?
        rechmod = {}
        for md in ("fg", "bg"):
            for f in ("pid", "seed"):
                runs = {u: rres["reuse_%s%03o_%d" % (md, u, REUSE_UID)]["reuse"].get(f)
                        for u in (PROBE_UMASKS if md == "fg" else PROBE_UMASKS[:2])}
                if any(v is None for v in runs.values()):
                    raise RuntimeError("%s file (%s): the old file in a directory the daemon may not write to was not "
                                       "reused (no failing unlink followed by a creating open seen)" % (f, md))
                ch = {u: v["fchmod"] for u, v in runs.items()}
                if all(c is None for c in ch.values()):
                    rechmod[(md, f)] = None
                    continue
                if any(c is None or not c[1] for c in ch.values()):
                    raise RuntimeError("%s file (%s): fchmod of the reused file is not done on every start, or fails "
                                       "on the daemon's own file: %s" % (f, md, ch))
                base = ch[PROBE_UMASKS[0]][0]
                keep = base & ~ch[PROBE_UMASKS[1]][0] & 0o7777
                for u, c in ch.items():
                    if c[0] != base & ~(u & keep):
                        raise RuntimeError("%s file (%s): mode given to the reused file is not base & ~(umask & keep): "
                                           "%s" % (f, md, ch))
                foreign = rres["reuse_fg%03o_0" % PROBE_UMASKS[0]]["reuse"].get(f)
                if foreign is None or foreign["fchmod"] is None or foreign["fchmod"][1]:
                    raise RuntimeError("%s file: expected a failing fchmod on a reused file of another owner, saw %s"
                                       % (f, foreign))
                rechmod[(md, f)] = (base, keep, not foreign["size"])      # nothing written = given up
        flags["rechmod"] = rechmod
        so = set()
        for r in res.values():
            so |= r.get("seed_open", set())
        if len(so) != 1:
            raise RuntimeError("read-open of the seed file not seen, or seen with varying flags: %s" % sorted(so))
        flags["seed_open_nonblock"] = so.pop()
        recipes = {}
        for md in ("fg", "bg"):
            for f in FILES:
                if md == "fg" and f == "log":
                    continue
                pts = []
                for u in PROBE_UMASKS:
                    c = res["%s%03o" % (md, u)]["created"].get(f)
                    if c is None:
                        raise RuntimeError("no creating call seen for the %s file (%s mode, umask %03o)" % (f, md, u))
                    obs = res["%s%03o" % (md, u)]["observed"].get(f)
                    want = c["chmod"] if c["chmod"] is not None else (c["req"] & ~c["mask"] & 0o7777)
                    if obs is not None and obs != want:
                        raise RuntimeError("%s file (%s, umask %03o): stat says %04o, trace predicts %04o"
                                           % (f, md, u, obs, want))
                    pts.append(c)
                if len({(c["req"], c["chmod"]) for c in pts}) != 1:
                    raise RuntimeError("%s file (%s): requested mode / chmod depends on the umask" % (f, md))
                if len({c["how"] for c in pts}) != 1:
                    raise RuntimeError("%s file (%s): unlink-before-create / open flags depend on the umask" % (f, md))
                orb = pts[0]["mask"]
                keep = pts[1]["mask"] & ~orb & 0o777
                if pts[2]["mask"] != ((PROBE_UMASKS[2] & keep) | orb):
                    raise RuntimeError("%s file (%s): umask in force is not (inherited & keep) | or" % (f, md))
                recipes[(md, f)] = (pts[0]["req"], keep, orb, pts[0]["chmod"], pts[0]["how"])
        return flags, recipes, ids_box["ids"]
    finally:
        kill_by_marker(top)
        shutil.rmtree(top, ignore_errors=True)


def gen(api):
    head = api.run_probe("path_probe.c")
    try:
        flags, recipes, ids = observe(api.REPO, api.INCS, api.DEFS, api.PROBES)
    except RuntimeError as e:
        raise api.GenError("path facts: %s" % e)
    out = [head.rstrip("\n")]
    out.append("(* flags each call site hands to path_is_secure (observed through -Wl,--wrap on a real start) *)")
    for s in SITES:
        out.append("Definition %s_flags : N := %d." % (s, flags[s]))
    out.append("(* does the directory walk of each site run: (when nothing is at the file's name, when a file is there")
    out.append("   already) - observed on starts over fresh names and over occupied ones *)")
    for s in SITES:
        out.append("Definition %s_walk : bool * bool := (%s, %s)." % ((s,) + tuple("true" if x else "false" for x in flags["walk"][s])))
    out.append("(* does _random_read_seed open the seed with O_NONBLOCK (a FIFO in its place cannot block the start) *)")
    out.append("Definition seed_open_nonblock : bool := %s." % ("true" if flags["seed_open_nonblock"] else "false"))
    out.append("(* recipe of each created file: (requested mode, keep, or, final chmod); the umask in force at the")
    out.append("   creating call is (inherited land keep) lor or; fg = munged -F, bg = daemon mode.")
    out.append("   Socket: requested = mode of a fresh AF_UNIX socket inode before the umask is applied by bind(2). *)")
    for md in ("fg", "bg"):
        for f in FILES:
            if (md, f) not in recipes:
                continue
            req, keep, orb, ch, how = recipes[(md, f)]
            out.append("Definition %s_%s : N * N * N * option N := (%d, %d, %d, %s).  (* 0%o, 0%o, 0%o *)"
                       % (md, f, req, keep, orb, "None" if ch is None else "Some %d" % ch, req, keep, orb))
    out.append("(* how each file is created: (the name is unlinked first, O_EXCL, O_NOFOLLOW), from the same traces *)")
    for md in ("fg", "bg"):
        for f in FILES:
            if (md, f) not in recipes:
                continue
            how = recipes[(md, f)][4]
            out.append("Definition %s_%s_how : bool * bool * bool := (%s, %s, %s)."
                       % ((md, f) + tuple("true" if x else "false" for x in how)))
    out.append("(* what the source does to an old file it could not unlink (a daemon that is not root, a directory it may not")
    out.append("   write to) and that open() therefore REUSED, mode and all: Some (base, keep, gives_up) = fchmod (fd, base land")
    out.append("   lnot (inherited land keep)) and, when that fails (file of another owner), gives_up = nothing is written;")
    out.append("   None = no fchmod: the old mode stays.  Observed with strace on starts of a uid-%d daemon. *)" % REUSE_UID)
    for md in ("fg", "bg"):
        for f in ("pid", "seed"):
            rc = flags["rechmod"][(md, f)]
            out.append("Definition %s_%s_rechmod : option (N * N * bool) := %s." % (
                md, f, "None" if rc is None else "Some (%d, %d, %s)" % (rc[0], rc[1], "true" if rc[2] else "false")))
    out.append("(* which of the process's user ids each ownership test compares with, observed by starting munged with")
    out.append("   real uid <> effective uid and the file (directory) in question owned by either *)")
    out.append("Definition id_real : N := 0.")
    out.append("Definition id_effective : N := 1.")
    for site in OWNER_SITES:
        out.append("Definition %s_owner_id : N := %d." % (site, ids[site]))
    return api.write_gen("GenPath.v", "\n".join(out) + "\n")
