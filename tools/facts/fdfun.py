"""GenFdFun.v: `_fd_get_poll_timeout` of src/libcommon/fd.c TRANSLATED FROM THE C TEXT into Gallina on every run (the
translator of facts/clockfun.py, tools/facts/_ctrans.py, instantiated for `struct timeval`).

Modelling decisions visible in the generated text: `when` may be NULL (fd_timed_* pass their caller's pointer through): the
parameter `when_null : bool`; gettimeofday (&now, NULL) is the pair `gtod_rc : Z`, `tod : Z * Z` (tv_sec, tv_usec), stored
when gtod_rc = 0; a call that is the first thing evaluated in an `if` condition is hoisted in front of it; the expression
assigned to the `int` local msecs is computed in long (mathematical integers: 64-bit overflow is not modelled) and then
converted to int = wrapped to the signed 32-bit range (`wrapi32`, the "XXX: msecs can overflow" of the source); C's
truncating `/` is Z.quot."""
import os
import importlib.util
_spec = importlib.util.spec_from_file_location("facts__ctrans", os.path.join(os.path.dirname(os.path.abspath(__file__)), "_ctrans.py"))
_ctrans = importlib.util.module_from_spec(_spec)
_spec.loader.exec_module(_ctrans)      # by path: tools/facts must never be on sys.path (facts/base64.py would shadow the stdlib module)
TErr, Fn, strip_comments = _ctrans.TErr, _ctrans.Fn, _ctrans.strip_comments
import re


def gen(api):
    R = api.REPO
    try:
        src = strip_comments(open(os.path.join(R, "src/libcommon/fd.c")).read())
        m = re.search(r"^static int\s*\n_fd_get_poll_timeout \((.*?)\)\s*\n\{", src, re.M | re.S)
        if not m:
            raise TErr("function _fd_get_poll_timeout not found")
        i, depth = m.end(), 1
        while depth:
            depth += {"{": 1, "}": -1}.get(src[i], 0)
            i += 1
        f = Fn("_fd_get_poll_timeout", m.group(1), src[m.end():i - 1], {}, nullable=["when"], stype="timeval",
               fields=("tv_sec", "tv_usec"))
        d = f.gallina().replace("src__fd_get_poll_timeout", "src_fd_get_poll_timeout")
        # every use in fd.c passes the caller's `when` unchanged
        uses = re.findall(r"_fd_get_poll_timeout \(([^)]*)\)", src)
        if len(uses) < 4 or any(u.strip() not in ("when", "const struct timeval *when") for u in uses):
            raise TErr("_fd_get_poll_timeout is used with something other than `when`: %r" % uses)
    except (TErr, OSError, IndexError) as e:
        raise api.GenError("fdfun: " + str(e))
    out = "\n".join([
        "(* GENERATED from the C text of src/libcommon/fd.c (_fd_get_poll_timeout) by tools/facts/fdfun.py - do not edit *)",
        "From Coq Require Import ZArith Bool.", "Local Open Scope Z_scope.",
        "Definition b2z (b : bool) : Z := if b then 1 else 0.",
        "Definition wrapi32 (z : Z) : Z := (z + 2147483648) mod 4294967296 - 2147483648.",
        "Definition fd_poll_timeout_uses : Z := %d." % (len(uses) - 2), d, ""])
    return api.write_gen("GenFdFun.v", out)
