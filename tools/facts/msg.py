"""GenMsg.v: constants, type codes, member widths, sizeof(addr) and the *measured* DEC_RSP addr_len bound of
src/libcommon/m_msg.[ch] (the probe #includes m_msg.c and runs the static unpacker)."""
import os


def gen(api):
    r = api.REPO
    extra = [os.path.join(r, "src/libcommon/fd.c"), os.path.join(r, "src/libcommon/str.c"),
             os.path.join(r, "src/libmunge/strerror.c"),
             os.path.join(r, "src/libmissing/strlcpy.c"), os.path.join(r, "src/libmissing/strlcat.c")]
    extra = [e for e in extra if os.path.exists(e)]
    return api.write_gen("GenMsg.v", api.run_probe("msg_probe.c", extra_srcs=extra))
