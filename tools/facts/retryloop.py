"""GenRetryLoop.v: libmunge's transaction loop m_msg_client_xfer() TRANSLATED FROM THE SOURCE TEXT of
src/libmunge/m_msg_client.c into the abstract syntax of coq/RetryClientModel.v (`src_xfer : xprog`), plus the four
constants of munge_defs.h the loop uses (`src_xconst`).

The translator knows exactly the statement forms the function is written in (see `simple`, `cond`, `call` in
RetryClientModel.v).  Anything else — a new statement, another argument, a condition of another shape — raises
GenError: the model must then be revisited by a person, the check reports that the obligation no longer checks.
What the translator accepts is re-interpreted by the Coq model, so a removed `mrsp = NULL;`, a swapped order of
clean-up statements, a changed break condition or hand-over all arrive in the theorems' input."""
import os, re

VARS = {"mreq": "Vreq", "mrsp": "Vrsp"}


class Bad(Exception):
    pass


def strip_comments(t):
    return re.sub(r"/\*.*?\*/", " ", t, flags=re.S)


def func_body(src, name):
    m = re.search(r"^%s \([^)]*\)\s*\n\{\n(.*?)^\}" % re.escape(name), src, re.S | re.M)
    if not m:
        raise Bad("function %s not found" % name)
    return m.group(1)


TOK = re.compile(r"\s*(->|\+\+|>=|<=|==|!=|&&|\|\||[A-Za-z_]\w*|\d+|[-+*/%&|!<>=(){};,\[\]])")


def tokenize(t):
    out, pos = [], 0
    t = t.strip()
    while pos < len(t):
        m = TOK.match(t, pos)
        if not m:
            raise Bad("cannot tokenize near %r" % t[pos:pos + 30])
        out.append(m.group(1))
        pos = m.end()
        while pos < len(t) and t[pos].isspace():
            pos += 1
    return out


class P:
    def __init__(self, toks):
        self.t, self.i = toks, 0

    def peek(self, n=0):
        return self.t[self.i + n] if self.i + n < len(self.t) else None

    def at(self, *seq):
        return self.t[self.i:self.i + len(seq)] == list(seq)

    def eat(self, *seq):
        if not self.at(*seq):
            raise Bad("expected `%s`, found `%s`" % (" ".join(seq), " ".join(self.t[self.i:self.i + max(len(seq), 6)])))
        self.i += len(seq)

    def var(self):
        v = self.peek()
        if v not in VARS:
            raise Bad("expected mreq or mrsp, found `%s`" % v)
        self.i += 1
        return VARS[v]

    # ---- conditions of `if (...)` statements outside the chain
    def cond(self):
        if self.at("i", ">=", "MUNGE_SOCKET_RETRY_ATTEMPTS"):
            self.i += 3
            return "CAttempts"
        if self.at("e", "==", "EMUNGE_BAD_LENGTH"):
            self.i += 3
            return "CBadLength"
        if self.at("e", "!=", "EMUNGE_SUCCESS"):
            self.i += 3
            return "CFailed"
        if self.peek() in VARS:
            v = self.var()
            if self.at("!=", "NULL"):
                self.i += 2
                return "CNonNull %s" % v
            if self.at("->", "sd", ">=", "0"):
                self.i += 4
                return "CSdOpen %s" % v
            if self.at(")"):
                return "CNonNull %s" % v
        raise Bad("condition not understood: `%s`" % " ".join(self.t[self.i:self.i + 8]))

    # ---- simple statements
    def simple(self):
        if self.at("break", ";"):
            self.i += 2
            return "SBreak"
        if self.at("i", "++", ";"):
            self.i += 3
            return "SIncr"
        if self.at("m_msg_destroy", "("):
            self.i += 2
            v = self.var()
            self.eat(")", ";")
            return "SDestroy %s" % v
        if self.at("(", "void", ")", "close", "(") or self.at("close", "("):
            self.i += 5 if self.at("(") else 2
            v = self.var()
            self.eat("->", "sd", ")", ";")
            return "SCloseSd %s" % v
        if self.at("*", "pm", "="):
            self.i += 3
            v = self.var()
            self.eat(";")
            return "SHandOver %s" % v
        if self.at("e", "=", "_m_msg_client_millisleep", "("):
            self.i += 4
            v = self.var()
            self.eat(",", "i", "*", "MUNGE_SOCKET_RETRY_MSECS", ")", ";")
            return "SSleep %s" % v
        if self.peek() in VARS:
            v = self.var()
            if self.at("->", "sd", "=", "-", "1", ";"):
                self.i += 6
                return "SClearSd %s" % v
            if self.at("->", "retry", "=", "i", ";"):
                self.i += 5
                return "SSetRetry %s" % v
            if self.at("=", "NULL", ";"):
                self.i += 3
                return "SNull %s" % v
            if self.at("=", "*", "pm", ";"):
                self.i += 4
                return "SLoad %s" % v
        raise Bad("statement not understood: `%s`" % " ".join(self.t[self.i:self.i + 10]))

    def stmt(self):
        if self.at("if", "("):
            self.i += 2
            c = self.cond()
            self.eat(")", "{")
            body = []
            while not self.at("}"):
                body.append(self.simple())
            self.eat("}")
            return "SIf (%s) [%s]" % (c, "; ".join(body))
        return "SDo (%s)" % self.simple()

    # ---- the if / else-if chain at the head of the loop body
    def call(self):
        """returns the call constructor; the parser stands after `if (`"""
        if self.at("e", "==", "EMUNGE_SUCCESS"):
            self.i += 3
            return "KSucceeded"
        if self.at("auth_send", "("):
            self.i += 2
            v = self.var()
            self.eat(")", "<", "0")
            return "KAuth %s" % v
        self.eat("(", "e", "=")
        f = self.peek()
        self.i += 1
        self.eat("(")
        if f == "_m_msg_client_connect":
            v = self.var(); self.eat(",", "socket", ")"); k = "KConnect %s" % v
        elif f == "m_msg_send":
            v = self.var(); self.eat(",", "mreq_type", ",", "MUNGE_MAXIMUM_REQ_LEN", ")"); k = "KSend %s" % v
        elif f == "m_msg_create":
            self.eat("&"); v = self.var(); self.eat(")"); k = "KCreate %s" % v
        elif f == "m_msg_bind":
            v = self.var(); self.eat(","); w = self.var(); self.eat("->", "sd", ")"); k = "KBind %s %s" % (v, w)
        elif f == "m_msg_recv":
            v = self.var(); self.eat(",", "mrsp_type", ",", "0", ")"); k = "KRecv %s" % v
        elif f == "_m_msg_client_disconnect":
            v = self.var(); self.eat(")"); k = "KDisconnect %s" % v
        else:
            raise Bad("call not understood in the attempt chain: `%s`" % f)
        self.eat(")", "!=", "EMUNGE_SUCCESS")
        return k

    def arm_body(self):
        self.eat("{")
        if self.at("break", ";", "}"):
            self.i += 3
            return "Break"
        if self.at(";", "}"):
            self.i += 2
            return "Fall"
        if self.at("e", "=", "EMUNGE_SOCKET", ";", "}"):
            self.i += 5
            return "Fall"
        raise Bad("arm body not understood: `%s`" % " ".join(self.t[self.i:self.i + 8]))

    def chain(self):
        arms = []
        self.eat("if", "(")
        while True:
            k = self.call()
            self.eat(")")
            arms.append("(%s, %s)" % (k, self.arm_body()))
            if self.at("else", "if", "("):
                self.i += 3
                continue
            if self.at("else"):
                raise Bad("a plain `else` in the attempt chain")
            return arms


def translate(src):
    body = strip_comments(func_body(src, "m_msg_client_xfer"))
    toks = tokenize(body)
    # declarations and argument checks up to the first assignment of a local: they must be the ones we know
    try:
        start = next(i for i in range(len(toks)) if toks[i] in VARS and toks[i + 1] == "=")
    except StopIteration:
        raise Bad("no assignment to mreq/mrsp before the loop")
    p = P(toks)
    p.i = start
    pre = []
    # prologue: assignments to the locals; the selection of the reply type is skipped (it has no state the model carries)
    while not p.at("i", "=", "1", ";"):
        if p.at("if", "(", "mreq_type", "=="):
            depth = 0
            # if (...) {...} else if (...) {...} else { return (EMUNGE_SNAFU); }
            while True:
                if p.peek() is None:
                    raise Bad("unterminated reply-type selection")
                if p.peek() == "{":
                    depth += 1
                elif p.peek() == "}":
                    depth -= 1
                    if depth == 0 and not (p.peek(1) == "else"):
                        p.i += 1
                        break
                elif p.peek() in VARS or p.peek() in ("m_msg_destroy", "close", "pm"):
                    raise Bad("the reply-type selection touches a message")
                p.i += 1
            continue
        pre.append(p.stmt())
    p.eat("i", "=", "1", ";")
    p.eat("while", "(", "1", ")", "{")
    chain = p.chain()
    post = []
    while not p.at("}"):
        post.append(p.stmt())
    p.eat("}")
    epi = []
    while not p.at("return", "(", "e", ")", ";"):
        epi.append(p.stmt())
    p.eat("return", "(", "e", ")", ";")
    if p.peek() is not None:
        raise Bad("text after `return (e);`")
    return pre, chain, post, epi


def defines(hdr, names):
    out = {}
    for n in names:
        m = re.search(r"^#define\s+%s\s+(\d+)\s*$" % n, hdr, re.M)
        if not m:
            raise Bad("#define %s <number> not found in munge_defs.h" % n)
        out[n] = int(m.group(1))
    return out


def gen(api):
    R = api.REPO
    try:
        src = open(os.path.join(R, "src/libmunge/m_msg_client.c")).read()
        hdr = open(os.path.join(R, "src/libcommon/munge_defs.h")).read()
        pre, chain, post, epi = translate(src)
        d = defines(hdr, ["MUNGE_SOCKET_RETRY_ATTEMPTS", "MUNGE_SOCKET_RETRY_MSECS", "MUNGE_SOCKET_CONNECT_ATTEMPTS",
                          "MUNGE_SOCKET_CONNECT_RETRY_MSECS"])
        # the callers: the message is created before and destroyed after the transaction, whatever it returns
        for f, fn in (("encode.c", "munge_encode"), ("decode.c", "munge_decode")):
            b = strip_comments(func_body(open(os.path.join(R, "src/libmunge", f)).read(), fn))
            if not re.search(r"m_msg_create \(&m\).*m_msg_client_xfer \(&m,.*m_msg_destroy \(m\);\s*return \(e\);", b, re.S):
                raise Bad("%s: create / m_msg_client_xfer (&m, ...) / m_msg_destroy (m) not found in this order" % fn)
    except (Bad, OSError, IndexError) as e:
        raise api.GenError("retryloop: m_msg_client_xfer is no longer in the shape the translator knows: %s" % e)
    lst = lambda l: "[" + ";\n     ".join(l) + "]"
    out = "\n".join([
        "(* GENERATED from the text of src/libmunge/m_msg_client.c (m_msg_client_xfer) and munge_defs.h by tools/facts/retryloop.py - do not edit *)",
        "From Coq Require Import List.", "From MV Require Import RetryClientModel.", "Import ListNotations.",
        "Definition src_xfer : xprog := mkX",
        "  (* before the loop *)\n    %s" % lst(pre),
        "  (* the attempt: if / else-if chain *)\n    %s" % lst(chain),
        "  (* rest of the loop body *)\n    %s" % lst(post),
        "  (* after the loop *)\n    %s." % lst(epi),
        "Definition src_xconst : xconst := mkC %d %d %d %d." % (
            d["MUNGE_SOCKET_RETRY_ATTEMPTS"], d["MUNGE_SOCKET_RETRY_MSECS"], d["MUNGE_SOCKET_CONNECT_ATTEMPTS"],
            d["MUNGE_SOCKET_CONNECT_RETRY_MSECS"]), ""])
    return api.write_gen("GenRetryLoop.v", out)
