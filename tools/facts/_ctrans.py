"""_ctrans.py - the C-to-Gallina translator shared by facts/clockfun.py and facts/fdfun.py (see their docstrings for the
subset and the modelling decisions).  Not a plugin itself (leading underscore)."""
import os, re


class TErr(Exception):
    pass


def hoist_calls(body):
    """`if (F (args) OP ...` with F an external call evaluated first in the condition becomes `cv = F (args); if (cv OP ...`
    (the call is evaluated exactly once and before anything else in the condition either way)"""
    n = [0]

    def rep(m):
        n[0] += 1
        return "cv%d = %s;\n    if (cv%d %s" % (n[0], m.group(1), n[0], m.group(2))
    out = re.sub(r"if \(((?:gettimeofday|clock_gettime) \([^()]*\)) (<|==|!=|>)", rep, body)
    decl = "".join("int cv%d;\n" % (k + 1) for k in range(n[0]))
    return decl + out


TOK = re.compile(r"\s*(->|<=|>=|==|!=|&&|\|\||\+=|-=|%=|/=|\*=|[A-Za-z_]\w*|\d+|[-+*/%<>=!(){};,&.?:])")


def tokenize(s):
    out, i = [], 0
    s = s.strip()
    while i < len(s):
        m = TOK.match(s, i)
        if not m:
            raise TErr("cannot tokenize near %r" % s[i:i + 30])
        out.append(m.group(1))
        i = m.end()
    return out


def strip_comments(s):
    return re.sub(r"/\*.*?\*/", " ", s, flags=re.S)


def find_fn(src, name):
    m = re.search(r"^int\s*\n%s \((.*?)\)\s*\n\{" % re.escape(name), src, re.M | re.S)
    if not m:
        raise TErr("function %s not found" % name)
    i = m.end()
    depth = 1
    while depth:
        if i >= len(src):
            raise TErr("unbalanced braces in %s" % name)
        depth += {"{": 1, "}": -1}.get(src[i], 0)
        i += 1
    return m.group(1), src[m.end():i - 1]


class Fn:
    def __init__(self, name, params, body, known, nullable=(), stype="timespec", fields=("tv_sec", "tv_nsec")):
        self.name = name
        self.nullable = set(nullable)   # pointer parameters that may be NULL: extra parameter P_null : bool
        self.stype = stype              # the struct type of the objects: timespec or timeval
        self.fields = fields            # its two integer members (second one: tv_nsec / tv_usec)
        self.int_locals = set()
        body = hoist_calls(body)
        self.known = known          # name -> Fn of already translated functions
        self.ptr = {}               # pointer parameter -> const?
        self.ints = []              # integer parameters
        self.order = []
        for p in [x.strip() for x in params.split(",")]:
            m = re.match(r"^(const\s+)?struct %s \*(\w+)$" % self.stype, p)
            if m:
                self.ptr[m.group(2)] = bool(m.group(1))
                self.order.append(m.group(2))
                continue
            m = re.match(r"^(long|int)\s+(\w+)$", p)
            if not m:
                raise TErr("%s: parameter %r outside the subset" % (name, p))
            self.ints.append(m.group(2))
            self.order.append(m.group(2))
        self.out = [p for p, c in self.ptr.items() if not c]
        if len(self.out) > 1:
            raise TErr("%s: more than one output object" % name)
        self.structs = set(self.ptr)
        self.locals = []
        self.uses_gettime = False
        self.t = tokenize(body)
        self.i = 0
        self.stmts = self.block_until(None)
        self.uses_gettime = self._uses(self.stmts)

    def _uses(self, stmts):
        for s in stmts:
            if s[0] == "call" and (s[2] in ("clock_gettime", "gettimeofday") or (s[2] in self.known and self.known[s[2]].uses_gettime)):
                return True
            if s[0] == "if" and (self._uses(s[2]) or self._uses(s[3])):
                return True
        return False

    # ---- token helpers
    def peek(self, k=0):
        return self.t[self.i + k] if self.i + k < len(self.t) else None

    def eat(self, x=None):
        v = self.peek()
        if v is None or (x is not None and v != x):
            raise TErr("%s: expected %r, found %r" % (self.name, x, v))
        self.i += 1
        return v

    # ---- statements
    def block_until(self, closer):
        out = []
        while self.peek() != closer:
            if self.peek() is None:
                raise TErr("%s: unexpected end" % self.name)
            out.append(self.stmt())
        return out

    def stmt(self):
        v = self.peek()
        if v in ("int", "long"):
            ty = self.eat()
            n = self.eat()
            self.eat(";")
            self.locals.append(n)
            if ty == "int":
                self.int_locals.add(n)
            return ("decl", n)
        if v == "struct":
            self.eat(); self.eat(self.stype)
            n = self.eat()
            self.eat(";")
            self.structs.add(n)
            return ("sdecl", n)
        if v == "if":
            self.eat(); self.eat("(")
            c = self.expr()
            self.eat(")"); self.eat("{")
            a = self.block_until("}")
            self.eat("}")
            b = []
            if self.peek() == "else":
                self.eat(); self.eat("{")
                b = self.block_until("}")
                self.eat("}")
            return ("if", c, a, b)
        if v == "return":
            self.eat()
            e = self.expr()
            self.eat(";")
            return ("ret", e)
        if v == "errno":
            while self.eat() != ";":
                pass
            return ("nop",)
        # assignment: lvalue op expr ;   or   lvalue = call (...)
        lv = self.lvalue()
        op = self.eat()
        if op not in ("=", "+=", "-=", "%=", "/=", "*="):
            raise TErr("%s: statement outside the subset near %r" % (self.name, op))
        if op == "=" and self.peek(1) == "(" and re.match(r"^[a-z_]\w*$", self.peek() or "") and \
                (self.peek() in ("clock_gettime", "gettimeofday") or self.peek() in self.known):
            f = self.eat(); self.eat("(")
            args, cur, depth = [], [], 0
            while True:
                x = self.eat()
                if x == "(":
                    depth += 1
                if x == ")":
                    if depth == 0:
                        break
                    depth -= 1
                if x == "," and depth == 0:
                    args.append(cur); cur = []
                else:
                    cur.append(x)
            if cur:
                args.append(cur)
            self.eat(";")
            return ("call", lv, f, args)
        e = self.expr()
        self.eat(";")
        if op != "=":
            e = ("bin", op[0], ("var", lv), e)
        return ("asg", lv, e)

    def lvalue(self):
        n = self.eat()
        if self.peek() in ("->", "."):
            arrow = self.eat()
            f = self.eat()
            if n not in self.structs or f not in self.fields or (arrow == "->") != (n in self.ptr):
                raise TErr("%s: member access %s%s%s outside the subset" % (self.name, n, arrow, f))
            return n + ("_sec" if f == self.fields[0] else "_nsec")
        if n not in self.locals and n not in self.ints:
            raise TErr("%s: unknown variable %s" % (self.name, n))
        return n

    # ---- expressions (precedence climbing)
    LEVELS = [["||"], ["&&"], ["==", "!="], ["<", "<=", ">", ">="], ["+", "-"], ["*", "/", "%"]]

    def expr(self, lvl=0):
        if lvl == 0:
            c = self.expr(1) if False else self._bin(0)
            if self.peek() == "?":
                self.eat()
                a = self.expr()
                self.eat(":")
                b = self.expr()
                return ("cond", c, a, b)
            return c
        return self._bin(lvl)

    def _bin(self, lvl):
        if lvl == len(self.LEVELS):
            return self.unary()
        a = self._bin(lvl + 1)
        while self.peek() in self.LEVELS[lvl]:
            op = self.eat()
            b = self._bin(lvl + 1)
            a = ("bin", op, a, b)
        return a

    def unary(self):
        v = self.peek()
        if v == "!":
            self.eat()
            return ("not", self.unary())
        if v == "-":
            self.eat()
            return ("neg", self.unary())
        if v == "(":
            self.eat()
            e = self.expr()
            self.eat(")")
            return e
        if v is not None and v.isdigit():
            self.eat()
            return ("num", int(v))
        if v == "NULL":
            self.eat()
            return ("null",)
        if v is not None and re.match(r"^[A-Za-z_]\w*$", v):
            if v in self.structs and self.peek(1) not in ("->", "."):
                self.eat()
                return ("ptr", v)
            return ("var", self.lvalue())
        raise TErr("%s: expression outside the subset near %r" % (self.name, v))

    # ---- Gallina
    CMP = {"==": "=?", "<": "<?", "<=": "<=?"}

    def val(self, e):
        k = e[0]
        if k == "num":
            return str(e[1])
        if k == "var":
            return "v_" + e[1]
        if k == "neg":
            return "(- %s)" % self.val(e[1])
        if k == "bin" and e[1] in "+-*":
            return "(%s %s %s)" % (self.val(e[2]), e[1], self.val(e[3]))
        if k == "bin" and e[1] == "/":
            return "(Z.quot %s %s)" % (self.val(e[2]), self.val(e[3]))
        if k == "bin" and e[1] == "%":
            return "(Z.rem %s %s)" % (self.val(e[2]), self.val(e[3]))
        if k == "cond":
            return "(if %s then %s else %s)" % (self.cond(e[1]), self.val(e[2]), self.val(e[3]))
        if k in ("bin", "not"):
            return "(b2z %s)" % self.cond(e)
        raise TErr("%s: value %r outside the subset" % (self.name, e))

    def cond(self, e):
        k = e[0]
        if k == "not":
            return "(negb %s)" % self.cond(e[1])
        if k == "bin" and e[1] == "||":
            return "(%s || %s)%%bool" % (self.cond(e[2]), self.cond(e[3]))
        if k == "bin" and e[1] == "&&":
            return "(%s && %s)%%bool" % (self.cond(e[2]), self.cond(e[3]))
        if k == "bin" and e[1] in ("==", "!=") and (e[2][0] == "ptr" or e[3][0] == "ptr"):
            p, o = (e[2], e[3]) if e[2][0] == "ptr" else (e[3], e[2])
            if o[0] != "null" or p[1] not in self.ptr:
                raise TErr("%s: pointer comparison outside the subset" % self.name)
            if p[1] in self.nullable:
                return "%s_null" % p[1] if e[1] == "==" else "(negb %s_null)" % p[1]
            return "false" if e[1] == "==" else "true"
        if k == "bin" and e[1] in self.CMP:
            return "(%s %s %s)" % (self.val(e[2]), self.CMP[e[1]], self.val(e[3]))
        if k == "bin" and e[1] == "!=":
            return "(negb (%s =? %s))" % (self.val(e[2]), self.val(e[3]))
        if k == "bin" and e[1] == ">":
            return "(%s <? %s)" % (self.val(e[3]), self.val(e[2]))
        if k == "bin" and e[1] == ">=":
            return "(%s <=? %s)" % (self.val(e[3]), self.val(e[2]))
        return "(negb (%s =? 0))" % self.val(e)

    def store(self, lv, e):
        """the value an assignment leaves in lv: an `int` local receives the expression (computed in long where a long
        operand occurs) converted to int, i.e. wrapped to the signed 32-bit range (gcc's implementation-defined conversion)"""
        return "(wrapi32 %s)" % self.val(e) if lv in self.int_locals else self.val(e)

    def assigned(self, stmts):
        out = []
        for s in stmts:
            if s[0] in ("asg", "call"):
                out.append(s[1])
            if s[0] == "call":
                for a in s[3]:
                    nm = a[-1]
                    if nm in self.structs and nm not in [p for p, c in self.ptr.items() if c]:
                        out += [nm + "_sec", nm + "_nsec"]
            if s[0] == "if":
                out += self.assigned(s[2]) + self.assigned(s[3])
        seen = []
        for x in out:
            if x not in seen:
                seen.append(x)
        return seen

    def returns(self, stmts):
        """'all' when every path through stmts returns, 'none' when none does, else 'some'"""
        for s in stmts:
            if s[0] == "ret":
                return "all"
            if s[0] == "if":
                a, b = self.returns(s[2]), self.returns(s[3])
                if a == "all" and b == "all":
                    return "all"
                if a != "none" or b != "none":
                    return "some"
        return "none"

    def result(self, e):
        if self.out:
            return "(%s, (v_%s_sec, v_%s_nsec))" % (self.val(e), self.out[0], self.out[0])
        return self.val(e)

    def seq(self, stmts, ind):
        pad = " " * ind
        if not stmts:
            raise TErr("%s: control reaches the end without a return" % self.name)
        s, rest = stmts[0], stmts[1:]
        if s[0] in ("decl", "nop"):
            return self.seq(rest, ind) if s[0] == "nop" else pad + "let v_%s := 0 in\n" % s[1] + self.seq(rest, ind)
        if s[0] == "sdecl":
            return pad + "let v_%s_sec := 0 in let v_%s_nsec := 0 in\n" % (s[1], s[1]) + self.seq(rest, ind)
        if s[0] == "ret":
            return pad + self.result(s[1])
        if s[0] == "asg":
            return pad + "let v_%s := %s in\n" % (s[1], self.store(s[1], s[2])) + self.seq(rest, ind)
        if s[0] == "call":
            return self.call(s, pad) + self.seq(rest, ind)
        if s[0] == "if":
            ra, rb = self.returns(s[2]), self.returns(s[3])
            if ra == "all" and rb == "all":
                if rest:
                    raise TErr("%s: code after an if whose branches both return" % self.name)
                return pad + "if %s then\n%s\n%selse\n%s" % (self.cond(s[1]), self.seq(s[2], ind + 2), pad, self.seq(s[3], ind + 2))
            if ra == "all" and rb == "none":
                return pad + "if %s then\n%s\n%selse\n%s" % (self.cond(s[1]), self.seq(s[2], ind + 2), pad, self.seq(s[3] + rest, ind + 2))
            if ra == "none" and rb == "none":
                vs = self.assigned(s[2]) + [x for x in self.assigned(s[3]) if x not in self.assigned(s[2])]
                if not vs:
                    return self.seq(rest, ind)
                tup = "(" + ", ".join("v_" + x for x in vs) + ")"
                pat = "'" + tup if len(vs) > 1 else "v_" + vs[0]
                return (pad + "let %s :=\n%s  if %s then\n%s\n%s  else\n%s in\n" % (
                    pat, pad, self.cond(s[1]), self.straight(s[2], tup, ind + 4), pad, self.straight(s[3], tup, ind + 4))
                        + self.seq(rest, ind))
            raise TErr("%s: if-statement whose branches return on some paths only" % self.name)
        raise TErr("%s: statement %r" % (self.name, s[0]))

    def straight(self, stmts, tup, ind):
        """statements without return, ending in the tuple of the variables they may assign"""
        pad = " " * ind
        if not stmts:
            return pad + tup
        s, rest = stmts[0], stmts[1:]
        if s[0] == "nop":
            return self.straight(rest, tup, ind)
        if s[0] == "asg":
            return pad + "let v_%s := %s in\n" % (s[1], self.store(s[1], s[2])) + self.straight(rest, tup, ind)
        if s[0] == "call":
            return self.call(s, pad) + self.straight(rest, tup, ind)
        if s[0] == "if":
            vs = self.assigned(s[2]) + [x for x in self.assigned(s[3]) if x not in self.assigned(s[2])]
            if not vs:
                return self.straight(rest, tup, ind)
            t2 = "(" + ", ".join("v_" + x for x in vs) + ")"
            pat = "'" + t2 if len(vs) > 1 else "v_" + vs[0]
            return (pad + "let %s :=\n%s  if %s then\n%s\n%s  else\n%s in\n" % (
                pat, pad, self.cond(s[1]), self.straight(s[2], t2, ind + 4), pad, self.straight(s[3], t2, ind + 4))
                    + self.straight(rest, tup, ind))
        raise TErr("%s: statement %r inside a branch" % (self.name, s[0]))

    def obj(self, toks):
        """an argument that denotes a struct timespec object: `&local`, `P` (pointer parameter) -> its variable stem"""
        if len(toks) == 2 and toks[0] == "&" and toks[1] in self.structs and toks[1] not in self.ptr:
            return toks[1]
        if len(toks) == 1 and toks[0] in self.ptr:
            return toks[0]
        raise TErr("%s: argument %r is not the address of a timespec object" % (self.name, " ".join(toks)))

    def call(self, s, pad):
        _, lv, f, args = s
        if f == "clock_gettime":
            if len(args) != 2 or args[0] != ["CLOCK_REALTIME"]:
                raise TErr("%s: clock_gettime call outside the subset" % self.name)
            o = self.obj(args[1])
            if o in self.ptr and self.ptr[o]:
                raise TErr("%s: store through a const pointer" % self.name)
            return (pad + "let v_%s := gt_rc in\n" % lv +
                    pad + "let '(v_%s_sec, v_%s_nsec) := if gt_rc =? 0 then clk else (v_%s_sec, v_%s_nsec) in\n" % (o, o, o, o))
        if f == "gettimeofday":
            if len(args) != 2 or args[1] != ["NULL"]:
                raise TErr("%s: gettimeofday call outside the subset" % self.name)
            o = self.obj(args[0])
            return (pad + "let v_%s := gtod_rc in\n" % lv +
                    pad + "let '(v_%s_sec, v_%s_nsec) := if gtod_rc =? 0 then tod else (v_%s_sec, v_%s_nsec) in\n" % (o, o, o, o))
        g = self.known[f]
        if len(args) != len(g.order):
            raise TErr("%s: call of %s with %d arguments" % (self.name, f, len(args)))
        terms = []
        outobj = None
        for a, p in zip(args, g.order):
            if p in g.ptr:
                o = self.obj(a)
                terms.append("(v_%s_sec, v_%s_nsec)" % (o, o))
                if not g.ptr[p]:
                    outobj = o
            else:
                sub = Fn.__new__(Fn)
                sub.__dict__.update(self.__dict__)
                sub.t, sub.i = a, 0
                e = sub.expr()
                if sub.peek() is not None:
                    raise TErr("%s: argument %r" % (self.name, " ".join(a)))
                terms.append(self.val(e))
        pre = ("gt_rc clk " if g.uses_gettime else "")
        app = "src_%s %s%s" % (f, pre, " ".join(terms))
        if outobj:
            return pad + "let '(v_%s, (v_%s_sec, v_%s_nsec)) := %s in\n" % (lv, outobj, outobj, app)
        return pad + "let v_%s := %s in\n" % (lv, app)

    def gallina(self):
        ps = []
        if self.uses_gettime:
            ps.append("(gtod_rc : Z) (tod : Z * Z)" if self.stype == "timeval" else "(gt_rc : Z) (clk : Z * Z)")
        for p in self.order:
            if p in self.nullable:
                ps.append("(%s_null : bool)" % p)
            ps.append("(%s : Z * Z)" % p if p in self.ptr else "(v_%s : Z)" % p)
        rty = "Z * (Z * Z)" if self.out else "Z"
        init = "".join("  let v_%s_sec := fst %s in let v_%s_nsec := snd %s in\n" % (p, p, p, p) for p in self.order if p in self.ptr)
        return "Definition src_%s %s : %s :=\n%s%s." % (self.name, " ".join(ps), rty, init, self.seq(self.stmts, 2))


