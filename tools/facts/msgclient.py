"""GenMsgClient.v / GenMsgClientCopy.v: what libmunge does around a response, MEASURED by running /repo's
m_msg_client.c, decode.c and encode.c (tools/probes/msgclient_probe.c): the expected type m_msg_client_xfer hands to
m_msg_recv for every request code, the two maxlen arguments, the number of attempts, the type codes that get past the
sanity checks of _decode_rsp / _encode_rsp, and the member every output of munge_decode / munge_encode is copied from.
GenMsgClient.v holds numbers only (MsgClientModel imports it); GenMsgClientCopy.v uses the model's slot names."""
import os

SPLIT = "(* ---8<--- *)\n"


def gen(api):
    r = api.REPO
    srcs = [os.path.join(r, "src/libmunge", f) for f in
            ("m_msg_client.c", "decode.c", "encode.c", "ctx.c", "auth_send.c", "strerror.c")]
    srcs += [os.path.join(r, "src/libcommon", f) for f in ("m_msg.c", "fd.c", "str.c")]
    srcs += [p for p in (os.path.join(r, "src/libmissing/strlcpy.c"), os.path.join(r, "src/libmissing/strlcat.c"))
             if os.path.exists(p)]
    out = api.run_probe("msgclient_probe.c", extra_srcs=srcs,
                        libs=["-Wl,--wrap=m_msg_send,--wrap=m_msg_recv,--wrap=nanosleep,--wrap=m_msg_client_xfer", "-lpthread"])
    if SPLIT not in out:
        raise api.GenError("msgclient: probe output has no split marker")
    a, b = out.split(SPLIT, 1)
    ch1 = api.write_gen("GenMsgClient.v", a)
    ch2 = api.write_gen("GenMsgClientCopy.v", b)
    return ch1 or ch2
