#!/usr/bin/env python3
"""conc.py — concurrent-client phases shared by credential properties whose statements quantify over what OTHER clients are
doing at the same time (C02: no altered credential is accepted; C03: the recorded identity is the kernel's, per
connection).  Clients are separate processes (each switches its own effective ids before connect()); the daemon runs
with >= 2 worker threads.  Every phase returns a list of problem dicts with the concrete request in them."""
import multiprocessing, os, time
import rig, hostile, pyref

ANY = 0xFFFFFFFF


def cred_ids(cred):
    """(uid, gid) words of a cipher-none, sha256-MAC'd, realm-less v3 credential, read off its INNER layer"""
    import struct
    body = hostile.unarmor(cred)
    off = 5 + 32 + 8 + 1 + body[5 + 32 + 8] + 8
    return struct.unpack(">II", body[off:off + 8])


def _ident_client(args):
    sock, uid, gid, t_end, min_rounds, seed = args
    bad = []
    r = 0
    while (r < min_rounds or time.time() < t_end) and len(bad) <= 2:
        r += 1
        e, st = rig.encode(sock, uid=uid, gid=gid, cipher=0, mac=5, zip_=0, auth_gid=gid, data=b"id")
        if e is None or e["error_num"] != 0:
            bad.append({"why": "encode failed: %s %s" % (st, e and e["error_str"]), "uid": uid, "gid": gid, "round": r})
            continue
        # the credential must carry the identity the kernel reported for THIS connection
        got = cred_ids(e["data"])
        if got != (uid, gid):
            bad.append({"why": "credential requested by uid=%d gid=%d records uid=%d gid=%d" % (uid, gid, got[0], got[1]),
                        "uid": uid, "gid": gid, "round": r, "cred_hex": e["data"].hex()})
        if r % 4 == 0:
            # decoding client = same identity: must be authorized by the GID restriction
            d, st = rig.decode(sock, e["data"], uid=uid, gid=gid)
            if d is None:
                bad.append({"why": "no decode reply (%s)" % st, "uid": uid, "gid": gid, "round": r})
            elif d["error_num"] != 0:
                bad.append({"why": "client uid=%d gid=%d is refused its own GID-restricted credential: error %d %r (the identity "
                                   "munged attributes to this connection is not the kernel's)" % (uid, gid, d["error_num"], d["error_str"]),
                            "uid": uid, "gid": gid, "round": r, "cred_hex": e["data"].hex()})
    return bad, r


def identity_race(ctx, exe, nclients=12, seconds=5.0, nthreads=8, label="idrace"):
    d = rig.Daemon(ctx, exe, tag=label, nthreads=nthreads)
    if not d.start(wait=20):
        return [{"why": "daemon (%s) does not start" % label}], "", 0
    ids = [(41357, 52468), (0x80000001, 0x80000002), (0xFFFFFFFE, 7), (9, 0xFFFFFFFE), (1, 0x7FFFFFFF), (0x7FFFFFFF, 1),
           (3001, 3001), (65534, 65533)]
    pool = multiprocessing.Pool(nclients)
    problems = []
    total = 0
    try:
        t_end = time.time() + seconds
        res = pool.map(_ident_client, [(d.sock, ids[i % len(ids)][0], ids[i % len(ids)][1], t_end, 100, ctx.seed * 977 + i)
                                       for i in range(nclients)])
        for b, n in res:
            problems += b
            total += n
    finally:
        try:
            pool.terminate()
            pool.join()
        except Exception:           # multiprocessing asserts when a pool is torn down with tasks still outstanding
            pass
    rc, rep = d.stop(timeout=30)
    return problems, rep, total


def _genuine_loop(args):
    sock, cred, t_end = args
    n = 0
    while time.time() < t_end:
        rig.decode(sock, cred)
        n += 1
    return n


def _hangup_loop(args):
    """a client that sends a large decode request and hangs up without reading the reply (the daemon's send fails and it cleans
    up that connection while other requests are in flight)"""
    import socket as _s
    sock, cred, t_end = args
    n = 0
    big = rig.hdr(rig.T_DEC_REQ, 0, 4 + len(cred)) + rig.dec_req_body(cred)
    import base64 as _b
    junk = b"MUNGE:" + _b.b64encode(bytes([3, 4, 5, 0, 0]) + bytes(range(256)) * 1900) + b":\0"      # well-formed armor, 500 kB, MAC fails
    pad = rig.hdr(rig.T_DEC_REQ, 0, 4 + len(junk)) + rig.dec_req_body(junk)
    while time.time() < t_end:
        for raw in (big, pad):
            try:
                c = _s.socket(_s.AF_UNIX, _s.SOCK_STREAM)
                c.settimeout(2)
                c.connect(sock)
                c.sendall(raw)
                c.close()
            except OSError:
                pass
            n += 1
    return n


def _forger_loop(args):
    sock, forged, t_end = args
    n = 0
    acc = []
    while time.time() < t_end and not acc:
        for name, f in forged:
            d, st = rig.decode(sock, f)
            n += 1
            if d is not None and (d["error_num"] in (0, 15, 16, 17) or d["data_len"] != 0):
                acc.append({"why": "forged credential (%s) was ACCEPTED while genuine ones were being decoded concurrently and another client "
                                   "kept hanging up on its replies: error %d, %d payload bytes, uid %d"
                                   % (name, d["error_num"], d["data_len"], d["cred_uid"]),
                            "cred_hex": f.hex(), "attempt": n})
                break
    return n, acc


def forgery_race(ctx, exe, seconds=6.0, nthreads=2, label="forge"):
    """a genuine credential is decoded in a loop by some clients while others present altered copies of it (same MAC field,
    payload / identity bytes changed).  None of the altered ones may ever be accepted."""
    key = bytes(ctx.rng.getrandbits(8) for _ in range(40))
    d = rig.Daemon(ctx, exe, tag=label, nthreads=nthreads, key=key)
    if not d.start(wait=20):
        return [{"why": "daemon (%s) does not start" % label}], "", 0
    problems = []
    total = 0
    try:
        forged = []
        genuine = []
        for (c, m, z) in ((0, 5, 0), (4, 5, 0), (0, 3, 2)):
            e, st = rig.encode(d.sock, uid=4242, gid=4243, cipher=c, mac=m, zip_=z, ttl=300, data=b"genuine payload " * 2500)
            if e is None or e["error_num"] != 0:
                continue
            genuine.append(e["data"])
            body = hostile.unarmor(e["data"])
            for off in (1, 2, 9, 17):
                b = bytearray(body)
                b[-off] ^= 0x41
                forged.append(("altered copy of a genuine credential, MAC field kept: c%dm%dz%d byte -%d" % (c, m, z, off), pyref.armor(bytes(b))))
        if not forged:
            return [{"why": "no credential could be minted"}], "", 0
        # credentials nobody holding the key produced: MAC'd under subkeys anybody can guess (all zero bytes: what a keyed context
        # left unkeyed, or keyed from a buffer another thread has just wiped, would verify)
        now = int(time.time())
        for mk, nm in ((b"", "empty"), (bytes(20), "20 zero bytes"), (bytes(64), "64 zero bytes")):
            for m in (5, 3):
                forged.append(("minted under the MAC subkey %s, mac %d, uid 0" % (nm, m),
                               pyref.mint(b"", mac=m, mac_key=mk, time0=now, ttl=600, uid=0, gid=0, data=b"forged under a guessable key")))
        t_end = time.time() + seconds
        pool = multiprocessing.Pool(14)
        try:
            g = [pool.apply_async(_genuine_loop, ((d.sock, genuine[i % len(genuine)], t_end),)) for i in range(3)]
            f = [pool.apply_async(_forger_loop, ((d.sock, forged[i::8], t_end),)) for i in range(8)]
            eb, _st = rig.encode(d.sock, uid=4242, gid=4243, cipher=4, mac=5, zip_=0, ttl=300, data=bytes(range(256)) * 800)
            hcred = eb["data"] if eb and eb["error_num"] == 0 else genuine[0]
            hs = [pool.apply_async(_hangup_loop, ((d.sock, hcred, t_end),)) for _ in range(3)]
            for x in f:
                n, acc = x.get(timeout=seconds + 60)
                total += n
                problems += acc
            for x in g:
                total += x.get(timeout=seconds + 60)
            for h in hs:
                total += h.get(timeout=seconds + 60)
        finally:
            pool.terminate()
            pool.join()
    finally:
        rc, rep = d.stop(timeout=30)
    return problems, rep, total


def peercred_fault_phase(ctx, label="pcfault"):
    """the kernel's identity lookup (SO_PEERCRED) fails for a decoding client: no restricted credential - in particular none
    restricted to uid 0 / gid 0, the identity a zeroed message would carry - may be disclosed on a guessed identity.
    Returns (problems, sanitizer report, n cases)."""
    import os, vlib, credcorr
    exe, err = rig.build_daemon(ctx, name="munged-" + label, san="address",
                                extra_src=[os.path.join(vlib.HARNESS, "peercred_fault.c")], wraps=["getsockopt"])
    if exe is None:
        return [{"why": "munged does not build with the identity-fault shim: " + err[-300:]}], "", 0
    flag = os.path.join(ctx.tmp, label + "-flag")
    d = rig.Daemon(ctx, exe, tag=label, nthreads=2, env={"VERIF_PEERCRED_FAULT": flag})
    if not d.start():
        return [{"why": "daemon does not start (%s)" % label}], "", 0
    probs, n = [], 0
    goods = []
    for (au, ag) in ((0, ANY), (ANY, 0), (0, 0), (77, ANY), (ANY, 88)):
        g_, st = rig.encode(d.sock, uid=31, gid=32, auth_uid=au, auth_gid=ag, data=b"restricted payload")
        if g_ and g_["error_num"] == 0:
            goods.append((au, ag, g_["data"]))
    open(flag, "w").close()
    try:
        for (au, ag, gc) in goods:
            for (u, g) in ((4321, 4321), (77, 88), (0, 0), (1, 0)):
                r, st = rig.decode(d.sock, gc, uid=u, gid=g)
                n += 1
                ctx.count(("peercred-fault-dec", au, ag, u, g))
                if r is not None and (r["error_num"] in (0, 15, 16, 17) or r["data_len"] != 0):
                    probs.append({"why": "SO_PEERCRED lookup failed for the decoding client (euid=%d egid=%d), yet the credential restricted to "
                                         "(uid %d, gid %d) was decoded for it: error %d, %d payload bytes" % (u, g, au, ag, r["error_num"], r["data_len"]),
                                  "cred_hex": gc.hex(), "client": (u, g)})
    finally:
        os.unlink(flag)
    c = rig.canary(d.sock)
    if c:
        probs.append({"why": "after the identity-lookup faults: " + c})
    rc, rep = d.stop()
    return probs, rep, n


def _mac_client(args):
    sock, key, mac, t_end, min_rounds = args
    ml = {2: 16, 3: 20, 4: 20, 5: 32, 6: 64}[mac]
    bad, r = [], 0
    while (r < min_rounds or time.time() < t_end) and len(bad) <= 2:
        r += 1
        payload = b"mac %d round %d" % (mac, r)
        e, st = rig.encode(sock, cipher=0, mac=mac, zip_=0, data=payload)
        if e is None or e["error_num"] != 0:
            bad.append({"why": "encode with mac %d failed: %s %s" % (mac, st, e and e["error_str"]), "mac": mac})
            continue
        body = hostile.unarmor(e["data"])
        outer, tag, inner = body[:5], body[5:5 + ml], body[5 + ml:]
        if outer[2] != mac or pyref.tag(key, mac, outer + inner) != tag:
            bad.append({"why": "credential emitted for mac %d while other clients use other MAC types: the MAC field is not "
                               "HMAC-%s(SHA1(key||'2'), outer||inner) (header says mac %d)" % (mac, pyref.MAC_ALG[mac], outer[2]),
                        "mac": mac, "cred_hex": e["data"].hex()})
        # the other direction: a conforming credential built by the reference must be accepted
        c = pyref.mint(key, mac=mac, time0=int(time.time()), ttl=300, uid=77, gid=78, salt=os.urandom(8), data=payload)
        d, st = rig.decode(sock, c)
        if d is None or d["error_num"] != 0 or d["data"] != payload:
            bad.append({"why": "a conforming credential (mac %d) built by the reference is rejected while other clients use other MAC "
                               "types: %s" % (mac, d and (d["error_num"], d["error_str"])), "mac": mac, "cred_hex": c.hex()})
    return bad, r


def mac_race(ctx, exe, seconds=4.0, nthreads=4, label="macrace"):
    """clients using different MAC types at the same time on a multi-threaded daemon (real clock): every credential emitted is
    checked against the Python reference, every reference-built credential must be accepted"""
    key = os.urandom(48)
    d = rig.Daemon(ctx, exe, tag=label, nthreads=nthreads, key=key, clock=0)
    if not d.start(wait=20):
        return [{"why": "daemon (%s) does not start" % label}], "", 0
    macs = [m for m in (2, 3, 4, 5, 6) if pyref.mac_supported(m)]
    pool = multiprocessing.Pool(len(macs) * 2)
    problems, total = [], 0
    try:
        t_end = time.time() + seconds
        res = pool.map(_mac_client, [(d.sock, key, m, t_end, 50) for m in macs * 2])
        for b, n in res:
            problems += b
            total += n
    finally:
        try:
            pool.terminate()
            pool.join()
        except Exception:           # multiprocessing asserts when a pool is torn down with tasks still outstanding
            pass
    rc, rep = d.stop(timeout=30)
    return problems, rep, total


def broken_connections_phase(ctx, exe, n=120, nofile=48, label="brokenconn"):
    """Many connections broken at every byte offset of the request header (and a few inside the body) against ONE daemon
    whose descriptor limit is small: afterwards an ordinary request must still complete, and the daemon must not hold more
    descriptors than before (every broken connection is closed on the daemon's side too).  Returns (problems, report, n)."""
    import socket, subprocess
    d = rig.Daemon(ctx, exe, tag=label, nthreads=2)
    if not d.start():
        return [{"why": "daemon does not start (%s)" % label}], "", 0
    probs = []
    try:
        subprocess.run(["prlimit", "--pid", str(d.p.pid), "--nofile=%d:%d" % (nofile, nofile)], capture_output=True)

        def nfds():
            try:
                return len(os.listdir("/proc/%d/fd" % d.p.pid))
            except OSError:
                return -1
        rig.canary(d.sock)
        before = nfds()
        body = rig.enc_req_body(data=b"x" * 40)
        raw = rig.hdr(rig.T_ENC_REQ, 0, len(body)) + body
        sent = 0
        for i in range(n):
            k = i % 14 if i % 5 else 11 + (i % len(body))          # mostly header offsets 0..13, some inside the body
            try:
                s = socket.socket(socket.AF_UNIX, socket.SOCK_STREAM)
                s.settimeout(2)
                t_c = time.time()
                while True:
                    try:
                        s.connect(d.sock)
                        break
                    except OSError as e_c:
                        # EAGAIN = the listen backlog is full for the moment (the workers are still waiting out the I/O time limit
                        # of earlier broken connections): what libmunge does is wait and try again; only a daemon that stays
                        # unreachable is a failure
                        if e_c.errno != 11 or time.time() - t_c > 20:
                            raise
                        time.sleep(0.1)
                s.sendall(raw[:k])
                s.close()
                sent += 1
            except OSError as e:
                probs.append({"why": "after %d connections broken inside the request (header offsets 0..13) the daemon no longer accepts "
                                     "connections: %s (descriptor limit %d)" % (i, e, nofile), "broken_connections": i})
                break
            ctx.count(("broken-conn", k))
        # broken connections are noticed by the workers within the I/O timeout; give them that long
        t0 = time.time()
        after = nfds()
        while after > before and time.time() - t0 < 6.0:
            time.sleep(0.2)
            after = nfds()
        c = rig.canary(d.sock) if not probs else "not tried"
        if c and not probs:
            probs.append({"why": "after %d connections broken inside the request header an ordinary request no longer completes: %s "
                                 "(daemon holds %d descriptors, %d before; limit %d)" % (sent, c, after, before, nofile),
                          "broken_connections": sent})
        elif after > before and not probs:
            probs.append({"why": "the daemon holds %d descriptors after %d connections broken inside the request header (%d before): "
                                 "broken connections are not closed on the daemon's side; service stops once the limit is reached"
                                 % (after, sent, before), "broken_connections": sent})
    finally:
        rc, rep = d.stop()
    return probs, rep, n


def _patient(fn, *a, **kw):
    """a full listen backlog makes connect() fail with EAGAIN: that is the kernel's answer, not the daemon's; come back later"""
    for _ in range(400):
        r, st = fn(*a, **kw)
        if r is None and isinstance(st, str) and st.startswith("connect:"):
            time.sleep(0.01)
            continue
        return r, st
    return r, st


def _polite(args):
    sock, idx, t_end = args
    bad, n = [], 0
    while time.time() < t_end and len(bad) < 3:
        n += 1
        payload = b"polite %d %d" % (idx, n)
        e, st = _patient(rig.encode, sock, data=payload)
        if e is None or e["error_num"] != 0:
            bad.append({"why": "a well-behaved client (#%d, request %d) got no credential: %s %s" % (idx, n, st, e and e["error_str"])})
            continue
        d, st = _patient(rig.decode, sock, e["data"])
        if d is None or d["error_num"] != 0 or d["data"] != payload:
            bad.append({"why": "a well-behaved client (#%d, request %d) got %s for the decode of its own fresh credential"
                               % (idx, n, (st if d is None else (d["error_num"], d["error_str"], d["data"][:20])))})
    return bad, n


def _rude(args):
    """clients that send a complete, valid request and leave without reading the reply (the daemon's send fails), in bursts"""
    sock, t_end = args
    import socket
    body = rig.enc_req_body(data=b"r" * 300)
    raw = rig.hdr(rig.T_ENC_REQ, 0, len(body)) + body
    n = 0
    while time.time() < t_end:
        try:
            s = socket.socket(socket.AF_UNIX, socket.SOCK_STREAM)
            s.connect(sock)
            s.shutdown(socket.SHUT_RD)
            s.sendall(raw)
            s.close()
        except OSError:
            time.sleep(0.005)
        n += 1
        if n % 8 == 0:
            time.sleep(0.002)
    return n


def rude_polite_phase(ctx, exe, seconds=4.0, nthreads=4, label="rude"):
    """every accepted request of a well-behaved client is served, whatever clients around it do with THEIR connections:
    'rude' clients send valid requests and hang up before the reply (m_msg_send fails in the daemon) while 'polite' ones
    encode and decode; each polite transaction must complete with its own payload"""
    d = rig.Daemon(ctx, exe, tag=label, nthreads=nthreads)
    if not d.start(wait=20):
        return [{"why": "daemon (%s) does not start" % label}], "", 0
    pool = multiprocessing.Pool(10)
    problems, total = [], 0
    try:
        t_end = time.time() + seconds
        pr = [pool.apply_async(_polite, ((d.sock, i, t_end),)) for i in range(6)]
        rr = [pool.apply_async(_rude, ((d.sock, t_end),)) for _ in range(4)]
        for x in pr:
            b, n = x.get(timeout=seconds + 90)
            problems += b
            total += n
        for x in rr:
            total += x.get(timeout=seconds + 90)
    finally:
        try:
            pool.terminate()
            pool.join()
        except Exception:           # multiprocessing asserts when a pool is torn down with tasks still outstanding
            pass
    time.sleep(0.3)
    c = None
    for _ in range(20):
        c = rig.canary(d.sock)
        if not c or "connect:" not in c:
            break
        time.sleep(0.1)
    if c:
        problems.append({"why": "after the rude/polite load: " + c})
    rc, rep = d.stop(timeout=30)
    return problems, rep, total
