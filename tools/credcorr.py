#!/usr/bin/env python3
"""credcorr.py — correspondence between the live daemon (rebuilt from /repo) and the extracted CredModel
oracle, shared by the credential-level properties (C01 C02 C03 C04 C05 C06 C09 C10 C13).

A CredRig owns one daemon and one oracle process configured identically (key file, max-ttl, origin address);
every request sent to the daemon is replayed on the oracle with the same peer identity and (virtual) clock and
the complete replies are compared field by field."""
import os, subprocess, time
import vlib, rig

FIELDS = ["error_num", "error_str", "cipher", "mac", "zip", "realm_len", "realm", "ttl", "addr_len", "addr",
          "time0", "time1", "cred_uid", "cred_gid", "auth_uid", "auth_gid", "data_len", "data"]


class Oracle:
    def __init__(self, exe, keyfile, **conf):
        def _big_stack():
            import resource
            resource.setrlimit(resource.RLIMIT_STACK, (resource.RLIM_INFINITY, resource.RLIM_INFINITY))
        self.p = subprocess.Popen([exe, keyfile], stdin=subprocess.PIPE, stdout=subprocess.PIPE, text=True,
                                  preexec_fn=_big_stack)   # list-based code recurses as deep as the payload is long
        if conf:
            self.conf(**conf)

    def ask(self, line):
        self.p.stdin.write(line + "\n")
        self.p.stdin.flush()
        r = self.p.stdout.readline()
        if not r:
            raise RuntimeError("oracle died on: " + line[:200])
        return r.strip()

    def conf(self, **kw):
        return self.ask("CONF " + " ".join("%s=%s" % (k, v) for k, v in kw.items()))

    def reset(self):
        return self.ask("RESET")

    def build(self, cipher, mac, zip_, realm, salt, addr, time0, ttl, uid, gid, auth_uid, auth_gid, data, iv):
        """credential built by the SPEC (V3Accept.v3_build), not by the model's encoder; None if the compressor refuses"""
        r = self.ask("BUILD %d %d %d %s %s %s %d %d %d %d %d %d %s %s" % (
            cipher, mac, zip_, vlib.hexs(realm), vlib.hexs(salt), vlib.hexs(addr), time0, ttl, uid, gid, auth_uid, auth_gid,
            vlib.hexs(data), vlib.hexs(iv))).split()
        return None if r[1] == "none" else bytes.fromhex(r[1])

    def purge(self, now):
        return int(self.ask("PURGE %d" % now).split()[1])

    def rollback(self):
        return self.ask("ROLLBACK")

    @staticmethod
    def _msg(f):
        unh = lambda h: b"" if h == "-" else bytes.fromhex(h)
        return {"error_num": int(f[0]), "error_str": unh(f[1]).decode(errors="replace"), "cipher": int(f[2]),
                "mac": int(f[3]), "zip": int(f[4]), "realm_len": int(f[5]), "realm": unh(f[6]), "ttl": int(f[7]),
                "addr_len": int(f[8]), "addr": unh(f[9]), "time0": int(f[10]), "time1": int(f[11]),
                "cred_uid": int(f[12]), "cred_gid": int(f[13]), "auth_uid": int(f[14]), "auth_gid": int(f[15]),
                "data_len": int(f[16]), "data": unh(f[17])}

    def dec(self, cred, retry, uid, gid, now, members=(), now2=None):
        """now = the clock when the request is received (decode time, time-window check); now2 = the clock at the replay step
        (dec_validate_replay reads it again after replay_insert); default: the clock has not moved (now2 = now)"""
        mem = ",".join("%d:%d" % p for p in members) or "-"
        r = self.ask("DEC %s %d %d %d %d %s %d" % (vlib.hexs(cred), retry, uid, gid, now, mem, now if now2 is None else now2)).split()
        assert r[0] == "DEC", r
        return self._msg(r[1:])

    def parse(self, cred):
        r = self.ask("PARSE " + vlib.hexs(cred)).split()
        if r[1] != "ok":
            return None
        unh = lambda h: b"" if h == "-" else bytes.fromhex(h)
        return {"salt": unh(r[2]), "iv": unh(r[3]), "msg": self._msg(r[5:])}

    def enc(self, cipher, mac, zip_, realm, ttl, auth_uid, auth_gid, data, retry, uid, gid, now, salt, iv):
        r = self.ask("ENC %d %d %d %s %d %d %d %s %d %d %d %d %s %s" % (
            cipher, mac, zip_, vlib.hexs(realm), ttl, auth_uid, auth_gid, vlib.hexs(data), retry, uid, gid, now,
            vlib.hexs(salt), vlib.hexs(iv))).split()
        unh = lambda h: b"" if h == "-" else bytes.fromhex(h)
        return {"error_num": int(r[1]), "error_str": unh(r[2]).decode(errors="replace"), "data": unh(r[3])}

    def close(self):
        try:
            self.p.stdin.close()
            self.p.wait(timeout=5)
        except Exception:
            self.p.kill()


class CredRig:
    """daemon + oracle with the same configuration"""

    def __init__(self, ctx, exe, oracle_exe, key=None, max_ttl=None, nthreads=2, tag="cr", clock=1500000000, extra=(), nss_db=None):
        self.ctx = ctx
        self.d = rig.Daemon(ctx, exe, tag=tag, key=key, nthreads=nthreads, max_ttl=max_ttl, clock=clock, extra=extra, nss_db=nss_db)
        self.now = clock
        self.ok = self.d.start()
        conf = {}
        if max_ttl is not None:
            conf["max_ttl"] = max_ttl
        self.o = Oracle(oracle_exe, self.d.keyfile, **conf)
        self.addr_checked = False
        self.mismatches = []

    def set_clock(self, t):
        self.now = t
        self.d.set_clock(t)

    def stop(self):
        self.o.close()
        return self.d.stop()

    # -- decode on both sides, compare all fields ------------------------------------------------------
    def decode_both(self, cred, uid=0, gid=0, retry=0, members=()):
        r, st = rig.decode(self.d.sock, cred, uid=uid, gid=gid, retry=retry)
        m = self.o.dec(cred, retry, uid, gid, self.now, members, now2=self.now)      # the daemon's clock stands still during the request
        diff = None
        if r is None:
            diff = "daemon gave no reply (%s); model says error %d %r" % (st, m["error_num"], m["error_str"])
        else:
            for f in FIELDS:
                if r[f] != m[f]:
                    diff = "field %s: daemon %r, model %r" % (f, r[f] if f != "data" else r[f][:40], m[f] if f != "data" else m[f][:40])
                    break
            if diff is None and r["trailing"]:
                diff = "daemon reply has %d trailing bytes" % r["trailing"]
        if diff:
            self.mismatches.append({"op": "decode", "cred_hex": cred[:3000].hex(), "uid": uid, "gid": gid, "retry": retry,
                                    "now": self.now, "diff": diff})
        return r, m, diff

    # -- encode on the daemon; re-encode with the model using the recovered salt/IV ------------------------
    def encode_both(self, uid=0, gid=0, retry=0, cipher=1, mac=1, zip_=1, realm=b"", ttl=0, auth_uid=rig.UID_ANY,
                    auth_gid=rig.UID_ANY, data=b""):
        r, st = rig.encode(self.d.sock, uid=uid, gid=gid, retry=retry, cipher=cipher, mac=mac, zip_=zip_, realm=realm,
                           ttl=ttl, auth_uid=auth_uid, auth_gid=auth_gid, data=data)
        diff = None
        salt = iv = b""
        if r is None:
            m = self.o.enc(cipher, mac, zip_, realm, ttl, auth_uid, auth_gid, data, retry, uid, gid, self.now, b"\0" * 8, b"\0" * 16)
            diff = "daemon gave no ENC_RSP (%s); model says error %d %r" % (st, m["error_num"], m["error_str"])
        else:
            if r["error_num"] == 0:
                p = self.o.parse(r["data"])
                if p is None:
                    diff = "model cannot parse the daemon's credential"
                    m = {"error_num": -1, "error_str": "", "data": b""}
                else:
                    salt, iv = p["salt"], p["iv"]
                    if not self.addr_checked:
                        # origin address is chosen by the daemon at start-up; give it to the oracle once
                        self.o.conf(addr=p["msg"]["addr"].hex())
                        self.addr_checked = True
            if diff is None:
                m = self.o.enc(cipher, mac, zip_, realm, ttl, auth_uid, auth_gid, data, retry, uid, gid, self.now,
                               salt or b"\0" * 8, iv or b"\0" * 16)
                for f in ("error_num", "error_str", "data"):
                    if r[f] != m[f]:
                        cut = (lambda v: v[:60] if isinstance(v, (bytes, str)) else v)
                        diff = "ENC_RSP field %s: daemon %r, model %r" % (f, cut(r[f]), cut(m[f]))
                        break
        if diff:
            self.mismatches.append({"op": "encode", "uid": uid, "gid": gid, "retry": retry, "now": self.now,
                                    "req": dict(cipher=cipher, mac=mac, zip=zip_, realm=realm.hex(), ttl=ttl,
                                                auth_uid=auth_uid, auth_gid=auth_gid, data_hex=data[:2000].hex(),
                                                data_len=len(data)), "diff": diff})
        return r, diff


NSS_WRAPS = ["getgrent_r", "setgrent", "endgrent", "getpwnam_r"]


def build_all(ctx, san="address", nss=False):
    """daemon (from /repo working tree) + cred oracle; returns (daemon_exe, oracle_exe) or raises"""
    if nss:
        exe, err = rig.build_daemon(ctx, san=san, extra_src=[os.path.join(vlib.HARNESS, "nss_shim.c")], wraps=NSS_WRAPS)
    else:
        exe, err = rig.build_daemon(ctx, san=san)
    if exe is None:
        raise RuntimeError("munged does not build from /repo: " + err[-600:])
    orc = vlib.build_oracle(ctx, "cred")
    if orc is None:
        raise RuntimeError("cred oracle does not build")
    ctx.cov["trusted_base"] += ["extract/stubs.c over libgcrypt, zlib, bzlib (independent of munged's OpenSSL)",
                                "tools/rig.py wire-protocol client, harness/vclock.c (--wrap=time virtual clock)"]
    return exe, orc
