#!/usr/bin/env python3
"""gen_facts.py — regenerate coq/gen/*.v from /repo's current working tree.

Each fact file is produced by compiling a small probe against the repo's own
sources/headers and running it, so formatting changes in the repo do not
matter; only values do.  Files are rewritten only when their content changes.
"""
import os, subprocess, sys, tempfile, shutil

REPO = os.environ.get("VERIF_REPO", "/repo")
VERIF = os.path.dirname(os.path.dirname(os.path.abspath(__file__)))
GEN = os.path.join(VERIF, "coq", "gen")
PROBES = os.path.join(VERIF, "tools", "probes")

INCS = ["-I" + REPO] + ["-I%s/src/%s" % (REPO, d) for d in
        ("common", "libcommon", "libmissing", "libmunge", "munged", "mungekey")]
DEFS = ["-DHAVE_CONFIG_H", "-DDUN_MUNGE_VERIF", '-DDATE="x"', '-DLOCALSTATEDIR="/var"',
        '-DRUNSTATEDIR="/run"', '-DSYSCONFDIR="/etc"', "-DWITH_PTHREADS"]


class GenError(Exception):
    pass


def _write_if_changed(path, content):
    old = None
    if os.path.exists(path):
        with open(path) as f:
            old = f.read()
    if old != content:
        os.makedirs(os.path.dirname(path), exist_ok=True)
        with open(path, "w") as f:
            f.write(content)
        return True
    return False


def run_probe(src, extra_srcs=(), libs=()):
    tmp = tempfile.mkdtemp(prefix="verif-probe-")
    try:
        exe = os.path.join(tmp, "probe")
        cmd = ["gcc", "-w", "-O0"] + DEFS + INCS + ["-o", exe, os.path.join(PROBES, src)] \
            + list(extra_srcs) + list(libs)
        r = subprocess.run(cmd, capture_output=True, text=True)
        if r.returncode != 0:
            raise GenError("probe %s does not compile:\n%s" % (src, r.stderr[-2000:]))
        r = subprocess.run([exe], capture_output=True, text=True, timeout=60)
        if r.returncode != 0:
            raise GenError("probe %s failed: %s" % (src, r.stderr[-2000:]))
        return r.stdout
    finally:
        shutil.rmtree(tmp, ignore_errors=True)


def write_gen(name, content):
    """name = file name under coq/gen; returns True when the content changed"""
    return _write_if_changed(os.path.join(GEN, name), content)


def _discover():
    """tools/facts/<name>.py, each with gen(api) -> bool (changed); api is this module"""
    import importlib.util
    gens = {}
    d = os.path.join(VERIF, "tools", "facts")
    for fn in sorted(os.listdir(d)):
        if fn.endswith(".py") and not fn.startswith("_"):
            spec = importlib.util.spec_from_file_location("facts_" + fn[:-3], os.path.join(d, fn))
            mod = importlib.util.module_from_spec(spec)
            spec.loader.exec_module(mod)
            gens[fn[:-3]] = (lambda m: (lambda: m.gen(sys.modules[__name__])))(mod)
    return gens


GENERATORS = _discover()


def generate(names=None):
    changed = {}
    for n in (names or GENERATORS.keys()):
        changed[n] = GENERATORS[n]()
    return changed


if __name__ == "__main__":
    try:
        ch = generate(sys.argv[1:] or None)
    except GenError as e:
        print("gen_facts: " + str(e), file=sys.stderr)
        sys.exit(2)
    for k, v in ch.items():
        print("gen %s: %s" % (k, "updated" if v else "unchanged"))
