#!/usr/bin/env python3
"""seeded.py — bookkeeping for seeded breaking changes (/verif/seeded/<id>/).

  seeded.py confirm <src_dir> <prop> <name>   confirm an independently written change in a scratch worktree:
        patch applies, tree builds, `make check` passes WITH the change, the demonstration FAILS with it and
        PASSES without it; on success copy patch.diff + demo + README into /verif/seeded/<name>/ with meta.json
  seeded.py run <name> [--tier quick] [--props C01,C08]   apply seeded/<name>/patch.diff to a scratch copy of /repo, run the
        check(s) from a scratch copy of /verif against it, record the outcome in seeded/<name>/meta.json
  seeded.py table                               print the catch table (for DESIGN.md)
"""
import glob, json, os, shutil, subprocess, sys, time

V = os.path.dirname(os.path.dirname(os.path.abspath(__file__)))
SEEDED = os.path.join(V, "seeded")
REPO = "/repo"


def sh(cmd, cwd=None, timeout=1800, env=None):
    e = dict(os.environ)
    if env:
        e.update(env)
    try:
        r = subprocess.run(cmd, shell=isinstance(cmd, str), cwd=cwd, capture_output=True, text=True, timeout=timeout, env=e)
        return r.returncode, r.stdout + r.stderr
    except subprocess.TimeoutExpired as ex:
        return 124, "timeout"


def find_demo(d):
    for n in ("demo.sh", "demo.py"):
        if os.path.exists(os.path.join(d, n)):
            return n
    return None


def run_demo(d, wt, demo):
    env = {"MUNGE_TREE": wt, "WT": wt, "REPO": wt, "LD_LIBRARY_PATH": wt + "/src/libmunge/.libs"}
    demo = os.path.join(os.path.abspath(d), demo)
    cmd = ("bash %s" % demo) if demo.endswith(".sh") else ("/usr/bin/python3 %s" % demo)
    return sh(cmd, cwd=d, timeout=600, env=env)


def confirm(src, prop, name):
    patch = os.path.join(src, "patch.diff")
    demo = find_demo(src)
    if not os.path.exists(patch) or not demo:
        print("missing patch.diff or demo in", src)
        return 2
    # the demos written by the seeding agents refer to their own worktree path; reuse that path for the scratch copy
    txt = open(os.path.join(src, demo)).read()
    import re
    m = re.search(r"/tmp/mut\w?-C\d\d", txt)
    wt = m.group(0) if m else "/tmp/seedchk-%s" % name
    made = False
    if not os.path.exists(wt):
        rc, out = sh(["git", "-C", REPO, "worktree", "add", "-q", "--detach", wt, "HEAD"])
        sh("rsync -a --exclude .git %s/ %s/" % (REPO, wt))
        made = True
    res = {"property": prop, "name": name, "confirmed_at": time.strftime("%Y-%m-%dT%H:%M:%SZ", time.gmtime())}
    try:
        sh(["git", "-C", wt, "checkout", "--", "."])
        rc, out = sh(["git", "-C", wt, "apply", "--check", patch])
        if rc != 0:
            print("patch does not apply:", out[-300:])
            return 1
        # without the change
        sh("make -j16", cwd=wt)
        rc0, out0 = run_demo(src, wt, demo)
        res["demo_without_change_rc"] = rc0
        # with the change
        sh(["git", "-C", wt, "apply", patch])
        rcb, outb = sh("make -j16 2>&1 | tail -5", cwd=wt)
        rcc, outc = sh("make check -j8 2>&1 | grep -E '^# (TOTAL|PASS|FAIL|ERROR|XPASS)' ", cwd=wt, timeout=1200)
        fails = sum(int(l.split(":")[1]) for l in outc.splitlines() if l.startswith("# FAIL") or l.startswith("# ERROR"))
        passes = sum(int(l.split(":")[1]) for l in outc.splitlines() if l.startswith("# PASS"))
        res["make_check_with_change"] = {"pass": passes, "fail_or_error": fails}
        rc1, out1 = run_demo(src, wt, demo)
        res["demo_with_change_rc"] = rc1
        res["demo_with_change_tail"] = out1[-400:]
        ok = (rc0 == 0 and rc1 != 0 and fails == 0 and passes > 50)
        res["confirmed"] = ok
        print(json.dumps(res, indent=1))
        if ok:
            dst = os.path.join(SEEDED, name)
            os.makedirs(dst, exist_ok=True)
            for f in os.listdir(src):
                if os.path.isfile(os.path.join(src, f)) and os.path.getsize(os.path.join(src, f)) < 200000:
                    shutil.copy(os.path.join(src, f), os.path.join(dst, f))
            meta = {"breaks_property": prop, "name": name,
                    "needs_to_manifest": "see README.md (written by the independent seeding agent)",
                    "confirmation": res,
                    "what_i_ran": ["git apply --check patch.diff (clean worktree)", "make -j16", "make check -j8 with the change: all pass",
                                   "demo with the change: fails", "demo without the change: passes"],
                    "check_runs": []}
            json.dump(meta, open(os.path.join(dst, "meta.json"), "w"), indent=1)
        return 0 if ok else 1
    finally:
        sh(["git", "-C", wt, "checkout", "--", "."])
        sh("make -j16", cwd=wt)
        if made:
            sh(["git", "-C", REPO, "worktree", "remove", "--force", wt])


def run(name, tier="quick", props=None):
    """run the check(s) against a scratch copy of /repo with the seeded change applied, from a scratch copy of /verif
    (so neither /repo nor /verif/coq/gen is touched and several runs can go on at once); record the outcome"""
    d = os.path.join(SEEDED, name)
    meta = json.load(open(os.path.join(d, "meta.json")))
    props = props or [meta["breaks_property"]]
    patch = os.path.join(d, "patch.diff")
    wr = "/tmp/seedrun-%s-%d-repo" % (name, os.getpid())
    wv = "/tmp/seedrun-%s-%d-verif" % (name, os.getpid())
    results = []
    try:
        sh("rm -rf %s %s" % (wr, wv))
        sh("rsync -a --exclude .git %s/ %s/" % (REPO, wr))
        rc, out = sh("patch -p1 -s -d %s < %s" % (wr, patch))
        if rc != 0:
            print("patch does not apply:", out[-300:])
            return 2
        sh("rsync -a --exclude .git --exclude evidence --exclude seeded %s/ %s/" % (V, wv))
        os.makedirs(os.path.join(wv, "evidence"), exist_ok=True)
        shutil.copy(os.path.join(V, "known_findings.json"), wv)
        for p in props:
            t0 = time.time()
            rc, out = sh(["python3", os.path.join(wv, "tools", "check.py"), p, "--tier", tier], cwd=wv, timeout=3000,
                         env={"VERIF_REPO": wr})
            viol = [l.replace(wv, "/verif").replace(wr, "/repo") for l in out.splitlines() if l.startswith("VIOLATION") or l.startswith("  -> ")]
            results.append({"check": p, "tier": tier, "exit": rc, "caught": rc == 1 and any(l.startswith("VIOLATION") for l in viol),
                            "no_failing_input": any("no-failing-input-found" in l for l in viol),
                            "first_lines": viol[:4], "wall_s": round(time.time() - t0, 1)})
            print(name, p, "exit", rc, "|", (viol[1] if len(viol) > 1 else viol[:1]))
    finally:
        sh("rm -rf %s %s" % (wr, wv))
    meta.setdefault("check_runs", [])
    meta["check_runs"] = [r for r in meta["check_runs"] if (r["check"], r["tier"]) not in [(x["check"], x["tier"]) for x in results]] + results
    json.dump(meta, open(os.path.join(d, "meta.json"), "w"), indent=1)
    return 0


def table():
    rows = []
    for mf in sorted(glob.glob(os.path.join(SEEDED, "*", "meta.json"))):
        m = json.load(open(mf))
        runs = m.get("check_runs", [])
        caught = [r["check"] + ("(" + r["tier"][0] + ")") + ("*" if r.get("no_failing_input") else "") for r in runs if r.get("caught")]
        missed = [r["check"] + "(" + r["tier"][0] + ")" for r in runs if not r.get("caught")]
        rows.append("| %s | %s | %s | %s |" % (m["name"], m["breaks_property"], ", ".join(caught) or "-", ", ".join(missed) or "-"))
    print("| seeded change | breaks | caught by (q=quick, t=thorough, *=no-failing-input) | not caught by |\n|---|---|---|---|")
    print("\n".join(rows))


def design_table():
    """rewrite the catch table of DESIGN.md section 0.7 from seeded/*/meta.json"""
    rows, stars = [], []
    for mf in sorted(glob.glob(os.path.join(SEEDED, "C*", "meta.json"))):
        m = json.load(open(mf))
        own = m["breaks_property"]
        caught = [r for r in m.get("check_runs", []) if r.get("caught")]
        ownrun = [r for r in caught if r["check"] == own]
        others = sorted(set(r["check"] for r in caught if r["check"] != own))
        if ownrun:
            fl = ownrun[-1]["first_lines"]
            star = "*" if (fl and "no-failing-input-found" in fl[0]) else ""
            if star:
                stars.append(m["name"])
            msg = (fl[1] if len(fl) > 1 else "").replace("  -> ", "").replace("|", "/")[:150]
            by = own + star + ((", " + ", ".join(others)) if others else "")
        elif m.get("masked_by_fix"):
            msg, by = ("no longer breaks the property on the repaired tree (repair %s): %s" % (m["masked_by_fix"]["commit"], m["masked_by_fix"]["note"][:160]),
                       ", ".join(others) or "-")
        else:
            msg, by = "NOT CAUGHT by its own check", ", ".join(others) or "-"
        t = m["confirmation"]["confirmed_at"]
        rnd = m.get("round") or (1 if t < "2026-10-01T05" else 2 if t < "2026-10-01T08" else 3 if t < "2026-10-01T10" else 4 if t < "2026-10-01T13" else 5 if t < "2026-10-01T16" else 6 if t < "2026-10-01T19" else 7)
        rows.append("| %s | %s | %d | %s | %s |" % (m["name"], own, rnd, by, msg))
    hdr = ("| seeded change (seeded/<name>/) | breaks | round | caught by (quick tier; * = reported without a failing input) | "
           "what the property's own check printed |\n|---|---|---|---|---|\n")
    p = os.path.join(V, "DESIGN.md")
    s = open(p).read()
    a = s.index("| seeded change (seeded/<name>/) | breaks |")
    b = s.index("### 0.6 Trusted base")
    open(p, "w").write(s[:a] + hdr + "\n".join(rows) + "\n\n" + s[b:])
    print(len(rows), "rows; without a failing input:", stars, "; not caught:", [r.split("|")[1].strip() for r in rows if "NOT CAUGHT" in r])


if __name__ == "__main__":
    a = sys.argv[1:]
    if a and a[0] == "confirm":
        sys.exit(confirm(a[1], a[2], a[3]))
    if a and a[0] == "run":
        tier = "quick"
        props = None
        if "--tier" in a:
            tier = a[a.index("--tier") + 1]
        if "--props" in a:
            props = a[a.index("--props") + 1].split(",")
        sys.exit(run(a[1], tier, props))
    if a and a[0] == "table":
        table()
        sys.exit(0)
    if a and a[0] == "design-table":
        design_table()
        sys.exit(0)
    print(__doc__)
