# /verif/Makefile — builds the Coq development (full .vo build) and the extracted oracle.
COQDIR := coq
EXDIR  := extract
.PHONY: all coq oracle clean facts

all: facts coq oracle

facts:
	python3 tools/gen_facts.py

coq: facts
	cd $(COQDIR) && coq_makefile -f _CoqProject -o Makefile.coq >/dev/null && $(MAKE) -f Makefile.coq -j16

oracle: coq
	cd $(EXDIR) && coqc -Q ../$(COQDIR) MV Extract.v >/dev/null && \
	ocamlfind ocamlopt -w -a -package unix -linkpkg -o oracle model.mli model.ml conv.ml stubs.c driver.ml -cclib -lgcrypt -cclib -lz -cclib -lbz2

clean:
	cd $(COQDIR) && rm -f *.vo *.vok *.vos *.glob .*.aux gen/*.vo gen/*.glob gen/.*.aux Makefile.coq Makefile.coq.conf .Makefile.coq.d .lia.cache
	cd $(EXDIR) && rm -f model.ml model.mli *.cm* *.o oracle *.vo *.glob .*.aux
