# /verif/Makefile — builds the Coq development (full .vo build) and the extracted oracles.
COQDIR := coq
EXDIR  := extract
ORACLES := $(patsubst $(EXDIR)/%/Extract.v,%,$(wildcard $(EXDIR)/*/Extract.v))
.PHONY: all coq oracles clean facts project FORCE
FORCE:

all: facts coq oracles

facts:
	python3 tools/gen_facts.py

# _CoqProject is regenerated from the .v files present (coqdep orders them)
project:
	@cd $(COQDIR) && { echo "-Q . MV"; \
	  echo "-arg -w -arg -notation-overridden,-deprecated-hint-without-locality,-deprecated-instance-without-locality,-deprecated-hint-rewrite-without-locality"; \
	  ls *.v gen/*.v | sort; } > _CoqProject.new && \
	  { cmp -s _CoqProject.new _CoqProject || mv _CoqProject.new _CoqProject; rm -f _CoqProject.new; } && \
	  { [ Makefile.coq -nt _CoqProject ] || coq_makefile -f _CoqProject -o Makefile.coq >/dev/null; }

coq: facts project
	cd $(COQDIR) && $(MAKE) -f Makefile.coq -j16

oracles: $(addprefix oracle-,$(ORACLES))

# one self-contained oracle per model group: extract/<g>/Extract.v + driver.ml (+ shared conv.ml, stubs.c)
oracle-%: project FORCE
	cd $(COQDIR) && $(MAKE) -f Makefile.coq -j16 $$(sed -n 's/^(\* deps: \(.*\) \*)$$/\1/p' ../$(EXDIR)/$*/Extract.v)
	cd $(EXDIR)/$* && coqc -Q ../../$(COQDIR) MV Extract.v >/dev/null && \
	cp ../conv.ml conv.ml && \
	ocamlfind ocamlopt -w -a -package unix -linkpkg -o oracle model.mli model.ml conv.ml ../stubs.c driver.ml -cclib -lgcrypt -cclib -lz -cclib -lbz2

clean:
	cd $(COQDIR) && rm -f *.vo *.vok *.vos *.glob .*.aux gen/*.vo gen/*.glob gen/.*.aux Makefile.coq Makefile.coq.conf .Makefile.coq.d .lia.cache
	rm -f $(EXDIR)/*/model.ml $(EXDIR)/*/model.mli $(EXDIR)/*/*.cm* $(EXDIR)/*/*.o $(EXDIR)/*/oracle $(EXDIR)/*/*.vo $(EXDIR)/*/*.glob $(EXDIR)/*/.*.aux $(EXDIR)/*/conv.ml $(EXDIR)/*.o
