/* msgclient_harness.c — drives /repo's libmunge (munge_encode / munge_decode -> m_msg_client_xfer -> m_msg_send /
   m_msg_recv -> _encode_rsp / _decode_rsp) against a scripted hostile peer on a real Unix-domain socket.

   The peer is a thread of this process: it listens on <argv[1]> (a path inside the check's private directory),
   accepts one connection at a time, reads the request the client sends (header, then as many body bytes as the
   header announces, or up to EOF), answers with the k-th byte string of the current script (nothing when the
   script is shorter) and closes.  Connection k of a call gets string k, so the retry loop of m_msg_client_xfer is
   scripted attempt by attempt.  Nothing depends on timing: the back-off sleeps between attempts are removed
   (-Wl,--wrap=nanosleep), the 2 s socket time-out is made infinite (-Wl,--wrap=poll; the peer always answers and
   closes), successful connects are counted (-Wl,--wrap=connect) so that the main thread knows when the peer is done
   with a call, and malloc refuses requests above 64 MiB (-Wl,--wrap=malloc, the oracle's allocator).  Built from
   /repo's current sources with ASan+UBSan(+LSan).

   case lines (same as `extract/msg/oracle`)
     D <credhex> <n> <stream_1> ... <stream_n>                       cred = the C string handed to munge_decode
     E <cipher> <mac> <zip> <ttl> <auth_uid> <auth_gid> <payloadhex|-> <n> <stream_1> ... <stream_n>
   answers
     D <err> <cipher> <mac> <zip> <realm> <ttl> <addrhex> <time0> <time1> <auth_uid> <auth_gid> <len> <buf> <uid>
       <gid> <ctxerr> <errstr> conns=<k> <request_1> ... <request_k>
     E <err> <cred> <cipher> <mac> <zip> <realm> <ttl> <auth_uid> <auth_gid> <ctxerr> <errstr> conns=<k> <request_1> ...
   pointers: '-' NULL, 'x'<hex> otherwise (C strings up to their NUL; buf: len bytes); requests: hex of what the peer
   read on that connection ('-' nothing). */
#include "hexio.h"
#include <errno.h>
#include <pthread.h>
#include <signal.h>
#include <stdint.h>
#include <time.h>
#include <sys/socket.h>
#include <sys/un.h>
#include <unistd.h>
#include <munge.h>
#include "ctx.h"
#include "munge_defs.h"

#define MAXCONN 16
#define REQCAP (4 << 20)

static pthread_mutex_t mu = PTHREAD_MUTEX_INITIALIZER;
static pthread_cond_t cv = PTHREAD_COND_INITIALIZER;
static int lfd = -1;
static int n_script;                       /* current script */
static unsigned char *script[MAXCONN];
static int script_len[MAXCONN];
static int served;                         /* connections the peer has finished in this call */
static int connected;                      /* successful connects of the client in this call */
static unsigned char *req[MAXCONN];
static int req_len[MAXCONN];

int __real_connect (int fd, const struct sockaddr *a, socklen_t l);
int __wrap_connect (int fd, const struct sockaddr *a, socklen_t l)
{
    int rc = __real_connect (fd, a, l);
    if (rc == 0 && a && a->sa_family == AF_UNIX) {
        pthread_mutex_lock (&mu); connected++; pthread_mutex_unlock (&mu);
    }
    return rc;
}
/* the allocator refuses anything above 64 MiB (the oracle's hp), which keeps 2 GiB requests made on behalf of a lying
   length field away from the machine */
#define HEAP_LIMIT ((size_t) 64 << 20)
void *__real_malloc (size_t n);
void *__wrap_malloc (size_t n) { if (n > HEAP_LIMIT) { errno = ENOMEM; return NULL; } return __real_malloc (n); }
/* the 2 s socket time-out of m_msg_send / m_msg_recv (fd.c: poll with the time left): wait for the peer as long as it
   takes - it always answers and closes, so EOF always comes - instead of racing a loaded machine */
#include <poll.h>
int __real_poll (struct pollfd *f, nfds_t n, int t);
int __wrap_poll (struct pollfd *f, nfds_t n, int t) { return __real_poll (f, n, t > 0 ? -1 : t); }
/* the retry back-off of m_msg_client_xfer / _m_msg_client_connect: no waiting */
int __wrap_nanosleep (const struct timespec *rq, struct timespec *rm) { (void) rq; (void) rm; return 0; }

static int read_n (int fd, unsigned char *b, int n)
{
    int got = 0;
    while (got < n) {
        ssize_t r = read (fd, b + got, n - got);
        if (r < 0 && errno == EINTR) continue;
        if (r <= 0) break;
        got += r;
    }
    return got;
}

static void *peer (void *arg)
{
    (void) arg;
    for (;;) {
        int c = accept (lfd, NULL, NULL), k, got, off;
        unsigned char *b;
        if (c < 0) { if (errno == EINTR) continue; break; }
        pthread_mutex_lock (&mu); k = served; pthread_mutex_unlock (&mu);
        unsigned char h[11];
        got = read_n (c, h, 11);
        if (got == 11) {
            uint32_t plen = ((uint32_t) h[7] << 24) | (h[8] << 16) | (h[9] << 8) | h[10];
            if (plen > REQCAP - 11) plen = REQCAP - 11;
            b = malloc (11 + (size_t) plen);
            memcpy (b, h, 11);
            got += read_n (c, b + 11, (int) plen);
        }
        else { b = malloc (11); memcpy (b, h, got); }
        if (k < MAXCONN) { req[k] = b; req_len[k] = got; } else free (b);
        if (k < n_script) {
            off = 0;
            while (off < script_len[k]) {
                ssize_t w = send (c, script[k] + off, script_len[k] - off, MSG_NOSIGNAL);
                if (w < 0 && errno == EINTR) continue;
                if (w <= 0) break;                 /* the client has gone away: it has seen enough */
                off += w;
            }
        }
        close (c);
        pthread_mutex_lock (&mu); served++; pthread_cond_broadcast (&cv); pthread_mutex_unlock (&mu);
    }
    return NULL;
}

static void begin_call (void)
{
    pthread_mutex_lock (&mu); served = 0; connected = 0; pthread_mutex_unlock (&mu);
}
static int end_call (void)
{
    int k;
    pthread_mutex_lock (&mu);
    while (served < connected) pthread_cond_wait (&cv, &mu);
    k = served;
    pthread_mutex_unlock (&mu);
    return k;
}

static void put_cstr (const char *s)
{
    if (!s) { fputs ("-", stdout); return; }
    fputs ("x", stdout);
    if (*s) puthex ((const unsigned char *) s, (int) strlen (s));
}
static void put_tail (munge_ctx_t ctx, int k)
{
    int i;
    printf (" %d ", (int) ctx->error_num);
    put_cstr (ctx->error_str);
    printf (" conns=%d", k);
    for (i = 0; i < k && i < MAXCONN; i++) {
        printf (" ");
        if (req[i] && req_len[i] > 0) puthex (req[i], req_len[i]); else fputs ("-", stdout);
    }
    printf ("\n");
    for (i = 0; i < MAXCONN; i++) { free (req[i]); req[i] = NULL; req_len[i] = 0; }
    for (i = 0; i < n_script; i++) { free (script[i]); script[i] = NULL; }
    n_script = 0;
}

static char *line;
#define LINE_MAX_ (1 << 23)

static int load_script (char **save)
{
    char *t = strtok_r (NULL, " ", save);
    int n = t ? atoi (t) : 0, i;
    if (n > MAXCONN) n = MAXCONN;
    for (i = 0; i < n; i++) {
        t = strtok_r (NULL, " ", save);
        if (!t) { n = i; break; }
        script[i] = unhex (t, &script_len[i]);
    }
    n_script = n;
    return n;
}

int main (int argc, char **argv)
{
    struct sockaddr_un sa;
    pthread_t th;
    if (argc < 2) { fprintf (stderr, "usage: %s <socket path>\n", argv[0]); return 2; }
    signal (SIGPIPE, SIG_IGN);
    memset (&sa, 0, sizeof sa);
    sa.sun_family = AF_UNIX;
    strncpy (sa.sun_path, argv[1], sizeof sa.sun_path - 1);
    unlink (argv[1]);
    lfd = socket (AF_UNIX, SOCK_STREAM, 0);
    if (lfd < 0 || bind (lfd, (struct sockaddr *) &sa, sizeof sa) < 0 || listen (lfd, 64) < 0) { perror ("listen"); return 2; }
    if (pthread_create (&th, NULL, peer, NULL)) { perror ("pthread_create"); return 2; }
    line = malloc (LINE_MAX_);
    while (fgets (line, LINE_MAX_, stdin)) {
        char *nl = strchr (line, '\n'), *save = NULL, *t;
        munge_ctx_t ctx;
        munge_err_t e;
        int k;
        if (nl) *nl = 0;
        t = strtok_r (line, " ", &save);
        if (!t) { printf ("?\n"); continue; }
        ctx = munge_ctx_create ();
        munge_ctx_set (ctx, MUNGE_OPT_SOCKET, argv[1]);
        if (!strcmp (t, "D")) {
            int clen; unsigned char *c; char *cred; void *buf = NULL; int len = 0; uid_t uid = 0; gid_t gid = 0;
            t = strtok_r (NULL, " ", &save);
            c = unhex (t ? t : "-", &clen);
            cred = malloc (clen + 1); memcpy (cred, c, clen); cred[clen] = 0;
            load_script (&save);
            begin_call ();
            e = munge_decode (cred, ctx, &buf, &len, &uid, &gid);
            k = end_call ();
            printf ("D %d %d %d %d ", (int) e, ctx->cipher, ctx->mac, ctx->zip);
            put_cstr (ctx->realm_str);
            printf (" %d ", ctx->ttl);
            puthex ((unsigned char *) &ctx->addr, (int) sizeof ctx->addr);
            printf (" %lld %lld %lu %lu %d ", (long long) ctx->time0, (long long) ctx->time1,
                    (unsigned long) ctx->auth_uid, (unsigned long) ctx->auth_gid, len);
            if (buf) { fputs ("x", stdout); if (len > 0) puthex (buf, len); } else fputs ("-", stdout);
            printf (" %lu %lu", (unsigned long) uid, (unsigned long) gid);
            put_tail (ctx, k);
            free (c); free (cred); free (buf);
        }
        else if (!strcmp (t, "E")) {
            char *tok[7]; int i, plen; unsigned char *pl; char *cred = NULL;
            for (i = 0; i < 7; i++) { tok[i] = strtok_r (NULL, " ", &save); if (!tok[i]) tok[i] = "-"; }
            munge_ctx_set (ctx, MUNGE_OPT_CIPHER_TYPE, atoi (tok[0]));
            munge_ctx_set (ctx, MUNGE_OPT_MAC_TYPE, atoi (tok[1]));
            munge_ctx_set (ctx, MUNGE_OPT_ZIP_TYPE, atoi (tok[2]));
            munge_ctx_set (ctx, MUNGE_OPT_TTL, (int) strtoul (tok[3], NULL, 10));
            munge_ctx_set (ctx, MUNGE_OPT_UID_RESTRICTION, (uid_t) strtoul (tok[4], NULL, 10));
            munge_ctx_set (ctx, MUNGE_OPT_GID_RESTRICTION, (gid_t) strtoul (tok[5], NULL, 10));
            pl = unhex (tok[6], &plen);
            load_script (&save);
            begin_call ();
            e = munge_encode (&cred, ctx, plen ? pl : NULL, plen);
            k = end_call ();
            printf ("E %d ", (int) e);
            put_cstr (cred);
            printf (" %d %d %d ", ctx->cipher, ctx->mac, ctx->zip);
            put_cstr (ctx->realm_str);
            printf (" %d %lu %lu", ctx->ttl, (unsigned long) ctx->auth_uid, (unsigned long) ctx->auth_gid);
            put_tail (ctx, k);
            free (pl); free (cred);
        }
        else printf ("? %s\n", t);
        munge_ctx_destroy (ctx);
        fflush (stdout);
    }
    free (line);
    unlink (argv[1]);
    return 0;
}
