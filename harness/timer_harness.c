/* timer_harness.c — drives /repo's timer.c + clock.c through their public API under virtual time.
 *
 * Linked with  -Wl,--wrap=clock_gettime,--wrap=pthread_cond_wait,--wrap=pthread_cond_timedwait,
 *              --wrap=pthread_cond_signal
 * so that "now" is whatever the case line says, the timer thread sleeps until the *virtual* clock reaches
 * its deadline or timer.c itself signals the condition, and the driver can tell when the timer thread has
 * come to rest (blocked in a wait with nothing due and no wake-up pending).  No edits in /repo.
 *
 * One case per input line, one canonical result line per case (same protocol as extract/timer/oracle):
 *
 *   <mode> <nthreads> <progs> <op> <op> ...
 *     mode   S  serialized: ops are executed one at a time (on the named worker thread), the timer thread
 *               is allowed to come to rest after every op  -> deterministic, compared with the model
 *            P  parallel: every worker runs its ops concurrently with the others, the clock ops and the
 *               timer thread; then the clock is put at the last `t` op and everything comes to rest
 *               -> property evaluated on the log only
 *            Z  like S, but ops may carry the marks used to replay the id-after-unlock schedule
 *     progs  callback programs  p0;p1;...   each  -  or a comma list of
 *               R<ms>:<cb>  timer_set_relative     A<sec>.<nsec>:<cb>  timer_set_absolute
 *               K<k>        timer_cancel(number of set calls so far - k)      X<id>  timer_cancel(id)
 *                           (P mode: the calling worker's last returned id - k)
 *     ops    s<th>:R<ms>:<cb> | s<th>:A<sec>.<nsec>:<cb> | c<th>:K<k> | c<th>:X<id> | t:<sec>.<nsec>
 *            x<th>:<sec>.<nsec>:K<k>|X<id>   the clock is put at that reading and worker th makes the cancel in the
 *                     window between the timer thread's timed wait timing out and its re-taking the mutex (if the
 *                     wait does not time out at that reading: once the thread is at rest)
 *            Z only:  h<th>:A<sec>.<nsec>:<cb>  set whose caller is held between the unlock and the
 *                     return (inside pthread_cond_signal);   r<th>  release it and report what it returned
 *   result tokens, in order of occurrence, `|` after every op:
 *     S<seq>=<id>  C<id>=<ret>   (worker ops)      s<seq>=<id>  c<id>=<ret>   (ops made by callbacks)
 *     F<seq>@<sec>.<nsec>  callback of the seq-th set ran at that virtual time
 *     P mode: set tokens carry the expiry, S<seq>=<id>@<sec>.<nsec>
 *     H  held set parked    !...  harness-detected trouble (deadlock, timeout)
 * Each case runs in a forked child (fresh statics in timer.c; a hang costs one case, not the run).
 */
#define _GNU_SOURCE
#include <errno.h>
#include <pthread.h>
#include <signal.h>
#include <stdio.h>
#include <stdlib.h>
#include <string.h>
#include <sys/wait.h>
#include <time.h>
#include <unistd.h>
#include "timer.h"
#include "clock.h"

#include "vtime.h"

/* ---------------------------------------------------------------- case data */
#define MAXCB 16
#define MAXHOP 8
#define MAXOPS 4096
#define MAXTH 3
struct hop { char kind; long a, b; int cb; };            /* R ms | A sec nsec | K k | X id */
static struct hop prog[MAXCB][MAXHOP]; static int proglen[MAXCB]; static int ncb;
struct inst { int seq, cb; long id; };
struct ev { char kind; long a, b; struct timespec at; }; /* event log */
static struct ev *evs; static int nev, capev;
static pthread_mutex_t em = PTHREAD_MUTEX_INITIALIZER;   /* event log, seq counter, max id */
static int nseq; static long max_id;
static long th_last[MAXTH];                               /* P mode: last id returned to that worker */
static int par_mode;

static void ev_add(char kind, long a, long b, const struct timespec *at) {
    pthread_mutex_lock(&em);
    if (nev == capev) { capev = capev ? capev * 2 : 256; evs = realloc(evs, capev * sizeof *evs); }
    evs[nev].kind = kind; evs[nev].a = a; evs[nev].b = b;
    if (at) evs[nev].at = *at; else memset(&evs[nev].at, 0, sizeof evs[nev].at);
    nev++;
    pthread_mutex_unlock(&em);
}
/* S/Z mode: the result of the one worker op in flight is printed before whatever the timer thread did
   meanwhile (a set that is already expired can fire before its caller has returned) */
static struct { char kind; long a, b; } op_res;
static void cb_fn(void *arg);
static long cancel_target(const struct hop *h, int th) {
    long id;
    if (h->kind == 'X') return h->a;
    pthread_mutex_lock(&em);
    /* S/Z: relative to the number of set calls issued so far (= the id timer.c hands out next-to-last;
       the caller of a set that expires at once may not have seen its return value yet) */
    id = ((par_mode && th >= 0) ? th_last[th] : par_mode ? max_id : (long) nseq) - h->a;
    pthread_mutex_unlock(&em);
    return id;
}
/* perform one set/cancel; inner = called from a callback; th = worker index or -1 */
static void do_hop(const struct hop *h, int inner, int th) {
    if (h->kind == 'R' || h->kind == 'A') {
        struct inst *in = malloc(sizeof *in); long id; int seq;
        pthread_mutex_lock(&em); seq = ++nseq; pthread_mutex_unlock(&em);
        in->seq = seq; in->cb = h->cb; in->id = 0;
        if (h->kind == 'R') id = timer_set_relative(cb_fn, in, h->a);
        else { struct timespec ts; ts.tv_sec = h->a; ts.tv_nsec = h->b; id = timer_set_absolute(cb_fn, in, &ts); }
        pthread_mutex_lock(&em);
        if (id > max_id) max_id = id;
        if (th >= 0) th_last[th] = id;
        pthread_mutex_unlock(&em);
        if (par_mode) {                    /* P: the expiry goes into the token (absolute sets only) */
            struct timespec ts; ts.tv_sec = h->kind == 'A' ? h->a : -1; ts.tv_nsec = h->kind == 'A' ? h->b : -1;
            ev_add(inner ? 's' : 'S', seq, id, &ts);
        } else if (inner) ev_add('s', seq, id, NULL);
        else { op_res.kind = 'S'; op_res.a = seq; op_res.b = id; }
    } else {
        long id = cancel_target(h, th); int r = timer_cancel(id);
        if (inner || par_mode) ev_add(inner ? 'c' : 'C', id, r, NULL);
        else { op_res.kind = 'C'; op_res.a = id; op_res.b = r; }
    }
}
static void cb_fn(void *arg) {
    struct inst *in = arg; struct timespec now; int i, cb = in->cb;
    pthread_mutex_lock(&hm); now = vnow; pthread_mutex_unlock(&hm);
    ev_add('F', in->seq, 0, &now);
    /* the inst is intentionally not freed: a callback that ran twice must be seen, not crash */
    if (cb >= 0 && cb < ncb) for (i = 0; i < proglen[cb]; i++) do_hop(&prog[cb][i], 1, -1);
}

/* ---------------------------------------------------------------- workers */
struct op { char kind; int th; struct hop h; struct timespec ts; };
static struct op ops[MAXOPS]; static int nops;
static pthread_mutex_t wm = PTHREAD_MUTEX_INITIALIZER; static pthread_cond_t wcv = PTHREAD_COND_INITIALIZER;
static struct op *job[MAXTH]; static int job_state[MAXTH]; /* 0 idle 1 posted 2 done 3 quit */
static int nth;

static void *worker(void *arg) {
    int th = (int)(long) arg;
    for (;;) {
        struct op *o;
        pthread_mutex_lock(&wm);
        while (job_state[th] != 1 && job_state[th] != 3) __real_pthread_cond_wait(&wcv, &wm);
        if (job_state[th] == 3) { pthread_mutex_unlock(&wm); return NULL; }
        o = job[th];
        pthread_mutex_unlock(&wm);
        do_hop(&o->h, 0, th);
        pthread_mutex_lock(&wm); job_state[th] = 2; pthread_cond_broadcast(&wcv); pthread_mutex_unlock(&wm);
    }
}
static void post(int th, struct op *o) {
    pthread_mutex_lock(&wm); job[th] = o; job_state[th] = 1; pthread_cond_broadcast(&wcv); pthread_mutex_unlock(&wm);
}
static int wait_done(int th, int ms) {
    struct timespec lim; int ok;
    real_deadline(&lim, ms);
    pthread_mutex_lock(&wm);
    while (job_state[th] == 1) if (__real_pthread_cond_timedwait(&wcv, &wm, &lim) == ETIMEDOUT) break;
    ok = job_state[th] == 2; if (ok) job_state[th] = 0;
    pthread_mutex_unlock(&wm);
    return ok ? 0 : -1;
}
/* P mode: a worker runs all of its own ops back to back */
static pthread_barrier_t bar;
static void *par_worker(void *arg) {
    int th = (int)(long) arg, i;
    pthread_barrier_wait(&bar);
    for (i = 0; i < nops; i++) if (ops[i].kind != 't' && ops[i].th == th) do_hop(&ops[i].h, 0, th);
    return NULL;
}

/* ---------------------------------------------------------------- parsing */
static int parse_hop(char *s, struct hop *h) {
    char *c;
    h->kind = s[0]; h->a = h->b = 0; h->cb = 0;
    if (s[0] == 'R') { h->a = strtol(s + 1, &c, 10); if (*c != ':') return -1; h->cb = atoi(c + 1); return 0; }
    if (s[0] == 'A') { h->a = strtol(s + 1, &c, 10); if (*c != '.') return -1; h->b = strtol(c + 1, &c, 10);
                       if (*c != ':') return -1; h->cb = atoi(c + 1); return 0; }
    if (s[0] == 'K' || s[0] == 'X') { h->a = strtol(s + 1, &c, 10); return 0; }
    return -1;
}
static int parse_case(char *line, char *mode) {
    char *save = NULL, *tok, *p, *q, *ps = NULL, *qs = NULL; int i;
    tok = strtok_r(line, " ", &save); if (!tok) return -1; *mode = tok[0];
    tok = strtok_r(NULL, " ", &save); if (!tok) return -1; nth = atoi(tok);
    if (nth < 1 || nth > MAXTH) return -1;
    tok = strtok_r(NULL, " ", &save); if (!tok) return -1;
    ncb = 0;
    for (p = strtok_r(tok, ";", &ps); p; p = strtok_r(NULL, ";", &ps)) {
        if (ncb >= MAXCB) return -1;
        proglen[ncb] = 0;
        if (strcmp(p, "-")) for (q = strtok_r(p, ",", &qs); q; q = strtok_r(NULL, ",", &qs)) {
            if (proglen[ncb] >= MAXHOP || parse_hop(q, &prog[ncb][proglen[ncb]]) < 0) return -1;
            proglen[ncb]++;
        }
        ncb++;
    }
    nops = 0;
    while ((tok = strtok_r(NULL, " ", &save))) {
        struct op *o = &ops[nops]; char *c;
        if (nops >= MAXOPS) return -1;
        o->kind = tok[0];
        if (tok[0] == 't') {
            if (tok[1] != ':') return -1;
            o->ts.tv_sec = strtol(tok + 2, &c, 10); if (*c != '.') return -1; o->ts.tv_nsec = strtol(c + 1, &c, 10);
        } else if (tok[0] == 's' || tok[0] == 'c' || tok[0] == 'h') {
            o->th = strtol(tok + 1, &c, 10); if (*c != ':' || o->th < 0 || o->th >= nth) return -1;
            if (parse_hop(c + 1, &o->h) < 0) return -1;
        } else if (tok[0] == 'x') {
            o->th = strtol(tok + 1, &c, 10); if (*c != ':' || o->th < 0 || o->th >= nth) return -1;
            o->ts.tv_sec = strtol(c + 1, &c, 10); if (*c != '.') return -1; o->ts.tv_nsec = strtol(c + 1, &c, 10);
            if (*c != ':' || parse_hop(c + 1, &o->h) < 0 || (o->h.kind != 'K' && o->h.kind != 'X')) return -1;
        } else if (tok[0] == 'r') {
            o->th = atoi(tok + 1); if (o->th < 0 || o->th >= nth) return -1;
        } else return -1;
        nops++;
    }
    (void) i;
    return 0;
}

/* ---------------------------------------------------------------- running a case (in the child) */
static int printed;
static void flush_events(void) {
    pthread_mutex_lock(&em);
    if (op_res.kind) { printf("%c%ld=%ld ", op_res.kind, op_res.a, op_res.b); op_res.kind = 0; }
    for (; printed < nev; printed++) {
        struct ev *e = &evs[printed];
        if (e->kind == 'F') printf("F%ld@%ld.%ld ", e->a, (long) e->at.tv_sec, (long) e->at.tv_nsec);
        else if (e->kind == 'H') printf("H ");
        else if (par_mode && (e->kind == 'S' || e->kind == 's'))
            printf("%c%ld=%ld@%ld.%ld ", e->kind, e->a, e->b, (long) e->at.tv_sec, (long) e->at.tv_nsec);
        else printf("%c%ld=%ld ", e->kind, e->a, e->b);
    }
    pthread_mutex_unlock(&em);
}
static void run_case(char mode) {
    pthread_t tids[MAXTH]; int i, bad = 0, add_h = 0;
    vnow.tv_sec = 0; vnow.tv_nsec = 0;
    par_mode = mode == 'P';
    timer_init();
    if (settle() < 0) { printf("!timer thread did not start "); bad = 1; }
    if (mode != 'P') {
        for (i = 0; i < nth; i++) pthread_create(&tids[i], NULL, worker, (void *)(long) i);
        for (i = 0; i < nops && !bad; i++) {
            struct op *o = &ops[i];
            if (o->kind == 't') set_clock(&o->ts);
            else if (o->kind == 's' || o->kind == 'c') {
                post(o->th, o);
                if (wait_done(o->th, 3000) < 0) { flush_events(); printf("!op %d blocked (deadlock) ", i); bad = 1; break; }
            } else if (o->kind == 'x') {         /* cancel between the wait's time-out and its re-lock */
                struct timespec lim, rt; int parked = 0;
                pthread_mutex_lock(&hm); timeout_hook_armed = 1; pthread_mutex_unlock(&hm);
                set_clock(&o->ts);
                real_deadline(&lim, 3000);
                pthread_mutex_lock(&hm);
                for (;;) {
                    if (timeout_parked) { parked = 1; break; }
                    if (t_waiting && !wake_pending && !(t_timed && ts_le(&t_deadline, &vnow))) break;
                    __real_clock_gettime(CLOCK_REALTIME, &rt); if (ts_le(&lim, &rt)) { parked = -1; break; }
                    real_deadline(&rt, 5); __real_pthread_cond_timedwait(&hcv, &hm, &rt);
                }
                timeout_hook_armed = 0;
                pthread_mutex_unlock(&hm);
                if (parked < 0) { flush_events(); printf("!timer thread neither timed out nor at rest at op %d ", i); bad = 1; break; }
                post(o->th, o);
                if (wait_done(o->th, 3000) < 0) { flush_events(); printf("!op %d blocked (deadlock) ", i); bad = 1; break; }
                if (parked) { pthread_mutex_lock(&hm); timeout_release = 1; pthread_cond_broadcast(&hcv); pthread_mutex_unlock(&hm); }
            } else if (o->kind == 'h') {         /* set, caller parked inside pthread_cond_signal */
                pthread_mutex_lock(&hm); hold_next_signal = 1; pthread_mutex_unlock(&hm);
                post(o->th, o);
                {   struct timespec lim, rt; real_deadline(&lim, 3000);
                    pthread_mutex_lock(&hm);
                    while (!holder_parked) {
                        __real_clock_gettime(CLOCK_REALTIME, &rt); if (ts_le(&lim, &rt)) break;
                        real_deadline(&rt, 5); __real_pthread_cond_timedwait(&hcv, &hm, &rt);
                    }
                    if (!holder_parked) {       /* set did not signal (not a head insert): it simply returned */
                        hold_next_signal = 0; pthread_mutex_unlock(&hm);
                        if (wait_done(o->th, 3000) < 0) { printf("!held op %d lost ", i); bad = 1; break; }
                    } else { pthread_mutex_unlock(&hm); add_h = 1; }
                }
            } else if (o->kind == 'r') {
                int was;
                pthread_mutex_lock(&hm); was = holder_parked; holder_release = was;
                pthread_cond_broadcast(&hcv); pthread_mutex_unlock(&hm);
                if (was && wait_done(o->th, 3000) < 0) { printf("!release of op on thread %d failed ", o->th); bad = 1; break; }
            }
            if (settle() < 0) { flush_events(); printf("!timer thread not at rest after op %d ", i); bad = 1; break; }
            if (add_h) { ev_add('H', nseq, 0, NULL); add_h = 0; }
            flush_events(); printf("| ");
        }
        if (!bad) {
            pthread_mutex_lock(&wm); for (i = 0; i < nth; i++) job_state[i] = 3; pthread_cond_broadcast(&wcv); pthread_mutex_unlock(&wm);
            for (i = 0; i < nth; i++) pthread_join(tids[i], NULL);
        }
    } else {
        struct timespec last = vnow;
        pthread_barrier_init(&bar, NULL, nth + 1);
        for (i = 0; i < nth; i++) pthread_create(&tids[i], NULL, par_worker, (void *)(long) i);
        pthread_barrier_wait(&bar);
        for (i = 0; i < nops; i++) if (ops[i].kind == 't') { set_clock(&ops[i].ts); last = ops[i].ts; sched_yield(); }
        for (i = 0; i < nth; i++) pthread_join(tids[i], NULL);
        set_clock(&last);
        if (settle() < 0) { flush_events(); printf("!timer thread not at rest at end "); bad = 1; }
        flush_events(); printf("| ");
    }
    if (!bad) { timer_fini(); printf("."); }
    printf("\n");
    fflush(stdout);
}

static char line[1 << 20];
int main(void) {
    setvbuf(stdout, NULL, _IOFBF, 1 << 20);
    while (fgets(line, sizeof line, stdin)) {
        char mode, *nl = strchr(line, '\n'); pid_t pid; int st;
        if (nl) *nl = 0;
        if (parse_case(line, &mode) < 0) { printf("? bad case\n"); continue; }
        fflush(stdout);
        pid = fork();
        if (pid == 0) { alarm(60); printf("%c ", mode); run_case(mode); fflush(stdout); _exit(timed_out ? 3 : 0); }
        if (waitpid(pid, &st, 0) < 0 || !WIFEXITED(st) || (WEXITSTATUS(st) != 0 && WEXITSTATUS(st) != 3)) {
            printf("%c !child died status=%d\n", mode, st);
        }
    }
    return 0;
}
