/* nss_shim.c — substitutes the group and user databases of the daemon under test.
   Linked with -Wl,--wrap=getgrent_r,--wrap=setgrent,--wrap=endgrent,--wrap=getpwnam_r.
   The database is the text file named by VERIF_NSS_DB; its group part is read when the group stream is opened (see below):
     g <gid> <name>[,<name>...]      (a group entry; "-" for no members)
     u <name> <uid> [<n>]            (a passwd entry; first match wins; n = length of its GECOS field, so that a
                                      large n makes the entry exceed the caller's buffer: ERANGE until it has grown)
   VERIF_NSS_DELAY_US = microseconds every getgrent_r call takes (a slow directory service: widens the window in which
   a refresh of the group map is in progress).
*/
#include <errno.h>
#include <grp.h>
#include <pwd.h>
#include <stdio.h>
#include <stdlib.h>
#include <pthread.h>
#include <string.h>
#include <unistd.h>

#define MAXL 4096
static char **g_lines; static int g_n, g_pos;
static char **u_lines; static int u_n;

/* The group database is a STREAM, as in glibc's `files` backend: setgrent() opens the file only when the stream is not
   open — otherwise it merely rewinds the stream it has, i.e. the file it opened then, even if that file has meanwhile
   been replaced by rename() (vipw, gpasswd, usermod, sed -i) —, endgrent() closes it, and getgrent_r() without a
   setgrent() opens it.  A caller that wants to see the current file must therefore bracket every scan by
   setgrent() ... endgrent().  The user database has no stream: getpwnam_r looks at the current file (re-read at every
   setgrent() call and on first use). */
static int g_open;
static void close_groups(void) {
    int i;
    for (i = 0; i < g_n; i++) free(g_lines[i]);
    free(g_lines); g_lines = NULL; g_n = 0; g_open = 0;
}
static void load_file(int want_groups, int want_users) {
    const char *p = getenv("VERIF_NSS_DB"); FILE *f; char buf[1 << 16]; int i;
    if (want_groups) close_groups();
    if (want_users) { for (i = 0; i < u_n; i++) free(u_lines[i]); free(u_lines); u_lines = NULL; u_n = 0; }
    if (!p || !(f = fopen(p, "r"))) return;          /* e.g. EMFILE: no stream; getgrent_r then reports ENOENT, as glibc does */
    if (want_groups) { g_lines = calloc(MAXL, sizeof(char *)); g_open = 1; }
    if (want_users) u_lines = calloc(MAXL, sizeof(char *));
    while (fgets(buf, sizeof buf, f)) {
        buf[strcspn(buf, "\n")] = 0;
        if (want_groups && buf[0] == 'g' && g_n < MAXL) g_lines[g_n++] = strdup(buf + 2);
        else if (want_users && buf[0] == 'u' && u_n < MAXL) u_lines[u_n++] = strdup(buf + 2);
    }
    fclose(f);
}
static void load(void) { load_file(0, 1); }          /* user database only (getpwnam_r on first use) */
/* glibc serialises setgrent/getgrent_r/endgrent on ONE process-wide stream with a lock held for the whole call (the slow
   directory lookup included): two threads enumerating at the same time share the stream's position, each getting some of the
   entries */
static pthread_mutex_t g_lock = PTHREAD_MUTEX_INITIALIZER;
static int getgrent_locked(struct group *gr, char *buf, size_t buflen, struct group **res);
void __wrap_setgrent(void) {
    pthread_mutex_lock(&g_lock);
    load_file(!g_open, 1);                           /* stream already open: rewound, NOT re-opened */
    g_pos = 0;
    pthread_mutex_unlock(&g_lock);
}
void __wrap_endgrent(void) { pthread_mutex_lock(&g_lock); close_groups(); g_pos = 0; pthread_mutex_unlock(&g_lock); }

int __wrap_getgrent_r(struct group *gr, char *buf, size_t buflen, struct group **res) {
    int rv;
    pthread_mutex_lock(&g_lock);
    rv = getgrent_locked(gr, buf, buflen, res);
    pthread_mutex_unlock(&g_lock);
    return rv;
}

static int getgrent_locked(struct group *gr, char *buf, size_t buflen, struct group **res) {
    char *line, *sp, *names; size_t need; int nmem = 0, i; char *p, **mem, *s;
    *res = NULL;
    { const char *f = getenv("VERIF_NSS_FAIL"); if (f && access(f, F_OK) == 0) return EIO; }   /* scan fails */
    { const char *d = getenv("VERIF_NSS_DELAY_US"); if (d) usleep((useconds_t) atoi(d)); }
    if (!g_open) { load_file(1, 0); g_pos = 0; }      /* enumeration without setgrent(): the stream is opened now */
    if (!g_lines || g_pos >= g_n) return ENOENT;
    line = g_lines[g_pos];
    sp = strchr(line, ' ');
    names = sp ? sp + 1 : (char *) "-";
    if (strcmp(names, "-")) { nmem = 1; for (p = names; *p; p++) if (*p == ',') nmem++; }
    need = strlen(names) + 1 + 16 + (nmem + 1) * sizeof(char *) + 16;
    if (buflen < need) return ERANGE;             /* entry not consumed: caller grows the buffer and retries */
    g_pos++;
    gr->gr_gid = (gid_t) strtoul(line, NULL, 10);
    p = buf;
    gr->gr_name = p; p += sprintf(p, "g%u", (unsigned) gr->gr_gid) + 1;
    gr->gr_passwd = p; *p++ = 0;
    p = (char *) (((unsigned long) p + 7) & ~7UL);
    mem = (char **) p; p += (nmem + 1) * sizeof(char *);
    s = p; strcpy(s, names);
    for (i = 0; i < nmem; i++) { mem[i] = s; s = strchr(s, ','); if (s) *s++ = 0; }
    mem[nmem] = NULL;
    gr->gr_mem = mem;
    *res = gr;
    return 0;
}

static int getpwnam_locked(const char *name, struct passwd *pw, char *buf, size_t buflen, struct passwd **res);
int __wrap_getpwnam_r(const char *name, struct passwd *pw, char *buf, size_t buflen, struct passwd **res) {
    int rv;
    pthread_mutex_lock(&g_lock);        /* the shim's tables are reloaded by setgrent(); glibc's own call is thread-safe */
    rv = getpwnam_locked(name, pw, buf, buflen, res);
    pthread_mutex_unlock(&g_lock);
    return rv;
}

static int getpwnam_locked(const char *name, struct passwd *pw, char *buf, size_t buflen, struct passwd **res) {
    int i; size_t l = strlen(name);
    *res = NULL;
    if (!u_lines) load();
    for (i = 0; i < u_n; i++) {
        if (!strncmp(u_lines[i], name, l) && u_lines[i][l] == ' ') {
            char *e = NULL; size_t pad;
            unsigned long uid = strtoul(u_lines[i] + l + 1, &e, 10);
            pad = (e && *e == ' ') ? (size_t) strtoul(e + 1, NULL, 10) : 0;
            if (buflen < l + 8 + pad) return ERANGE;        /* *pw untouched, as with glibc */
            strcpy(buf, name);
            pw->pw_name = buf; pw->pw_passwd = buf + l; pw->pw_gecos = buf + l; pw->pw_dir = buf + l; pw->pw_shell = buf + l;
            if (pad) { memset(buf + l + 1, 'x', pad); buf[l + 1 + pad] = 0; pw->pw_gecos = buf + l + 1; }
            pw->pw_uid = (uid_t) uid;
            pw->pw_gid = pw->pw_uid;
            *res = pw;
            return 0;
        }
    }
    return 0;   /* not found: *res == NULL, rv 0 */
}
