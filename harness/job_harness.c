/* job_harness.c — runs /repo's src/munged/job.c, job_accept (), against a scripted environment and prints
 * the sequence of calls it makes.  Linked with job.c only: accept / time / close are wrapped
 * (-Wl,--wrap=), everything else job.c calls (work_*, log_*, m_msg_*, fd_set_nonblocking, gids_update) is
 * defined here.  Signals are delivered for real (raise () inside a call, handler as in munged.c's
 * sig_handler, flags got_terminate / got_reconfig defined here as munged.c defines them).  No edits in /repo.
 *
 * stdin : one script per line
 *     J <sigs|-> <entry> <entry> ...
 *   <sigs>   signals delivered before job_accept is called (letters: h SIGHUP, i SIGINT, t SIGTERM)
 *   <entry>  <ret>[/<sigs>]   consumed one per call, in the order of the calls, whatever the call is:
 *            the value returned and the signals raised before the call returns.
 *            accept: 0 = a new connection (descriptors 100, 101, ...), n > 0 = -1 with errno number n of
 *            the table below; time: the value returned; fd_set_nonblocking, m_msg_create, m_msg_bind,
 *            work_queue, work_init: 0 = success, else failure; others: ignored.
 *            When the script is exhausted the call never returns: the run ends as "stuck".
 * stdout: one line per script
 *     R out=<return|fatal|stuck|hang> log=<event>,<event>,...      (same text as extract/job/driver.ml)
 *   hang: job_accept made no call for argv[1] seconds (busy loop); the harness then exits with status 3.
 */
#define _GNU_SOURCE
#include <errno.h>
#include <setjmp.h>
#include <signal.h>
#include <stdarg.h>
#include <stdio.h>
#include <stdlib.h>
#include <string.h>
#include <syslog.h>
#include <sys/socket.h>
#include <sys/time.h>
#include <time.h>
#include <unistd.h>
#include <munge.h>
#include "conf.h"
#include "fd.h"
#include "gids.h"
#include "log.h"
#include "m_msg.h"
#include "work.h"

extern void job_accept (conf_t conf);

volatile sig_atomic_t got_reconfig = 0;      /* as in munged.c */
volatile sig_atomic_t got_terminate = 0;

static void
sig_handler (int sig)                        /* as in munged.c */
{
    if (sig == SIGHUP) {
        got_reconfig = sig;
    }
    else if ((sig == SIGINT) || (sig == SIGTERM)) {
        got_terminate = sig;
    }
}

static const struct { const char *name; int val; } errtab[] = {
    { "E0", 0 }, { "EINTR", EINTR }, { "ECONNABORTED", ECONNABORTED }, { "EMFILE", EMFILE }, { "ENFILE", ENFILE },
    { "ENOBUFS", ENOBUFS }, { "ENOMEM", ENOMEM }, { "EAGAIN", EAGAIN }, { "EBADF", EBADF }, { "EINVAL", EINVAL },
    { "EPERM", EPERM }, { "ENOTSOCK", ENOTSOCK }, { "EPROTO", EPROTO } };
#define NERR ((int) (sizeof (errtab) / sizeof (errtab[0])))
#define ERR_DEFAULT 9                        /* EINVAL: what an unknown position means (JobModel.errno_of_code) */

typedef struct { long long ret; char sigs[16]; } entry_t;
#define MAXENT 4096
static entry_t script[MAXENT];
static int n_script, pos;
static char *logbuf;
static size_t loglen, logcap;
static const char *outcome;
static sigjmp_buf env;
static int next_fd;

static void
ev (const char *fmt, ...)
{
    va_list ap;
    char tmp[256];
    int n;
    va_start (ap, fmt);
    n = vsnprintf (tmp, sizeof (tmp), fmt, ap);
    va_end (ap);
    if (loglen + n + 2 > logcap) {
        logcap = (logcap + n + 2) * 2;
        logbuf = realloc (logbuf, logcap);
    }
    if (loglen) logbuf[loglen++] = ',';
    memcpy (logbuf + loglen, tmp, n + 1);
    loglen += n;
}

static void
deliver (const char *sigs)
{
    for (; *sigs; sigs++) {
        int s = (*sigs == 'h') ? SIGHUP : (*sigs == 'i') ? SIGINT : (*sigs == 't') ? SIGTERM : 0;
        if (!s) continue;
        ev ("S:%d", (s == SIGHUP) ? 1 : (s == SIGINT) ? 2 : 15);
        raise (s);
    }
}

static entry_t *
next_entry (void)
{
    if (pos >= n_script) {                   /* the call never returns */
        outcome = "stuck";
        siglongjmp (env, 1);
    }
    return &script[pos++];
}

/* ---- what job.c calls ---------------------------------------------------- */
int
__wrap_accept (int fd, struct sockaddr *addr, socklen_t *len)
{
    entry_t *e = next_entry ();
    if (e->ret == 0) {
        int nfd = next_fd++;
        ev ("A:c%d", nfd);
        deliver (e->sigs);
        return nfd;
    }
    {
        int k = (e->ret > 0 && e->ret < NERR) ? (int) e->ret : ERR_DEFAULT;
        ev ("A:e%s", errtab[k].name);
        deliver (e->sigs);
        errno = errtab[k].val;
        return -1;
    }
}

time_t
__wrap_time (time_t *t)
{
    entry_t *e = next_entry ();
    ev ("T:%lld", e->ret);
    deliver (e->sigs);
    errno = EAGAIN;                          /* any library call may change errno */
    if (t) *t = (time_t) e->ret;
    return (time_t) e->ret;
}

int
__wrap_close (int fd)
{
    entry_t *e = next_entry ();
    ev ("C:%d", fd);
    deliver (e->sigs);
    return 0;
}

int
fd_set_nonblocking (int fd)
{
    entry_t *e = next_entry ();
    ev ("N:%d:%s", fd, e->ret == 0 ? "ok" : "fail");
    deliver (e->sigs);
    if (e->ret != 0) { errno = EBADF; return -1; }
    return 0;
}

munge_err_t
m_msg_create (m_msg_t *pm)
{
    entry_t *e = next_entry ();
    ev ("M:%s", e->ret == 0 ? "ok" : "fail");
    if (e->ret == 0) {
        m_msg_t m = calloc (1, sizeof (struct m_msg));
        if (!m) abort ();
        m->sd = -1;
        *pm = m;
    }
    deliver (e->sigs);
    return (e->ret == 0) ? EMUNGE_SUCCESS : EMUNGE_NO_MEMORY;
}

munge_err_t
m_msg_bind (m_msg_t m, int sd)
{
    entry_t *e = next_entry ();
    ev ("B:%d:%s", sd, e->ret == 0 ? "ok" : "fail");
    if (e->ret == 0) m->sd = sd;
    deliver (e->sigs);
    return (e->ret == 0) ? EMUNGE_SUCCESS : EMUNGE_SNAFU;
}

void
m_msg_destroy (m_msg_t m)
{
    entry_t *e = next_entry ();
    ev ("D:%d", m->sd);                      /* the real one closes m->sd when it is >= 0 */
    free (m);
    deliver (e->sigs);
}

static int work_dummy;

work_p
work_init (work_func_t f, int n_threads)
{
    entry_t *e = next_entry ();
    ev ("I:%s", e->ret == 0 ? "ok" : "fail");
    deliver (e->sigs);
    if (e->ret != 0) { errno = ENOMEM; return NULL; }
    return (work_p) &work_dummy;
}

int
work_queue (work_p wp, void *work)
{
    entry_t *e = next_entry ();
    m_msg_t m = work;
    ev ("Q:%d:%s", m->sd, e->ret == 0 ? "ok" : "fail");
    if (e->ret == 0) free (m);               /* now owned by a worker: a later use by the acceptor is a use after free */
    deliver (e->sigs);
    if (e->ret != 0) { errno = EPERM; return -1; }
    return 0;
}

void
work_wait (work_p wp)
{
    entry_t *e = next_entry ();
    ev ("W");
    deliver (e->sigs);
}

void
work_fini (work_p wp, int do_wait)
{
    entry_t *e = next_entry ();
    ev ("F:%d", do_wait ? 1 : 0);
    deliver (e->sigs);
}

void
gids_update (gids_t gids)
{
    entry_t *e = next_entry ();
    ev ("G");
    deliver (e->sigs);
}

static const char *
prio_name (int p)
{
    switch (p) {
        case LOG_ERR: return "err"; case LOG_WARNING: return "warning"; case LOG_NOTICE: return "notice";
        case LOG_INFO: return "info"; case LOG_DEBUG: return "debug"; default: return "other";
    }
}

static int
starts (const char *s, const char *pre)
{
    return strncmp (s, pre, strlen (pre)) == 0;
}

void
log_msg (int priority, const char *format, ...)
{
    va_list ap;
    char msg[1024];
    entry_t *e;
    va_start (ap, format);
    vsnprintf (msg, sizeof (msg), format, ap);
    va_end (ap);
    e = next_entry ();
    if (starts (msg, "Created ") && strstr (msg, " work thread"))
        ev ("L:%s:created:0", prio_name (priority));
    else if (starts (msg, "Processing signal "))
        ev ("L:%s:reconfig:%d", prio_name (priority), atoi (msg + strlen ("Processing signal ")));
    else if (starts (msg, "Failed to accept connection: ")) {
        const char *tail = msg + strlen ("Failed to accept connection: ");
        const char *name = "?";
        int k;
        for (k = 0; k < NERR; k++)
            if (strcmp (tail, strerror (errtab[k].val)) == 0) { name = errtab[k].name; break; }
        ev ("L:%s:acceptfail:%s", prio_name (priority), name);
    }
    else if (starts (msg, "Failed to set nonblocking client socket")) ev ("L:%s:nonblock:0", prio_name (priority));
    else if (starts (msg, "Failed to create client request")) ev ("L:%s:create:0", prio_name (priority));
    else if (starts (msg, "Failed to bind socket for client request")) ev ("L:%s:bind:0", prio_name (priority));
    else if (starts (msg, "Failed to queue client request")) ev ("L:%s:queue:0", prio_name (priority));
    else if (starts (msg, "Exiting on signal "))
        ev ("L:%s:exiting:%d", prio_name (priority), atoi (msg + strlen ("Exiting on signal ")));
    else ev ("L:%s:other:0", prio_name (priority));
    deliver (e->sigs);
}

void
log_errno (int status, int priority, const char *format, ...)
{
    /* the real one writes the message and calls exit (status) */
    if (starts (format, "Failed to create %d work thread")) ev ("X:init");
    else if (starts (format, "Failed to query current time")) ev ("X:time");
    else if (starts (format, "Failed to accept connection")) ev ("X:accept");
    else ev ("X:other");
    outcome = "fatal";
    siglongjmp (env, 1);
}

/* referenced by _job_exec only (never run here: work_queue does not call the work function) */
munge_err_t m_msg_recv (m_msg_t m, m_msg_type_t type, int maxlen) { abort (); }
int m_msg_set_err (m_msg_t m, munge_err_t e, char *s) { abort (); }
int enc_process_msg (m_msg_t m) { abort (); }
int dec_process_msg (m_msg_t m) { abort (); }
char *strdupf (const char *fmt, ...) { abort (); }
const char *munge_strerror (munge_err_t e) { abort (); }

/* ---- driver ----------------------------------------------------------------- */
static void
on_alarm (int sig)
{
    outcome = "hang";
    siglongjmp (env, 1);
}

static int
parse (char *line, char *initsigs, size_t n)
{
    char *save, *tok;
    n_script = 0;
    tok = strtok_r (line, " \t\r\n", &save);
    if (!tok || strcmp (tok, "J") != 0) return -1;
    tok = strtok_r (NULL, " \t\r\n", &save);
    if (!tok) return -1;
    snprintf (initsigs, n, "%s", strcmp (tok, "-") == 0 ? "" : tok);
    while ((tok = strtok_r (NULL, " \t\r\n", &save)) != NULL) {
        char *slash = strchr (tok, '/');
        char *end;
        if (n_script >= MAXENT) return -1;
        if (slash) *slash = 0;
        script[n_script].ret = strtoll (tok, &end, 10);
        if (*end || end == tok) return -1;
        snprintf (script[n_script].sigs, sizeof (script[n_script].sigs), "%s", slash ? slash + 1 : "");
        n_script++;
    }
    return 0;
}

int
main (int argc, char **argv)
{
    char *line = NULL;
    size_t cap = 0;
    struct sigaction sa;
    struct conf cf;
    int hang_secs = (argc > 1) ? atoi (argv[1]) : 5;

    memset (&sa, 0, sizeof (sa));
    sa.sa_handler = sig_handler;
    sigfillset (&sa.sa_mask);
    sigaction (SIGHUP, &sa, NULL);
    sigaction (SIGINT, &sa, NULL);
    sigaction (SIGTERM, &sa, NULL);
    sa.sa_handler = on_alarm;
    sigaction (SIGALRM, &sa, NULL);

    while (getline (&line, &cap, stdin) > 0) {
        char initsigs[16];
        if (parse (line, initsigs, sizeof (initsigs)) < 0) {
            printf ("? bad script\n");
            fflush (stdout);
            continue;
        }
        memset (&cf, 0, sizeof (cf));
        cf.ld = 5;
        cf.nthreads = 2;
        cf.gids = (gids_t) &work_dummy;
        pos = 0; loglen = 0; next_fd = 100;
        if (logbuf) logbuf[0] = 0;
        got_reconfig = 0; got_terminate = 0;
        outcome = "return";
        if (sigsetjmp (env, 1) == 0) {
            deliver (initsigs);
            alarm (hang_secs);
            job_accept (&cf);
        }
        alarm (0);
        printf ("R out=%s log=%s\n", outcome, loglen ? logbuf : "-");
        fflush (stdout);
        if (strcmp (outcome, "hang") == 0) {
            _exit (3);                       /* the caller restarts the harness for the remaining scripts */
        }
    }
    return 0;
}
