/* keywrap.c — linked into a mungekey built from /repo's sources with
 *   -Wl,--wrap=getrandom,--wrap=getentropy,--wrap=entropy_read_uint
 * so that the "kernel entropy" and the salt are known to the test:
 *   C20_IKM  hex bytes handed out by getrandom()/getentropy() (cycled if the request is longer)
 *   C20_SALT hex value stored by entropy_read_uint()
 *   C20_LOG  file receiving one line per intercepted call
 * No file in /repo is edited; only references from mungekey's own objects are redirected. */
#include <stdio.h>
#include <stdlib.h>
#include <string.h>
#include <sys/types.h>

static int hv (int c) { return (c >= '0' && c <= '9') ? c - '0' : (c >= 'a' && c <= 'f') ? c - 'a' + 10 : 0; }
static void note (const char *what, unsigned long a, unsigned long b) {
    const char *p = getenv ("C20_LOG"); FILE *f;
    if (p && (f = fopen (p, "a"))) { fprintf (f, "%s %lu %lu\n", what, a, b); fclose (f); }
}
static void fill (unsigned char *buf, size_t len) {
    const char *h = getenv ("C20_IKM"); size_t n = h ? strlen (h) / 2 : 0, i;
    for (i = 0; i < len; i++) buf[i] = n ? (unsigned char) (hv (h[2 * (i % n)]) * 16 + hv (h[2 * (i % n) + 1])) : 0;
}
#include <errno.h>
/* C20_GETRANDOM_FAIL=1: the kernel interfaces are unavailable (ENOSYS, as on an old kernel): the program has to fall back to
   its other kernel source (/dev/urandom), which stays the real one */
static int unavailable (void) { const char *f = getenv ("C20_GETRANDOM_FAIL"); return f && *f == '1'; }
ssize_t __wrap_getrandom (void *buf, size_t len, unsigned flags) {
    note ("getrandom", len, flags);
    if (unavailable ()) { errno = ENOSYS; return -1; }
    fill (buf, len); return len; }
int __wrap_getentropy (void *buf, size_t len) {
    note ("getentropy", len, 0);
    if (unavailable ()) { errno = ENOSYS; return -1; }
    fill (buf, len); return 0; }
int __wrap_entropy_read_uint (unsigned *up) {
    const char *s = getenv ("C20_SALT"); *up = s ? (unsigned) strtoul (s, NULL, 16) : 0;
    note ("entropy_read_uint", *up, 0); return 0;
}
