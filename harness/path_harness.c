/* path_harness.c — drives /repo's path.c on real directory trees (needs root: chown to arbitrary ids).
   usage: path_harness <base>      <base> is an empty scratch directory the harness may fill.
   Set-up: <base>/d1/d2/.../d6 with a regular file "f" in each, and symlinks <base>/L<k> -> d1/../dk.
   Case lines on stdin:
     P <euid> <tg|-> <flags> <form> <k> <a1,...,ak>     ai = uid:gid:mode(octal) applied to d_i (d_k = leaf)
        form: d = the directory itself, s = through the symlink L<k>, u = with ../ and ./ detours,
              f = the regular file f inside d_k (the loop must start at d_k)
     I <ruid> <euid> <suid> <rgid> <egid> <sgid> <tg|-> <flags> <form> <k> <a1,...,ak>
        the same call made by a forked child that has dropped its supplementary groups and done
        setresgid/setresuid to exactly that identity (any combination a process can have)
     A <k> <a1,...,ak>                                   path_is_accessible on d_k
     D <hex path>                                        path_dirname
   Answers:
     P <euid> <tg> <flags> <leaf_is_dir> <chain> => P 1 | P 0 <idx> <O|G|W> | P -1 <errno>
        left of "=>" is the oracle's input line: the chain is what lstat() reports for every prefix of the
        canonical path (computed here with realpath, independently of path.c), leaf first, "/" last.
     I <ruid>:<euid>:<suid>:<rgid>:<egid>:<sgid> <tg> <flags> <leaf_is_dir> <chain> => P ... (as above)
     A <chain> => A 1 | A 0 <idx> | A -1
     D <hex result> | D !                                                                      */
#define _GNU_SOURCE
#include "hexio.h"
#include <errno.h>
#include <limits.h>
#include <sys/stat.h>
#include <sys/types.h>
#include <sys/wait.h>
#include <grp.h>
#include <unistd.h>
#include "path.h"

#define MAXD 6
static char base[PATH_MAX];
static char line[1 << 16];

/* xgetgr.c/xgetpw.c (pulled in by query_gid for --trusted-group) only log through this */
void log_msg(int priority, const char *format, ...) { (void) priority; (void) format; }

static void die(const char *m) { perror(m); exit(3); }

static void dirpath(char *out, int k) {
    int i; char *p = out + sprintf(out, "%s", base);
    for (i = 1; i <= k; i++) p += sprintf(p, "/d%d", i);
}

static void setup(void) {
    char p[PATH_MAX], q[PATH_MAX + 16]; int k; FILE *f;
    for (k = 1; k <= MAXD; k++) {
        dirpath(p, k);
        if (mkdir(p, 0755) < 0 && errno != EEXIST) die("mkdir");
        snprintf(q, sizeof q, "%s/f", p);
        if (!(f = fopen(q, "w"))) die("fopen"); fclose(f);
        snprintf(q, sizeof q, "%s/L%d", base, k);
        unlink(q);
        if (symlink(p, q) < 0) die("symlink");
    }
}

/* number of '/' separated components */
static int depth_of(const char *p) { int n = 0; for (; *p; p++) if (*p == '/' && p[1]) n++; return n; }

/* prints the lstat chain of every prefix of canon (leaf first); returns leaf_is_dir; fills leafdir */
static int print_chain(const char *canon, char *leafdir, int with_flag) {
    char buf[PATH_MAX]; struct stat st; char *p; int first = 1, isdir;
    strcpy(buf, canon);
    if (lstat(buf, &st) < 0) die("lstat canon");
    isdir = S_ISDIR(st.st_mode);
    if (with_flag) printf("%d ", isdir);
    strcpy(leafdir, canon);
    if (!isdir) { p = strrchr(leafdir, '/'); if (p == leafdir) p[1] = 0; else *p = 0; }
    for (;;) {
        if (lstat(buf, &st) < 0) die("lstat prefix");
        printf("%s%u:%u:%04o", first ? "" : ",", (unsigned) st.st_uid, (unsigned) st.st_gid,
               (unsigned) (st.st_mode & 07777));
        first = 0;
        if (!strcmp(buf, "/")) break;
        p = strrchr(buf, '/');
        if (p == buf) buf[1] = 0; else *p = 0;
    }
    return isdir;
}

static int apply(int k, char *spec) {
    char p[PATH_MAX]; char *save = NULL, *tok; int i = 0;
    for (tok = strtok_r(spec, ",", &save); tok && i < k; tok = strtok_r(NULL, ",", &save)) {
        unsigned u, g, m;
        if (sscanf(tok, "%u:%u:%o", &u, &g, &m) != 3) return -1;
        i++;
        dirpath(p, i);
        if (chown(p, u, g) < 0) die("chown");
        if (chmod(p, m) < 0) die("chmod");     /* after chown: chown may clear setgid */
    }
    return i == k ? 0 : -1;
}

/* calls path_is_secure and prints " => P 1 | P 0 <idx> <O|G|W> | P -1 <errno>" */
static void call_secure(const char *path, const char *leafdir, unsigned flags, unsigned seteuid_to) {
    char ebuf[1024]; int rc, saved;
    if (seteuid_to != 0 && seteuid(seteuid_to) < 0) die("seteuid");
    ebuf[0] = 0;
    rc = path_is_secure(path, ebuf, sizeof ebuf, (path_security_flag_t) flags);
    saved = errno;
    if (seteuid_to != 0 && seteuid(0) < 0) die("seteuid back");
    if (rc == 1) printf(" => P 1\n");
    else if (rc < 0) printf(" => P -1 %d\n", saved);
    else {
        /* which directory is named (between the last pair of quotes) and which complaint */
        char *q1 = strchr(ebuf, '"'), *q2 = q1 ? strrchr(ebuf, '"') : NULL; char r = '?'; int idx = -1;
        if (!strncmp(ebuf, "invalid ownership", 17)) r = 'O';
        else if (!strncmp(ebuf, "group-writable", 14)) r = 'G';
        else if (!strncmp(ebuf, "world-writable", 14)) r = 'W';
        if (q1 && q2 && q2 > q1) {
            size_t n = (size_t) (q2 - q1 - 1), m = strlen(leafdir);
            *q2 = 0;
            /* the named directory must be a prefix of the canonical leaf directory */
            if (n <= m && !strncmp(q1 + 1, leafdir, n) && (leafdir[n] == '/' || leafdir[n] == 0 || n == 1))
                idx = depth_of(leafdir) - depth_of(q1 + 1);
        }
        printf(" => P 0 %d %c\n", idx, r);
    }
}

static void make_path(char *path, size_t len, char form, int k) {
    char *p; int i;
    if (form == 's') snprintf(path, len, "%s/L%d", base, k);
    else if (form == 'u') {
        p = path + sprintf(path, "%s", base);
        for (i = 1; i <= k; i++) p += sprintf(p, "/d%d/.././d%d", i, i);
        strcpy(p, "/.");
    }
    else { dirpath(path, k); if (form == 'f') strcat(path, "/f"); }
}

int main(int argc, char **argv) {
    if (argc < 2 || !realpath(argv[1], base)) { fprintf(stderr, "usage: path_harness <base>\n"); return 2; }
    setup();
    while (fgets(line, sizeof line, stdin)) {
        char *nl = strchr(line, '\n'); if (nl) *nl = 0;
        if (line[0] == 'P') {
            unsigned euid, flags; char tgs[32], form; int k; char spec[4096];
            char path[PATH_MAX * 2], canon[PATH_MAX], leafdir[PATH_MAX];
            if (sscanf(line, "P %u %31s %u %c %d %4095s", &euid, tgs, &flags, &form, &k, spec) != 6
                    || k < 1 || k > MAXD || apply(k, spec) < 0) { printf("? %s\n", line); continue; }
            make_path(path, sizeof path, form, k);
            if (!realpath(path, canon)) die("realpath");
            printf("P %u %s %u ", euid, !strcmp(tgs, "-") ? "4294967295" : tgs, flags);
            print_chain(canon, leafdir, 1);
            if (path_set_trusted_group(!strcmp(tgs, "-") ? NULL : tgs) < 0) { printf(" => P -2\n"); continue; }
            call_secure(path, leafdir, flags, euid);
        } else if (line[0] == 'I') {
            unsigned id[6], flags; char tgs[32], form; int k, st; char spec[4096]; pid_t pid;
            char path[PATH_MAX * 2], canon[PATH_MAX], leafdir[PATH_MAX];
            if (sscanf(line, "I %u %u %u %u %u %u %31s %u %c %d %4095s", &id[0], &id[1], &id[2], &id[3], &id[4],
                       &id[5], tgs, &flags, &form, &k, spec) != 11
                    || k < 1 || k > MAXD || apply(k, spec) < 0) { printf("? %s\n", line); continue; }
            make_path(path, sizeof path, form, k);
            if (!realpath(path, canon)) die("realpath");
            printf("I %u:%u:%u:%u:%u:%u %s %u ", id[0], id[1], id[2], id[3], id[4], id[5],
                   !strcmp(tgs, "-") ? "4294967295" : tgs, flags);
            print_chain(canon, leafdir, 1);
            if (path_set_trusted_group(!strcmp(tgs, "-") ? NULL : tgs) < 0) { printf(" => P -2\n"); continue; }
            fflush(stdout);
            pid = fork();
            if (pid < 0) die("fork");
            if (pid == 0) {
                uid_t r, e, sv; gid_t rg, eg, sg;
                if (setgroups(0, NULL) < 0) die("setgroups");
                if (setresgid(id[3], id[4], id[5]) < 0) die("setresgid");
                if (setresuid(id[0], id[1], id[2]) < 0) die("setresuid");
                if (getresuid(&r, &e, &sv) < 0 || getresgid(&rg, &eg, &sg) < 0 || r != id[0] || e != id[1]
                        || sv != id[2] || rg != id[3] || eg != id[4] || sg != id[5]) die("identity");
                call_secure(path, leafdir, flags, 0);
                fflush(stdout);
                _exit(0);
            }
            if (waitpid(pid, &st, 0) < 0 || !WIFEXITED(st) || WEXITSTATUS(st) != 0) {
                fprintf(stderr, "child failed on: %s\n", line); return 4; }
        } else if (line[0] == 'A') {
            int k, rc; char spec[4096], path[PATH_MAX], leafdir[PATH_MAX], ebuf[1024];
            if (sscanf(line, "A %d %4095s", &k, spec) != 2 || k < 1 || k > MAXD || apply(k, spec) < 0) {
                printf("? %s\n", line); continue; }
            dirpath(path, k);
            printf("A ");
            print_chain(path, leafdir, 0);
            ebuf[0] = 0;
            rc = path_is_accessible(path, ebuf, sizeof ebuf);
            if (rc == 1) printf(" => A 1\n");
            else if (rc < 0) printf(" => A -1\n");
            else {
                char *q1 = strchr(ebuf, '"'), *q2 = q1 ? strrchr(ebuf, '"') : NULL; int idx = -1;
                if (q1 && q2 && q2 > q1) { *q2 = 0; idx = depth_of(leafdir) - depth_of(q1 + 1); }
                printf(" => A 0 %d\n", idx);
            }
        } else if (line[0] == 'D') {
            int n; unsigned char *src = unhex(line + 2, &n); char *s = malloc(n + 1), *dst = malloc(n + 2);
            memcpy(s, src, n); s[n] = 0;
            if (path_dirname(s, dst, n + 2) < 0) printf("D !\n");
            else { printf("D "); puthex((unsigned char *) dst, (int) strlen(dst)); printf("\n"); }
            free(src); free(s); free(dst);
        } else printf("? %s\n", line);
        fflush(stdout);
    }
    return 0;
}
