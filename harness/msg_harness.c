/* msg_harness.c — drives /repo's m_msg.c through its public API (m_msg_create / m_msg_bind / m_msg_send /
   m_msg_recv / m_msg_destroy) over a socketpair, with the same case lines as `extract/msg/oracle`.
   Built with ASan+UBSan; malloc is wrapped (-Wl,--wrap=malloc) so that every request above the per-case
   heap limit fails, which makes the out-of-memory paths deterministic and keeps 2 GiB requests away.

   case lines
     S <code> <maxlen> <heaplimit> <msgstate>             m_msg_send of a message built from msgstate
     R <exptype> <maxlen> <heaplimit> <streamhex> <msgstate>   m_msg_recv into a message pre-set to msgstate
   msgstate = 8 tokens: 22 decimal members joined by ',' (type retry pkt_len cipher mac zip realm_len ttl
     addr_len time0 time1 client_uid client_gid cred_uid cred_gid auth_uid auth_gid data_len auth_s_len
     auth_c_len error_num error_len) then pkt realm addr data auth_s auth_c error as '-' (NULL) or 'x'<hex>
   answers
     S <rc> <wirehex|*>
     R <rc> <22 members> <pkt> <realm> <addr> <data> <auth_s> <auth_c> <error> nul=<0|1> ec=<0|1>
       pointers: '-' NULL; on rc == 0 'x'<hex of len bytes>; on rc != 0 '*' (contents may be unset)
   argv[1] = "nodestroy": do not free the message after a receive (used for cases where the model predicts
   a write beyond a member, after which the pointers in the struct cannot be trusted). */
#include "hexio.h"
#include <errno.h>
#include <pthread.h>
#include <signal.h>
#include <stdint.h>
#include <sys/socket.h>
#include <unistd.h>
#include <munge.h>
#include "m_msg.h"

static size_t heap_limit = (size_t) -1;
void *__real_malloc (size_t n);
void *__wrap_malloc (size_t n) { if (n > heap_limit) { errno = ENOMEM; return NULL; } return __real_malloc (n); }

static char *line;
#define LINE_MAX_ (1 << 23)

struct io { int fd; unsigned char *buf; size_t len, cap; };

static void *reader (void *arg) {
    struct io *x = arg; ssize_t n;
    x->cap = 1 << 16; x->len = 0; x->buf = __real_malloc (x->cap);
    for (;;) {
        if (x->len == x->cap) { x->cap *= 2; x->buf = realloc (x->buf, x->cap); }
        n = read (x->fd, x->buf + x->len, x->cap - x->len);
        if (n < 0 && errno == EINTR) continue;
        if (n <= 0) break;
        x->len += n;
    }
    return NULL;
}
static void *writer (void *arg) {
    struct io *x = arg; size_t off = 0; ssize_t n;
    while (off < x->len) {
        n = write (x->fd, x->buf + off, x->len - off);
        if (n < 0 && errno == EINTR) continue;
        if (n <= 0) break;
        off += n;
    }
    shutdown (x->fd, SHUT_WR);
    return NULL;
}

static char *next_tok (char **ps) {
    char *s = *ps, *t;
    while (*s == ' ') s++;
    if (!*s) return NULL;
    t = s; while (*s && *s != ' ') s++;
    if (*s) *s++ = 0;
    *ps = s; return t;
}

/* 'x'<hex> -> exact-size heap copy (so that ASan sees an over-read by the packer), '-' -> NULL */
static void *tok_buf (const char *t, int *len) {
    unsigned char *b; int n;
    if (!t || t[0] != 'x') { *len = 0; return NULL; }
    if (!t[1]) { *len = 0; return __real_malloc (1); }
    b = unhex (t + 1, &n); *len = n; return b;
}

static int fill (m_msg_t m, char **ps, int with_bufs) {
    char *nums = next_tok (ps), *t; unsigned long v[22]; int i, n; char *save = NULL, *q;
    if (!nums) return -1;
    for (i = 0, q = strtok_r (nums, ",", &save); q && i < 22; q = strtok_r (NULL, ",", &save)) v[i++] = strtoul (q, NULL, 10);
    if (i != 22) return -1;
    m->type = v[0]; m->retry = v[1]; m->pkt_len = v[2]; m->cipher = v[3]; m->mac = v[4]; m->zip = v[5];
    m->realm_len = v[6]; m->ttl = v[7]; m->addr_len = v[8]; m->time0 = v[9]; m->time1 = v[10];
    m->client_uid = v[11]; m->client_gid = v[12]; m->cred_uid = v[13]; m->cred_gid = v[14];
    m->auth_uid = v[15]; m->auth_gid = v[16]; m->data_len = v[17]; m->auth_s_len = v[18];
    m->auth_c_len = v[19]; m->error_num = v[20]; m->error_len = v[21];
    t = next_tok (ps);                                   /* pkt: always NULL on entry */
    t = next_tok (ps); if (with_bufs) m->realm_str = tok_buf (t, &n);
    t = next_tok (ps);
    if (t && t[0] == 'x') { unsigned char *a = unhex (t + 1, &n); memcpy (&m->addr, a, n < (int) sizeof m->addr ? n : (int) sizeof m->addr); free (a); }
    t = next_tok (ps); if (with_bufs) m->data = tok_buf (t, &n);
    t = next_tok (ps); if (with_bufs) m->auth_s_str = tok_buf (t, &n);
    t = next_tok (ps); if (with_bufs) m->auth_c_str = tok_buf (t, &n);
    t = next_tok (ps); if (with_bufs) m->error_str = tok_buf (t, &n);
    return 0;
}

static char *outp; static size_t outn, outcap;
static void outf (const char *fmt, ...) __attribute__ ((format (printf, 1, 2)));
#include <stdarg.h>
static void outf (const char *fmt, ...) {
    va_list ap; int n;
    for (;;) {
        va_start (ap, fmt); n = vsnprintf (outp + outn, outcap - outn, fmt, ap); va_end (ap);
        if ((size_t) n < outcap - outn) { outn += n; return; }
        outcap = (outcap + n) * 2; outp = realloc (outp, outcap);
    }
}
static void outhex (const unsigned char *b, size_t n) { size_t i; for (i = 0; i < n; i++) outf ("%02x", b[i]); }
static void outptr (int ok, const void *p, size_t len, int *nul) {
    if (!p) { outf (" -"); return; }
    if (!ok) { outf (" *"); return; }
    outf (" x"); outhex (p, len);
    if (((const unsigned char *) p)[len] != 0) *nul = 0;
}

static void do_send (char *s) {
    int sp[2]; m_msg_t m; pthread_t th; struct io rd; munge_err_t e;
    char *c = next_tok (&s), *ml = next_tok (&s), *hl = next_tok (&s);
    if (!c || !ml || !hl || socketpair (AF_UNIX, SOCK_STREAM, 0, sp) < 0 || m_msg_create (&m) != EMUNGE_SUCCESS) { outf ("? S"); return; }
    if (fill (m, &s, 1) < 0) { outf ("? S fill"); return; }
    m_msg_bind (m, sp[0]);
    rd.fd = sp[1]; pthread_create (&th, NULL, reader, &rd);
    heap_limit = strtoull (hl, NULL, 10);
    e = m_msg_send (m, (m_msg_type_t) atoi (c), atoi (ml));
    heap_limit = (size_t) -1;
    shutdown (sp[0], SHUT_WR);
    pthread_join (th, NULL);
    outf ("S %d ", (int) e);
    if (e == EMUNGE_SUCCESS) { if (rd.len) outhex (rd.buf, rd.len); else outf ("-"); } else outf ("*");
    free (rd.buf);
    m_msg_destroy (m);
    close (sp[1]);
}

static void do_recv (char *s, int nodestroy) {
    int sp[2]; m_msg_t m; pthread_t th; struct io wr; munge_err_t e; int n, ok, nul = 1, ec;
    char *x = next_tok (&s), *ml = next_tok (&s), *hl = next_tok (&s), *st = next_tok (&s);
    if (!x || !ml || !hl || !st || socketpair (AF_UNIX, SOCK_STREAM, 0, sp) < 0 || m_msg_create (&m) != EMUNGE_SUCCESS) { outf ("? R"); return; }
    if (fill (m, &s, 0) < 0) { outf ("? R fill"); return; }
    m_msg_bind (m, sp[0]);
    wr.fd = sp[1]; wr.buf = unhex (st, &n); wr.len = n;
    pthread_create (&th, NULL, writer, &wr);
    heap_limit = strtoull (hl, NULL, 10);
    e = m_msg_recv (m, (m_msg_type_t) atoi (x), atoi (ml));
    heap_limit = (size_t) -1;
    ok = (e == EMUNGE_SUCCESS) && !nodestroy;   /* nodestroy: pointers are not dereferenced either */
    outf ("R %d %u,%u,%lu,%u,%u,%u,%u,%lu,%u,%lu,%lu,%lu,%lu,%lu,%lu,%lu,%lu,%lu,%lu,%lu,%u,%u", (int) e,
        m->type, m->retry, (unsigned long) m->pkt_len, m->cipher, m->mac, m->zip, m->realm_len,
        (unsigned long) m->ttl, m->addr_len, (unsigned long) m->time0, (unsigned long) m->time1,
        (unsigned long) m->client_uid, (unsigned long) m->client_gid, (unsigned long) m->cred_uid,
        (unsigned long) m->cred_gid, (unsigned long) m->auth_uid, (unsigned long) m->auth_gid,
        (unsigned long) m->data_len, (unsigned long) m->auth_s_len, (unsigned long) m->auth_c_len,
        m->error_num, m->error_len);
    outf (m->pkt ? " *" : " -");
    outptr (ok, m->realm_str, m->realm_len, &nul);
    outf (" x"); outhex ((unsigned char *) &m->addr, sizeof m->addr);
    outptr (ok, m->data, m->data_len, &nul);
    outptr (ok, m->auth_s_str, m->auth_s_len, &nul);
    outptr (ok, m->auth_c_str, m->auth_c_len, &nul);
    outptr (ok, m->error_str, m->error_len, &nul);
    ec = (!nodestroy && e != EMUNGE_SUCCESS && m->error_str && m->error_len == (uint8_t) (strlen (m->error_str) + 1));
    outf (" nul=%d ec=%d", nul, ec);
    shutdown (sp[0], SHUT_RDWR);
    pthread_join (th, NULL);
    free (wr.buf);
    if (!nodestroy) m_msg_destroy (m);
    close (sp[1]);
}

int main (int argc, char **argv) {
    int nodestroy = (argc > 1 && !strcmp (argv[1], "nodestroy"));
    signal (SIGPIPE, SIG_IGN);
    line = __real_malloc (LINE_MAX_);
    outcap = 1 << 16; outp = __real_malloc (outcap);
    while (fgets (line, LINE_MAX_, stdin)) {
        char *nl = strchr (line, '\n'); if (nl) *nl = 0;
        outn = 0; outp[0] = 0;
        if (line[0] == 'S' && line[1] == ' ') do_send (line + 2);
        else if (line[0] == 'R' && line[1] == ' ') do_recv (line + 2, nodestroy);
        else outf ("? %s", line);
        /* the answer is printed only after the message was destroyed: a crash while freeing a corrupted
           struct is then attributed to this case */
        puts (outp); fflush (stdout);
    }
    return 0;
}
