/* gids_harness.c — drives /repo's gids.c + hash.c + xgetgr.c + xgetpw.c with the same case
   lines as `extract/gids/oracle`.

   Link line (tools/props/c17.py): gids.c hash.c xgetgr.c xgetpw.c from /repo, this file, and
     -Wl,--wrap=getgrent_r,--wrap=setgrent,--wrap=endgrent,--wrap=getpwnam_r,--wrap=stat,--wrap=lstat,--wrap=time
   The wrapped NSS calls serve the databases of the case line (laid out inside the caller's
   buffer at exactly entry_need bytes, ERANGE until the buffer is big enough); stat("/etc/group")
   and time() are virtual; timer_set_relative/timer_cancel are stubs that record the callback so
   that the harness fires _gids_map_update itself.  -DGIDS_ERANGE_ADVANCES (together with
   -DHAVE_GETGRENT_R_ERANGE_BROKEN=1 for xgetgr.c) builds the variant in which a failed
   getgrent_r has consumed the entry, so that the restart loop of _gids_map_create is reached.

   Each case line runs in a forked child (fresh static buffers, a crash costs one line).

   line   := V<g|b> I<interval>,<dostat> U<uid,...>|<gid,...> op...
   op     := G<db> | P<pw> | M<mtime>|M! | R<now>[/<sched>] | S | Q<u>,<g> | A | X<now>[/<sched>]
   db     := - | entry;entry...      entry := <gid>:<name>,<name>...   (name ~ = empty string)
   pw     := - | <name>=<uid>|! ,...  (first match wins, ! = getpwnam_r fails with EIO)
   sched  := item.item...            item := e<k> | f<k>  (pass i: after k entries ERANGE / EIO)
   output := one token per R,S,Q,A op, two per X op (see emit calls), space separated                       */
#define _GNU_SOURCE 1
#if HAVE_CONFIG_H
#  include "config.h"
#endif
#include <sys/types.h>
#include <sys/stat.h>
#include <sys/wait.h>
#include <errno.h>
#include <grp.h>
#include <pwd.h>
#include <pthread.h>
#include <sched.h>
#include <stdarg.h>
#include <stdio.h>
#include <stdlib.h>
#include <string.h>
#include <time.h>
#include <unistd.h>
#include <munge.h>
#include "conf.h"
#include "gids.h"
#include "hash.h"
#include "log.h"
#include "timer.h"
#ifdef __SANITIZE_ADDRESS__
#include <sanitizer/lsan_interface.h>
#endif

/* ------------------------------------------------------------------ stubs */
static struct conf the_conf;
conf_t conf = &the_conf;

void log_msg (int priority, const char *format, ...) { (void) priority; (void) format; }
void log_errno (int status, int priority, const char *format, ...) {
    /* fatal in munged */
    fprintf (stderr, "harness: log_errno(%d): %s (errno %d)\n", status, format, errno); abort ();
}
void log_err (int status, int priority, const char *format, ...) {
    fprintf (stderr, "harness: log_err(%d): %s\n", status, format); abort ();
}

static callback_f t_cb; static void *t_arg; static long t_msec, t_id, t_next = 1;
static pthread_mutex_t t_mx = PTHREAD_MUTEX_INITIALIZER;
long timer_set_relative (callback_f cb, void *arg, long msec) {
    long id;
    pthread_mutex_lock (&t_mx);
    t_cb = cb; t_arg = arg; t_msec = msec; id = t_id = t_next++;
    pthread_mutex_unlock (&t_mx);
    return id;
}
int timer_cancel (long id) {
    int r = 0;
    pthread_mutex_lock (&t_mx);
    if (t_id > 0 && id == t_id) { t_id = 0; t_cb = NULL; r = 1; }
    pthread_mutex_unlock (&t_mx);
    return r;
}

/* ------------------------------------------------------------------ fake databases */
struct fent { gid_t gid; int nmem; char **mem; };
struct fpwe { char *name; int err; uid_t uid; };
static struct fent *fdb; static int fdb_n;
static struct fpwe *fpw; static int fpw_n;
static time_t f_mtime; static int f_stat_fail; static time_t f_now;

static int gr_pos, pass_no, fired, slow;
static struct { char kind; int k; } sched[64]; static int sched_n;
static int n_setgrent, n_getgrent, n_stat; static size_t last_buflen;

static size_t entry_need (const struct fent *e) {
    size_t n = 8 * ((size_t) e->nmem + 1) + 6; int i;
    for (i = 0; i < e->nmem; i++) n += strlen (e->mem[i]) + 1;
    return n;
}

void __wrap_setgrent (void) { gr_pos = 0; pass_no++; fired = 0; n_setgrent++; }
void __wrap_endgrent (void) { }

int __wrap_getgrent_r (struct group *grp, char *buf, size_t buflen, struct group **result) {
    const struct fent *e; size_t need; char *p; int i;
    n_getgrent++; last_buflen = buflen; *result = NULL;
    if (slow) usleep (40);
    if (pass_no >= 1 && pass_no - 1 < sched_n && !fired && sched[pass_no - 1].k == gr_pos) {
        fired = 1;
        if (sched[pass_no - 1].kind == 'f') return EIO;
#ifdef GIDS_ERANGE_ADVANCES
        gr_pos++;
#endif
        return ERANGE;
    }
    if (gr_pos >= fdb_n) return ENOENT;
    e = &fdb[gr_pos]; need = entry_need (e);
    if (buflen < need) {
#ifdef GIDS_ERANGE_ADVANCES
        gr_pos++;
#endif
        return ERANGE;
    }
    /* exact layout inside the caller's buffer: pointer array, "grp", "x", members */
    grp->gr_mem = (char **) buf; p = buf + 8 * ((size_t) e->nmem + 1);
    grp->gr_name = p; memcpy (p, "grp", 4); p += 4;
    grp->gr_passwd = p; memcpy (p, "x", 2); p += 2;
    for (i = 0; i < e->nmem; i++) {
        size_t l = strlen (e->mem[i]) + 1;
        grp->gr_mem[i] = p; memcpy (p, e->mem[i], l); p += l;
    }
    grp->gr_mem[e->nmem] = NULL;
    grp->gr_gid = e->gid;
    if ((size_t) (p - buf) != need) abort ();
    gr_pos++; *result = grp;
    return 0;
}

int __wrap_getpwnam_r (const char *name, struct passwd *pwd, char *buf, size_t buflen,
                       struct passwd **result) {
    size_t l = strlen (name) + 1; int i; unsigned h = 0; const char *q;
    *result = NULL;
    if (buflen < l + 8) return ERANGE;
    for (i = 0; i < fpw_n; i++) {
        if (strcmp (fpw[i].name, name)) continue;
        if (fpw[i].err) return EIO;
        memset (pwd, 0, sizeof *pwd);
        memcpy (buf, name, l); pwd->pw_name = buf;
        memcpy (buf + l, "x", 2); pwd->pw_passwd = buf + l;
        pwd->pw_gecos = pwd->pw_dir = pwd->pw_shell = buf + l + 1;
        pwd->pw_uid = fpw[i].uid; pwd->pw_gid = 0;
        *result = pwd;
        return 0;
    }
    /* "not found" comes in several shapes */
    for (q = name; *q; q++) h = h * 31 + (unsigned char) *q;
    switch (h % 3) { case 0: return 0; case 1: return ENOENT; default: return ESRCH; }
}

int __real_stat (const char *path, struct stat *st);
int __wrap_stat (const char *path, struct stat *st) {
    if (strcmp (path, GIDS_GROUP_FILE)) return __real_stat (path, st);
    n_stat++;
    if (f_stat_fail) { errno = ENOENT; return -1; }
    memset (st, 0, sizeof *st); st->st_mtime = f_mtime; st->st_mode = S_IFREG | 0644;
    return 0;
}

/* the group file is a regular file here: lstat and stat agree (the symlink case is in gids_timer_harness.c) */
int __real_lstat (const char *path, struct stat *st);
int __wrap_lstat (const char *path, struct stat *st) {
    if (strcmp (path, GIDS_GROUP_FILE)) return __real_lstat (path, st);
    return __wrap_stat (path, st);
}

time_t __wrap_time (time_t *t) { if (t) *t = f_now; return f_now; }

/* ------------------------------------------------------------------ parsing */
static void free_db (void) {
    int i, j;
    for (i = 0; i < fdb_n; i++) { for (j = 0; j < fdb[i].nmem; j++) free (fdb[i].mem[j]); free (fdb[i].mem); }
    free (fdb); fdb = NULL; fdb_n = 0;
}
static void free_pw (void) {
    int i; for (i = 0; i < fpw_n; i++) free (fpw[i].name);
    free (fpw); fpw = NULL; fpw_n = 0;
}
static char *name_dup (const char *s, size_t n) {
    if (n == 1 && s[0] == '~') n = 0;
    return strndup (s, n);
}
static void parse_db (const char *s) {
    free_db ();
    if (!strcmp (s, "-")) return;
    while (*s) {
        const char *end = strchr (s, ';'); const char *colon; struct fent *e;
        if (!end) end = s + strlen (s);
        fdb = realloc (fdb, (fdb_n + 1) * sizeof *fdb); e = &fdb[fdb_n++];
        e->gid = (gid_t) strtoul (s, NULL, 10); e->nmem = 0; e->mem = NULL;
        colon = memchr (s, ':', end - s);
        if (colon) {
            const char *m = colon + 1;
            while (m < end) {
                const char *c = memchr (m, ',', end - m); if (!c) c = end;
                e->mem = realloc (e->mem, (e->nmem + 1) * sizeof (char *));
                e->mem[e->nmem++] = name_dup (m, c - m);
                m = c + 1;
            }
        }
        s = *end ? end + 1 : end;
    }
}
static void parse_pw (const char *s) {
    free_pw ();
    if (!strcmp (s, "-")) return;
    while (*s) {
        const char *end = strchr (s, ','); const char *eq; struct fpwe *e;
        if (!end) end = s + strlen (s);
        eq = memchr (s, '=', end - s);
        fpw = realloc (fpw, (fpw_n + 1) * sizeof *fpw); e = &fpw[fpw_n++];
        e->name = name_dup (s, eq - s);
        e->err = (eq[1] == '!'); e->uid = e->err ? 0 : (uid_t) strtoul (eq + 1, NULL, 10);
        s = *end ? end + 1 : end;
    }
}
static void parse_sched (const char *s) {
    sched_n = 0;
    while (s && *s && sched_n < 64) {
        sched[sched_n].kind = *s; sched[sched_n].k = atoi (s + 1); sched_n++;
        s = strchr (s, '.'); if (s) s++;
    }
}

/* ------------------------------------------------------------------ the case */
static uid_t *U; static gid_t *G; static int nU, nG;
static gids_t gids;
static char out[1 << 22]; static size_t outn;
static void emit (const char *fmt, ...) {
    va_list ap; va_start (ap, fmt);
    if (outn) out[outn++] = ' ';
    outn += vsnprintf (out + outn, sizeof out - outn - 2, fmt, ap);
    va_end (ap);
}
static void sweep (char *bits) {
    int i, j;
    for (i = 0; i < nU; i++) for (j = 0; j < nG; j++)
        bits[i * nG + j] = gids_is_member (gids, U[i], G[j]) ? '1' : '0';
    bits[nU * nG] = 0;
}

/* fire the recorded timer: returns 0 when none is pending */
static int fire (time_t now, const char *sch) {
    callback_f cb; void *arg;
    pthread_mutex_lock (&t_mx);
    cb = t_cb; arg = t_arg; t_cb = NULL; t_id = 0;
    pthread_mutex_unlock (&t_mx);
    if (!cb) return 0;
    parse_sched (sch); pass_no = 0; n_setgrent = n_getgrent = n_stat = 0; last_buflen = 0;
    f_now = now;
    cb (arg);
    return 1;
}
static void emit_r (void) {
    char tm[32], bl[32];
    if (t_cb) snprintf (tm, sizeof tm, "%ld", t_msec); else strcpy (tm, "-");
#ifdef GIDS_ERANGE_ADVANCES
    strcpy (bl, "-");
#else
    if (n_getgrent) snprintf (bl, sizeof bl, "%lu", (unsigned long) last_buflen); else strcpy (bl, "-");
#endif
    emit ("r%d%d/%s/%s", n_stat > 0, n_setgrent > 0, tm, bl);
}

/* lookups from a second thread while the update runs */
struct lk { int stop; int *log; int cap, n; };
#define STOPPED(k) __atomic_load_n (&(k)->stop, __ATOMIC_ACQUIRE)
static void *looker (void *a) {
    struct lk *k = a; int i, j;
    while (!STOPPED (k)) {
        for (i = 0; i < nU && !STOPPED (k); i++) for (j = 0; j < nG; j++) {
            int r = gids_is_member (gids, U[i], G[j]);
            if (k->n < k->cap) k->log[k->n++] = ((i * nG + j) << 1) | r;
        }
        sched_yield ();
    }
    return NULL;
}

static void run_case (char *line) {
    char *save = NULL, *tok; int interval = 0, dostat = 0; char *bits;
    outn = 0; out[0] = 0;
    tok = strtok_r (line, " ", &save);                    /* V<g|b>, informative */
    tok = strtok_r (NULL, " ", &save); sscanf (tok, "I%d,%d", &interval, &dostat);
    tok = strtok_r (NULL, " ", &save);
    {   char *bar = strchr (tok, '|'), *p; *bar = 0;
        for (p = tok + 1; *p; ) { U = realloc (U, (nU + 1) * sizeof *U); U[nU++] = (uid_t) strtoul (p, &p, 10); if (*p == ',') p++; }
        for (p = bar + 1; *p; ) { G = realloc (G, (nG + 1) * sizeof *G); G[nG++] = (gid_t) strtoul (p, &p, 10); if (*p == ',') p++; }
    }
    bits = malloc ((size_t) nU * nG + 1);
    f_mtime = 0; f_stat_fail = 0; f_now = 0;
    gids = gids_create (interval, dostat);
    while ((tok = strtok_r (NULL, " ", &save))) {
        char *sl;
        switch (tok[0]) {
        case 'G': parse_db (tok + 1); break;
        case 'P': parse_pw (tok + 1); break;
        case 'M': if (tok[1] == '!') f_stat_fail = 1; else { f_stat_fail = 0; f_mtime = (time_t) atoll (tok + 1); } break;
        case 'S': gids_update (gids); emit ("s/%ld", t_cb ? t_msec : -1L); break;
        case 'Q': { unsigned long u, g; sscanf (tok + 1, "%lu,%lu", &u, &g);
                    emit ("q%d", gids_is_member (gids, (uid_t) u, (gid_t) g)); break; }
        case 'A': sweep (bits); emit ("a%s", bits); break;
        case 'R':
            sl = strchr (tok, '/'); if (sl) *sl++ = 0;
            if (!fire ((time_t) atoll (tok + 1), sl)) emit ("r--"); else emit_r ();
            break;
        case 'X': {
            struct lk k; pthread_t th; char *oldb = malloc ((size_t) nU * nG + 1); int i, ok = 1, switched = 0;
            const char *why = "";
            sl = strchr (tok, '/'); if (sl) *sl++ = 0;
            sweep (oldb);
            k.stop = 0; k.cap = 1 << 20; k.n = 0; k.log = malloc (k.cap * sizeof (int));
            pthread_create (&th, NULL, looker, &k);
            slow = 1;
            if (!fire ((time_t) atoll (tok + 1), sl)) ok = 0, why = "no-timer";
            slow = 0;
            usleep (200);
            __atomic_store_n (&k.stop, 1, __ATOMIC_RELEASE); pthread_join (th, NULL);
            sweep (bits);
            for (i = 0; i < k.n && ok; i++) {
                int idx = k.log[i] >> 1, r = '0' + (k.log[i] & 1);
                if (r != oldb[idx] && r != bits[idx]) { ok = 0; why = "neither"; }
                else if (oldb[idx] != bits[idx]) {
                    if (r == bits[idx]) switched = 1;
                    else if (switched) { ok = 0; why = "old-after-new"; }
                } else if (r != bits[idx]) { ok = 0; why = "partial"; }
            }
            emit ("x%d%s", ok, why);
            if (strcmp (why, "no-timer")) emit_r (); else emit ("r--");
            free (k.log); free (oldb);
            break; }
        default: emit ("?%s", tok);
        }
    }
    gids_destroy (gids);
    hash_drop_memory ();
    free_db (); free_pw (); free (bits); free (U); free (G); U = NULL; G = NULL; nU = nG = 0;
#ifdef __SANITIZE_ADDRESS__
    if (__lsan_do_recoverable_leak_check ()) emit ("!leak");
#endif
    puts (out); fflush (stdout);
}

int main (int argc, char **argv) {
    char *line = NULL; size_t cap = 0; ssize_t n;
    int nofork = (argc > 1 && !strcmp (argv[1], "--nofork"));
    static char res[1 << 22];
    while ((n = getline (&line, &cap, stdin)) > 0) {
        pid_t pid; int st = 0, fd[2]; size_t got = 0; ssize_t r;
        if (line[n - 1] == '\n') line[n - 1] = 0;
        if (nofork) { run_case (line); continue; }
        fflush (stdout);
        if (pipe (fd) < 0) { perror ("pipe"); return 2; }
        pid = fork ();
        if (pid == 0) {
            close (fd[0]); dup2 (fd[1], 1); close (fd[1]);
            run_case (line); _exit (0);
        }
        close (fd[1]);
        while ((r = read (fd[0], res + got, sizeof res - 1 - got)) > 0) got += r;
        close (fd[0]); res[got] = 0;
        if (got && res[got - 1] == '\n') res[--got] = 0;
        /* exactly one line per case, whatever happens to the child */
        if (pid < 0 || waitpid (pid, &st, 0) < 0 || !WIFEXITED (st) || WEXITSTATUS (st) != 0)
            printf ("!crash status=0x%x %s\n", st, res);
        else
            printf ("%s\n", res);
        fflush (stdout);
    }
    free (line);
    return 0;
}
