/* work_harness.c — drives /repo's src/munged/work.c through its public API
 * (work_init / work_queue / work_wait / work_fini) with generated programs and
 * logs every critical section of work.c as an event, by wrapping the pthread
 * calls made by work.c (-Wl,--wrap=...).  No edits in /repo.
 *
 * stdin : one program per line
 *     P <n_workers> <seed> <perturb 0..3>[a] <op> <op> ...      (a: whole program on one CPU)
 *   ops: q<count>,<usec>  enqueue <count> items whose job lasts about <usec>
 *        w                work_wait
 *        s<usec>          the acceptor sleeps
 *        B                wait until every enqueued item has been started
 *        I                wait until all workers are blocked on received_work
 *        f<0|1>           work_fini (w, do_wait); always last (f1 appended if absent)
 * stdout: one line per program
 *     R n=.. items=.. proc=c0.c1... waitret=p.p.. cancelpend=.. finiret=.. qfail=.. hang=0 trace=ev,ev,...
 *   proc       per item: number of times the job function ran on it
 *   waitret    per work_wait: items accepted and not finished at the moment it returned
 *   cancelpend same, at the first pthread_cancel issued by work_fini
 *   finiret    same, when work_fini returned
 * events (order = order of the critical sections, taken under work.c's own lock):
 *     s:i:o:g r:i:o:g f:i:o:g   worker i section (s first lock, r cond_wait returned, f job returned),
 *                               outcome o = W cond_wait / U unlock (took a job) / D cancelled at testcancel,
 *                               g = 1 when finished_work was signalled inside the section
 *     d:i       worker i cancelled inside pthread_cond_wait
 *     J:i:x     worker i entered the job function with item x
 *     Q:x       work_queue critical section for item x      G  pthread_cond_signal (received_work)
 *     W:E:o W:K:o   work_wait guard test (E first, K after a wake-up), o = B blocks / X returns
 *     Z:E:o Z:K:o Z:N:X   same for work_fini (N: do_wait = 0)
 *     C:i  pthread_cancel (worker i)      N:i  pthread_join (worker i) returned
 */
#define _GNU_SOURCE
#include <pthread.h>
#include <sched.h>
#include <stdio.h>
#include <stdlib.h>
#include <string.h>
#include <unistd.h>
#include <errno.h>
#include <time.h>
#include "work.h"
#include "log.h"

int __real_pthread_create (pthread_t *, const pthread_attr_t *, void *(*) (void *), void *);
int __real_pthread_mutex_init (pthread_mutex_t *, const pthread_mutexattr_t *);
int __real_pthread_cond_init (pthread_cond_t *, const pthread_condattr_t *);
int __real_pthread_mutex_lock (pthread_mutex_t *);
int __real_pthread_mutex_unlock (pthread_mutex_t *);
int __real_pthread_cond_wait (pthread_cond_t *, pthread_mutex_t *);
int __real_pthread_cond_signal (pthread_cond_t *);
int __real_pthread_cancel (pthread_t);
int __real_pthread_join (pthread_t, void **);
void __real_pthread_testcancel (void);

#define MAXW 64
#define MAXEV (1 << 20)
#define MAXITEMS 4096

typedef struct { int id; int dur; int accepted; int started; int finished; } item_t;
typedef struct { char k; char a; char o; int i; int x; } ev_t;

static ev_t *evs;
static int n_ev;
static item_t items[MAXITEMS];
static int n_items;

static int in_work_init;
static pthread_mutex_t *work_lock;
static pthread_cond_t *cond_received, *cond_finished;
static int n_mutex_init, n_cond_init;
static pthread_t worker_tid[MAXW];
static int n_created;
static int n_idle;                      /* workers inside cond_wait (received_work) */
static int perturb;
static unsigned prog_seed;
static int first_cancel_pending;

enum { OP_NONE, OP_QUEUE, OP_WAIT, OP_FINI };
static int cur_op, cur_item, cur_dw, cur_waited;

static __thread int my_idx = -1;        /* worker index, -1 = not a worker */
static __thread int holding;            /* this thread holds work_lock */
static __thread int started_, dead_, in_sec;
static __thread char sec_kind;
static __thread int sec_sig;
static __thread unsigned rng_state;

static void emit (char k, char a, char o, int i, int x)
{
    int idx = __atomic_fetch_add (&n_ev, 1, __ATOMIC_SEQ_CST);
    if (idx < MAXEV) { evs[idx].k = k; evs[idx].a = a; evs[idx].o = o; evs[idx].i = i; evs[idx].x = x; }
}

static unsigned rnd (void)
{
    unsigned x = rng_state;
    if (!x) x = (prog_seed * 2654435761u) ^ ((unsigned) (my_idx + 2) * 40503u) ^ 0x9e3779b9u;
    x ^= x << 13; x ^= x >> 17; x ^= x << 5;
    rng_state = x;
    return x;
}

static void jitter (void)
{
    unsigned r;
    int old;
    if (!perturb) return;
    /* usleep is a cancellation point; the delays must not add cancellation points to work.c */
    pthread_setcancelstate (PTHREAD_CANCEL_DISABLE, &old);
    r = rnd () % 100;
    if (perturb == 1) { if (r < 10) sched_yield (); }
    else if (perturb == 2) { if (r < 25) sched_yield (); else if (r < 35) usleep (rnd () % 60); }
    else { if (r < 30) sched_yield (); else if (r < 60) usleep (rnd () % 300); }
    pthread_setcancelstate (old, NULL);
}

static int pending_items (void)
{
    int i, p = 0;
    for (i = 0; i < n_items; i++)
        if (items[i].accepted && !__atomic_load_n (&items[i].finished, __ATOMIC_SEQ_CST)) p++;
    return p;
}

/* ------------------------------------------------------------------ wrappers */
struct tramp { void *(*fn) (void *); void *arg; int idx; };
static void *tramp_main (void *p)
{
    struct tramp t = *(struct tramp *) p;
    free (p);
    my_idx = t.idx;
    return t.fn (t.arg);
}

int __wrap_pthread_create (pthread_t *t, const pthread_attr_t *attr, void *(*fn) (void *), void *arg)
{
    struct tramp *tr;
    int idx, rc;
    if (!in_work_init || n_created >= MAXW) return __real_pthread_create (t, attr, fn, arg);
    tr = malloc (sizeof (*tr));
    idx = n_created++;
    tr->fn = fn; tr->arg = arg; tr->idx = idx;
    rc = __real_pthread_create (t, attr, tramp_main, tr);
    if (rc == 0) worker_tid[idx] = *t;
    return rc;
}

int __wrap_pthread_mutex_init (pthread_mutex_t *m, const pthread_mutexattr_t *a)
{
    if (in_work_init && n_mutex_init++ == 0) work_lock = m;
    return __real_pthread_mutex_init (m, a);
}

int __wrap_pthread_cond_init (pthread_cond_t *c, const pthread_condattr_t *a)
{
    if (in_work_init) {
        if (n_cond_init == 0) cond_received = c;
        else if (n_cond_init == 1) cond_finished = c;
        n_cond_init++;
    }
    return __real_pthread_cond_init (c, a);
}

int __wrap_pthread_mutex_lock (pthread_mutex_t *m)
{
    int rc;
    if (m != work_lock) return __real_pthread_mutex_lock (m);
    jitter ();
    rc = __real_pthread_mutex_lock (m);
    holding = 1;
    if (my_idx >= 0) {
        sec_kind = started_ ? 'f' : 's';
        started_ = 1; sec_sig = 0; in_sec = 1;
    }
    return rc;
}

int __wrap_pthread_mutex_unlock (pthread_mutex_t *m)
{
    int rc;
    if (m != work_lock) return __real_pthread_mutex_unlock (m);
    if (my_idx >= 0) {
        if (!dead_ && in_sec) emit (sec_kind, 0, 'U', my_idx, sec_sig);
        in_sec = 0;
    }
    else if (cur_op == OP_QUEUE) emit ('Q', 0, 0, 0, cur_item);
    else if (cur_op == OP_WAIT) emit ('W', cur_waited ? 'K' : 'E', 'X', 0, 0);
    else if (cur_op == OP_FINI) emit ('Z', cur_dw ? (cur_waited ? 'K' : 'E') : 'N', 'X', 0, 0);
    holding = 0;
    rc = __real_pthread_mutex_unlock (m);
    jitter ();
    return rc;
}

static void cw_cancelled (void *arg)
{
    (void) arg;                         /* POSIX: the mutex has been re-acquired */
    emit ('d', 0, 0, my_idx, 0);
    __atomic_fetch_sub (&n_idle, 1, __ATOMIC_SEQ_CST);
    dead_ = 1; in_sec = 0; holding = 1;
}

int __wrap_pthread_cond_wait (pthread_cond_t *c, pthread_mutex_t *m)
{
    int rc;
    if (c == cond_received && my_idx >= 0) {
        emit (sec_kind, 0, 'W', my_idx, sec_sig);
        in_sec = 0; holding = 0;
        __atomic_fetch_add (&n_idle, 1, __ATOMIC_SEQ_CST);
        pthread_cleanup_push (cw_cancelled, NULL);
        rc = __real_pthread_cond_wait (c, m);
        pthread_cleanup_pop (0);
        __atomic_fetch_sub (&n_idle, 1, __ATOMIC_SEQ_CST);
        holding = 1; sec_kind = 'r'; sec_sig = 0; in_sec = 1;
        return rc;
    }
    if (c == cond_finished && my_idx < 0) {
        emit (cur_op == OP_FINI ? 'Z' : 'W', cur_waited ? 'K' : 'E', 'B', 0, 0);
        holding = 0;
        rc = __real_pthread_cond_wait (c, m);
        holding = 1; cur_waited = 1;
        return rc;
    }
    return __real_pthread_cond_wait (c, m);
}

static void tc_cancelled (void *arg)
{
    (void) arg;
    emit (sec_kind, 0, 'D', my_idx, sec_sig);
    dead_ = 1; in_sec = 0;
}

void __wrap_pthread_testcancel (void)
{
    if (my_idx >= 0 && in_sec) {
        pthread_cleanup_push (tc_cancelled, NULL);
        __real_pthread_testcancel ();
        pthread_cleanup_pop (0);
        return;
    }
    __real_pthread_testcancel ();
}

int __wrap_pthread_cond_signal (pthread_cond_t *c)
{
    int rc;
    if (c == cond_received && work_lock) {
        /* taken under the lock so that the event order is the order of effects
           (a signal is a step of its own in the model; this only excludes
           schedules in which it lands in the middle of another critical section) */
        int had = holding;
        if (!had) __real_pthread_mutex_lock (work_lock);
        emit ('G', 0, 0, 0, 0);
        rc = __real_pthread_cond_signal (c);
        if (!had) __real_pthread_mutex_unlock (work_lock);
        jitter ();
        return rc;
    }
    if (c == cond_finished) sec_sig = 1;
    return __real_pthread_cond_signal (c);
}

int __wrap_pthread_cancel (pthread_t t)
{
    int i, rc;
    for (i = 0; i < n_created; i++)
        if (pthread_equal (worker_tid[i], t)) break;
    if (i == n_created || !work_lock) return __real_pthread_cancel (t);
    {
        int had = holding;
        if (!had) __real_pthread_mutex_lock (work_lock);
        if (first_cancel_pending < 0) first_cancel_pending = pending_items ();
        emit ('C', 0, 0, i, 0);
        rc = __real_pthread_cancel (t);
        if (!had) __real_pthread_mutex_unlock (work_lock);
    }
    jitter ();
    return rc;
}

int __wrap_pthread_join (pthread_t t, void **res)
{
    int i, rc;
    for (i = 0; i < n_created; i++)
        if (pthread_equal (worker_tid[i], t)) break;
    rc = __real_pthread_join (t, res);
    if (i < n_created) emit ('N', 0, 0, i, 0);
    return rc;
}

/* ------------------------------------------------------------------ the job */
static void job (void *arg)
{
    item_t *it = arg;
    emit ('J', 0, 0, my_idx, it->id);
    __atomic_fetch_add (&it->started, 1, __ATOMIC_SEQ_CST);
    jitter ();
    if (it->dur > 0) usleep (it->dur);
    jitter ();
    __atomic_store_n (&it->finished, 1, __ATOMIC_SEQ_CST);
}

/* ------------------------------------------------------------------ watchdog */
static int wd_phase;
static long wd_deadline;                /* seconds (monotonic), 0 = idle; accessed atomically */
#define WD_GET() __atomic_load_n (&wd_deadline, __ATOMIC_SEQ_CST)
#define WD_SET(v) __atomic_store_n (&wd_deadline, (v), __ATOMIC_SEQ_CST)
static char res_prefix[256];
static pthread_mutex_t out_lock = PTHREAD_MUTEX_INITIALIZER;   /* the watchdog and main never print together */

static long now_s (void) { struct timespec ts; clock_gettime (CLOCK_MONOTONIC, &ts); return ts.tv_sec; }

static void print_trace (void)
{
    int i, n = n_ev < MAXEV ? n_ev : MAXEV;
    printf (" trace=");
    for (i = 0; i < n; i++) {
        ev_t *e = &evs[i];
        if (i) putchar (',');
        switch (e->k) {
            case 's': case 'r': case 'f': printf ("%c:%d:%c:%d", e->k, e->i, e->o, e->x); break;
            case 'd': case 'C': case 'N': printf ("%c:%d", e->k, e->i); break;
            case 'J': printf ("J:%d:%d", e->i, e->x); break;
            case 'Q': printf ("Q:%d", e->x); break;
            case 'G': printf ("G"); break;
            case 'W': case 'Z': printf ("%c:%c:%c", e->k, e->a, e->o); break;
            default: printf ("?"); break;
        }
    }
    if (n == 0) printf ("-");
}

static void print_proc (void)
{
    int i;
    printf (" proc=");
    for (i = 0; i < n_items; i++) printf ("%s%d", i ? "." : "", items[i].accepted ? items[i].started : -1);
    if (!n_items) printf ("-");
}

static void *watchdog (void *arg)
{
    (void) arg;
    for (;;) {
        usleep (100000);
        long dl = WD_GET ();        /* read ONCE: the main thread clears and re-arms it between programs */
        if (dl && now_s () > dl) {
            __real_pthread_mutex_lock (&out_lock);
            /* still the same program's deadline?  (otherwise that program finished while we waited for the lock) */
            if (WD_GET () != dl) { __real_pthread_mutex_unlock (&out_lock); continue; }
            printf ("%s", res_prefix);
            print_proc ();
            printf (" waitret=? cancelpend=%d finiret=? qfail=? hang=1 phase=%d pending=%d idle=%d",
                    first_cancel_pending, __atomic_load_n (&wd_phase, __ATOMIC_SEQ_CST), pending_items (), n_idle);
            print_trace ();
            printf ("\n");
            fflush (stdout);
            _exit (3);
        }
    }
    return NULL;
}

/* ------------------------------------------------------------------ main */
int main (int argc, char **argv)
{
    static char line[1 << 16];
    pthread_t wd;
    int hang_secs = argc > 1 ? atoi (argv[1]) : 20;

    evs = malloc (sizeof (ev_t) * MAXEV);
    __real_pthread_create (&wd, NULL, watchdog, NULL);
    while (fgets (line, sizeof (line), stdin)) {
        char *tok, *save = NULL;
        int n, i, have_fini = 0, qfail = 0, nwait = 0, finiret = -1;
        int waitret[256];
        work_p w;

        tok = strtok_r (line, " \n", &save);
        if (!tok || strcmp (tok, "P")) { printf ("? bad line\n"); fflush (stdout); continue; }
        n = atoi (strtok_r (NULL, " \n", &save));
        prog_seed = (unsigned) strtoul (strtok_r (NULL, " \n", &save), NULL, 10);
        tok = strtok_r (NULL, " \n", &save);
        perturb = atoi (tok);
        {   /* "<level>a": run the whole program on one CPU (threads inherit the mask) */
            cpu_set_t cs; int c;
            CPU_ZERO (&cs);
            if (strchr (tok, 'a')) CPU_SET (0, &cs);
            else for (c = 0; c < CPU_SETSIZE; c++) CPU_SET (c, &cs);
            sched_setaffinity (0, sizeof (cs), &cs);
        }
        /* reset */
        n_ev = 0; n_items = 0; n_mutex_init = n_cond_init = 0; n_created = 0; n_idle = 0;
        work_lock = NULL; cond_received = cond_finished = NULL;
        first_cancel_pending = -1; cur_op = OP_NONE; rng_state = 0;
        memset (items, 0, sizeof (items));
        snprintf (res_prefix, sizeof (res_prefix), "R n=%d", n);
        __atomic_store_n (&wd_phase, 0, __ATOMIC_SEQ_CST); WD_SET (now_s () + hang_secs);

        in_work_init = 1;
        w = work_init (job, n);
        in_work_init = 0;
        if (!w) { printf ("R n=%d initfail=1 errno=%d\n", n, errno); fflush (stdout); WD_SET (0); continue; }

        while (!have_fini) {
            tok = strtok_r (NULL, " \n", &save);
            if (!tok) tok = "f1";
            __atomic_fetch_add (&wd_phase, 1, __ATOMIC_SEQ_CST);
            if (tok[0] == 'q') {
                int cnt = atoi (tok + 1), dur = 0;
                char *c = strchr (tok, ',');
                if (c) dur = atoi (c + 1);
                for (i = 0; i < cnt && n_items < MAXITEMS; i++) {
                    item_t *it = &items[n_items];
                    it->id = n_items; it->dur = dur;
                    cur_op = OP_QUEUE; cur_item = it->id;
                    n_items++;
                    it->accepted = 1;   /* set before the call: the job may finish before it returns */
                    if (work_queue (w, it) < 0) { it->accepted = 0; qfail++; }
                    cur_op = OP_NONE;
                }
            }
            else if (tok[0] == 'w') {
                cur_op = OP_WAIT; cur_waited = 0;
                work_wait (w);
                cur_op = OP_NONE;
                if (nwait < 256) waitret[nwait++] = pending_items ();
            }
            else if (tok[0] == 's') usleep (atoi (tok + 1));
            else if (tok[0] == 'B') {
                long t0 = now_s ();
                for (;;) {
                    int all = 1;
                    for (i = 0; i < n_items; i++)
                        if (items[i].accepted && !__atomic_load_n (&items[i].started, __ATOMIC_SEQ_CST)) all = 0;
                    if (all || now_s () > t0 + 1) break;
                    usleep (200);
                }
            }
            else if (tok[0] == 'I') {
                long t0 = now_s ();
                while (__atomic_load_n (&n_idle, __ATOMIC_SEQ_CST) < n && now_s () <= t0 + 1) usleep (200);
            }
            else if (tok[0] == 'f') {
                cur_dw = atoi (tok + 1);
                cur_op = OP_FINI; cur_waited = 0;
                work_fini (w, cur_dw);
                cur_op = OP_NONE;
                finiret = pending_items ();
                have_fini = 1;
            }
        }
        __real_pthread_mutex_lock (&out_lock);
        WD_SET (0);
        printf ("%s items=%d", res_prefix, n_items);
        print_proc ();
        printf (" waitret=");
        for (i = 0; i < nwait; i++) printf ("%s%d", i ? "." : "", waitret[i]);
        if (!nwait) printf ("-");
        printf (" cancelpend=%d finiret=%d qfail=%d hang=0", first_cancel_pending, finiret, qfail);
        print_trace ();
        printf ("\n");
        fflush (stdout);
        __real_pthread_mutex_unlock (&out_lock);
    }
    return 0;
}
