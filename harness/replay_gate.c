/* replay_gate.c — linked into munged with -Wl,--wrap=replay_insert (C05/C07 straddle phase).
   Lets the check place a decode request's replay_insert() AFTER events of its choosing (a clock step, a purge), i.e. forces
   the schedule "time sampled - purge runs - record inserted" on the unchanged daemon code.  The gate is the file
   $VERIF_CLOCK_FILE.gate: first byte '1' = hold every worker that reaches replay_insert() (each announces itself once by
   creating <gate>.held), anything else or no file = pass through. */
#include <fcntl.h>
#include <stdio.h>
#include <stdlib.h>
#include <unistd.h>

int __real_replay_insert (void *c);

int __wrap_replay_insert (void *c)
{
    const char *clk = getenv ("VERIF_CLOCK_FILE");
    if (clk) {
        char g[4096], h[4096];
        int announced = 0;
        snprintf (g, sizeof g, "%s.gate", clk);
        snprintf (h, sizeof h, "%s.gate.held", clk);
        for (;;) {
            char b = '0';
            int fd = open (g, O_RDONLY);
            if (fd >= 0) { if (read (fd, &b, 1) != 1) b = '0'; close (fd); }
            if (b != '1') break;
            if (!announced) { int hf = open (h, O_CREAT | O_WRONLY, 0600); if (hf >= 0) close (hf); announced = 1; }
            usleep (2000);
        }
    }
    return __real_replay_insert (c);
}
