/* mac_fault.c — linked with -Wl,--wrap=mac_init,--wrap=mac_update,--wrap=mac_final,--wrap=mac_cleanup (C20 HF cases):
   makes the k-th call of one of mac.c's functions fail the way a failing OpenSSL/libgcrypt call makes it fail (return -1,
   nothing written), so that hkdf()'s error paths are exercised.  hkdf() may then report an error; it may never report
   success with output that is not the RFC 5869 value. */
#include <munge.h>
#include "mac.h"

int __real_mac_init (mac_ctx *x, munge_mac_t md, const void *key, int keylen);
int __real_mac_update (mac_ctx *x, const void *src, int srclen);
int __real_mac_final (mac_ctx *x, void *dst, int *dstlenp);
int __real_mac_cleanup (mac_ctx *x);

static int f_op, f_k, f_cnt[4], f_fired;

void mac_fault_set (int op, int k) { int i; f_op = op; f_k = k; f_fired = 0; for (i = 0; i < 4; i++) f_cnt[i] = 0; }
int mac_fault_fired (void) { return f_fired; }
static int hit (int op) { if (f_k > 0 && op == f_op && ++f_cnt[op] == f_k) { f_fired = 1; return 1; } return 0; }

int __wrap_mac_init (mac_ctx *x, munge_mac_t md, const void *key, int keylen)
{
    if (hit (0)) return -1;
    return __real_mac_init (x, md, key, keylen);
}
int __wrap_mac_update (mac_ctx *x, const void *src, int srclen)
{
    if (hit (1)) return -1;
    return __real_mac_update (x, src, srclen);
}
int __wrap_mac_final (mac_ctx *x, void *dst, int *dstlenp)
{
    if (hit (2)) return -1;
    return __real_mac_final (x, dst, dstlenp);
}
int __wrap_mac_cleanup (mac_ctx *x)
{
    int rv = __real_mac_cleanup (x);
    if (hit (3)) return -1;
    return rv;
}
