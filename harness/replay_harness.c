/* replay_harness.c — drives /repo's replay.c + hash.c with the same case lines as `extract/replay/oracle`.
 *
 *   Q <size> <keys> <ops>                       sequential history
 *   T <size> <nthreads> <keys> <pre> <reqs>     <reqs> served concurrently by <nthreads> workers
 *   keys = machex:time0:ttl,...    size 0 = the table replay_init() makes; n > 0 = same callbacks, n slots
 *   ops  = i<k> replay_insert | r<k> replay_remove | f<k> hash_find (key built by replay.c) | x<k> failed decode (replay.c not
 *          called) | t<now> clock := now | p<now> clock := now, then the pending timer callback fires
 *   after every op: <result>/<hash_count>/<dump via hash_for_each: machex:t_expired.machex:t_expired...>
 *
 * replay.c is #included because the dump needs its static `replay_hash` (and the n-slot mode its
 * callbacks); everything is driven through replay_init/insert/remove/purge/fini and the hash_* API.
 * hash.c is linked as a separate object.  time() is wrapped (-Wl,--wrap=time) for a virtual clock;
 * timer_set_relative is a one-slot stub: the purge runs only if replay.c armed it, through the callback it
 * registered.  conf and log are stubs.  Built with ASan+UBSan; LeakSanitizer runs at exit. */
#include "hexio.h"
#include <errno.h>
#include <stdarg.h>
#include <pthread.h>
#include "replay.c"

static struct conf conf_storage;
conf_t conf = &conf_storage;

static int log_errors;
void log_msg (int priority, const char *format, ...) { (void) priority; (void) format; }
void log_err (int status, int priority, const char *format, ...) { log_errors++; }
void log_errno (int status, int priority, const char *format, ...) { log_errors++; }

/* allocation faults (op m<skip>: of the allocations made from now on by replay.c/hash.c, the one after the first <skip> fails with
   ENOMEM; -Wl,--wrap=malloc) */
void *__real_malloc (size_t n);
static long mf_skip = -1;
static int mf_in_op;                    /* only allocations made inside replay_insert() count (not the harness's own) */
void *__wrap_malloc (size_t n) {
    if (mf_in_op) {
        if (mf_skip == 0) { mf_skip = -1; errno = ENOMEM; return NULL; }
        if (mf_skip > 0) mf_skip--;
    }
    return __real_malloc (n);
}
static int insert_op (munge_cred_t c) { int rv; mf_in_op = 1; rv = replay_insert (c); mf_in_op = 0; return rv; }

static time_t vnow;
time_t __wrap_time (time_t *p) { if (p) *p = vnow; return vnow; }

static callback_f pend_cb; static void *pend_arg; static long pend_msec; static int pend_set;
long timer_set_relative (callback_f cb, void *arg, long msec) {
    pend_cb = cb; pend_arg = arg; pend_msec = msec; pend_set = 1; return 1;
}

#define MAXK 4096
static struct munge_cred creds[MAXK];
static struct m_msg msgs[MAXK];
static int nkeys;

static void parse_keys (char *s) {
    char *save = NULL, *tok;
    nkeys = 0;
    for (tok = strtok_r (s, ",", &save); tok && nkeys < MAXK; tok = strtok_r (NULL, ",", &save)) {
        char *c1 = strchr (tok, ':'), *c2 = c1 ? strchr (c1 + 1, ':') : NULL;
        int n; unsigned char *mac;
        if (!c2) continue;
        *c1 = 0; *c2 = 0;
        mac = unhex (tok, &n);
        memset (&creds[nkeys], 0, sizeof creds[0]); memset (&msgs[nkeys], 0, sizeof msgs[0]);
        if (n > (int) sizeof creds[0].mac) n = sizeof creds[0].mac;
        memcpy (creds[nkeys].mac, mac, n); creds[nkeys].mac_len = n; free (mac);
        creds[nkeys].msg = &msgs[nkeys];
        msgs[nkeys].time0 = (uint32_t) strtoul (c1 + 1, NULL, 10);
        msgs[nkeys].ttl = (uint32_t) strtoul (c2 + 1, NULL, 10);
        nkeys++;
    }
}

static int dump_first;
static int dump_f (void *data, const void *key, void *arg) {
    replay_t r = data;
    (void) arg;
    if (!dump_first) putchar ('.');
    dump_first = 0;
    puthex (r->data.mac, sizeof r->data.mac);
    printf (":%lld", (long long) r->data.t_expired);
    if (key != data) printf ("!key");
    return 1;
}

static void put_tail (void) {
    int cnt = hash_count (replay_hash), n;
    printf ("/%d/", cnt);
    dump_first = 1;
    n = hash_for_each (replay_hash, dump_f, NULL);
    if (n == 0) putchar ('-');
    if (n != cnt) printf ("!nodes=%d", n);
}

static void table_start (int size) {
    memset (&conf_storage, 0, sizeof conf_storage);
    vnow = 0; pend_set = 0; log_errors = 0;
    replay_init ();
    if (size > 0) {   /* same callbacks, fewer slots: more collisions */
        hash_destroy (replay_hash);
        replay_hash = hash_create (size, (hash_key_f) replay_key_f, (hash_cmp_f) replay_cmp_f,
                                   (hash_del_f) replay_free);
    }
}

/* hash_find for credential #a.  The lookup key is built by replay.c itself: replay_insert into a scratch
   one-slot table yields the node (mac bytes kept, t_expired) replay.c makes for this credential. */
static replay_t grabbed;
static int grab_f (void *data, const void *key, void *arg) { (void) key; (void) arg; grabbed = data; return 1; }
static int find_key (int a) {
    hash_t save = replay_hash;
    hash_t tmp = hash_create (1, (hash_key_f) replay_key_f, (hash_cmp_f) replay_cmp_f, (hash_del_f) replay_free);
    int found;
    replay_hash = tmp;
    replay_insert (&creds[a]);
    grabbed = NULL;
    hash_for_each (tmp, grab_f, NULL);
    replay_hash = save;
    found = (grabbed != NULL) && (hash_find (replay_hash, grabbed) != NULL);
    hash_destroy (tmp);
    return found;
}

static void table_stop (void) {
    replay_fini ();
    hash_drop_memory ();
    if (log_errors) printf (" !log_errors=%d", log_errors);
}

static void q_line (char *arg) {
    char *save = NULL, *sz = strtok_r (arg, " ", &save), *keys = strtok_r (NULL, " ", &save),
         *ops = strtok_r (NULL, " ", &save), *tok, *s2 = NULL;
    int first = 1;
    if (!sz || !keys || !ops) { printf ("? bad Q line\n"); return; }
    parse_keys (keys);
    table_start (atoi (sz));
    mf_skip = -1;
    printf ("Q ");
    for (tok = strtok_r (ops, ",", &s2); tok; tok = strtok_r (NULL, ",", &s2)) {
        long a = strtol (tok + 1, NULL, 10);
        if (!first) putchar ('|');
        first = 0;
        switch (tok[0]) {
        case 'i': printf ("%d", (a >= 0 && a < nkeys) ? insert_op (&creds[a]) : -9); break;
        case 'r': printf ("%d", (a >= 0 && a < nkeys) ? replay_remove (&creds[a]) : -9); break;
        case 'f': printf ("%d", (a >= 0 && a < nkeys) ? find_key ((int) a) : -9); break;
        case 'x': putchar ('-'); break;
        case 'm': mf_skip = a; putchar ('-'); break;
        case 't': vnow = (time_t) a; putchar ('-'); break;
        case 'p':
            vnow = (time_t) a;
            if (!pend_set) printf ("unarmed");
            else {
                callback_f cb = pend_cb; void *ca = pend_arg;
                int before = hash_count (replay_hash);
                pend_set = 0;
                cb (ca);
                printf ("n%da%ld", before - hash_count (replay_hash), pend_set ? pend_msec : -1L);
            }
            break;
        default: putchar ('?');
        }
        put_tail ();
    }
    table_stop ();
    printf ("\n");
}

/* --- concurrent requests --- */
static struct { int *req; int *rc; int nreq; int next; pthread_mutex_t mu; pthread_barrier_t bar; } W;

static void *worker (void *arg) {
    (void) arg;
    pthread_barrier_wait (&W.bar);
    for (;;) {
        int i;
        pthread_mutex_lock (&W.mu); i = W.next++; pthread_mutex_unlock (&W.mu);
        if (i >= W.nreq) break;
        W.rc[i] = replay_insert (&creds[W.req[i]]);
    }
    return NULL;
}

static int parse_idx (char *s, int *out, int max) {
    char *save = NULL, *tok; int n = 0;
    if (!strcmp (s, "-")) return 0;
    for (tok = strtok_r (s, ",", &save); tok && n < max; tok = strtok_r (NULL, ",", &save)) out[n++] = atoi (tok);
    return n;
}

static void t_line (char *arg) {
    char *save = NULL, *sz = strtok_r (arg, " ", &save), *nth = strtok_r (NULL, " ", &save),
         *keys = strtok_r (NULL, " ", &save), *pre = strtok_r (NULL, " ", &save), *reqs = strtok_r (NULL, " ", &save);
    static int preidx[4096], req[4096], rc[4096];
    pthread_t th[64];
    int npre, nthreads, i, k;
    if (!sz || !nth || !keys || !pre || !reqs) { printf ("? bad T line\n"); return; }
    parse_keys (keys);
    table_start (atoi (sz));
    npre = parse_idx (pre, preidx, 4096);
    for (i = 0; i < npre; i++) replay_insert (&creds[preidx[i]]);
    W.nreq = parse_idx (reqs, req, 4096); W.req = req; W.rc = rc; W.next = 0;
    nthreads = atoi (nth); if (nthreads < 1) nthreads = 1; if (nthreads > 64) nthreads = 64;
    pthread_mutex_init (&W.mu, NULL);
    pthread_barrier_init (&W.bar, NULL, nthreads);
    for (i = 0; i < nthreads; i++) pthread_create (&th[i], NULL, worker, NULL);
    for (i = 0; i < nthreads; i++) pthread_join (th[i], NULL);
    pthread_barrier_destroy (&W.bar); pthread_mutex_destroy (&W.mu);
    printf ("T ");
    for (k = 0; k < nkeys; k++) {
        int ins = 0, ex = 0, er = 0;
        for (i = 0; i < W.nreq; i++) if (req[i] == k) { if (rc[i] == 0) ins++; else if (rc[i] == 1) ex++; else er++; }
        printf ("%s%d:%d:%d", k ? "," : "", ins, ex, er);
    }
    put_tail ();
    table_stop ();
    printf ("\n");
}

static char line[1 << 20];

int main (void) {
    while (fgets (line, sizeof line, stdin)) {
        char *nl = strchr (line, '\n'); if (nl) *nl = 0;
        if (line[0] == 'Q' && line[1] == ' ') q_line (line + 2);
        else if (line[0] == 'T' && line[1] == ' ') t_line (line + 2);
        else printf ("? %s\n", line);
        fflush (stdout);
    }
    return 0;
}
