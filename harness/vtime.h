/* vtime.h — virtual time for harnesses that link /repo's timer.c + clock.c.
 *
 * Link with  -Wl,--wrap=clock_gettime,--wrap=pthread_cond_wait,--wrap=pthread_cond_timedwait,
 *            --wrap=pthread_cond_signal
 * clock_gettime() returns the virtual clock `vnow`; the timer thread's waits return only when timer.c itself
 * signalled the condition while the thread was waiting, or the virtual clock has reached the deadline (so a
 * dropped signal or a wrong deadline in timer.c shows as a timer that does not fire); settle() blocks until
 * the timer thread is at rest (waiting, nothing due, no wake-up pending).  Included by exactly one .c file
 * per program. */
#ifndef VTIME_H
#define VTIME_H
#define _GNU_SOURCE
#include <errno.h>
#include <pthread.h>
#include <time.h>

int __real_clock_gettime(clockid_t, struct timespec *);
int __real_pthread_cond_wait(pthread_cond_t *, pthread_mutex_t *);
int __real_pthread_cond_timedwait(pthread_cond_t *, pthread_mutex_t *, const struct timespec *);
int __real_pthread_cond_signal(pthread_cond_t *);

/* ---------------------------------------------------------------- virtual time + timer-thread state */
static pthread_mutex_t hm = PTHREAD_MUTEX_INITIALIZER;     /* protects everything below */
static pthread_cond_t hcv = PTHREAD_COND_INITIALIZER;      /* "timer thread state changed" (real waits only) */
static struct timespec vnow;
static int t_waiting, t_timed, wake_pending;
static struct timespec t_deadline;
static pthread_cond_t *t_cond;
static pthread_mutex_t *t_mutex;
static pthread_t t_tid; static int t_tid_known;
static int hold_next_signal, holder_parked, holder_release;  /* Z mode */
static int timeout_hook_armed, timeout_parked, timeout_release;   /* park the timer thread between the time-out of its
                                                                     timed wait and the re-taking of the mutex */

static int ts_le(const struct timespec *a, const struct timespec *b) {
    if (a->tv_sec == b->tv_sec) return a->tv_nsec <= b->tv_nsec;
    return a->tv_sec <= b->tv_sec;
}
static void real_deadline(struct timespec *ts, long ms) {
    __real_clock_gettime(CLOCK_REALTIME, ts);
    ts->tv_nsec += ms * 1000000L;
    while (ts->tv_nsec >= 1000000000L) { ts->tv_nsec -= 1000000000L; ts->tv_sec++; }
}

int __wrap_clock_gettime(clockid_t id, struct timespec *ts) {
    (void) id;
    pthread_mutex_lock(&hm); *ts = vnow; pthread_mutex_unlock(&hm);
    return 0;
}

/* the timer thread's wait: returns only when timer.c signalled the condition while it was waiting, or
   the virtual clock has reached the deadline */
/* not instrumented: timer_fini cancels the thread inside this frame; an abandoned instrumented frame
   leaves stale ASan stack poison behind (false report inside the ASan runtime) */
#define NOASAN __attribute__((no_sanitize("address", "undefined")))
NOASAN static int wait_common(pthread_cond_t *c, pthread_mutex_t *m, const struct timespec *abs) {
    int r;
    pthread_mutex_lock(&hm);
    t_cond = c; t_mutex = m; t_tid = pthread_self(); t_tid_known = 1;
    t_waiting = 1; t_timed = abs != NULL;
    if (abs) t_deadline = *abs;
    __real_pthread_cond_signal(&hcv);
    for (;;) {
        struct timespec rt;
        if (wake_pending || (t_timed && ts_le(&t_deadline, &vnow))) {
            if (!wake_pending && timeout_hook_armed) {
                /* the wait has timed out; POSIX lets any thread take the mutex before the waiter gets it back: the
                   driver makes its call in exactly that window.  The waiter is no waiter any more: a signal made now
                   is lost, the wait returns ETIMEDOUT */
                timeout_hook_armed = 0; t_waiting = 0; timeout_parked = 1; timeout_release = 0;
                __real_pthread_cond_signal(&hcv);
                pthread_mutex_unlock(&hm);
                pthread_mutex_unlock(m);
                pthread_mutex_lock(&hm);
                while (!timeout_release) { struct timespec rt2; real_deadline(&rt2, 5); __real_pthread_cond_timedwait(&hcv, &hm, &rt2); }
                timeout_release = 0; timeout_parked = 0; wake_pending = 0;
                pthread_mutex_unlock(&hm);
                pthread_mutex_lock(m);
                return ETIMEDOUT;
            }
            break;
        }
        pthread_mutex_unlock(&hm);
        real_deadline(&rt, 5);
        __real_pthread_cond_timedwait(c, m, &rt);      /* cancellation point, as in the real call */
        pthread_mutex_lock(&hm);
    }
    r = wake_pending ? 0 : ETIMEDOUT;
    t_waiting = 0; wake_pending = 0;
    pthread_mutex_unlock(&hm);
    return r;
}
NOASAN int __wrap_pthread_cond_wait(pthread_cond_t *c, pthread_mutex_t *m) { return wait_common(c, m, NULL); }
NOASAN int __wrap_pthread_cond_timedwait(pthread_cond_t *c, pthread_mutex_t *m, const struct timespec *abs) {
    return wait_common(c, m, abs);
}
int __wrap_pthread_cond_signal(pthread_cond_t *c) {
    int r, park = 0;
    pthread_mutex_lock(&hm);
    if (t_waiting) wake_pending = 1;      /* a signal with no waiter is lost, as in POSIX */
    if (hold_next_signal && !(t_tid_known && pthread_equal(pthread_self(), t_tid))) { hold_next_signal = 0; park = 1; }
    pthread_mutex_unlock(&hm);
    r = __real_pthread_cond_signal(c);
    if (park) {                            /* caller of timer_set_* sits between unlock and return */
        pthread_mutex_lock(&hm);
        holder_parked = 1; __real_pthread_cond_signal(&hcv);
        while (!holder_release) {
            struct timespec rt; real_deadline(&rt, 5);
            __real_pthread_cond_timedwait(&hcv, &hm, &rt);
        }
        holder_release = 0; holder_parked = 0;
        pthread_mutex_unlock(&hm);
    }
    return r;
}

static int timed_out;
/* wait until the timer thread is at rest; 0 = ok, -1 = did not come to rest within the real-time limit */
static int settle(void) {
    struct timespec lim, rt; int ok = 0;
    real_deadline(&lim, 3000);
    pthread_mutex_lock(&hm);
    for (;;) {
        if (t_waiting && !wake_pending && !(t_timed && ts_le(&t_deadline, &vnow))) { ok = 1; break; }
        __real_clock_gettime(CLOCK_REALTIME, &rt);
        if (ts_le(&lim, &rt)) break;
        real_deadline(&rt, 5);
        __real_pthread_cond_timedwait(&hcv, &hm, &rt);
    }
    pthread_mutex_unlock(&hm);
    if (!ok) timed_out = 1;
    return ok ? 0 : -1;
}
static void set_clock(const struct timespec *ts) {
    pthread_cond_t *c = NULL; pthread_mutex_t *m = NULL;
    pthread_mutex_lock(&hm);
    vnow = *ts;
    if (t_waiting && t_timed && ts_le(&t_deadline, &vnow)) { c = t_cond; m = t_mutex; }
    pthread_mutex_unlock(&hm);
    if (c) { pthread_mutex_lock(m); __real_pthread_cond_signal(c); pthread_mutex_unlock(m); }
}

#endif
