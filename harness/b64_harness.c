/* b64_harness.c — drives /repo's base64.c with the same case lines as `oracle b64`.
   Buffers are malloc'd at exactly the advertised bound so ASan sees any overrun. */
#include "hexio.h"
#include "base64.h"

static char line[1 << 22];

int main(void) {
    while (fgets(line, sizeof line, stdin)) {
        char *nl = strchr(line, '\n'); if (nl) *nl = 0;
        char op = line[0]; char *arg = line + 2;
        if (op == 'E') {
            int n, m = -1; unsigned char *src = unhex(arg, &n);
            unsigned char *dst = malloc(base64_encode_length(n));
            base64_encode_block(dst, &m, src, n);
            printf("E "); puthex(dst, m); printf("\n");
            if (dst[m] != 0) printf("!E missing NUL\n");
            free(src); free(dst);
        } else if (op == 'D') {
            int n, m = -1, rc; unsigned char *src = unhex(arg, &n);
            unsigned char *dst = malloc(base64_decode_length(n));
            rc = base64_decode_block(dst, &m, src, n);
            printf("D %d ", rc < 0 ? 1 : 0);
            if (rc < 0) printf("*"); else puthex(dst, m);
            printf("\n");
            free(src); free(dst);
        } else if (op == 'S') {
            /* streaming encode: chunks separated by ',' */
            base64_ctx x; int total = 0, off = 0, m; char *save = NULL, *tok;
            char *copy = strdup(arg);
            for (tok = strtok_r(copy, ",", &save); tok; tok = strtok_r(NULL, ",", &save))
                total += (!strcmp(tok, "-")) ? 0 : (int) strlen(tok) / 2;
            free(copy);
            unsigned char *dst = malloc(base64_encode_length(total));
            base64_init(&x);
            for (tok = strtok_r(arg, ",", &save); tok; tok = strtok_r(NULL, ",", &save)) {
                int n; unsigned char *src = unhex(tok, &n);
                m = 0x5a5a5a;  /* poison: the routine's contract is to SET *dstlen to the number of bytes written, also for an empty piece */
                base64_encode_update(&x, dst + off, &m, src, n);
                if (m < 0 || m > 4 * (n / 3 + 2)) { off = -1; free(src); break; }
                off += m; free(src);
            }
            if (off < 0) { base64_cleanup(&x); printf("S !dstlen-not-set\n"); free(dst); continue; }
            m = 0; base64_encode_final(&x, dst + off, &m); off += m;
            base64_cleanup(&x);
            printf("S "); puthex(dst, off); printf("\n");
            free(dst);
        } else if (op == 'T') {
            /* streaming decode: every update gets its own buffer of exactly decode_length(chunk) */
            base64_ctx x; int err = 0, m, total = 0; char *save = NULL, *tok;
            unsigned char *acc = malloc(strlen(arg) + 4);
            base64_init(&x);
            for (tok = strtok_r(arg, ",", &save); tok && !err; tok = strtok_r(NULL, ",", &save)) {
                int n; unsigned char *src = unhex(tok, &n);
                unsigned char *dst = malloc(base64_decode_length(n));
                m = 0;
                if (base64_decode_update(&x, dst, &m, src, n) < 0) err = 1;
                memcpy(acc + total, dst, m); total += m;
                free(src); free(dst);
            }
            if (!err) { unsigned char d[4]; if (base64_decode_final(&x, d, &m) < 0) err = 1; }
            base64_cleanup(&x);
            printf("T %d ", err);
            if (err) printf("*"); else puthex(acc, total);
            printf("\n"); free(acc);
        } else if (op == 'L') {
            int n = atoi(arg);
            printf("L %d %d\n", base64_encode_length(n), base64_decode_length(n));
        } else printf("? %s\n", line);
    }
    return 0;
}
