/* gids_timer_harness.c — /repo's gids.c AND timer.c together (+ hash.c, clock.c, xgetgr.c, xgetpw.c): the
 * group-map refresh as the periodic service it is in munged, on a virtual clock, with scripted group/user
 * databases, scripted transient NSS failures, and SIGHUPs (gids_update() from another thread, which is what
 * munged's job loop does on SIGHUP) delivered at chosen points INSIDE a running _gids_map_update.
 *
 * Link line (tools/props/c17.py, c18.py):
 *   -Wl,--wrap=clock_gettime,--wrap=pthread_cond_wait,--wrap=pthread_cond_timedwait,--wrap=pthread_cond_signal
 *   -Wl,--wrap=getgrent_r,--wrap=setgrent,--wrap=endgrent,--wrap=getpwnam_r,--wrap=stat,--wrap=lstat,--wrap=time
 *   -Wl,--wrap=timer_set_relative,--wrap=timer_cancel
 * timer.c runs on vtime.h's virtual clock; time() is that clock in seconds; stat("/etc/group") and the NSS calls
 * serve the script's databases (opened at setgrent(): a scan reads the version that was current then, as a scan
 * of a file that is replaced by rename does); gids.c's calls of timer_set_relative/timer_cancel are logged and
 * passed on to the real timer.c, the callback is entered through a trampoline that logs its start and return.
 *
 * A refresh can be PARKED at three points — T: in time(), i.e. after the first critical section of
 * _gids_map_update, before stat() and the scan; G: in the first getgrent_r() call (databases opened);
 * E: in the getgrent_r() call that ends the scan (EOF or the scripted EIO) — while the driver thread performs the
 * hook's actions (edits, gids_update, clock changes, lookups), then released.  Same case lines and tokens as
 * `extract/gids/oracle` (GidsTimerModel.drive1):
 *
 *   T I<interval>,<dostat> U<uid,...>|<gid,...> op...
 *   passive ops (no token):  G<db> | P<pw> | M<mtime> | M!      (formats of gids_harness.c)
 *                            Y<mtime> the group file is a symbolic link with that mtime of its own (M = its target's) | Y-
 *                            H<j>/<acts>/<acts>/<acts>/[f<k>]    hooks T/G/E and fault of the j-th refresh that
 *                                                               starts from now on; acts '+'-separated:
 *                                                               G.. P.. M.. S c<delta ms> t<ms> A
 *   active ops:              t<ms> clock := ms | c<d> clock += d | S gids_update | A sweep;  then the timer
 *                            thread comes to rest
 *   tokens:  s<id>@<now>+<ms>  c<id>=<ret>  u (gids_update returned)  f<id>@<now>
 *            o (the scan opens the databases: setgrent)  e (closes them: endgrent)  r<stat called><build attempted>  hT hG hE  a<bits>
 *            `|` after every active op; at the end d<id>=<ret> (the cancel made by gids_destroy) or d-, then `.`
 *            !stuck<k>:<s>  refresh #k was entered and never returned (s = 1 if a sentinel timer still fired)
 * Each case runs in a forked child.                                                                            */
#define _GNU_SOURCE 1
#if HAVE_CONFIG_H
#  include "config.h"
#endif
#include <sys/types.h>
#include <sys/stat.h>
#include <sys/wait.h>
#include <errno.h>
#include <grp.h>
#include <pwd.h>
#include <pthread.h>
#include <signal.h>
#include <stdarg.h>
#include <stdio.h>
#include <stdlib.h>
#include <string.h>
#include <time.h>
#include <unistd.h>
#include <munge.h>
#include "conf.h"
#include "gids.h"
#include "hash.h"
#include "log.h"
#include "timer.h"
#ifdef __SANITIZE_ADDRESS__
#include <sanitizer/lsan_interface.h>
#endif
#include "vtime.h"

/* ------------------------------------------------------------------ stubs */
static struct conf the_conf;
conf_t conf = &the_conf;
void log_msg (int priority, const char *format, ...) { (void) priority; (void) format; }
void log_errno (int status, int priority, const char *format, ...) {
    fprintf (stderr, "harness: log_errno(%d): %s (errno %d)\n", status, format, errno); abort ();
}
void log_err (int status, int priority, const char *format, ...) {
    fprintf (stderr, "harness: log_err(%d): %s\n", status, format); abort ();
}

/* ------------------------------------------------------------------ token log */
static pthread_mutex_t em = PTHREAD_MUTEX_INITIALIZER;     /* log, instances, refresh ordinal */
static char out[1 << 20]; static size_t outn;
static void emit (const char *fmt, ...) {                  /* caller holds em or is alone */
    va_list ap;
    if (outn > sizeof out - 512) return;                   /* a refresh that re-arms itself in a tight loop: enough seen */
    va_start (ap, fmt);
    if (outn) out[outn++] = ' ';
    {   int n = vsnprintf (out + outn, 400, fmt, ap); outn += n < 0 ? 0 : n > 399 ? 399 : n; }
    va_end (ap);
}
static long now_ms (void) {
    long r; pthread_mutex_lock (&hm); r = vnow.tv_sec * 1000L + vnow.tv_nsec / 1000000L; pthread_mutex_unlock (&hm);
    return r;
}

/* ------------------------------------------------------------------ fake databases (immutable versions) */
struct fent { gid_t gid; int nmem; char **mem; };
struct fpwe { char *name; int err; uid_t uid; };
struct dbver { struct fent *e; int n; };
struct pwver { struct fpwe *e; int n; };
static struct dbver *dbs[4096]; static int ndbs;
static struct pwver *pws[4096]; static int npws;
static struct dbver *cur_db, *scan_db; static struct pwver *cur_pw, *scan_pw;
static time_t f_mtime; static int f_stat_fail;

static char *name_dup (const char *s, size_t n) { if (n == 1 && s[0] == '~') n = 0; return strndup (s, n); }
static void parse_db (const char *s) {
    struct dbver *v = calloc (1, sizeof *v);
    if (strcmp (s, "-")) while (*s) {
        const char *end = strchr (s, ';'); const char *colon; struct fent *e;
        if (!end) end = s + strlen (s);
        v->e = realloc (v->e, (v->n + 1) * sizeof *v->e); e = &v->e[v->n++];
        e->gid = (gid_t) strtoul (s, NULL, 10); e->nmem = 0; e->mem = NULL;
        colon = memchr (s, ':', end - s);
        if (colon) {
            const char *m = colon + 1;
            while (m < end) {
                const char *c = memchr (m, ',', end - m); if (!c) c = end;
                e->mem = realloc (e->mem, (e->nmem + 1) * sizeof (char *));
                e->mem[e->nmem++] = name_dup (m, c - m);
                m = c + 1;
            }
        }
        s = *end ? end + 1 : end;
    }
    if (ndbs < 4096) dbs[ndbs++] = v;
    cur_db = v;
}
static void parse_pw (const char *s) {
    struct pwver *v = calloc (1, sizeof *v);
    if (strcmp (s, "-")) while (*s) {
        const char *end = strchr (s, ','); const char *eq; struct fpwe *e;
        if (!end) end = s + strlen (s);
        eq = memchr (s, '=', end - s);
        v->e = realloc (v->e, (v->n + 1) * sizeof *v->e); e = &v->e[v->n++];
        e->name = name_dup (s, eq - s);
        e->err = (eq[1] == '!'); e->uid = e->err ? 0 : (uid_t) strtoul (eq + 1, NULL, 10);
        s = *end ? end + 1 : end;
    }
    if (npws < 4096) pws[npws++] = v;
    cur_pw = v;
}
static void free_versions (void) {
    int i, j, k;
    for (i = 0; i < ndbs; i++) {
        for (j = 0; j < dbs[i]->n; j++) { for (k = 0; k < dbs[i]->e[j].nmem; k++) free (dbs[i]->e[j].mem[k]); free (dbs[i]->e[j].mem); }
        free (dbs[i]->e); free (dbs[i]);
    }
    for (i = 0; i < npws; i++) { for (j = 0; j < pws[i]->n; j++) free (pws[i]->e[j].name); free (pws[i]->e); free (pws[i]); }
    ndbs = npws = 0;
}

/* ------------------------------------------------------------------ hooks */
#define MAXHOOK 64
struct hookrec { int ord; char *acts[3]; int fault; };     /* acts: T, G, E; fault: EIO at entry k, -1 none */
static struct hookrec hooks[MAXHOOK]; static int nhooks;
static int n_started;                                      /* refreshes started so far */
static int cur_ord = -1;                                   /* ordinal of the refresh in progress */
static struct hookrec *hook_of (int ord) {
    int i; for (i = nhooks - 1; i >= 0; i--) if (hooks[i].ord == ord) return &hooks[i];
    return NULL;
}
static int pt_index (int c) { return c == 'T' ? 0 : c == 'G' ? 1 : 2; }

/* parking: the timer thread waits inside a wrapped libc call while the driver acts */
static int park_point; static long park_gen; static int park_release;
static void park (int c) {
    struct hookrec *h = hook_of (cur_ord);
    if (!h || !h->acts[pt_index (c)] || !h->acts[pt_index (c)][0]) return;
    pthread_mutex_lock (&em); emit ("h%c", c); pthread_mutex_unlock (&em);
    pthread_mutex_lock (&hm);
    park_point = c; park_gen++; park_release = 0;
    __real_pthread_cond_signal (&hcv);
    while (!park_release) { struct timespec rt; real_deadline (&rt, 5); __real_pthread_cond_timedwait (&hcv, &hm, &rt); }
    park_point = 0; park_release = 0;
    pthread_mutex_unlock (&hm);
}

/* ------------------------------------------------------------------ wrapped libc: NSS, stat, time */
static int in_refresh, gr_pos, n_calls, n_setgrent, n_stat, e_parked;

static size_t entry_need (const struct fent *e) {
    size_t n = 8 * ((size_t) e->nmem + 1) + 6; int i;
    for (i = 0; i < e->nmem; i++) n += strlen (e->mem[i]) + 1;
    return n;
}
/* the group database is ONE stream, as in glibc's files backend: setgrent() opens the current file only when the stream
   is not open — otherwise it rewinds the file it opened earlier, even if that one has since been replaced —, endgrent()
   closes it, getgrent_r() without setgrent() opens it.  The user database has no stream (looked at afresh per scan). */
static int stream_open;
void __wrap_setgrent (void) {
    if (!stream_open) { scan_db = cur_db; stream_open = 1; }
    scan_pw = cur_pw; gr_pos = 0; n_calls = 0; e_parked = 0; n_setgrent++;
    pthread_mutex_lock (&em); emit ("o"); pthread_mutex_unlock (&em);
}
void __wrap_endgrent (void) {
    stream_open = 0;
    pthread_mutex_lock (&em); emit ("e"); pthread_mutex_unlock (&em);
}

int __wrap_getgrent_r (struct group *grp, char *buf, size_t buflen, struct group **result) {
    const struct fent *e; size_t need; char *p; int i; struct hookrec *h = hook_of (cur_ord);
    int fault = h ? h->fault : -1;
    *result = NULL;
    if (!stream_open) { scan_db = cur_db; stream_open = 1; gr_pos = 0; }
    if (n_calls++ == 0) park ('G');
    if ((fault >= 0 && gr_pos == fault) || gr_pos >= (scan_db ? scan_db->n : 0)) {
        if (!e_parked) { e_parked = 1; park ('E'); }
        return (fault >= 0 && gr_pos == fault) ? EIO : ENOENT;
    }
    e = &scan_db->e[gr_pos]; need = entry_need (e);
    if (buflen < need) return ERANGE;                      /* entry not consumed: xgetgrent grows and retries */
    grp->gr_mem = (char **) buf; p = buf + 8 * ((size_t) e->nmem + 1);
    grp->gr_name = p; memcpy (p, "grp", 4); p += 4;
    grp->gr_passwd = p; memcpy (p, "x", 2); p += 2;
    for (i = 0; i < e->nmem; i++) {
        size_t l = strlen (e->mem[i]) + 1;
        grp->gr_mem[i] = p; memcpy (p, e->mem[i], l); p += l;
    }
    grp->gr_mem[e->nmem] = NULL;
    grp->gr_gid = e->gid;
    gr_pos++; *result = grp;
    return 0;
}

int __wrap_getpwnam_r (const char *name, struct passwd *pwd, char *buf, size_t buflen, struct passwd **result) {
    size_t l = strlen (name) + 1; int i; unsigned h = 0; const char *q;
    *result = NULL;
    if (buflen < l + 8) return ERANGE;
    for (i = 0; scan_pw && i < scan_pw->n; i++) {
        if (strcmp (scan_pw->e[i].name, name)) continue;
        if (scan_pw->e[i].err) return EIO;
        memset (pwd, 0, sizeof *pwd);
        memcpy (buf, name, l); pwd->pw_name = buf;
        memcpy (buf + l, "x", 2); pwd->pw_passwd = buf + l;
        pwd->pw_gecos = pwd->pw_dir = pwd->pw_shell = buf + l + 1;
        pwd->pw_uid = scan_pw->e[i].uid; pwd->pw_gid = 0;
        *result = pwd;
        return 0;
    }
    for (q = name; *q; q++) h = h * 31 + (unsigned char) *q;       /* "not found" comes in several shapes */
    switch (h % 3) { case 0: return 0; case 1: return ENOENT; default: return ESRCH; }
}

int __real_stat (const char *path, struct stat *st);
int __wrap_stat (const char *path, struct stat *st) {
    if (strcmp (path, GIDS_GROUP_FILE)) return __real_stat (path, st);
    n_stat++;
    if (f_stat_fail) { errno = ENOENT; return -1; }
    memset (st, 0, sizeof *st); st->st_mtime = f_mtime; st->st_mode = S_IFREG | 0644;
    return 0;
}

/* lstat: when the group file is a symbolic link (Y op: /etc/group -> a file maintained elsewhere, replaced by rename),
   the link's own mtime never changes; stat() above follows it to the target */
static int f_symlink; static time_t f_lmtime;
int __real_lstat (const char *path, struct stat *st);
int __wrap_lstat (const char *path, struct stat *st) {
    if (strcmp (path, GIDS_GROUP_FILE)) return __real_lstat (path, st);
    if (!f_symlink) return __wrap_stat (path, st);
    n_stat++;
    memset (st, 0, sizeof *st); st->st_mtime = f_lmtime; st->st_mode = S_IFLNK | 0777;
    return 0;
}

time_t __wrap_time (time_t *t) {
    time_t r;
    if (in_refresh) park ('T');
    pthread_mutex_lock (&hm); r = vnow.tv_sec; pthread_mutex_unlock (&hm);
    if (t) *t = r;
    return r;
}

/* ------------------------------------------------------------------ wrapped timer API as gids.c calls it */
long __real_timer_set_relative (callback_f cb, void *arg, long msec);
int __real_timer_cancel (long id);
struct inst { callback_f cb; void *arg; long id; struct inst *next; };
static struct inst *insts;
static int destroying, destroy_logged;

static int driver_busy;      /* a gids_update made by the driver at top level has not returned yet: the callback's
                                first action is to take the gids mutex, which gids_update holds to its end, so
                                holding the callback here until gids_update has returned changes nothing but
                                makes the order of the log entries deterministic */
static void tramp (void *a) {
    struct inst *in = a;
    pthread_mutex_lock (&em);                              /* the set that created us has logged its result */
    while (driver_busy) { pthread_mutex_unlock (&em); usleep (100); pthread_mutex_lock (&em); }
    emit ("f%ld@%ld", in->id, now_ms ());
    cur_ord = n_started++;
    pthread_mutex_unlock (&em);
    n_stat = n_setgrent = 0; in_refresh = 1;
    in->cb (in->arg);
    in_refresh = 0;
    pthread_mutex_lock (&em);
    if (stream_open) emit ("!unclosed%d", cur_ord);          /* the scan was not ended by endgrent() */
    emit ("r%d%d", n_stat > 0, n_setgrent > 0); cur_ord = -1;
    pthread_mutex_unlock (&em);
}
long __wrap_timer_set_relative (callback_f cb, void *arg, long msec) {
    struct inst *in = malloc (sizeof *in); long id, now;
    in->cb = cb; in->arg = arg;
    pthread_mutex_lock (&em);
    now = now_ms ();
    id = __real_timer_set_relative (tramp, in, msec);
    in->id = id; in->next = insts; insts = in;
    emit ("s%ld@%ld+%ld", id, now, msec);
    pthread_mutex_unlock (&em);
    return id;
}
int __wrap_timer_cancel (long id) {
    int r;
    pthread_mutex_lock (&em);
    r = __real_timer_cancel (id);
    if (destroying) { emit ("d%ld=%d", id, r); destroy_logged = 1; } else emit ("c%ld=%d", id, r);
    pthread_mutex_unlock (&em);
    return r;
}

static volatile int sentinel_fired;
static void sentinel_cb (void *a) { (void) a; sentinel_fired = 1; }

/* ------------------------------------------------------------------ the driver */
static uid_t *U; static gid_t *G; static int nU, nG;
static gids_t gids;
static int started;

static void sweep (void) {
    char *bits = malloc ((size_t) nU * nG + 1); int i, j;
    for (i = 0; i < nU; i++) for (j = 0; j < nG; j++)
        bits[i * nG + j] = gids_is_member (gids, U[i], G[j]) ? '1' : '0';
    bits[nU * nG] = 0;
    pthread_mutex_lock (&em); emit ("a%s", bits); pthread_mutex_unlock (&em);
    free (bits);
}
static void set_clock_ms (long ms) {
    struct timespec ts; ts.tv_sec = ms / 1000; ts.tv_nsec = (ms % 1000) * 1000000L; set_clock (&ts);
}
static void do_act (char *a) {
    switch (a[0]) {
    case 'G': parse_db (a + 1); break;
    case 'P': parse_pw (a + 1); break;
    case 'M': if (a[1] == '!') f_stat_fail = 1; else { f_stat_fail = 0; f_mtime = (time_t) atoll (a + 1); } break;
    case 'Y': if (a[1] == '-') f_symlink = 0; else { f_symlink = 1; f_lmtime = (time_t) atoll (a + 1); } break;
    case 'S':
        pthread_mutex_lock (&em); driver_busy = 1; pthread_mutex_unlock (&em);
        gids_update (gids);
        pthread_mutex_lock (&em); emit ("u"); driver_busy = 0; pthread_mutex_unlock (&em);
        break;
    case 't': set_clock_ms (atol (a + 1)); break;
    case 'c': set_clock_ms (now_ms () + atol (a + 1)); break;
    case 'A': sweep (); break;
    default: pthread_mutex_lock (&em); emit ("?%s", a); pthread_mutex_unlock (&em);
    }
}
static void do_acts (const char *acts) {
    char *copy = strdup (acts), *save = NULL, *a;
    for (a = strtok_r (copy, "+", &save); a; a = strtok_r (NULL, "+", &save)) do_act (a);
    free (copy);
}
/* let the timer thread run until it is at rest, serving the parked refreshes on the way; 0 ok, -1 stuck */
static int run_to_rest (void) {
    struct timespec lim, rt; long seen = -1;
    if (!started) { started = 1; timer_init (); }
    real_deadline (&lim, 5000);
    for (;;) {
        int point = 0, ord = -1; long gen = 0;
        pthread_mutex_lock (&hm);
        for (;;) {
            if (park_point && !park_release && park_gen != seen) { point = park_point; gen = park_gen; break; }
            if (!park_point && t_waiting && !wake_pending && !(t_timed && ts_le (&t_deadline, &vnow))) break;
            __real_clock_gettime (CLOCK_REALTIME, &rt);
            if (ts_le (&lim, &rt)) { int stuck = in_refresh && !park_point; pthread_mutex_unlock (&hm); return stuck ? -2 : -1; }
            real_deadline (&rt, 5);
            __real_pthread_cond_timedwait (&hcv, &hm, &rt);
        }
        pthread_mutex_unlock (&hm);
        if (!point) return 0;
        pthread_mutex_lock (&em); ord = cur_ord; pthread_mutex_unlock (&em);
        {   struct hookrec *h = hook_of (ord);
            if (h && h->acts[pt_index (point)]) do_acts (h->acts[pt_index (point)]);
        }
        seen = gen;
        pthread_mutex_lock (&hm); park_release = 1; __real_pthread_cond_signal (&hcv); pthread_mutex_unlock (&hm);
        real_deadline (&lim, 5000);
    }
}

static void on_alarm (int sig) {
    /* a deadlock (e.g. gids_update blocked on a mutex the parked refresh holds): keep what was logged */
    (void) sig;
    if (write (1, out, outn) < 0 || write (1, " !timeout\n", 10) < 0) _exit (4);
    _exit (0);
}

static void run_case (char *line) {
    char *save = NULL, *tok; int interval = 0, dostat = 0, bad = 0, i;
    tok = strtok_r (line, " ", &save);                     /* T */
    tok = strtok_r (NULL, " ", &save); sscanf (tok, "I%d,%d", &interval, &dostat);
    tok = strtok_r (NULL, " ", &save);
    {   char *bar = strchr (tok, '|'), *p; *bar = 0;
        for (p = tok + 1; *p; ) { U = realloc (U, (nU + 1) * sizeof *U); U[nU++] = (uid_t) strtoul (p, &p, 10); if (*p == ',') p++; }
        for (p = bar + 1; *p; ) { G = realloc (G, (nG + 1) * sizeof *G); G[nG++] = (gid_t) strtoul (p, &p, 10); if (*p == ',') p++; }
    }
    vnow.tv_sec = 0; vnow.tv_nsec = 0;
    parse_db ("-"); parse_pw ("-"); f_mtime = 0; f_stat_fail = 0;
    gids = gids_create (interval, dostat);                 /* munged: gids_create before timer_init */
    emit ("u");                                            /* gids_create ends with gids_update */
    while (!bad && (tok = strtok_r (NULL, " ", &save))) {
        switch (tok[0]) {
        case 'G': case 'P': case 'M': case 'Y': do_act (tok); break;
        case 'H': {
            /* H<j>/<T acts>/<G acts>/<E acts>/[f<k>] */
            struct hookrec *h; char *f[5]; int nf = 0; char *p = tok + 1;
            while (nf < 5) { f[nf++] = p; p = strchr (p, '/'); if (!p) break; *p++ = 0; }
            if (nf != 5 || nhooks >= MAXHOOK) { emit ("?%s", tok); break; }
            h = &hooks[nhooks++];
            pthread_mutex_lock (&em); h->ord = n_started + atoi (f[0]); pthread_mutex_unlock (&em);
            for (i = 0; i < 3; i++) h->acts[i] = f[i + 1];
            h->fault = f[4][0] == 'f' ? atoi (f[4] + 1) : -1;
            break; }
        case 't': case 'c': case 'S': case 'A':
            do_act (tok);
            {   int rr = run_to_rest ();
                if (rr == -2) {
                    /* the callback was entered and has neither parked nor returned: the timer thread is stuck in it.
                       What that means for every other service: a sentinel timer set for immediate expiry, the clock
                       an hour on — nothing fires */
                    int ord; long t0;
                    pthread_mutex_lock (&em); ord = cur_ord; pthread_mutex_unlock (&em);
                    t0 = now_ms ();
                    __real_timer_set_relative (sentinel_cb, NULL, 0);
                    set_clock_ms (t0 + 3600000L);
                    usleep (300000);
                    pthread_mutex_lock (&em); emit ("!stuck%d:%d", ord, sentinel_fired); pthread_mutex_unlock (&em);
                    bad = 1; break;
                }
                if (rr < 0) { pthread_mutex_lock (&em); emit ("!norest"); pthread_mutex_unlock (&em); bad = 1; break; }
            }
            pthread_mutex_lock (&em); emit ("|"); pthread_mutex_unlock (&em);
            break;
        default: emit ("?%s", tok);
        }
    }
    if (!bad) {
        struct inst *in;
        destroying = 1; gids_destroy (gids);
        if (!destroy_logged) emit ("d-");
        if (started) timer_fini ();
        hash_drop_memory ();
        while ((in = insts)) { insts = in->next; free (in); }
        free_versions (); free (U); free (G); U = NULL; G = NULL; nU = nG = 0;
#ifdef __SANITIZE_ADDRESS__
        if (__lsan_do_recoverable_leak_check ()) emit ("!leak");
#endif
        emit (".");
    }
    puts (out); fflush (stdout);
}

int main (void) {
    char *line = NULL; size_t cap = 0; ssize_t n;
    static char res[1 << 20];
    while ((n = getline (&line, &cap, stdin)) > 0) {
        pid_t pid; int st = 0, fd[2]; size_t got = 0; ssize_t r;
        if (line[n - 1] == '\n') line[n - 1] = 0;
        fflush (stdout);
        if (pipe (fd) < 0) { perror ("pipe"); return 2; }
        pid = fork ();
        if (pid == 0) {
            close (fd[0]); dup2 (fd[1], 1); close (fd[1]);
            signal (SIGALRM, on_alarm); alarm (10);
            run_case (line); _exit (0);
        }
        close (fd[1]);
        while ((r = read (fd[0], res + got, sizeof res - 1 - got)) > 0) got += r;
        close (fd[0]); res[got] = 0;
        if (got && res[got - 1] == '\n') res[--got] = 0;
        if (pid < 0 || waitpid (pid, &st, 0) < 0 || !WIFEXITED (st) || WEXITSTATUS (st) != 0)
            printf ("!crash status=0x%x %s\n", st, res);
        else
            printf ("%s\n", res);
        fflush (stdout);
    }
    free (line);
    return 0;
}
