/* hkdf_harness.c — drives /repo's hkdf API (src/common/hkdf.c over mac.c/OpenSSL) with the same
 * case lines as `extract/keys/oracle`:
 *     H <md> <ikm|*> <salt|*> <info|*> <L>       ("*" = setter not called, "-" = empty string set)
 *  -> H <rv> <len> <hex>                          (rv 0: success, *dstlenp = len)
 *     HF <op> <k> <md> <ikm> <salt> <info> <L>    (with harness/mac_fault.c: the k-th call of mac_init/update/final/cleanup
 *                                                  (op 0..3) made by this hkdf() fails)
 *  -> HF <fired> H <rv> <len> <hex>
 * The destination is malloc'd at exactly L bytes, so ASan sees any write beyond the requested length. */
#include "hexio.h"
#include <errno.h>
#include <munge.h>
#include "crypto.h"
#include "hkdf.h"
#include "md.h"

static char line[1 << 20];

/* optional: harness/mac_fault.c ("HF <op> <k> <md> ..." cases) */
__attribute__((weak)) void mac_fault_set (int op, int k);
__attribute__((weak)) int mac_fault_fired (void);

int main (void) {
    crypto_init ();
    md_init_subsystem ();
    while (fgets (line, sizeof line, stdin)) {
        char *nl = strchr (line, '\n'); if (nl) *nl = 0;
        char op; int md; long L; char *t[8]; int nt = 0; char *save = NULL, *tok;
        for (tok = strtok_r (line, " ", &save); tok && nt < 8; tok = strtok_r (NULL, " ", &save)) t[nt++] = tok;
        int faulty = 0;
        if (nt == 8 && !strcmp (t[0], "HF") && mac_fault_set) {
            int i;
            mac_fault_set (atoi (t[1]), atoi (t[2]));
            for (i = 1; i < 6; i++) t[i] = t[i + 2];
            nt = 6; faulty = 1;
        }
        else if (nt != 6 || strcmp (t[0], "H")) { printf ("? %s\n", nt ? t[0] : ""); continue; }
        md = atoi (t[1]); L = atol (t[5]);
        {
            int ikmlen = 0, saltlen = 0, infolen = 0, rv = 0;
            unsigned char *ikm = strcmp (t[2], "*") ? unhex (t[2], &ikmlen) : NULL;
            unsigned char *salt = strcmp (t[3], "*") ? unhex (t[3], &saltlen) : NULL;
            unsigned char *info = strcmp (t[4], "*") ? unhex (t[4], &infolen) : NULL;
            unsigned char *dst = malloc (L ? L : 1);
            size_t dstlen = L;
            hkdf_ctx_t *h = hkdf_ctx_create ();
            if (!h) { printf ("H 9 0 *\n"); continue; }
            if (hkdf_ctx_set_md (h, md) < 0) rv = -1;
            if (!rv && ikm && hkdf_ctx_set_key (h, ikm, ikmlen) < 0) rv = -1;
            if (!rv && salt && hkdf_ctx_set_salt (h, salt, saltlen) < 0) rv = -1;
            if (!rv && info && hkdf_ctx_set_info (h, info, infolen) < 0) rv = -1;
            if (!rv) rv = hkdf (h, dst, &dstlen);
            if (faulty) { printf ("HF %d ", mac_fault_fired ()); mac_fault_set (0, 0); }
            if (rv < 0) printf ("H 1 0 *\n");
            else { printf ("H 0 %zu ", dstlen); puthex (dst, (int) dstlen); printf ("\n"); }
            hkdf_ctx_destroy (h);
            free (ikm); free (salt); free (info); free (dst);
        }
    }
    crypto_fini ();
    return 0;
}
