/* c13_shims.c — observation and scheduling hooks for libmunge's retry loop (m_msg_client_xfer), linked into lmclient
 * by the C13 check only:   -Wl,--wrap=m_msg_create,--wrap=m_msg_destroy,--wrap=m_msg_send,--wrap=m_msg_recv,
 *                               --wrap=m_msg_bind,--wrap=connect,--wrap=close,--wrap=nanosleep
 * No source of /repo is edited; every wrapper calls the real function.
 *
 * Trace of one munge_encode/munge_decode call (tokens separated by one blank, printed by lmclient as a `T` line):
 *   N<id>               m_msg_create returned a new message; ids count from 0 per operation (0 = the request)
 *   D<id>               m_msg_destroy of a live message          D!<id> of a message destroyed before (the real
 *                       function is NOT called again)            D?     of a pointer that never was a message
 *   C<c>+ / C<c>-       connect() on the c-th socket of this operation succeeded / failed
 *   Q<id>r<n>c<c>+/-    m_msg_send of message <id> carrying retry=<n> on connection <c> (c0 = no socket) succeeded / failed
 *   B<id>c<c>           m_msg_bind (message, socket of connection c)
 *   R<id>c<c>+/-        m_msg_recv into message <id> succeeded / failed
 *   X<c>                close() of the socket of connection c    X!<c>  of a socket that was closed already
 *   S<ms>               nanosleep (virtual: returns at once)
 * Plan (lmclient line `P h<c>,h<c>...`): the connect() of connection c returns only after the peer has hung up, so that
 * the first write of the request meets a closed connection whatever the scheduling. */
#include <errno.h>
#include <poll.h>
#include <signal.h>
#include <stdio.h>
#include <stdlib.h>
#include <string.h>
#include <sys/socket.h>
#include <time.h>
#include <munge.h>
#include "m_msg.h"

#define MAXMSG 64
#define MAXFD 1024
static struct { void *p; int live; } msgs[MAXMSG];
static int nmsgs;
static int fd_conn[MAXFD];      /* fd -> connection ordinal (0 = not one of ours) */
static int fd_open[MAXFD];
static int nconn;
static int hang[64];            /* connection ordinals whose connect waits for the peer's hang-up */
static int nhang;
static char trace[1 << 16];
static size_t tlen;

static void ev (const char *fmt, ...) __attribute__((format(printf, 1, 2)));
#include <stdarg.h>
static void ev (const char *fmt, ...) {
    va_list ap;
    if (tlen + 64 > sizeof trace) return;
    if (tlen) trace[tlen++] = ' ';
    va_start (ap, fmt);
    tlen += vsnprintf (trace + tlen, sizeof trace - tlen, fmt, ap);
    va_end (ap);
}

static int msg_id (void *p, int *live) {
    int i;
    for (i = nmsgs - 1; i >= 0; i--) if (msgs[i].p == p) { *live = msgs[i].live; return i; }
    return -1;
}
static int conn_of (int fd) { return (fd >= 0 && fd < MAXFD) ? fd_conn[fd] : 0; }

__attribute__((constructor)) static void c13_init (void) { signal (SIGPIPE, SIG_IGN); }   /* as munge/unmunge do */

/* --- hooks called by lmclient.c (weak there) --- */
void c13_trace_begin (void) {
    nmsgs = 0; nconn = 0; tlen = 0; trace[0] = 0;
    memset (fd_conn, 0, sizeof fd_conn); memset (fd_open, 0, sizeof fd_open);
}
void c13_trace_print (void) { printf ("T %s\n", tlen ? trace : "-"); }
int c13_plan (const char *s) {
    nhang = 0;
    while (*s) {
        if (*s == 'h') { hang[nhang < 64 ? nhang++ : 63] = atoi (s + 1); }
        while (*s && *s != ',') s++;
        if (*s == ',') s++;
    }
    return nhang;
}

/* --- messages --- */
munge_err_t __real_m_msg_create (m_msg_t *pm);
munge_err_t __wrap_m_msg_create (m_msg_t *pm) {
    munge_err_t e = __real_m_msg_create (pm);
    if (e == EMUNGE_SUCCESS && nmsgs < MAXMSG) { msgs[nmsgs].p = *pm; msgs[nmsgs].live = 1; ev ("N%d", nmsgs); nmsgs++; }
    return e;
}
void __real_m_msg_destroy (m_msg_t m);
void __wrap_m_msg_destroy (m_msg_t m) {
    int live = 0, id = msg_id (m, &live);
    if (id < 0) { ev ("D?"); __real_m_msg_destroy (m); return; }
    if (!live) { ev ("D!%d", id); return; }
    ev ("D%d", id);
    msgs[id].live = 0;
    /* a socket closed through the destructor is reported by the close wrapper */
    __real_m_msg_destroy (m);
}
munge_err_t __real_m_msg_send (m_msg_t m, m_msg_type_t type, int maxlen);
munge_err_t __wrap_m_msg_send (m_msg_t m, m_msg_type_t type, int maxlen) {
    int live = 0, id = msg_id (m, &live), c = conn_of (m->sd), retry = m->retry;
    munge_err_t e = __real_m_msg_send (m, type, maxlen);
    ev ("Q%dr%dc%d%c", id, retry, c, e == EMUNGE_SUCCESS ? '+' : '-');
    return e;
}
munge_err_t __real_m_msg_recv (m_msg_t m, m_msg_type_t type, int maxlen);
munge_err_t __wrap_m_msg_recv (m_msg_t m, m_msg_type_t type, int maxlen) {
    int live = 0, id = msg_id (m, &live), c = conn_of (m->sd);
    munge_err_t e = __real_m_msg_recv (m, type, maxlen);
    ev ("R%dc%d%c", id, c, e == EMUNGE_SUCCESS ? '+' : '-');
    return e;
}
munge_err_t __real_m_msg_bind (m_msg_t m, int sd);
munge_err_t __wrap_m_msg_bind (m_msg_t m, int sd) {
    int live = 0, id = msg_id (m, &live);
    ev ("B%dc%d", id, conn_of (sd));
    return __real_m_msg_bind (m, sd);
}

/* --- sockets --- */
int __real_connect (int fd, const struct sockaddr *a, socklen_t l);
int __wrap_connect (int fd, const struct sockaddr *a, socklen_t l) {
    int rc, c, i, e;
    if (fd >= 0 && fd < MAXFD && !(fd_conn[fd] && fd_open[fd])) { fd_conn[fd] = ++nconn; fd_open[fd] = 1; }
    c = conn_of (fd);
    rc = __real_connect (fd, a, l);
    e = errno;
    ev ("C%d%c", c, rc == 0 ? '+' : '-');
    if (rc == 0) {
        for (i = 0; i < nhang; i++) if (hang[i] == c) {
            struct pollfd p; p.fd = fd; p.events = POLLIN; p.revents = 0;
            int waited = 0;
            while (waited < 3000 && !(p.revents & (POLLHUP | POLLERR))) { poll (&p, 1, 50); waited += 50; }
            break;
        }
    }
    errno = e;
    return rc;
}
int __real_close (int fd);
int __wrap_close (int fd) {
    if (fd >= 0 && fd < MAXFD && fd_conn[fd]) {
        if (fd_open[fd]) { ev ("X%d", fd_conn[fd]); fd_open[fd] = 0; }
        else { ev ("X!%d", fd_conn[fd]); errno = EBADF; return -1; }   /* do not close somebody else's descriptor */
    }
    return __real_close (fd);
}
int __real_nanosleep (const struct timespec *req, struct timespec *rem);
int __wrap_nanosleep (const struct timespec *req, struct timespec *rem) {
    (void) rem;
    ev ("S%ld", (long) (req->tv_sec * 1000 + req->tv_nsec / 1000000));
    return 0;
}
