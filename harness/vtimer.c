/* vtimer.c — fast-forward for the daemon's timer thread, linked with -Wl,--wrap=clock_gettime,--wrap=pthread_cond_timedwait.
   Bytes 8..15 of the file named by VERIF_CLOCK_FILE hold a little-endian int64 offset in milliseconds that is ADDED to
   CLOCK_REALTIME as munged's objects see it (timer.c, clock.c); an absolute deadline handed to pthread_cond_timedwait is
   translated back.  Raising the offset makes pending timers due; the timer thread notices within 50 ms (sliced wait below). */
#include <fcntl.h>
#include <pthread.h>
#include <stdint.h>
#include <stdlib.h>
#include <sys/mman.h>
#include <time.h>
#include <unistd.h>
int __real_clock_gettime(clockid_t id, struct timespec *ts);
int __real_pthread_cond_timedwait(pthread_cond_t *c, pthread_mutex_t *m, const struct timespec *abs);
static volatile int64_t *voff;
__attribute__((constructor)) static void vtimer_init(void) {
    const char *p = getenv("VERIF_CLOCK_FILE");
    if (p) {
        int fd = open(p, O_RDONLY);
        if (fd >= 0) {
            void *m = mmap(NULL, 16, PROT_READ, MAP_SHARED, fd, 0);
            if (m != MAP_FAILED) voff = ((volatile int64_t *) m) + 1;
            close(fd);
        }
    }
}
static int64_t off_ms(void) { return voff ? __atomic_load_n(voff, __ATOMIC_RELAXED) : 0; }
__attribute__((no_sanitize("address")))
static void shift(struct timespec *ts, int64_t ms) {
    int64_t ns = (int64_t) ts->tv_nsec + (ms % 1000) * 1000000LL;
    int64_t s = (int64_t) ts->tv_sec + ms / 1000;
    while (ns >= 1000000000LL) { ns -= 1000000000LL; s++; }
    while (ns < 0) { ns += 1000000000LL; s--; }
    ts->tv_sec = (time_t) s; ts->tv_nsec = (long) ns;
}
int __wrap_clock_gettime(clockid_t id, struct timespec *ts) {
    int rv = __real_clock_gettime(id, ts);
    if (rv == 0 && id == CLOCK_REALTIME) shift(ts, off_ms());
    return rv;
}
/* no stack object and no instrumentation here: the timer thread is cancelled inside this call at shutdown, and ASan's
   no-return handling of the forced unwind would otherwise flag this frame's local.
   The wait is done in slices of at most 50 ms of real time, re-reading the offset before each: a raised offset makes a
   pending deadline due within 50 ms, without anything having to wake the timer thread. */
#include <errno.h>
__attribute__((no_sanitize("address")))
int __wrap_pthread_cond_timedwait(pthread_cond_t *c, pthread_mutex_t *m, const struct timespec *abs) {
    static __thread struct timespec now, dl;
    for (;;) {
        int64_t left_ns; int rc;
        __real_clock_gettime(CLOCK_REALTIME, &now);
        dl = now;                                   /* real now */
        shift(&now, off_ms());                      /* virtual now */
        left_ns = ((int64_t) abs->tv_sec - (int64_t) now.tv_sec) * 1000000000LL + ((int64_t) abs->tv_nsec - (int64_t) now.tv_nsec);
        if (left_ns <= 0) return ETIMEDOUT;         /* mutex still held, as after a timed-out wait */
        if (left_ns > 50000000LL) left_ns = 50000000LL;
        shift(&dl, 0);
        dl.tv_nsec += (long) (left_ns % 1000000000LL);
        dl.tv_sec += (time_t) (left_ns / 1000000000LL);
        if (dl.tv_nsec >= 1000000000L) { dl.tv_nsec -= 1000000000L; dl.tv_sec++; }
        rc = __real_pthread_cond_timedwait(c, m, &dl);
        if (rc != ETIMEDOUT) return rc;
    }
}
