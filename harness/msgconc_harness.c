/* msgconc_harness.c — /repo's m_msg.c used the way munged's worker threads (and multi-threaded libmunge users) use it:
   several threads sending and receiving DIFFERENT messages at the same time, each on its own socketpair.

   stdin:  M <code> <msgstate>      one line per message (msgstate as in msg_harness.c)
   argv:   <threads> <rounds> <force 0|1>

   1. every message is sent once alone (m_msg_send on a fresh object; the bytes that arrive before EOF):  REF <i> <code> <hex>
   2. <rounds> rounds: all threads leave a barrier together, thread t sends message (t * 5 + r * 3) % K on its own
      socketpair and reads what arrived.  With force = 1 the schedule is fixed by a shim (-Wl,--wrap=writev): the first writev
      of each send waits until every thread of the round has reached its own writev, i.e. has computed the length, packed the
      body and packed the header - the window in which state shared between sends would be overwritten.  (The wait gives up
      after 2 s, so a send that fails before writing cannot block the round.)  A send whose bytes differ from the message's
      own bytes of step 1:   BADSEND <t> <r> <i> <hex of what arrived>
   3. the same rounds for m_msg_recv: every thread receives the bytes of its message (as produced in step 1) at the same
      time; type, retry, error_num, data_len and the data bytes must be those of a receive done alone:  BADRECV <t> <r> <i> ...
   last line:  DONE sends=<n> badsend=<n> recvs=<n> badrecv=<n>
   Built from /repo's current sources, once with ASan+UBSan and once with -fsanitize=thread (which names a race). */
#include "hexio.h"
#include <errno.h>
#include <pthread.h>
#include <signal.h>
#include <stdint.h>
#include <time.h>
#include <sys/socket.h>
#include <sys/uio.h>
#include <unistd.h>
#include <munge.h>
#include "m_msg.h"

#define MAXMSG 64
#define MAXTHR 32
static char *mline[MAXMSG]; static int mcode[MAXMSG]; static int K;
static unsigned char *ref[MAXMSG]; static int reflen[MAXMSG];
static int nthr, rounds, force;
static pthread_barrier_t start_bar;
static pthread_mutex_t out_mu = PTHREAD_MUTEX_INITIALIZER;
static long n_send, n_badsend, n_recv, n_badrecv;

/* ---- the writev gate --------------------------------------------------------------------------------------- */
static pthread_mutex_t g_mu = PTHREAD_MUTEX_INITIALIZER;
static pthread_cond_t g_cv = PTHREAD_COND_INITIALIZER;
static int g_arrived, g_gen, g_on;
static __thread int g_armed;

ssize_t __real_writev (int fd, const struct iovec *iov, int cnt);
ssize_t __wrap_writev (int fd, const struct iovec *iov, int cnt)
{
    if (g_on && g_armed) {
        struct timespec ts;
        int gen;
        g_armed = 0;
        clock_gettime (CLOCK_REALTIME, &ts); ts.tv_sec += 2;
        pthread_mutex_lock (&g_mu);
        gen = g_gen;
        if (++g_arrived == nthr) { g_arrived = 0; g_gen++; pthread_cond_broadcast (&g_cv); }
        else while (gen == g_gen) if (pthread_cond_timedwait (&g_cv, &g_mu, &ts) == ETIMEDOUT) break;
        pthread_mutex_unlock (&g_mu);
    }
    return __real_writev (fd, iov, cnt);
}

/* ---- message objects (as in msg_harness.c) ----------------------------------------------------------------------- */
static char *next_tok (char **ps) {
    char *s = *ps, *t;
    while (*s == ' ') s++;
    if (!*s) return NULL;
    t = s; while (*s && *s != ' ') s++;
    if (*s) *s++ = 0;
    *ps = s; return t;
}
static void *tok_buf (const char *t) {
    int n;
    if (!t || t[0] != 'x') return NULL;
    if (!t[1]) return malloc (1);
    return unhex (t + 1, &n);
}
static int fill (m_msg_t m, const char *state) {
    char *copy = strdup (state), *s = copy, *nums = next_tok (&s), *t, *save = NULL, *q; unsigned long v[22]; int i, n;
    if (!nums) { free (copy); return -1; }
    for (i = 0, q = strtok_r (nums, ",", &save); q && i < 22; q = strtok_r (NULL, ",", &save)) v[i++] = strtoul (q, NULL, 10);
    if (i != 22) { free (copy); return -1; }
    m->retry = v[1]; m->cipher = v[3]; m->mac = v[4]; m->zip = v[5];
    m->realm_len = v[6]; m->ttl = v[7]; m->addr_len = v[8]; m->time0 = v[9]; m->time1 = v[10];
    m->client_uid = v[11]; m->client_gid = v[12]; m->cred_uid = v[13]; m->cred_gid = v[14];
    m->auth_uid = v[15]; m->auth_gid = v[16]; m->data_len = v[17]; m->auth_s_len = v[18];
    m->auth_c_len = v[19]; m->error_num = v[20]; m->error_len = v[21];
    t = next_tok (&s);
    t = next_tok (&s); m->realm_str = tok_buf (t);
    t = next_tok (&s);
    if (t && t[0] == 'x') { unsigned char *a = unhex (t + 1, &n); memcpy (&m->addr, a, n < (int) sizeof m->addr ? n : (int) sizeof m->addr); free (a); }
    t = next_tok (&s); m->data = tok_buf (t);
    t = next_tok (&s); m->auth_s_str = tok_buf (t);
    t = next_tok (&s); m->auth_c_str = tok_buf (t);
    t = next_tok (&s); m->error_str = tok_buf (t);
    free (copy);
    return 0;
}

static int read_all (int fd, unsigned char **out) {
    size_t cap = 1 << 15, len = 0; unsigned char *b = malloc (cap); ssize_t n;
    for (;;) {
        if (len == cap) { cap *= 2; b = realloc (b, cap); }
        n = read (fd, b + len, cap - len);
        if (n < 0 && errno == EINTR) continue;
        if (n <= 0) break;
        len += n;
    }
    *out = b; return (int) len;
}

/* send message i on a fresh socketpair, return what arrived before EOF (messages fit the socket buffer) */
static int send_one (int i, unsigned char **wire, munge_err_t *pe) {
    int sp[2], n; m_msg_t m;
    if (socketpair (AF_UNIX, SOCK_STREAM, 0, sp) < 0 || m_msg_create (&m) != EMUNGE_SUCCESS || fill (m, mline[i]) < 0) { *wire = NULL; *pe = EMUNGE_SNAFU; return -1; }
    m_msg_bind (m, sp[0]);
    *pe = m_msg_send (m, (m_msg_type_t) mcode[i], 0);
    shutdown (sp[0], SHUT_WR);
    n = read_all (sp[1], wire);
    m_msg_destroy (m);
    close (sp[1]);
    return n;
}

struct rsum { munge_err_t e; unsigned type, retry, error_num; unsigned long data_len; unsigned long dsum; };
static void recv_one (int i, struct rsum *r) {
    int sp[2]; m_msg_t m; size_t k;
    memset (r, 0, sizeof *r);
    if (socketpair (AF_UNIX, SOCK_STREAM, 0, sp) < 0 || m_msg_create (&m) != EMUNGE_SUCCESS) { r->e = EMUNGE_SNAFU; return; }
    if (write (sp[1], ref[i], reflen[i]) != reflen[i]) { r->e = EMUNGE_SNAFU; }
    shutdown (sp[1], SHUT_WR);
    m_msg_bind (m, sp[0]);
    r->e = m_msg_recv (m, MUNGE_MSG_UNDEF, 0);
    r->type = m->type; r->retry = m->retry; r->error_num = m->error_num; r->data_len = m->data_len;
    if (r->e == EMUNGE_SUCCESS && m->data) for (k = 0; k < m->data_len; k++) r->dsum = r->dsum * 131 + ((unsigned char *) m->data)[k];
    m_msg_destroy (m);
    close (sp[1]);
}
static struct rsum rref[MAXMSG];

static void *worker (void *arg) {
    int t = (int) (intptr_t) arg, r;
    for (r = 0; r < rounds; r++) {
        int i = (t * 5 + r * 3) % K, n; unsigned char *w; munge_err_t e;
        pthread_barrier_wait (&start_bar);
        g_armed = 1;
        n = send_one (i, &w, &e);
        g_armed = 0;
        pthread_mutex_lock (&out_mu);
        n_send++;
        if (e != EMUNGE_SUCCESS || n != reflen[i] || memcmp (w, ref[i], n)) {
            n_badsend++;
            if (n_badsend <= 40) { printf ("BADSEND %d %d %d ", t, r, i); puthex (w, n < 0 ? 0 : n); printf (" rc=%d\n", (int) e); }
        }
        pthread_mutex_unlock (&out_mu);
        free (w);
    }
    for (r = 0; r < rounds; r++) {
        int i = (t * 5 + r * 3) % K; struct rsum s;
        pthread_barrier_wait (&start_bar);
        recv_one (i, &s);
        pthread_mutex_lock (&out_mu);
        n_recv++;
        if (memcmp (&s, &rref[i], sizeof s)) {
            n_badrecv++;
            if (n_badrecv <= 40)
                printf ("BADRECV %d %d %d rc=%d type=%u retry=%u error_num=%u data_len=%lu (alone: rc=%d type=%u retry=%u error_num=%u data_len=%lu)\n",
                        t, r, i, (int) s.e, s.type, s.retry, s.error_num, s.data_len,
                        (int) rref[i].e, rref[i].type, rref[i].retry, rref[i].error_num, rref[i].data_len);
        }
        pthread_mutex_unlock (&out_mu);
    }
    return NULL;
}

int main (int argc, char **argv) {
    static char line[1 << 20]; pthread_t th[MAXTHR]; int i;
    nthr = argc > 1 ? atoi (argv[1]) : 8; rounds = argc > 2 ? atoi (argv[2]) : 100; force = argc > 3 ? atoi (argv[3]) : 1;
    if (nthr < 1) nthr = 1; if (nthr > MAXTHR) nthr = MAXTHR;
    signal (SIGPIPE, SIG_IGN);
    while (K < MAXMSG && fgets (line, sizeof line, stdin)) {
        char *nl = strchr (line, '\n'), *s = line + 2, *c;
        if (nl) *nl = 0;
        if (line[0] != 'M' || line[1] != ' ') continue;
        c = next_tok (&s);
        if (!c) continue;
        mcode[K] = atoi (c); mline[K] = strdup (s); K++;
    }
    if (K == 0) { printf ("DONE sends=0 badsend=0 recvs=0 badrecv=0\n"); return 0; }
    for (i = 0; i < K; i++) {
        munge_err_t e;
        reflen[i] = send_one (i, &ref[i], &e);
        printf ("REF %d %d ", i, mcode[i]); puthex (ref[i], reflen[i] < 0 ? 0 : reflen[i]); printf (" rc=%d\n", (int) e);
    }
    for (i = 0; i < K; i++) recv_one (i, &rref[i]);
    pthread_barrier_init (&start_bar, NULL, nthr);
    g_on = force;
    for (i = 0; i < nthr; i++) pthread_create (&th[i], NULL, worker, (void *) (intptr_t) i);
    for (i = 0; i < nthr; i++) pthread_join (th[i], NULL);
    printf ("DONE sends=%ld badsend=%ld recvs=%ld badrecv=%ld\n", n_send, n_badsend, n_recv, n_badrecv);
    for (i = 0; i < K; i++) { free (ref[i]); free (mline[i]); }
    return 0;
}
