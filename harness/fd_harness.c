/* fd_harness.c — drives /repo's fd_timed_read_n / fd_timed_write_n / fd_timed_write_iov (src/libcommon/fd.c,
   linked unchanged) on a real AF_UNIX socketpair, with the kernel played by an adversary script, and prints
   what the call returned and which bytes actually reached the other end, in the same line format as
   extract/fd/oracle (the extracted FdModel).

   Link with -Wl,--wrap=poll,--wrap=read,--wrap=write,--wrap=writev,--wrap=gettimeofday,--wrap=malloc,--wrap=free
   (these are the libc calls fd.c makes on this build; checked with nm).  While a call is under test:
     poll()          plays the next poll event and advances the virtual clock (FdModel.do_poll)
     gettimeofday()  returns the virtual clock
     writev()/write() play the next I/O event; "Xfer k" pushes the first min(max(k,1), offered) bytes THROUGH THE
                     POINTERS fd.c PASSED into the socket (real write) and pulls them out at the other end (real
                     read) into the record of delivered bytes
     read()          "Xfer k": the peer writes its next min(max(k,1), count, available) bytes into the socket and
                     a real read() moves them into the pointer fd.c passed (ASan watches both directions)
     malloc()/free() counted (leak / double free of the private iovec copy), malloc fails when the case says so
   An empty script makes poll time out and I/O fail, as in the model.

   case lines (tokens separated by one blank)
     V <skip> <oom> <when> <t0> <buf,buf,...> <polls> <ios>       fd_timed_write_iov
     N <skip> <when> <t0> <buf> <polls> <ios>                     fd_timed_write_n
     R <skip> <when> <t0> <n> <peerdata> <polls> <ios>            fd_timed_read_n
   when = '-' (NULL) or sec:usec; t0 = clock in us; data = '-' | x<hex> | g<len>:<seed> (pseudo-random bytes)
   polls = '-' or ','-list of v<dt>:<flags 1=HUP 2=NVAL 4=ERR> | i<dt> EINTR | a<dt> EAGAIN | f<dt> other | t<late>
   ios   = '-' or ','-list of k<n> | z | i | a | e
   answer
     <fn> rc=<n|-1|B> errno=<name> clk=<us> np=<polls> nio=<ios> exh=<0|1> tr=<clk:ms;...|-> out=<len>:<md5>[:<hex>]
     [left=<n>] [flags: leak=<n> tail=1 over=1 hang=1]
   rc=B: poll (.., -1) was never going to return; rc=H: gave up after 4 million system calls.  For R, out = the first <stored> bytes of the buffer. */
#define _GNU_SOURCE
#include "hexio.h"
#include <errno.h>
#include <poll.h>
#include <setjmp.h>
#include <stdint.h>
#include <sys/socket.h>
#include <sys/time.h>
#include <sys/uio.h>
#include <unistd.h>
#include <openssl/md5.h>
#include "fd.h"

ssize_t __real_read (int, void *, size_t);
ssize_t __real_write (int, const void *, size_t);
ssize_t __real_writev (int, const struct iovec *, int);
int __real_poll (struct pollfd *, nfds_t, int);
int __real_gettimeofday (struct timeval *, void *);
void *__real_malloc (size_t);
void __real_free (void *);

#define E_OTHER ECONNRESET
#define CHUNK 16384

struct pev { char kind; long long dt; int flags; };
struct iev { char kind; size_t k; };

static int active, tfd = -1, pfd_peer = -1, oom;
static long long vclk;
static struct pev *ps; static size_t ps_n, ps_i;
static struct iev *ios; static size_t ios_n, ios_i;
static size_t np, nio; static int exh;
static char *tr; static size_t tr_len, tr_cap;
static unsigned char *dl; static size_t dl_len, dl_cap; static int dl_over;      /* delivered to the peer */
static const unsigned char *pd; static size_t pd_len, pd_off;                   /* what the peer sends */
static size_t stored;
static sigjmp_buf jb;
static void *live[64]; static int nlive, badfree;
static unsigned long budget;

static void spend (void) { if (++budget > 4000000UL) siglongjmp (jb, 2); }

static void trace (long long c, int ms) {
    if (tr_len + 48 > tr_cap) return;
    tr_len += sprintf (tr + tr_len, "%s%lld:%d", tr_len ? ";" : "", c, ms);
}

/* move [n] bytes starting at [p] through the socket into the delivered record */
static void push_bytes (const unsigned char *p, size_t n) {
    while (n > 0) {
        size_t c = n < CHUNK ? n : CHUNK, off = 0, got = 0; ssize_t r;
        while (off < c) { r = __real_write (tfd, p + off, c - off); if (r <= 0) { if (r < 0 && errno == EINTR) continue; abort (); } off += r; }
        if (dl_len + c > dl_cap) {               /* more than twice what was to be sent: drain and drop */
            unsigned char sink[CHUNK];
            while (got < c) { r = __real_read (pfd_peer, sink, c - got); if (r <= 0) abort (); got += r; }
            dl_over = 1;
        } else {
            while (got < c) { r = __real_read (pfd_peer, dl + dl_len + got, c - got); if (r <= 0) abort (); got += r; }
            dl_len += c;
        }
        p += c; n -= c;
    }
}

static int next_io (struct iev *e) {
    spend ();
    nio++;
    if (ios_i >= ios_n) { exh = 1; e->kind = 'e'; e->k = 0; return 0; }
    *e = ios[ios_i++]; return 1;
}

static ssize_t io_fail (char kind) {
    errno = kind == 'i' ? EINTR : kind == 'a' ? EAGAIN : E_OTHER; return -1;
}

ssize_t __wrap_writev (int fd, const struct iovec *iov, int cnt) {
    struct iev e; size_t total = 0, want, left; int i, save = errno;
    if (!active || fd != tfd) return __real_writev (fd, iov, cnt);
    next_io (&e);
    if (e.kind == 'z') return 0;
    if (e.kind != 'k') return io_fail (e.kind);
    for (i = 0; i < cnt; i++) total += iov[i].iov_len;
    want = e.k < 1 ? 1 : e.k; if (want > total) want = total;
    if (want == 0) { errno = EAGAIN; return -1; }
    for (i = 0, left = want; i < cnt && left > 0; i++) {
        size_t c = iov[i].iov_len < left ? iov[i].iov_len : left;
        if (c) push_bytes (iov[i].iov_base, c);
        left -= c;
    }
    errno = save; return (ssize_t) want;
}

ssize_t __wrap_write (int fd, const void *buf, size_t count) {
    struct iev e; size_t want; int save = errno;
    if (!active || fd != tfd) return __real_write (fd, buf, count);
    next_io (&e);
    if (e.kind == 'z') return 0;
    if (e.kind != 'k') return io_fail (e.kind);
    want = e.k < 1 ? 1 : e.k; if (want > count) want = count;
    if (want == 0) { errno = EAGAIN; return -1; }
    push_bytes (buf, want);
    errno = save; return (ssize_t) want;
}

ssize_t __wrap_read (int fd, void *buf, size_t count) {
    struct iev e; size_t want, done = 0; int save = errno;
    if (!active || fd != tfd) return __real_read (fd, buf, count);
    next_io (&e);
    if (e.kind == 'z') return 0;
    if (e.kind != 'k') return io_fail (e.kind);
    want = e.k < 1 ? 1 : e.k; if (want > count) want = count;
    if (want > pd_len - pd_off) want = pd_len - pd_off;
    if (want == 0) { errno = EAGAIN; return -1; }
    while (done < want) {
        size_t c = want - done < CHUNK ? want - done : CHUNK, off = 0, got = 0; ssize_t r;
        while (off < c) { r = __real_write (pfd_peer, pd + pd_off + off, c - off); if (r <= 0) abort (); off += r; }
        while (got < c) { r = __real_read (tfd, (unsigned char *) buf + done + got, c - got); if (r <= 0) abort (); got += r; }
        done += c; pd_off += c;
    }
    stored += want;
    errno = save; return (ssize_t) want;
}

int __wrap_poll (struct pollfd *fds, nfds_t n, int ms) {
    struct pev e; long long lim = (long long) ms * 1000, dt;
    if (!active) return __real_poll (fds, n, ms);
    spend ();
    trace (vclk, ms); np++;
    if (ps_i >= ps_n) { exh = 1; e.kind = 't'; e.dt = 0; e.flags = 0; } else e = ps[ps_i++];
    dt = e.dt < 0 ? 0 : e.dt;
    if (e.kind == 't') {
        if (ms < 0) siglongjmp (jb, 1);
        vclk += lim + dt; return 0;
    }
    if (ms >= 0 && lim < dt) { vclk += lim; return 0; }
    vclk += dt;
    switch (e.kind) {
    case 'v':
        fds[0].revents = (fds[0].events & (POLLIN | POLLOUT))
            | ((e.flags & 1) ? POLLHUP : 0) | ((e.flags & 2) ? POLLNVAL : 0) | ((e.flags & 4) ? POLLERR : 0);
        return 1;
    case 'i': errno = EINTR; return -1;
    case 'a': errno = EAGAIN; return -1;
    default:  errno = E_OTHER; return -1;
    }
}

int __wrap_gettimeofday (struct timeval *tv, void *tz) {
    if (!active) return __real_gettimeofday (tv, tz);
    tv->tv_sec = vclk / 1000000; tv->tv_usec = vclk % 1000000; return 0;
}

void *__wrap_malloc (size_t n) {
    void *p;
    if (active && oom) { errno = ENOMEM; return NULL; }
    p = __real_malloc (n);
    if (active && p && nlive < 64) live[nlive++] = p;
    return p;
}
void __wrap_free (void *p) {
    int i, found = 0;
    if (active && p) {
        for (i = 0; i < nlive; i++) if (live[i] == p) { live[i] = live[--nlive]; found = 1; break; }
        if (!found) badfree++;
    }
    __real_free (p);
}

/* ------------------------------------------------------------------ parsing */
static char *tok (char **ps_) {
    char *s = *ps_, *t;
    while (*s == ' ') s++;
    if (!*s) return NULL;
    t = s; while (*s && *s != ' ') s++;
    if (*s) *s++ = 0;
    *ps_ = s; return t;
}

/* exact-size heap buffer: ASan sees any access outside it */
static unsigned char *data_tok (const char *t, size_t *len) {
    unsigned char *b; size_t i;
    if (t[0] == 'x') { int n; unsigned char *u = unhex (t + 1, &n); b = __real_malloc (n); memcpy (b, u, n); free (u); *len = n; return b; }
    if (t[0] == 'g') {
        unsigned long n = strtoul (t + 1, NULL, 10), x = 0; const char *c = strchr (t, ':');
        if (c) x = strtoul (c + 1, NULL, 10);
        b = __real_malloc (n);
        for (i = 0; i < n; i++) { x = (x * 1103515245UL + 12345UL) & 0x7fffffffUL; b[i] = (x >> 16) & 255; }
        *len = n; return b;
    }
    *len = 0; return __real_malloc (0);
}

static size_t count_list (const char *s) { size_t n = 1; if (!strcmp (s, "-")) return 0; for (; *s; s++) if (*s == ',') n++; return n; }

static void parse_scripts (char *p, char *q) {
    char *save = NULL, *t;
    ps_n = count_list (p); ps = __real_malloc (sizeof *ps * (ps_n + 1)); ps_i = 0;
    if (ps_n) { size_t i = 0; for (t = strtok_r (p, ",", &save); t; t = strtok_r (NULL, ",", &save), i++) {
        char *c; ps[i].kind = t[0]; ps[i].dt = strtoll (t + 1, NULL, 10); ps[i].flags = 0;
        if ((c = strchr (t, ':'))) ps[i].flags = atoi (c + 1); } }
    ios_n = count_list (q); ios = __real_malloc (sizeof *ios * (ios_n + 1)); ios_i = 0;
    if (ios_n) { size_t i = 0; for (t = strtok_r (q, ",", &save); t; t = strtok_r (NULL, ",", &save), i++) {
        ios[i].kind = t[0]; ios[i].k = t[0] == 'k' ? strtoull (t + 1, NULL, 10) : 0; } }
}

static const char *ename (int e) {
    static char b[24];
    switch (e) {
    case 0: return "0"; case EINTR: return "EINTR"; case EAGAIN: return "EAGAIN"; case ETIMEDOUT: return "ETIMEDOUT";
    case EBADF: return "EBADF"; case EIO: return "EIO"; case EINVAL: return "EINVAL"; case ENOMEM: return "ENOMEM";
    case E_OTHER: return "EOTHER";
    }
    sprintf (b, "E%d", e); return b;
}

static void put_md5 (const unsigned char *b, size_t n) {
    unsigned char d[16]; int i; static const unsigned char z[1];
    MD5 (n ? b : z, n, d);
    printf ("%zu:", n); for (i = 0; i < 16; i++) printf ("%02x", d[i]);
    if (n > 0 && n <= 64) { printf (":"); for (i = 0; i < (int) n; i++) printf ("%02x", b[i]); }
}

static void run_case (char *s) {
    char *fn = tok (&s), *skip_t, *oom_t = NULL, *when_t, *t0_t, *a1, *a2 = NULL, *pst, *iot;
    struct timeval when, *whenp = NULL; int sp[2], skip, j, leaked = 0, tail = 0; volatile int jr;
    struct iovec *iov = NULL; int iov_cnt = 0; unsigned char *buf = NULL, *peer = NULL; size_t buf_len = 0, n = 0, total = 0;
    ssize_t rc = 0; int err = 0; char rcs[32];
    if (!fn || !strchr ("VNR", fn[0]) || fn[1]) { printf ("? %s\n", fn ? fn : ""); return; }
    skip_t = tok (&s); if (fn[0] == 'V') oom_t = tok (&s);
    when_t = tok (&s); t0_t = tok (&s); a1 = tok (&s); if (fn[0] == 'R') a2 = tok (&s);
    pst = tok (&s); iot = tok (&s);
    if (!iot) { printf ("? short line\n"); return; }
    skip = atoi (skip_t); oom = oom_t ? atoi (oom_t) : 0;
    if (strcmp (when_t, "-")) { char *c = strchr (when_t, ':'); when.tv_sec = strtoll (when_t, NULL, 10); when.tv_usec = c ? strtoll (c + 1, NULL, 10) : 0; whenp = &when; }
    vclk = strtoll (t0_t, NULL, 10);
    if (fn[0] == 'V') {
        char *save = NULL, *t; size_t cnt = count_list (a1), i = 0;
        iov = __real_malloc (sizeof *iov * (cnt + 1)); iov_cnt = (int) cnt;
        if (cnt) for (t = strtok_r (a1, ",", &save); t; t = strtok_r (NULL, ",", &save), i++) {
            size_t l; iov[i].iov_base = data_tok (t, &l); iov[i].iov_len = l; total += l; }
    } else if (fn[0] == 'N') { buf = data_tok (a1, &buf_len); total = buf_len; }
    else { n = strtoull (a1, NULL, 10); buf = __real_malloc (n); memset (buf, 0xAA, n); peer = data_tok (a2, &pd_len); pd = peer; pd_off = 0; total = n; }
    parse_scripts (pst, iot);
    if (socketpair (AF_UNIX, SOCK_STREAM, 0, sp) < 0) { printf ("? socketpair\n"); return; }
    tfd = sp[0]; pfd_peer = sp[1];
    dl_cap = 2 * total + 64; dl = __real_malloc (dl_cap); dl_len = 0; dl_over = 0;
    tr_cap = 48 * (ps_n + ios_n + 8); tr = __real_malloc (tr_cap); tr_len = 0; tr[0] = 0;
    np = nio = 0; exh = 0; stored = 0; nlive = 0; badfree = 0; budget = 0;
    errno = 0;
    active = 1;
    if ((jr = sigsetjmp (jb, 0)) == 0) {
        if (fn[0] == 'V') rc = fd_timed_write_iov (tfd, iov_cnt ? iov : NULL, iov_cnt, whenp, skip);
        else if (fn[0] == 'N') rc = fd_timed_write_n (tfd, buf, buf_len, whenp, skip);
        else rc = fd_timed_read_n (tfd, buf, n, whenp, skip);
        err = errno;
        active = 0;
        snprintf (rcs, sizeof rcs, "%zd", rc);
    } else {
        err = errno; active = 0; strcpy (rcs, jr == 2 ? "H" : "B");
    }
    leaked = nlive;
    for (j = 0; j < nlive; j++) __real_free (live[j]);
    nlive = 0;
    printf ("%s rc=%s errno=%s clk=%lld np=%zu nio=%zu exh=%d tr=%s out=", fn, rcs, ename (err), vclk, np, nio, exh, tr_len ? tr : "-");
    if (fn[0] == 'R') {
        size_t i; put_md5 (buf, stored <= n ? stored : n);
        for (i = stored; i < n; i++) if (buf[i] != 0xAA) tail = 1;
        printf (" left=%zu", pd_len - pd_off);
    } else put_md5 (dl, dl_len);
    if (jr == 2) printf (" hang=1");
    if (jr != 1 && jr != 2 && leaked) printf (" leak=%d", leaked);
    if (badfree) printf (" badfree=%d", badfree);
    if (tail) printf (" tail=1");
    if (dl_over) printf (" over=1");
    printf ("\n");
    close (sp[0]); close (sp[1]); tfd = pfd_peer = -1;
    if (iov) { for (j = 0; j < iov_cnt; j++) __real_free (iov[j].iov_base); __real_free (iov); }
    __real_free (buf); __real_free (peer); __real_free (dl); __real_free (tr); __real_free (ps); __real_free (ios);
    ps = NULL; ios = NULL; pd = NULL; pd_len = 0;
}

int main (void) {
    size_t cap = 1 << 23; char *line = __real_malloc (cap);
    while (fgets (line, cap, stdin)) {
        char *nl = strchr (line, '\n'); if (nl) *nl = 0;
        run_case (line);
        fflush (stdout);
    }
    __real_free (line);
    return 0;
}
