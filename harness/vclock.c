/* vclock.c — virtual clock for the daemon under test, linked with -Wl,--wrap=time.
   time() reads a little-endian int64 from the file named by VERIF_CLOCK_FILE (mmap'd once, before any
   thread exists); value 0 means "use the real clock". */
#include <fcntl.h>
#include <stdint.h>
#include <stdlib.h>
#include <sys/mman.h>
#include <time.h>
#include <unistd.h>
time_t __real_time(time_t *t);
static volatile int64_t *vclk;
__attribute__((constructor)) static void vclk_init(void) {
    const char *p = getenv("VERIF_CLOCK_FILE");
    if (p) {
        int fd = open(p, O_RDONLY);
        if (fd >= 0) {
            void *m = mmap(NULL, 8, PROT_READ, MAP_SHARED, fd, 0);
            if (m != MAP_FAILED) vclk = (volatile int64_t *) m;
            close(fd);
        }
    }
}
time_t __wrap_time(time_t *t) {
    if (vclk) {
        int64_t v = __atomic_load_n(vclk, __ATOMIC_RELAXED);
        if (v != 0) {
            if (t) *t = (time_t) v;
            return (time_t) v;
        }
    }
    return __real_time(t);
}
