/* hexio.h — line/hex helpers shared by the harnesses */
#ifndef HEXIO_H
#define HEXIO_H
#include <stdio.h>
#include <stdlib.h>
#include <string.h>
static int hexval(int c) { return (c >= '0' && c <= '9') ? c - '0' : (c >= 'a' && c <= 'f') ? c - 'a' + 10 : -1; }
/* decode hex token ("-" = empty) into a fresh malloc'd buffer of exactly len bytes (len 0 -> 1 byte alloc) */
static unsigned char *unhex(const char *h, int *len) {
    int n, i; unsigned char *b;
    if (!strcmp(h, "-")) { *len = 0; return malloc(1); }
    n = strlen(h) / 2; b = malloc(n ? n : 1);
    for (i = 0; i < n; i++) b[i] = (unsigned char)(hexval(h[2*i]) * 16 + hexval(h[2*i+1]));
    *len = n; return b;
}
static void puthex(const unsigned char *b, int n) {
    int i; if (n == 0) { fputs("-", stdout); return; }
    for (i = 0; i < n; i++) printf("%02x", b[i]);
}
#endif
