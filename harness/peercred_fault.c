/* peercred_fault.c — fault injection for the peer-identity lookup of the daemon under test.
   Linked with -Wl,--wrap=getsockopt.  While the file named by VERIF_PEERCRED_FAULT exists,
   getsockopt(SOL_SOCKET, SO_PEERCRED) fails with EPERM; everything else is passed through. */
#define _GNU_SOURCE
#include <errno.h>
#include <stdlib.h>
#include <sys/socket.h>
#include <unistd.h>
int __real_getsockopt(int fd, int level, int optname, void *optval, socklen_t *optlen);
int __wrap_getsockopt(int fd, int level, int optname, void *optval, socklen_t *optlen) {
    if (level == SOL_SOCKET && optname == SO_PEERCRED) {
        const char *p = getenv("VERIF_PEERCRED_FAULT");
        if (p && access(p, F_OK) == 0) { errno = EPERM; return -1; }
    }
    return __real_getsockopt(fd, level, optname, optval, optlen);
}
