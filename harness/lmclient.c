/* lmclient.c — drives /repo's libmunge (munge_encode / munge_decode) against a daemon socket.
   usage: lmclient <socket>.  Lines on stdin:
     E <hexpayload|-|@N> <cipher> <mac> <zip> <ttl> <auth_uid> <auth_gid> [<euid> <egid>]
         (@N = N bytes generated as (i*131+7) & 0xff)
     D <hexcred> [<euid> <egid>]
     E! ... / D! ...   the same on a context on which earlier munge_ctx_get/munge_ctx_set calls have failed
   Output per line:
     E <err> <hex cred or -> <hex errstr>
     D <err> <cipher> <mac> <zip> <ttl> <time0> <time1> <uid> <gid> <auth_uid> <auth_gid> <len> <hex payload or -> <hex errstr>
     I <usec>   from now on the process receives SIGALRM every <usec> microseconds, handled by a no-op handler installed
                WITHOUT SA_RESTART (an application with its own timers): interruptible calls inside libmunge see EINTR; answers "I ok"
   Only when harness/c13_shims.c is linked in (the C13 check; the hooks below are weak and absent otherwise):
     P <plan>   passes <plan> to the shims (see c13_shims.c), answers "P <n>"
     every E/D answer line is followed by a line "T <trace of the call>"
     (the trace is taken before munge_ctx_destroy) */
#include "hexio.h"
#include <unistd.h>
#include <munge.h>
#include <signal.h>
#include <sys/time.h>
static void on_alarm(int sig) { (void) sig; }
static int alarm_on;
/* the timer signal is delivered only while a libmunge call is in progress (the harness's own line I/O is not the subject) */
static void alarm_gate(int open_) { sigset_t ss; if (!alarm_on) return; sigemptyset(&ss); sigaddset(&ss, SIGALRM); sigprocmask(open_ ? SIG_UNBLOCK : SIG_BLOCK, &ss, NULL); }

/* optional hooks of harness/c13_shims.c */
__attribute__((weak)) void c13_trace_begin (void);
__attribute__((weak)) void c13_trace_print (void);
__attribute__((weak)) int c13_plan (const char *s);

static char *line;
#define LINE_MAX_ (5 << 20)

static void set_id(long eu, long eg) { if (eg >= 0) setegid((gid_t) eg); if (eu >= 0) seteuid((uid_t) eu); }
static void reset_id(void) { seteuid(0); setegid(0); }

int main(int argc, char **argv) {
    line = malloc(LINE_MAX_);
    while (fgets(line, LINE_MAX_, stdin)) {
        char *nl = strchr(line, '\n'); if (nl) *nl = 0;
        munge_ctx_t ctx = munge_ctx_create();
        munge_ctx_set(ctx, MUNGE_OPT_SOCKET, argv[1]);
        if (line[0] == 'I' && line[1] == ' ') {
            struct sigaction sa; struct itimerval it; long us = atol(line + 2);
            memset(&sa, 0, sizeof sa); sa.sa_handler = on_alarm; sigemptyset(&sa.sa_mask); sa.sa_flags = 0;
            sigaction(SIGALRM, &sa, NULL);
            it.it_interval.tv_sec = us / 1000000; it.it_interval.tv_usec = us % 1000000; it.it_value = it.it_interval;
            alarm_on = 1; alarm_gate(0);
            setitimer(ITIMER_REAL, &it, NULL);
            printf("I ok\n"); fflush(stdout);
            continue;
        }
        if (line[0] == 'P' && line[1] == ' ') {
            printf("P %d\n", c13_plan ? c13_plan(line + 2) : -1);
            munge_ctx_destroy(ctx); fflush(stdout);
            continue;
        }
        /* "E! ..." / "D! ...": the application has used this context before and one of its earlier calls failed (an unknown
           option, an over-long realm): a later munge_encode/munge_decode on the same context is judged on its own */
        if ((line[0] == 'E' || line[0] == 'D') && line[1] == '!') {
            int dummy = 0; char big[300];
            (void) munge_ctx_get(ctx, (munge_opt_t) 9999, &dummy);
            memset(big, 'r', sizeof big - 1); big[sizeof big - 1] = 0;
            (void) munge_ctx_set(ctx, MUNGE_OPT_REALM, big);
            memmove(line + 1, line + 2, strlen(line + 2) + 1);
        }
        if (c13_trace_begin && (line[0] == 'E' || line[0] == 'D')) c13_trace_begin();
        if (line[0] == 'E') {
            char *tok[10]; int n = 0; char *save = NULL, *t;
            for (t = strtok_r(line + 2, " ", &save); t && n < 10; t = strtok_r(NULL, " ", &save)) tok[n++] = t;
            unsigned char *buf; int len; char *cred = NULL; munge_err_t e;
            if (tok[0][0] == '@') { int i; len = atoi(tok[0] + 1); buf = malloc(len ? len : 1); for (i = 0; i < len; i++) buf[i] = (unsigned char)((i * 131 + 7) & 0xff); }
            else buf = unhex(tok[0], &len);
            munge_ctx_set(ctx, MUNGE_OPT_CIPHER_TYPE, atoi(tok[1]));
            munge_ctx_set(ctx, MUNGE_OPT_MAC_TYPE, atoi(tok[2]));
            munge_ctx_set(ctx, MUNGE_OPT_ZIP_TYPE, atoi(tok[3]));
            munge_ctx_set(ctx, MUNGE_OPT_TTL, (int) strtoul(tok[4], NULL, 10));
            munge_ctx_set(ctx, MUNGE_OPT_UID_RESTRICTION, (uid_t) strtoul(tok[5], NULL, 10));
            munge_ctx_set(ctx, MUNGE_OPT_GID_RESTRICTION, (gid_t) strtoul(tok[6], NULL, 10));
            if (n >= 9) set_id(atol(tok[7]), atol(tok[8]));
            alarm_gate(1); e = munge_encode(&cred, ctx, buf, len); alarm_gate(0);
            reset_id();
            printf("E %d ", (int) e);
            if (cred) puthex((unsigned char *) cred, strlen(cred)); else printf("-");
            printf(" "); { const char *s = munge_ctx_strerror(ctx); if (s) puthex((const unsigned char *) s, strlen(s)); else printf("-"); }
            printf("\n");
            free(buf); free(cred);
        } else if (line[0] == 'D') {
            char *tok[4]; int n = 0; char *save = NULL, *t;
            for (t = strtok_r(line + 2, " ", &save); t && n < 4; t = strtok_r(NULL, " ", &save)) tok[n++] = t;
            int clen; unsigned char *c = unhex(tok[0], &clen); char *cred = malloc(clen + 1);
            memcpy(cred, c, clen); cred[clen] = 0;
            void *buf = NULL; int len = 0; uid_t uid = 0; gid_t gid = 0; munge_err_t e;
            if (n >= 3) set_id(atol(tok[1]), atol(tok[2]));
            alarm_gate(1); e = munge_decode(cred, ctx, &buf, &len, &uid, &gid); alarm_gate(0);
            reset_id();
            int ci = 0, ma = 0, zi = 0, ttl = 0; time_t t0 = 0, t1 = 0; uid_t au = 0; gid_t ag = 0;
            munge_ctx_get(ctx, MUNGE_OPT_CIPHER_TYPE, &ci); munge_ctx_get(ctx, MUNGE_OPT_MAC_TYPE, &ma);
            munge_ctx_get(ctx, MUNGE_OPT_ZIP_TYPE, &zi); munge_ctx_get(ctx, MUNGE_OPT_TTL, &ttl);
            munge_ctx_get(ctx, MUNGE_OPT_ENCODE_TIME, &t0); munge_ctx_get(ctx, MUNGE_OPT_DECODE_TIME, &t1);
            munge_ctx_get(ctx, MUNGE_OPT_UID_RESTRICTION, &au); munge_ctx_get(ctx, MUNGE_OPT_GID_RESTRICTION, &ag);
            printf("D %d %d %d %d %d %ld %ld %u %u %u %u %d ", (int) e, ci, ma, zi, ttl, (long) t0, (long) t1,
                   (unsigned) uid, (unsigned) gid, (unsigned) au, (unsigned) ag, len);
            if (buf && len > 0) puthex(buf, len); else printf("-");
            printf(" "); { const char *s = munge_ctx_strerror(ctx); if (s) puthex((const unsigned char *) s, strlen(s)); else printf("-"); }
            printf("\n");
            free(c); free(cred); free(buf);
        } else printf("? %s\n", line);
        if (c13_trace_print && (line[0] == 'E' || line[0] == 'D')) c13_trace_print();
        munge_ctx_destroy(ctx);
        fflush(stdout);
    }
    return 0;
}
