/* timer_periodic_harness.c — the real periodic services of munged on a virtual clock.
 *
 * Links every munged source except munged.c (so replay.c, gids.c, random.c, timer.c, clock.c, conf.c … are
 * /repo's own), starts the services in the order munged's main() does (random_init, gids_create, replay_init,
 * timer_init) and then lets the clock run for virtual hours.  The callbacks replay_purge, _gids_map_update and
 * _random_stir_entropy are the real ones; their re-arm calls are observed through --wrap=timer_set_relative.
 *
 * argv[1] (optional) = the PRNG seed file random_init is given (munged always has one: --seed-file); the three
 * initial conditions of the stir service are: file absent (first start), a complete one (a later start: the stir
 * interval starts at its maximum), a short one.
 *
 * stdin:   t <ms>   clock := start + ms (forward steps and jumps), then wait for the timer thread to rest
 *          hup      gids_update (conf->gids), as the SIGHUP handler does
 * stdout:  INIT <random_init's return value>    1 = pool fully seeded, 0 = not, -1 = bad seed
 *          OP <input line>                     before the line is acted on
 *          ARM <service> <now_ms> <delay_ms>   for every timer_set_relative made by a service
 *          END <now_ms>
 */
#define _GNU_SOURCE
#include <errno.h>
#include <pthread.h>
#include <stdio.h>
#include <stdlib.h>
#include <string.h>
#include <time.h>
#include <unistd.h>
#include <munge.h>
#include "conf.h"
#include "gids.h"
#include "log.h"
#include "random.h"
#include "replay.h"
#include "timer.h"
#include "vtime.h"

#define START_SEC 4000000000L   /* later than any file time on this machine: gids sees /etc/group as unchanged */

#include <signal.h>
volatile sig_atomic_t got_reconfig = 0;      /* munged.c (not linked: it has main) defines these for job.c */
volatile sig_atomic_t got_terminate = 0;

long __real_timer_set_relative(callback_f cb, void *arg, long msec);

static long now_ms(void) {
    long r;
    pthread_mutex_lock(&hm);
    r = (vnow.tv_sec - START_SEC) * 1000L + vnow.tv_nsec / 1000000L;
    pthread_mutex_unlock(&hm);
    return r;
}
static pthread_mutex_t om = PTHREAD_MUTEX_INITIALIZER;

long __wrap_timer_set_relative(callback_f cb, void *arg, long msec) {
    const char *svc = cb == (callback_f) replay_purge ? "replay" : arg != NULL ? "gids" : "random";
    pthread_mutex_lock(&om);
    printf("ARM %s %ld %ld\n", svc, now_ms(), msec);
    pthread_mutex_unlock(&om);
    return __real_timer_set_relative(cb, arg, msec);
}
time_t __wrap_time(time_t *t) {
    time_t r;
    pthread_mutex_lock(&hm); r = vnow.tv_sec; pthread_mutex_unlock(&hm);
    if (t) *t = r;
    return r;
}

int main(int argc, char **argv) {
    char line[256]; struct timespec ts; int rv;
    setvbuf(stdout, NULL, _IOFBF, 1 << 20);
    vnow.tv_sec = START_SEC; vnow.tv_nsec = 0;
    conf = create_conf();
    rv = random_init(argc > 1 ? argv[1] : NULL);
    printf("INIT %d\n", rv);
    conf->gids = gids_create(conf->gids_update_secs, 1);          /* mtime check on: exercises the no-update re-arm path */
    replay_init();
    timer_init();
    if (settle() < 0) { printf("!timer thread did not come to rest after start-up\n"); fflush(stdout); return 1; }
    fflush(stdout);
    while (fgets(line, sizeof line, stdin)) {
        pthread_mutex_lock(&om); printf("OP %s", line); pthread_mutex_unlock(&om);
        if (line[0] == 't') {
            long ms = atol(line + 2);
            ts.tv_sec = START_SEC + ms / 1000; ts.tv_nsec = (ms % 1000) * 1000000L;
            set_clock(&ts);
        } else if (!strncmp(line, "hup", 3)) {
            gids_update(conf->gids);
        } else continue;
        if (settle() < 0) { printf("!timer thread did not come to rest after: %s", line); fflush(stdout); return 1; }
        pthread_mutex_lock(&om); fflush(stdout); pthread_mutex_unlock(&om);     /* an abort must not lose the log */
    }
    pthread_mutex_lock(&om);
    printf("END %ld\n", now_ms());
    pthread_mutex_unlock(&om);
    fflush(stdout);
    _exit(0);
}
