/* clock_harness.c — /repo's src/munged/clock.c (linked unchanged) on chosen clock readings.
   clock_gettime is replaced with -Wl,--wrap=clock_gettime: it returns the pinned rc and reading.
   Input lines:  A grc sec nsec ms            -> clock_get_timespec (&ts = {-7,-7}, ms)      prints: rv sec nsec
                 L as an bs bn                -> clock_is_timespec_le                          prints: rv
                 E grc sec nsec ts tn         -> clock_is_timespec_expired (&{ts,tn})          prints: rv */
#include <stdio.h>
#include <string.h>
#include <time.h>
#include <errno.h>
#include "clock.h"

static int pin_rc; static struct timespec pin;
int __wrap_clock_gettime (clockid_t id, struct timespec *tsp)
{
    if (pin_rc != 0) { errno = EINVAL; return pin_rc; }
    *tsp = pin; return 0;
}

int main (void)
{
    char line[256];
    while (fgets (line, sizeof line, stdin)) {
        long a, b, c, d; int g;
        struct timespec x, y;
        if (sscanf (line, "A %d %ld %ld %ld", &g, &a, &b, &c) == 4) {
            pin_rc = g; pin.tv_sec = a; pin.tv_nsec = b;
            x.tv_sec = -7; x.tv_nsec = -7;
            int rv = clock_get_timespec (&x, c);
            printf ("%d %ld %ld\n", rv, (long) x.tv_sec, (long) x.tv_nsec);
        }
        else if (sscanf (line, "L %ld %ld %ld %ld", &a, &b, &c, &d) == 4) {
            x.tv_sec = a; x.tv_nsec = b; y.tv_sec = c; y.tv_nsec = d;
            printf ("%d\n", clock_is_timespec_le (&x, &y));
        }
        else if (sscanf (line, "E %d %ld %ld %ld %ld", &g, &a, &b, &c, &d) == 5) {
            pin_rc = g; pin.tv_sec = a; pin.tv_nsec = b;
            x.tv_sec = c; x.tv_nsec = d;
            printf ("%d\n", clock_is_timespec_expired (&x));
        }
        else printf ("?\n");
        fflush (stdout);
    }
    return 0;
}
