/* c16_launch.c — starts a program with a chosen process identity (C16: which identity the ownership rules use).
   usage: c16_launch <ruid> <euid> <rgid> <egid> <umask-octal> <program> [args...]
   Drops all supplementary groups, sets real/effective gid and uid (saved := effective, as execve(2) would make
   it anyway), sets the umask, execs.  Must be started as root.  Exit 111 when the identity cannot be set. */
#define _GNU_SOURCE
#include <grp.h>
#include <stdio.h>
#include <stdlib.h>
#include <sys/stat.h>
#include <sys/types.h>
#include <unistd.h>

int main(int argc, char **argv) {
    unsigned long r, e, rg, eg, um;
    if (argc < 7) { fprintf(stderr, "usage: c16_launch ruid euid rgid egid umask program [args]\n"); return 111; }
    r = strtoul(argv[1], NULL, 10); e = strtoul(argv[2], NULL, 10);
    rg = strtoul(argv[3], NULL, 10); eg = strtoul(argv[4], NULL, 10);
    um = strtoul(argv[5], NULL, 8);
    if (setgroups(0, NULL) < 0) { perror("setgroups"); return 111; }
    if (setresgid((gid_t) rg, (gid_t) eg, (gid_t) eg) < 0) { perror("setresgid"); return 111; }
    if (setresuid((uid_t) r, (uid_t) e, (uid_t) e) < 0) { perror("setresuid"); return 111; }
    if (getuid() != (uid_t) r || geteuid() != (uid_t) e || getgid() != (gid_t) rg || getegid() != (gid_t) eg) {
        fprintf(stderr, "c16_launch: identity not as requested\n"); return 111; }
    umask((mode_t) um);
    execv(argv[6], argv + 6);
    perror("execv");
    return 111;
}
