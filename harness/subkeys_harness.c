/* subkeys_harness.c — runs munged's own create_subkeys() (src/munged/conf.c, linked with every munged source
 * except munged.c) on a key file:
 *     K <path>   ->   K 0 <dek hex> <mac hex>      |   K 1 * *   (create_subkeys exited with an error)
 * create_subkeys() dies through log_err() on refusal, so every case runs in a forked child. */
#include "hexio.h"
#include <unistd.h>
#include <sys/wait.h>
#include <munge.h>
#include "conf.h"
#include "crypto.h"
#include "log.h"
#include "md.h"

#include <signal.h>
volatile sig_atomic_t got_reconfig = 0;     /* munged.c's globals (munged.c holds main and is not linked) */
volatile sig_atomic_t got_terminate = 0;

static char line[1 << 16];

int main (void) {
    crypto_init ();
    md_init_subsystem ();
    while (fgets (line, sizeof line, stdin)) {
        char *nl = strchr (line, '\n'); if (nl) *nl = 0;
        if (line[0] != 'K' || line[1] != ' ') { printf ("? %s\n", line); continue; }
        fflush (stdout);
        pid_t pid = fork ();
        if (pid == 0) {
            conf_t conf = calloc (1, sizeof (struct conf));
            conf->key_name = strdup (line + 2);
            conf->got_force = 1;        /* ownership/permission findings of the scratch dir become warnings */
            create_subkeys (conf);
            printf ("K 0 "); puthex (conf->dek_key, conf->dek_key_len); printf (" ");
            puthex (conf->mac_key, conf->mac_key_len); printf ("\n");
            fflush (stdout);
            _exit (0);
        } else {
            int st = 0; waitpid (pid, &st, 0);
            if (!(WIFEXITED (st) && WEXITSTATUS (st) == 0)) {
                if (WIFEXITED (st) && WEXITSTATUS (st) == 99) printf ("K 99 * *\n");   /* sanitizer report */
                else printf ("K 1 * *\n");
            }
        }
    }
    return 0;
}
