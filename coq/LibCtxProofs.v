(* LibCtxProofs.v — what the translated library functions (gen/GenLibFun.v) do with every context, and their
   composition with the daemon-side model (CredModel, CredRoundtrip.roundtrip). *)
From Coq Require Import List NArith ZArith Bool Lia.
From Coq.Strings Require Import Byte.
From RecordUpdate Require Import RecordSet.
From MV Require Import Bytes Base64Model Base64Proofs CredModel CredProofs CredSafety CredRoundtrip CredLength LibCtxModel.
From MV.gen Require Import GenCred GenLibFun.
Import ListNotations RecordSetNotations.
Local Open Scope Z_scope.

Ltac msgred := cbn [set m_retry m_cipher m_mac m_zip m_realm_len m_realm m_ttl m_addr_len m_addr m_time0 m_time1
   m_client_uid m_client_gid m_cred_uid m_cred_gid m_auth_uid m_auth_gid m_data_len m_data m_err m_errstr
   x_cipher x_mac x_zip x_realm_str x_ttl x_addr x_time0 x_time1 x_auth_uid x_auth_gid x_error_num x_error_str
   ctxv is_some ptrv pmem fst snd].

(* ------------------------------------------------------------------ *)
(* (a) _encode_req                                                     *)
(* ------------------------------------------------------------------ *)
(* the ENC_REQ built from (ctx, buf, len): every option member of the context goes to its own message member (stored
   with the conversion of the member's C type), the realm pointer and strlen + 1, the caller's buffer and length; for
   ctx = NULL the documented defaults; nothing else of the message is touched, the context is not changed *)
Theorem lib_request_carries_options : forall (m0 : msg) (ctx : option lctx) (buf : option bytes) (blen : Z),
  exists m, lib_encode_req m0 ctx buf blen = (Z.of_N e_success, (m, ctx, tt)) /\
  match ctx with
  | Some x =>
      m_cipher m = Z.to_N (x_cipher x mod 256) /\ m_mac m = Z.to_N (x_mac x mod 256) /\ m_zip m = Z.to_N (x_zip x mod 256) /\
      m_ttl m = Z.to_N (x_ttl x mod 4294967296) /\
      m_auth_uid m = Z.to_N (x_auth_uid x) /\ m_auth_gid m = Z.to_N (x_auth_gid x) /\
      match x_realm_str x with
      | Some r => m_realm m = r /\ m_realm_len m = Z.to_N ((Z.of_N (c_strlen r) + 1) mod 256)
      | None => m_realm m = [] /\ m_realm_len m = 0%N
      end
  | None =>
      m_cipher m = c_cipher_default /\ m_mac m = c_mac_default /\ m_zip m = c_zip_default /\ m_ttl m = c_ttl_default /\
      m_auth_uid m = c_uid_any /\ m_auth_gid m = c_gid_any /\ m_realm m = [] /\ m_realm_len m = 0%N
  end /\
  m_data m = ptrv buf /\ m_data_len m = Z.to_N (blen mod 4294967296) /\
  m_retry m = m_retry m0 /\ m_err m = m_err m0 /\ m_errstr m = m_errstr m0 /\
  m_addr_len m = m_addr_len m0 /\ m_addr m = m_addr m0 /\ m_time0 m = m_time0 m0 /\ m_time1 m = m_time1 m0 /\
  m_client_uid m = m_client_uid m0 /\ m_client_gid m = m_client_gid m0 /\
  m_cred_uid m = m_cred_uid m0 /\ m_cred_gid m = m_cred_gid m0.
Proof.
  intros m0 ctx buf blen. unfold lib_encode_req.
  destruct ctx as [x|]; cbn [is_some].
  - destruct (x_realm_str x) as [r|] eqn:R; cbn [is_some ctxv]; rewrite ?R; cbn [is_some];
      eexists; (split; [reflexivity|]); msgred; rewrite ?R; unfold wrap32; repeat split; reflexivity.
  - eexists; (split; [reflexivity|]); msgred. unfold wrap32. repeat split; reflexivity.
Qed.

(* ------------------------------------------------------------------ *)
(* (b) _decode_rsp                                                     *)
(* ------------------------------------------------------------------ *)
(* what _decode_rsp reports, for EVERY DEC_RSP message, every context (NULL included) and every choice of result
   pointers (NULL included): each reply member goes to its own context option - cipher, mac, zip, realm, ttl, origin
   address, encode time, decode time, uid restriction, gid restriction - the error members of the context are left to
   munge_decode; *buf is the payload when buf and len are passed and the payload is not empty; *len, *uid, *gid are the
   payload length and the ENCODER's ids (cred_uid / cred_gid, not the restrictions); the return value is the reply's
   error code; the message is not changed *)
Definition reported_ctx (r : msg) (ctx : option lctx) : option lctx :=
  match ctx with
  | Some x => Some {| x_cipher := Z.of_N (m_cipher r); x_mac := Z.of_N (m_mac r); x_zip := Z.of_N (m_zip r);
                      x_realm_str := mptr (m_realm r); x_ttl := wrapi32 (Z.of_N (m_ttl r)); x_addr := m_addr r;
                      x_time0 := Z.of_N (m_time0 r); x_time1 := Z.of_N (m_time1 r);
                      x_auth_uid := Z.of_N (m_auth_uid r); x_auth_gid := Z.of_N (m_auth_gid r);
                      x_error_num := x_error_num x; x_error_str := x_error_str x |}
  | None => None
  end.

Theorem lib_decode_reports_reply : forall (txt : nat -> bytes) (r : msg) (ctx : option lctx)
  (ob : option (option bytes)) (ol ou og : option Z),
  lib_decode_rsp txt msgt_dec_rsp r ctx ob ol ou og =
  (Z.of_N (m_err r),
   (r, reported_ctx r ctx,
    (if is_some ob && is_some ol && (0 <? m_data_len r)%N then Some (mptr (m_data r)) else ob),
    (if is_some ol then Some (wrapi32 (Z.of_N (m_data_len r))) else ol),
    (if is_some ou then Some (Z.of_N (m_cred_uid r)) else ou),
    (if is_some og then Some (Z.of_N (m_cred_gid r)) else og), tt)).
Proof.
  intros txt r ctx ob ol ou og. unfold lib_decode_rsp, reported_ctx.
  rewrite Z.eqb_refl. cbn [negb].
  destruct r as [rt ci ma zi rl rs tt' al ad t0 t1 cu cg ku kg au ag dl da er es].
  destruct ctx as [x|]; [destruct x|]; destruct ob, ol, ou, og; destruct rs; destruct dl; reflexivity.
Qed.

(* a message of any other type is refused with EMUNGE_SNAFU and nothing is reported *)
Theorem lib_decode_rejects_other_types : forall txt t r ctx ob ol ou og, t <> msgt_dec_rsp ->
  lib_decode_rsp txt t r ctx ob ol ou og =
  (Z.of_N e_snafu, (set_err r e_snafu (Some (txt 0%nat)), ctx, ob, ol, ou, og, tt)).
Proof.
  intros txt t r ctx ob ol ou og H. unfold lib_decode_rsp.
  destruct (Z.eqb_spec t msgt_dec_rsp) as [E|E]; [contradiction|reflexivity].
Qed.

(* an error reply without payload (every hard error: the daemon resets the message) leaves *buf as _decode_init set
   it and reports length 0 with the error code *)
Corollary lib_decode_error_no_payload : forall txt r ctx b0 l0 ou og, m_data_len r = 0%N ->
  let '(rc, (_, _, ob, ol, _, _, _)) := lib_decode_rsp txt msgt_dec_rsp r ctx (Some b0) (Some l0) ou og in
  rc = Z.of_N (m_err r) /\ ob = Some b0 /\ ol = Some 0.
Proof.
  intros txt r ctx b0 l0 ou og H. rewrite lib_decode_reports_reply, H. cbn. repeat split; reflexivity.
Qed.

(* ------------------------------------------------------------------ *)
(* _encode_init / _decode_init: what is reset before a call            *)
(* ------------------------------------------------------------------ *)
Theorem lib_encode_init_resets : forall (oc : option (option bytes)) (ctx : option lctx),
  lib_encode_init oc ctx =
  (0, ((if is_some oc then Some None else oc),
       match ctx with Some x => Some (x <| x_error_num := Z.of_N e_success |> <| x_error_str := None |>) | None => None end, tt)).
Proof.
  intros oc ctx. unfold lib_encode_init. destruct oc, ctx as [x|]; cbn [is_some]; try reflexivity.
  all: destruct x as [a b c d e f g h i j k [s|]]; reflexivity.
Qed.

(* before a decode every reported option is set to its "unset" value (-1, NULL, 0.0.0.0, the uid/gid sentinel), the
   error is cleared, and every result object the caller passed is cleared *)
Theorem lib_decode_init_resets : forall (ctx : option lctx) (ob : option (option bytes)) (ol ou og : option Z),
  lib_decode_init ctx ob ol ou og =
  (0, (match ctx with
       | Some x => Some {| x_cipher := -1; x_mac := -1; x_zip := -1; x_realm_str := None; x_ttl := -1; x_addr := zero4;
                           x_time0 := -1; x_time1 := -1; x_auth_uid := 4294967295; x_auth_gid := 4294967295;
                           x_error_num := Z.of_N e_success; x_error_str := None |}
       | None => None
       end,
       (if is_some ob then Some None else ob), (if is_some ol then Some 0 else ol),
       (if is_some ou then Some 4294967295 else ou), (if is_some og then Some 4294967295 else og), tt)).
Proof.
  intros ctx ob ol ou og. unfold lib_decode_init.
  destruct ctx as [x|]; [destruct x as [a b c [d|] e f g h i j k [s|]]|]; destruct ob, ol, ou, og; reflexivity.
Qed.

(* ------------------------------------------------------------------ *)
(* _encode_rsp / _decode_req                                           *)
(* ------------------------------------------------------------------ *)
Theorem lib_encode_rsp_returns_credential : forall txt (m : msg) (c0 : option bytes), (0 < m_data_len m)%N ->
  lib_encode_rsp txt msgt_enc_rsp m (Some c0) = (Z.of_N (m_err m), (m, Some (mptr (m_data m)), tt)).
Proof.
  intros txt m c0 H. unfold lib_encode_rsp. rewrite Z.eqb_refl. cbn [negb].
  replace (Z.of_N (m_data_len m) <=? 0) with false by (symmetry; apply Z.leb_gt; lia). reflexivity.
Qed.

Theorem lib_encode_rsp_rejects : forall txt t (m : msg) oc,
  t <> msgt_enc_rsp \/ m_data_len m = 0%N ->
  exists k, lib_encode_rsp txt t m oc = (Z.of_N e_snafu, (set_err m e_snafu (Some (txt k)), oc, tt)).
Proof.
  intros txt t m oc H. unfold lib_encode_rsp.
  destruct (Z.eqb_spec t msgt_enc_rsp) as [E|E]; cbn [negb]; [|exists 0%nat; reflexivity].
  destruct H as [H|H]; [contradiction|]. rewrite H. exists 1%nat. reflexivity.
Qed.

Lemma c_strlen_cstring s : no_nul s = true -> c_strlen (cstring s) = len s.
Proof.
  unfold cstring, no_nul, len. induction s as [|c s IH]; intros H; cbn [app c_strlen forallb length] in *.
  - reflexivity.
  - apply andb_true_iff in H. destruct H as [H1 H2]. apply negb_true_iff in H1. rewrite H1, (IH H2). lia.
Qed.

(* the DEC_REQ carries the credential string with its NUL, length strlen + 1; the context is not consulted *)
Theorem lib_decode_req_carries_credential : forall (m0 : msg) ctx (c : bytes), no_nul c = true -> (len c + 1 < 4294967296)%N ->
  lib_decode_req m0 ctx (Some (cstring c)) =
  (Z.of_N e_success, (m0 <| m_data_len := len (cstring c) |> <| m_data := cstring c |>, ctx, tt)).
Proof.
  intros m0 ctx c H L. unfold lib_decode_req. cbn [ptrv pmem]. rewrite (c_strlen_cstring _ H).
  replace (Z.to_N (wrap32 (Z.of_N (len c) + 1))) with (len (cstring c)); [reflexivity|].
  unfold wrap32, cstring, len. rewrite app_length. cbn [length]. rewrite Z.mod_small by (unfold len in L; lia). lia.
Qed.

(* ------------------------------------------------------------------ *)
(* (c) the library round trip                                          *)
(* ------------------------------------------------------------------ *)
(* a credential string contains no NUL before its terminator: prefix, base64 text, suffix *)
Lemma rfc_char_nz_sweep : allb 64 (fun n => negb (b2n (rfc_char n) =? 0)%N) = true.
Proof. vm_compute. reflexivity. Qed.
Lemma rfc_char_nz n : (n < 64)%N -> negb (b2n (rfc_char n) =? 0)%N = true.
Proof. intros H. exact (allb_spec 64 _ rfc_char_nz_sweep n H). Qed.

Lemma no_nul_app a b : no_nul (a ++ b) = no_nul a && no_nul b.
Proof. unfold no_nul. apply forallb_app. Qed.

Lemma rfc4648_no_nul s : no_nul (rfc4648 s) = true.
Proof.
  induction s as [|x|x y|x y z r IH] using list3_ind.
  - reflexivity.
  - pose proof (b2n_lt x). cbn [rfc4648]. unfold no_nul. cbn [forallb].
    rewrite !rfc_char_nz by (try apply N.mod_lt; try (apply N.div_lt_upper_bound); lia). reflexivity.
  - pose proof (b2n_lt x). pose proof (b2n_lt y). cbn [rfc4648]. unfold no_nul. cbn [forallb].
    rewrite !rfc_char_nz by (try apply N.mod_lt; try (apply N.div_lt_upper_bound); lia). reflexivity.
  - pose proof (b2n_lt x). pose proof (b2n_lt y). pose proof (b2n_lt z).
    cbn [rfc4648]. cbv zeta. change (?a :: ?b :: ?c :: ?d :: nil ++ ?r) with (a :: b :: c :: d :: r).
    unfold no_nul in *. cbn [app forallb].
    rewrite !rfc_char_nz by (try apply N.mod_lt; try (apply N.div_lt_upper_bound); lia). exact IH.
Qed.

Lemma armor_no_nul a b c : no_nul (armor [a; b; c]) = true.
Proof.
  unfold armor. rewrite chunking_independent0, canonical, !no_nul_app, rfc4648_no_nul. reflexivity.
Qed.

Section RT.
Variable hmac : N -> bytes -> bytes -> bytes.
Variable sha1 : bytes -> bytes.
Variable blk_enc blk_dec : N -> bytes -> bytes -> bytes.
Variable zcomp : N -> bytes -> option bytes.
Variable zdecomp : N -> bytes -> N -> option bytes.
Hypothesis hmac_len : forall a k d, mac_valid a = true -> len (hmac a k d) = mac_size a.
Hypothesis blk_len : forall c k b, cipher_valid c = true -> len b = cipher_blk_size c -> len (blk_enc c k b) = cipher_blk_size c.
Hypothesis blk_inv : forall c k b, cipher_valid c = true -> len b = cipher_blk_size c -> blk_dec c k (blk_enc c k b) = b.
Hypothesis zip_inv : forall z x raw mx, zip_valid z = true -> zcomp z x = Some raw -> (len x <= mx)%N -> zdecomp z raw mx = Some x.

(* the request libmunge builds from a well-formed context is a well-formed ENC_REQ carrying the options and payload *)
Lemma lib_enc_request_wf (x : lctx) (data : bytes) :
  ctx_ok x -> (len data < 2147483648 - 1024)%N ->
  let m := lib_enc_request (Some x) data in
  wf_enc_req m /\ m_data m = data /\ m_data_len m = len data /\
  m_cipher m = Z.to_N (x_cipher x) /\ m_mac m = Z.to_N (x_mac x) /\ m_zip m = Z.to_N (x_zip x) /\
  m_ttl m = Z.to_N (x_ttl x) /\ m_auth_uid m = Z.to_N (x_auth_uid x) /\ m_auth_gid m = Z.to_N (x_auth_gid x).
Proof.
  intros (Hc & Hm & Hz & Ht & Hu & Hg & Hr) Hd. cbv zeta. unfold lib_enc_request.
  destruct (lib_request_carries_options msg0 (Some x) (Some data) (Z.of_N (len data)))
    as (m & E & (F1 & F2 & F3 & F4 & F5 & F6 & FR) & F7 & F8 & F9 & F10 & _).
  rewrite E. cbn [ptrv] in F7.
  rewrite Z.mod_small in F1, F2, F3, F4, F8 by lia. rewrite N2Z.id in F8.
  assert (RL : m_realm_len m = len (m_realm m) /\ (m_realm_len m < 255)%N).
  { destruct (x_realm_str x) as [r|].
    - destruct Hr as (s & -> & Hn & Hl). destruct FR as [-> ->].
      rewrite (c_strlen_cstring _ Hn), Z.mod_small by lia.
      unfold cstring, len in *. rewrite app_length. cbn [length]. lia.
    - destruct FR as [-> ->]. split; [reflexivity|lia]. }
  unfold wf_enc_req. rewrite F1, F2, F3, F4, F5, F6, F7, F8, F9, F10.
  repeat split; try reflexivity; try (apply RL); try lia.
  change (m_retry msg0) with 0%N. change c_retry_attempts with 5%N. lia.
Qed.

Lemma eo_msg_data cf m1 salt ivr o :
  enc_core hmac sha1 blk_enc zcomp cf m1 salt ivr = inr o ->
  m_data (eo_msg o) = eo_cred o /\ m_errstr (eo_msg o) = m_errstr m1.
Proof.
  unfold enc_core. intros H.
  repeat match type of H with
  | context [match ?x with _ => _ end] => destruct x eqn:?; try discriminate H
  end.
  all: injection H as <-; cbn [eo_msg eo_cred]; split; [reflexivity|].
  all: cbn; try reflexivity.
  all: match goal with Z : (if _ then _ else _) = Some (?m0, _) |- m_errstr ?m0 = _ =>
         repeat match type of Z with context [match ?x with _ => _ end] => destruct x; try discriminate Z end;
         inversion Z; subst; reflexivity end.
Qed.

Lemma lib_encode_req_error_members (m0 : msg) (x : lctx) (a : Z) (b : option bytes) buf l :
  lib_encode_req m0 (Some (x <| x_error_num := a |> <| x_error_str := b |>)) buf l =
  let '(e, (m, _, _)) := lib_encode_req m0 (Some x) buf l in (e, (m, Some (x <| x_error_num := a |> <| x_error_str := b |>), tt)).
Proof. destruct x as [c1 c2 c3 [r|] c5 c6 c7 c8 c9 c10 c11 c12]; reflexivity. Qed.

(* the options a credential ends up with, from the context that requested it and the encoding daemon's defaults *)
Definition res_cipher (cf : conf) (x : lctx) : N :=
  if (Z.to_N (x_cipher x) =? c_cipher_default)%N then cf_def_cipher cf else Z.to_N (x_cipher x).
Definition res_mac (cf : conf) (x : lctx) : N :=
  if (Z.to_N (x_mac x) =? c_mac_default)%N then cf_def_mac cf else Z.to_N (x_mac x).
Definition res_zip (cf : conf) (x : lctx) (data : bytes) : N :=
  if (len data =? 0)%N then c_zip_none
  else if (Z.to_N (x_zip x) =? c_zip_default)%N then cf_def_zip cf else Z.to_N (x_zip x).
Definition res_ttl (cf : conf) (x : lctx) : N :=
  if (Z.to_N (x_ttl x) =? 0)%N then cf_def_ttl cf
  else if (cf_max_ttl cf <? Z.to_N (x_ttl x))%N then cf_max_ttl cf else Z.to_N (x_ttl x).

(* munge_encode through the library: the application gets the daemon's credential, return code 0, its context
   unchanged but for the cleared error *)
Lemma lib_encode_ok txt cfe (x : lctx) (data : bytes) pu pg now salt ivr m1 o :
  ctx_ok x -> (len data < 2147483648 - 1024)%N ->
  enc_pre cfe (lib_enc_request (Some x) data) pu pg now = inl m1 ->
  enc_core hmac sha1 blk_enc zcomp cfe m1 salt ivr = inr o ->
  lib_munge_encode txt (fun m => enc_process hmac sha1 blk_enc zcomp cfe m pu pg now salt ivr)
                   (Some x) (Some data) (Z.of_N (len data)) =
  (0, Some (eo_cred o), Some (x <| x_error_num := 0 |> <| x_error_str := None |>)).
Proof.
  intros Hx Hd Hpre Hcore.
  destruct (lib_enc_request_wf x data Hx Hd) as (Hwf & _).
  unfold lib_munge_encode. rewrite lib_encode_init_resets. cbn [is_some].
  change (Z.of_N e_success) with 0. rewrite lib_encode_req_error_members.
  unfold lib_enc_request in Hpre, Hwf.
  destruct (lib_request_carries_options msg0 (Some x) (Some data) (Z.of_N (len data))) as (m & E & _).
  rewrite E in Hpre, Hwf |- *. cbn [negb Z.eqb]. change (Z.of_N e_success =? 0) with true. cbn [negb].
  unfold enc_process. rewrite Hpre, Hcore.
  destruct (eo_msg_data _ _ _ _ _ Hcore) as [Dd Ds].
  assert (Er : m_err (eo_msg o) = 0%N).
  { rewrite (enc_core_err hmac sha1 blk_enc zcomp _ _ _ _ _ Hcore), (enc_pre_err _ _ _ _ _ _ Hpre). apply Hwf. }
  pose proof (enc_core_cred hmac sha1 blk_enc zcomp _ _ _ _ _ Hcore) as Cr.
  assert (Lp : (0 < len (eo_cred o))%N).
  { rewrite Cr. unfold len. rewrite app_length. cbn [length]. lia. }
  unfold enc_rsp_msg. cbn [er_err er_errstr er_data]. rewrite Dd.
  rewrite lib_encode_rsp_returns_credential by exact Lp.
  cbn [set m_err m_data m_errstr]. rewrite Er.
  unfold ctx_set_err. cbn [x_error_num set]. change (Z.of_N 0) with 0. change (Z.of_N e_success) with 0.
  cbn [Z.eqb negb andb out_ptr]. destruct (eo_cred o); [cbn in Lp; lia|reflexivity].
Qed.

(* C01 through the library.  For every pair of daemon configurations sharing the key, every well-formed application
   context and payload, every encoder identity, salt, IV, clocks: if the daemon's encode of the library's request
   succeeds, then (1) munge_encode returns that credential, and (2) the first munge_decode of it by an authorized client
   inside the lifetime returns 0, the byte-identical payload and its length, the ENCODER's uid and gid, and a context
   whose metadata is what was requested with the defaults resolved, the zip actually applied, the TTL capped by the
   decoding daemon, encode / decode times, origin address and the restrictions - whatever was in the decoder's context
   before, and for a NULL context too.  The daemon-level part is CredRoundtrip.roundtrip, not re-proved. *)
Theorem library_roundtrip :
  forall txt (cfe cfd : conf) (x : lctx) (data : bytes) (m1 : msg) (pu pg now : N) (salt ivr : bytes) (o : enc_out),
  wf_conf cfe -> cf_key cfd = cf_key cfe -> ctx_ok x -> (len data < 2147483648 - 1024)%N ->
  (pu < 4294967296)%N -> (pg < 4294967296)%N -> len salt = c_salt_len -> (16 <= len ivr)%N ->
  enc_pre cfe (lib_enc_request (Some x) data) pu pg now = inl m1 ->
  enc_core hmac sha1 blk_enc zcomp cfe m1 salt ivr = inr o ->
  lib_munge_encode txt (fun m => enc_process hmac sha1 blk_enc zcomp cfe m pu pg now salt ivr)
                   (Some x) (Some data) (Z.of_N (len data))
    = (0, Some (eo_cred o), Some (x <| x_error_num := 0 |> <| x_error_str := None |>)) /\
  forall (mem : N -> N -> bool) (rs : rstate) (du dg now' : N) (y : option lctx),
  (du < 4294967296)%N -> (dg < 4294967296)%N ->
  (len (eo_cred o) < 4294967296)%N -> (cf_max_ttl cfd < 2147483648)%N ->
  let au := Z.to_N (x_auth_uid x) in let ag := Z.to_N (x_auth_gid x) in
  let ttl' := capped cfd (res_ttl cfe x) in
  let t0 := u32 now in
  (au = c_uid_any \/ au = du \/ (cf_root_auth cfd = true /\ du = 0%N)) ->
  (ag = c_gid_any \/ ag = dg \/ mem du ag = true) ->
  (Z.of_N t0 - Z.of_N (skew_of cfd ttl') <= Z.of_N (u32 now')) -> (u32 now' <= t0 + ttl')%N ->
  r_mem (firstn 16 (eo_tag o), (t0 + ttl')%N) rs = false ->
  exists ctx',
    lib_munge_decode txt (fun m => fst (fst (dec_process hmac sha1 blk_dec zdecomp cfd mem rs m du dg now')))
                     y (Some (eo_cred o)) true true true true
      = (0, ctx', Some (mptr data), Some (Z.of_N (len data)), Some (Z.of_N pu), Some (Z.of_N pg)) /\
    match y, ctx' with
    | None, None => True
    | Some _, Some c =>
        x_cipher c = Z.of_N (res_cipher cfe x) /\ x_mac c = Z.of_N (res_mac cfe x) /\
        (x_zip c = Z.of_N c_zip_none \/ x_zip c = Z.of_N (res_zip cfe x data)) /\
        x_ttl c = Z.of_N ttl' /\ x_addr c = cf_addr cfe /\
        x_time0 c = Z.of_N t0 /\ x_time1 c = Z.of_N (u32 now') /\
        x_auth_uid c = x_auth_uid x /\ x_auth_gid c = x_auth_gid x /\
        x_error_num c = 0 /\ x_error_str c = None
    | _, _ => False
    end.
Proof.
  intros txt cfe cfd x data m1 pu pg now salt ivr o Hcf Hkey Hx Hd Hpu Hpg Hsalt Hiv Hpre Hcore.
  split; [apply (lib_encode_ok txt cfe x data pu pg now salt ivr m1 o); assumption|].
  intros mem rs du dg now' y Hdu Hdg Hcl Hmx au ag ttl' t0 Hau Hag Hw1 Hw2 Hfresh.
  destruct (lib_enc_request_wf x data Hx Hd) as (Hwf & Fd & Fl & Fc & Fm & Fz & Ft & Fu & Fg).
  set (req := lib_enc_request (Some x) data) in *.
  destruct (enc_pre_options _ _ _ _ _ _ Hpre) as (Oc & Om & Oz & Ot).
  assert (Tt : m_ttl m1 = res_ttl cfe x) by (rewrite Ot, Ft; reflexivity).
  destruct (roundtrip hmac sha1 blk_enc blk_dec zcomp zdecomp hmac_len blk_len blk_inv zip_inv
              cfe cfd req m1 pu pg now salt ivr o Hcf Hwf Hkey Hpu Hpg Hsalt Hiv Hpre Hcore
              mem rs du dg now' 0%N) as (r & k & Hdec & _ & Er & Rd & Rl & Ru & Rg & Rau & Rag & Rc & Rm & Rz & Rt & Rt0 & Rt1 & _ & Ra);
    try assumption.
  { change c_retry_attempts with 5%N. lia. }
  { rewrite Fu. exact Hau. } { rewrite Fg. exact Hag. }
  { rewrite Tt. exact Hw1. } { rewrite Tt. exact Hw2. } { rewrite Tt. exact Hfresh. }
  (* the library's DEC_REQ is the request of the daemon-level theorem *)
  pose proof (enc_core_cred hmac sha1 blk_enc zcomp _ _ _ _ _ Hcore) as Cr.
  set (body := armor [eo_outer o; eo_tag o; eo_inner_wire o]) in *.
  assert (Nn : no_nul body = true) by apply armor_no_nul.
  assert (Cs : eo_cred o = cstring body) by exact Cr.
  assert (Lb : (len body + 1 < 4294967296)%N).
  { rewrite Cs in Hcl. unfold cstring, len in *. rewrite app_length in Hcl. cbn [length] in Hcl. lia. }
  unfold lib_munge_decode. rewrite lib_decode_init_resets. cbn [is_some negb orb].
  rewrite Cs. cbn [ptrv]. rewrite (c_strlen_cstring _ Nn).
  assert (Bp : (len body =? 0)%N = false).
  { apply N.eqb_neq. unfold body, armor. unfold len. rewrite !app_length. cbn. lia. }
  rewrite Bp.
  set (y1 := match y with Some _ => _ | None => None end).
  rewrite (lib_decode_req_carries_credential msg0 y1 body Nn Lb).
  change (Z.of_N e_success =? Z.of_N e_success) with true. cbn [negb].
  replace (msg0 <| m_data_len := len (cstring body) |> <| m_data := cstring body |>) with (dec_req (cstring body) 0)
    by reflexivity.
  rewrite <- Cs, Hdec. cbn [fst].
  rewrite lib_decode_reports_reply. cbn [is_some andb].
  rewrite Er, Rd, Rl, Fd, Fl, Ru, Rg.
  unfold ctx_set_err. change (Z.of_N 0) with 0.
  assert (Pd : (if (0 <? len data)%N then Some (mptr data) else Some None) = Some (mptr data)).
  { destruct data; reflexivity. }
  rewrite Pd.
  assert (Wl : wrapi32 (Z.of_N (len data)) = Z.of_N (len data)).
  { unfold wrapi32. rewrite Z.mod_small by lia. lia. }
  rewrite Wl.
  destruct (enc_core_inv hmac sha1 blk_enc zcomp _ _ _ _ _ Hcore) as (m3 & inner1 & I1 & I2 & _ & _ & Iz & _ & _ & J1 & J2 & J3).
  destruct y as [y0|]; subst y1; cbn [reported_ctx x_error_num x_error_str].
  - change (Z.of_N e_success) with 0. cbn [Z.eqb negb andb]. eexists. split; [reflexivity|].
    cbn [x_cipher x_mac x_zip x_ttl x_addr x_time0 x_time1 x_auth_uid x_auth_gid x_error_num x_error_str].
    rewrite Rc, Rm, Rz, Rt, Rt0, Rt1, Ra, Rau, Rag, J1, J2, J3, I1, I2, Oc, Om, Fc, Fm, Fu, Fg, Tt.
    assert (Cap : (capped cfd (res_ttl cfe x) <= cf_max_ttl cfd)%N).
    { unfold capped. destruct (N.ltb_spec (cf_max_ttl cfd) (res_ttl cfe x)); lia. }
    destruct Hx as (_ & _ & _ & _ & Hu & Hg & _).
    repeat split; try reflexivity.
    + destruct Iz as [[-> _]|[-> _]]; [left; reflexivity|right].
      rewrite Oz, Fl, Fz. reflexivity.
    + unfold wrapi32. fold ttl'. rewrite Z.mod_small by (unfold ttl'; lia). lia.
    + rewrite Z2N.id by lia. reflexivity.
    + rewrite Z2N.id by lia. reflexivity.
  - eexists. split; reflexivity.
Qed.
End RT.
