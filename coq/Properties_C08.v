(* Properties_C08.v — statements only.  No input can crash, corrupt, leak or wedge the daemon — the part a
   theorem about the models can carry: for every byte stream on the socket and every credential string the
   receive path and the decoder are total, read only what was received, write only inside their destinations,
   refuse an oversize request before allocating for it, and end in "no reply, close" or a well-formed reply.
   Memory safety, leak-freedom and liveness of the BINARY are observed under ASan/LSan by the live phase of the
   check (tools/props/c08.py); they are not proved. *)
From Coq Require Import List NArith ZArith Bool.
From RecordUpdate Require Import RecordSet.
From MV Require Import Bytes MsgModel MsgProofs.
From MV Require Import Base64Model Base64Proofs CredModel CredProofs CredLength CredSafety.
From MV.gen Require Import GenMsg GenCred.
Import ListNotations RecordSetNotations.

(* (1) the socket: every byte stream, every type code, every length field — the receive path of munged ends in
   "no reply, close" or hands a consistent request to the encoder/decoder; every read lies inside the received
   buffer and every write inside its destination (MsgModel, guard measured on the current source) *)
Theorem C08_recv_dispatch : forall hp stream, job_ok (job_exec hp stream).
Proof. intros. apply recv_dispatch. apply N.le_refl. Qed.
Print Assumptions C08_recv_dispatch.

Theorem C08_recv_total_and_bounded : forall hp stream exptype maxlen m,
  rres_final (fst (recv hp stream exptype maxlen m)) /\ Forall ev_ok (snd (recv hp stream exptype maxlen m)).
Proof. intros. apply recv_total_bounded. apply N.le_refl. Qed.
Print Assumptions C08_recv_total_and_bounded.

Local Open Scope N_scope.

(* (2) an oversize request is refused by its declared length alone *)
Theorem C08_oversize_refused : forall body_len : N,
  c_max_req_len < body_len -> req_gate body_len = GateBadLength.
Proof. intros n H. unfold req_gate. apply N.ltb_lt in H. now rewrite H. Qed.
Print Assumptions C08_oversize_refused.

Section C08.
Variable hmac : N -> bytes -> bytes -> bytes.
Variable sha1 : bytes -> bytes.
Variable blk_enc blk_dec : N -> bytes -> bytes -> bytes.
Variable zcomp : N -> bytes -> option bytes.
Variable zdecomp : N -> bytes -> N -> option bytes.

(* (3) the decoder: for EVERY credential byte string (and every peer, clock, group map, replay state, whatever
   the primitives return — a valid MAC over a malformed interior included) the reply is well formed: each
   announced length is the length of what the reply carries, the address is absent or exactly 4 bytes *)
Theorem C08_dec_reply_wellformed : forall cf mem rs m pu pg now r rs' k,
  m_err m = e_success -> m_realm_len m = 0 -> m_realm m = [] ->
  dec_process hmac sha1 blk_dec zdecomp cf mem rs m pu pg now = (r, rs', k) -> wf_reply r.
Proof. exact (dec_reply_wellformed hmac sha1 blk_enc blk_dec zcomp zdecomp). Qed.

(* (4) the encoder: an error reply carries no data *)
Theorem C08_enc_error_reply_has_no_data : forall cf m pu pg now salt ivr,
  m_err m = e_success ->
  let r := enc_process hmac sha1 blk_enc zcomp cf m pu pg now salt ivr in
  er_err r <> e_success -> er_data r = [].
Proof. exact (enc_error_reply_has_no_data hmac sha1 blk_enc zcomp). Qed.
End C08.
Print Assumptions C08_dec_reply_wellformed.
Print Assumptions C08_enc_error_reply_has_no_data.

(* (5) base64: the decoder never writes beyond the advertised bound, whatever it is given *)
Theorem C08_base64_write_bound : forall src : bytes,
  N.of_nat (length (snd (decode_block src))) < decode_length (N.of_nat (length src)).
Proof. exact decode_write_bound. Qed.
Print Assumptions C08_base64_write_bound.

(* (6) the defect repaired in /repo (D2), as a refutation of the unrepaired variant: without its bound the
   DEC_RSP addr copy writes 255 bytes into the 4-byte member and beyond the message object *)
Theorem C08_addr_unguarded_refuted :
  exists body m' cap len,
    fst (msg_unpack_g 255 (fun _ => true) mt_dec_rsp body (Z.of_nat (length body)) MsgModel.msg0) = UFault m'
    /\ In (Wr cap 0 len) (snd (msg_unpack_g 255 (fun _ => true) mt_dec_rsp body (Z.of_nat (length body)) MsgModel.msg0))
    /\ cap = Z.of_N sizeof_addr /\ len = 255%Z /\ (cap < len)%Z
    /\ (Z.of_N sizeof_m_msg < Z.of_N off_addr + len)%Z.
Proof. exact addr_unguarded_refuted. Qed.
Print Assumptions C08_addr_unguarded_refuted.
