(* RetryClientProofs.v — theorems about the transaction loop of libmunge as translated from the source text
   (gen/GenRetryLoop.v: src_xfer, src_xconst), for EVERY order of per-attempt faults.

   A fault list has one entry per attempt and the loop makes at most MUNGE_SOCKET_RETRY_ATTEMPTS attempts, so the
   quantification over all fault lists up to that length is a finite one: each statement is decided for every list by
   computation (vm_compute) and lifted by `sweep`. *)
From Coq Require Import List NArith Bool Arith Lia.
From MV Require Import RetryClientModel.
From MV.gen Require Import GenRetryLoop GenCred.
Import ListNotations.

(* ------------------------------------------------------------------ deciders (transparent: they are computed) *)
Definition and_dec {A B : Prop} (a : {A} + {~ A}) (b : {B} + {~ B}) : {A /\ B} + {~ (A /\ B)}.
Proof. destruct a as [a|na]; [destruct b as [b|nb]; [left; split; assumption|right; intros [_ ?]; auto]|right; intros [? _]; auto]. Defined.

Definition ptr_eq_dec (a b : ptr) : {a = b} + {a <> b}.
Proof. decide equality; apply Nat.eq_dec. Defined.
Definition err_eq_dec (a b : err) : {a = b} + {a <> b}.
Proof. decide equality. Defined.
Definition bad_eq_dec (a b : bad) : {a = b} + {a <> b}.
Proof. decide equality; apply Nat.eq_dec. Defined.
Definition obad_eq_dec (a b : option bad) : {a = b} + {a <> b}.
Proof. decide equality; apply bad_eq_dec. Defined.
Definition onat_eq_dec (a b : option nat) : {a = b} + {a <> b}.
Proof. decide equality; apply Nat.eq_dec. Defined.
Definition lnat_eq_dec : forall a b : list nat, {a = b} + {a <> b} := list_eq_dec Nat.eq_dec.
Definition head_eq_dec (a b : head) : {a = b} + {a <> b}.
Proof. decide equality; first [apply lnat_eq_dec | apply onat_eq_dec | apply Nat.eq_dec | apply ptr_eq_dec]. Defined.
Definition lhead_eq_dec : forall a b : list head, {a = b} + {a <> b} := list_eq_dec head_eq_dec.
Definition lptr_eq_dec : forall a b : list ptr, {a = b} + {a <> b} := list_eq_dec ptr_eq_dec.
Definition send_eq_dec (a b : nat * nat * nat * bool) : {a = b} + {a <> b}.
Proof. repeat decide equality. Defined.
Definition lsend_eq_dec : forall a b : list (nat * nat * nat * bool), {a = b} + {a <> b} := list_eq_dec send_eq_dec.

Definition decb {P : Prop} (d : {P} + {~ P}) : bool := if d then true else false.
Lemma decb_true {P : Prop} (d : {P} + {~ P}) : decb d = true -> P.
Proof. destruct d; [auto|discriminate]. Qed.

(* ------------------------------------------------------------------ all fault lists up to a length *)
Definition phases : list phase := [FConnect; FSend; FRecv].
Fixpoint lists_of (n : nat) : list (list phase) :=
  match n with
  | O => [[]]
  | S k => flat_map (fun l => map (fun f => f :: l) phases) (lists_of k)
  end.
Fixpoint lists_upto (n : nat) : list (list phase) :=
  match n with O => lists_of 0 | S k => lists_upto k ++ lists_of (S k) end.

Lemma lists_of_complete l : In l (lists_of (length l)).
Proof.
  induction l as [|f l IH]; cbn; [now left|].
  apply in_flat_map. exists l. split; [exact IH|]. destruct f; cbn; auto.
Qed.

Lemma lists_upto_complete n : forall l, (length l <= n)%nat -> In l (lists_upto n).
Proof.
  induction n as [|n IH]; intros l H.
  - assert (E : length l = 0%nat) by lia. cbn [lists_upto]. rewrite <- E. apply lists_of_complete.
  - cbn [lists_upto]. apply in_or_app. destruct (Nat.eq_dec (length l) (S n)) as [E|NE].
    + right. rewrite <- E. apply lists_of_complete.
    + left. apply IH. lia.
Qed.

Lemma sweep (P : list phase -> Prop) (d : forall l, {P l} + {~ P l}) (n : nat) :
  forallb (fun l => decb (d l)) (lists_upto n) = true -> forall l, (length l <= n)%nat -> P l.
Proof.
  intros H l Hl. rewrite forallb_forall in H. apply (decb_true (d l)). apply H. now apply lists_upto_complete.
Qed.

(* ------------------------------------------------------------------ the statements *)
Local Notation run := (xfer src_xconst src_xfer).
Local Notation A := (q_attempts src_xconst).

Definition no_connect_fault (l : list phase) : bool := forallb (fun f => negb (is_connect f)) l.
Definition is_send (f : phase) : bool := match f with FSend => true | _ => false end.

(* complete replies: (message, connection) of every successful m_msg_recv *)
Definition delivered (tr : list cev) : list (nat * nat) :=
  flat_map (fun e => match e with TRecv m c true => [(m, c)] | _ => [] end) tr.

(* the requests a run with n+1 attempts puts on the wire: always message 0, retry = attempt - 1, a new connection
   each time; ok unless that attempt breaks while writing *)
Definition expected_sends (l : list phase) (n : nat) : list (nat * nat * nat * bool) :=
  map (fun j => (0, j, S j, negb (match nth_error l j with Some FSend => true | _ => false end)))%nat (seq 0 n).
Definition linear_backoff (n : nat) : list nat := map (fun j => S j * q_msecs src_xconst)%nat (seq 0 n).

(* 1. no undefined behaviour, attempts isolated from each other, nothing left behind — for every order of faults *)
Definition safe_and_isolated (l : list phase) : Prop :=
  let r := run l in
  r_bad r = None /\
  r_heads r = map fresh_head (seq 0 (length (r_heads r))) /\
  map PMsg (r_live_at_return r) = [r_pm r] /\
  r_live_end r = [] /\ r_open_end r = [].
Definition safe_and_isolated_dec l : {safe_and_isolated l} + {~ safe_and_isolated l}.
Proof.
  unfold safe_and_isolated. cbv zeta.
  repeat apply and_dec; first [apply obad_eq_dec | apply lhead_eq_dec | apply lptr_eq_dec | apply lnat_eq_dec].
Defined.

(* 2. up to attempts-1 broken connections of any kinds in any order, then a clean one *)
Definition masked (l : list phase) : Prop :=
  let r := run l in let n := length l in
  r_err r = EOk /\
  sends (r_trace r) = expected_sends l (S n) /\
  map (fun d => PMsg (fst d)) (delivered (r_trace r)) = [r_pm r] /\ map snd (delivered (r_trace r)) = [S n] /\
  sleeps (r_trace r) = linear_backoff n /\ length (r_heads r) = S n.
Definition masked_if (l : list phase) : Prop :=
  no_connect_fault l = true -> (length l < A)%nat -> masked l.
Definition masked_if_dec l : {masked_if l} + {~ masked_if l}.
Proof.
  unfold masked_if. destruct (no_connect_fault l); [|left; discriminate].
  destruct (lt_dec (length l) A) as [H|H]; [|left; intros _ H'; contradiction].
  assert (D : {masked l} + {~ masked l}).
  { unfold masked. cbv zeta.
    repeat apply and_dec; first [apply err_eq_dec | apply lsend_eq_dec | apply lptr_eq_dec | apply lnat_eq_dec | apply Nat.eq_dec]. }
  destruct D as [D|D]; [left; auto|right; intros X; apply D; apply X; [reflexivity|exact H]].
Defined.

(* 3. every attempt breaks: a socket error; no complete reply was ever received, and what the caller is handed is
   either its own request or the (incomplete) reply object of the last attempt, which carries the error *)
Definition exhausted (l : list phase) : Prop :=
  let r := run l in
  r_err r = ESocket /\ delivered (r_trace r) = [] /\
  sends (r_trace r) = expected_sends l A /\ length (r_heads r) = A /\
  sleeps (r_trace r) = linear_backoff (A - 1).
Definition exhausted_if (l : list phase) : Prop :=
  no_connect_fault l = true -> length l = A -> exhausted l.
Definition ldeliv_eq_dec : forall a b : list (nat * nat), {a = b} + {a <> b}.
Proof. apply list_eq_dec. repeat decide equality. Defined.
Definition exhausted_if_dec l : {exhausted_if l} + {~ exhausted_if l}.
Proof.
  unfold exhausted_if. destruct (no_connect_fault l); [|left; discriminate].
  destruct (Nat.eq_dec (length l) A) as [H|H]; [|left; intros _ H'; contradiction].
  assert (D : {exhausted l} + {~ exhausted l}).
  { unfold exhausted. cbv zeta.
    repeat apply and_dec; first [apply err_eq_dec | apply ldeliv_eq_dec | apply lsend_eq_dec | apply lnat_eq_dec | apply Nat.eq_dec]. }
  destruct D as [D|D]; [left; auto|right; intros X; apply D; apply X; [reflexivity|exact H]].
Defined.

(* 4. a refused connect ends the transaction at once with a socket error: the attempts before it were made, none after
   it, the caller gets its request back *)
Fixpoint before_connect (l : list phase) : list phase :=
  match l with [] => [] | FConnect :: _ => [] | f :: r => f :: before_connect r end.
Definition refused_ends (l : list phase) : Prop :=
  let r := run l in let n := length (before_connect l) in
  r_err r = ESocket /\ r_pm r = PMsg 0 /\ delivered (r_trace r) = [] /\
  sends (r_trace r) = expected_sends l n /\ length (r_heads r) = S n.
Definition refused_if (l : list phase) : Prop := no_connect_fault l = false -> refused_ends l.
Definition refused_if_dec l : {refused_if l} + {~ refused_if l}.
Proof.
  unfold refused_if. destruct (no_connect_fault l); [left; discriminate|].
  assert (D : {refused_ends l} + {~ refused_ends l}).
  { unfold refused_ends. cbv zeta.
    repeat apply and_dec; first [apply err_eq_dec | apply ptr_eq_dec | apply ldeliv_eq_dec | apply lsend_eq_dec | apply Nat.eq_dec]. }
  destruct D as [D|D]; [left; auto|right; intros X; apply D; apply X; reflexivity].
Defined.

(* ------------------------------------------------------------------ the sweeps *)
Lemma attempts_is_the_daemons_bound : A = N.to_nat c_retry_attempts.
Proof. reflexivity. Qed.

Theorem xfer_safe_and_isolated : forall l, (length l <= A)%nat -> safe_and_isolated l.
Proof. apply (sweep _ safe_and_isolated_dec). vm_compute. reflexivity. Qed.

Theorem xfer_masks_faults : forall l, no_connect_fault l = true -> (length l < A)%nat -> masked l.
Proof.
  intros l H1 H2. assert (H : (length l <= A)%nat) by lia.
  exact (sweep _ masked_if_dec A ltac:(vm_compute; reflexivity) l H H1 H2).
Qed.

Theorem xfer_exhausted : forall l, no_connect_fault l = true -> length l = A -> exhausted l.
Proof.
  intros l H1 H2. assert (H : (length l <= A)%nat) by lia.
  exact (sweep _ exhausted_if_dec A ltac:(vm_compute; reflexivity) l H H1 H2).
Qed.

Theorem xfer_connect_refused : forall l, (length l <= A)%nat -> no_connect_fault l = false -> refused_ends l.
Proof. apply (sweep _ refused_if_dec). vm_compute. reflexivity. Qed.


(* one concrete order, event by event: reply cut, then request cut while being written, then clean *)
Lemma client_example_trace :
  r_trace (run [FRecv; FSend]) =
  [TNew 0; TConnect 1 true; TSend 0 0 1 true; TNew 1; TBind 1 1; TRecv 1 1 false; TDestroy 1; TClose 1; TSleep 10;
   TConnect 2 true; TSend 0 1 2 false; TClose 2; TSleep 20;
   TConnect 3 true; TSend 0 2 3 true; TNew 2; TBind 2 3; TRecv 2 3 true; TClose 3; TDestroy 0; TDestroy 2].
Proof. vm_compute. reflexivity. Qed.
