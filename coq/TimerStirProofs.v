(* TimerStirProofs.v — lemmas about TimerStirModel (C18, PRNG stir service). *)
From Coq Require Import List ZArith Bool Lia.
From MV.gen Require Import GenTimer.
From MV Require Import TimerModel TimerProofs TimerStirModel.
Import ListNotations.
Local Open Scope Z_scope.

Lemma max_pos : 0 < stir_max_secs.
Proof. reflexivity. Qed.
Lemma jitter_nonneg : 0 <= stir_jitter_max.
Proof. discriminate. Qed.

Lemma stir_start_range nbytes : 1 <= stir_start nbytes <= stir_max_secs.
Proof.
  unfold stir_start. pose proof max_pos.
  destruct (stir_max_secs <=? 0) eqn:E; [apply Z.leb_le in E; lia|].
  destruct (nbytes <? random_bytes_wanted); lia.
Qed.

Lemma stir_next_range secs : 1 <= secs <= stir_max_secs ->
  1 <= stir_next secs <= stir_max_secs /\ secs <= stir_next secs /\
  (stir_next secs = stir_max_secs \/ stir_next secs = 2 * secs).
Proof.
  intros H. unfold stir_next. destruct (secs <? stir_max_secs) eqn:E.
  - apply Z.ltb_lt in E. destruct (Z.min_spec (secs * 2) stir_max_secs) as [[A ->]|[A ->]]; lia.
  - apply Z.ltb_ge in E. lia.
Qed.

(* what holds of the service at every moment *)
Record SInv (s : stir) : Prop := {
  si_secs : 1 <= s_secs s <= stir_max_secs;
  si_pend : exists e, s_pend s = Some e /\
                      s_armed s + 1000 <= e <= s_armed s + stir_max_secs * 1000 + stir_jitter_max;
  si_armed : s_armed s <= s_clock s
}.

Lemma jitter_ok_spec j : jitter_ok j = true <-> 0 <= j <= stir_jitter_max.
Proof. unfold jitter_ok. rewrite andb_true_iff, !Z.leb_le. tauto. Qed.

Lemma init_inv nbytes j : jitter_ok j = true -> SInv (stir_init SRepo nbytes j).
Proof.
  intros Hj. apply jitter_ok_spec in Hj. unfold stir_init, stir_cb.
  pose proof (stir_start_range nbytes) as Hs.
  destruct (stir_next_range _ Hs) as (Hn & _ & _).
  destruct (0 <? stir_start nbytes) eqn:E; [|apply Z.ltb_ge in E; lia].
  constructor; cbn [s_secs s_pend s_clock s_armed].
  - exact Hn.
  - eexists. split; [reflexivity|]. nia.
  - lia.
Qed.

Lemma step_sinv s l s' : SInv s -> stir_step s l = Some s' -> SInv s'.
Proof.
  intros [Hs (e & He & Hb) Ha] H. destruct l as [t|j]; cbn [stir_step] in H.
  - destruct (s_clock s <=? t) eqn:E; [|discriminate]. apply Z.leb_le in E. inversion H; subst.
    constructor; cbn [s_secs s_pend s_clock s_armed]; [exact Hs|exists e; auto|lia].
  - rewrite He in H.
    destruct ((e <=? s_clock s) && jitter_ok j && (0 <? s_secs s)) eqn:E; [|discriminate].
    apply andb_true_iff in E. destruct E as [E _]. apply andb_true_iff in E. destruct E as [_ Hj].
    apply jitter_ok_spec in Hj. unfold stir_cb in H. inversion H; subst.
    destruct (stir_next_range _ Hs) as (Hn & _ & _).
    constructor; cbn [s_secs s_pend s_clock s_armed]; [exact Hn| |lia].
    eexists. split; [reflexivity|]. nia.
Qed.

Lemma run_sinv ls : forall s s', SInv s -> stir_run s ls = Some s' -> SInv s'.
Proof.
  induction ls as [|l r IH]; intros s s' I H; cbn [stir_run] in H.
  - inversion H; subst. exact I.
  - destruct (stir_step s l) as [s1|] eqn:E; [|discriminate]. eapply IH; [|exact H]. eapply step_sinv; eassumption.
Qed.

(* for every seeding state, every stagger and every sequence of clock movements and dispatches: a stir timer is
   pending, it was set at most max + stagger and at least one second before its expiry *)
Theorem stir_always_pending nbytes j ls s :
  jitter_ok j = true -> stir_run (stir_init SRepo nbytes j) ls = Some s ->
  exists e, s_pend s = Some e /\
            s_armed s + 1000 <= e <= s_armed s + stir_max_secs * 1000 + stir_jitter_max /\
            s_armed s <= s_clock s /\ 1 <= s_secs s <= stir_max_secs.
Proof.
  intros Hj H. destruct (run_sinv _ _ _ (init_inv nbytes j Hj) H) as [Hs (e & He & Hb) Ha].
  exists e. auto.
Qed.

(* the dispatch of a due stir timer is always possible, with any stagger: the service cannot get stuck *)
Theorem stir_fire_enabled nbytes j ls s e j' :
  jitter_ok j = true -> stir_run (stir_init SRepo nbytes j) ls = Some s ->
  s_pend s = Some e -> e <= s_clock s -> jitter_ok j' = true ->
  exists s', stir_step s (SFire j') = Some s' /\ s_armed s' = s_clock s.
Proof.
  intros Hj H He Hd Hj'. destruct (run_sinv _ _ _ (init_inv nbytes j Hj) H) as [Hs _ _].
  cbn [stir_step]. rewrite He, Hj'. apply Z.leb_le in Hd. rewrite Hd.
  assert (E : 0 <? s_secs s = true) by (apply Z.ltb_lt; lia). rewrite E. cbn [andb].
  unfold stir_cb. eexists. split; reflexivity.
Qed.

(* intervals never shrink, and from either start the maximum is reached after at most 15 stirs and kept *)
Theorem stir_interval_monotone s l s' : SInv s -> stir_step s l = Some s' -> s_secs s <= s_secs s'.
Proof.
  intros [Hs _ _] H. destruct l as [t|j]; cbn [stir_step] in H.
  - destruct (s_clock s <=? t); [|discriminate]. inversion H; subst. cbn. lia.
  - destruct (s_pend s); [|discriminate].
    destruct (_ && _ && _); [|discriminate]. unfold stir_cb in H. inversion H; subst. cbn.
    apply (stir_next_range _ Hs).
Qed.

Theorem stir_reaches_max :
  (forall nbytes k, (15 <= k)%nat -> stir_iter k (stir_start nbytes) = stir_max_secs) /\
  stir_next stir_max_secs = stir_max_secs.
Proof.
  split; [|reflexivity].
  assert (Hfix : forall k, stir_iter k stir_max_secs = stir_max_secs).
  { induction k as [|k IH]; [reflexivity|]. cbn [stir_iter]. exact IH. }
  intros nbytes k Hk. replace k with (15 + (k - 15))%nat by lia.
  assert (Hplus : forall a b x, stir_iter (a + b) x = stir_iter b (stir_iter a x)).
  { induction a as [|a IH]; intros b x; [reflexivity|]. cbn [stir_iter Nat.add]. apply IH. }
  rewrite Hplus. unfold stir_start.
  destruct (stir_max_secs <=? 0) eqn:E; [discriminate E|].
  destruct (nbytes <? random_bytes_wanted).
  - replace (stir_iter 15 1) with stir_max_secs by (vm_compute; reflexivity). apply Hfix.
  - rewrite Hfix. try rewrite Hfix. reflexivity.
Qed.

(* the model is what the source does: the measured tables *)
Theorem stir_model_is_the_source :
  forallb init_sample_ok stir_init_samples = true /\ forallb run_sample_ok stir_run_samples = true /\
  stir_init_samples <> [] /\ stir_run_samples <> [].
Proof. split; [vm_compute; reflexivity|]. split; [vm_compute; reflexivity|]. split; discriminate. Qed.

(* ... and the successive stirs measured from both initial conditions, 60 each: the interval variable itself stays at
   the maximum once it is reached (it is not only the armed delay that is capped) *)
Theorem stir_sequences_are_the_source :
  stir_seq 60 (stir_start 132) = stir_seq_first_start /\
  stir_seq 60 (stir_start (random_bytes_wanted + 4)) = stir_seq_seeded /\
  Forall (fun p => 1 <= fst p <= stir_max_secs /\ 1000 <= snd p <= stir_max_secs * 1000)
         (stir_seq_first_start ++ stir_seq_seeded).
Proof.
  split; [vm_compute; reflexivity|]. split; [vm_compute; reflexivity|].
  apply Forall_forall. intros p Hp.
  assert (H : forallb (fun p => (1 <=? fst p) && (fst p <=? stir_max_secs) && (1000 <=? snd p)
                                && (snd p <=? stir_max_secs * 1000))
                      (stir_seq_first_start ++ stir_seq_seeded) = true) by (vm_compute; reflexivity).
  rewrite forallb_forall in H. specialize (H p Hp).
  rewrite !andb_true_iff, !Z.leb_le in H. lia.
Qed.

(* on timer.c: for every seeding state random_init makes exactly one set of the stir callback c, so the premise
   `inst c st = 1` of TimerProofs.periodic_forever holds from the start *)
Theorem stir_first_instance (prog : nat -> list cop) (c : nat) (now : ts) nbytes j :
  owes c (prog c) = 1%nat -> (forall d, d <> c -> owes c (prog d) = O) ->
  jitter_ok j = true ->
  exists d st' id, stir_first_delay SRepo nbytes j = d /\ 1000 <= d /\
    step prog init (LSet (ts_add_ms now d) c) = Some (st', ORet id) /\ inst c st' = 1%nat.
Proof.
  intros Hself Hothers Hj. pose proof (init_inv nbytes j Hj) as [_ (e & He & Hb) _].
  unfold stir_first_delay. rewrite He. exists e.
  cbn [TimerModel.step]. destruct (do_set init (ts_add_ms now e) c) as [st' id] eqn:E.
  exists st', id. split; [reflexivity|]. split.
  - assert (s_armed (stir_init SRepo nbytes j) = 0).
    { unfold stir_init, stir_cb. destruct (0 <? stir_start nbytes); reflexivity. }
    lia.
  - split; [reflexivity|]. unfold inst, owed.
    destruct (set_cnt prog c Hself Hothers _ _ _ _ _ E) as (-> & -> & ->). cbn. rewrite Nat.eqb_refl. reflexivity.
Qed.

(* the variant that skips the start-up stir of a fully seeded pool: a daemon that finds a complete seed file
   never sets a stir timer, whatever happens afterwards *)
Theorem skip_when_seeded_never_stirs ls :
  exists nbytes, random_bytes_wanted <= nbytes /\
    s_pend (stir_init SSkipWhenSeeded nbytes 0) = None /\
    (forall s, stir_run (stir_init SSkipWhenSeeded nbytes 0) ls = Some s -> s_pend s = None) /\
    (* the code as it is arms the timer for the same seeding state; a first start is unaffected *)
    s_pend (stir_init SRepo nbytes 0) = Some (stir_max_secs * 1000) /\
    s_pend (stir_init SSkipWhenSeeded 132 0) = Some 2000.
Proof.
  exists (random_bytes_wanted + 4). split; [lia|]. split; [reflexivity|]. split; [|split; reflexivity].
  set (s0 := stir_init SSkipWhenSeeded (random_bytes_wanted + 4) 0).
  assert (H0 : s_pend s0 = None) by reflexivity. clearbody s0. revert s0 H0.
  induction ls as [|l r IH]; intros s0 H0 s H; cbn [stir_run] in H.
  - inversion H; subst. exact H0.
  - destruct (stir_step s0 l) as [s1|] eqn:E; [|discriminate]. apply (IH s1); [|exact H].
    destruct l; cbn [stir_step] in E.
    + destruct (s_clock s0 <=? t); [|discriminate]. inversion E; subst. exact H0.
    + rewrite H0 in E. discriminate.
Qed.
