(* Base64Proofs.v — proofs about Base64Model (C19). *)
From Coq Require Import List NArith ZArith Bool Lia ZifyBool ZifyN ZifyNat.
From Coq.Strings Require Import Byte.
From MV Require Import Bytes Base64Model.
From MV.gen Require Import GenBase64.
Import ListNotations.
Local Open Scope N_scope.
Ltac Zify.zify_post_hook ::= Z.div_mod_to_equations.

(* ------------------------------------------------------------------ *)
(* Independent description of RFC 4648 base64                          *)
(* ------------------------------------------------------------------ *)
Definition rfc_alphabet : bytes :=
  ["A";"B";"C";"D";"E";"F";"G";"H";"I";"J";"K";"L";"M";"N";"O";"P";"Q";"R";"S";"T";"U";"V";"W";"X";"Y";"Z";
   "a";"b";"c";"d";"e";"f";"g";"h";"i";"j";"k";"l";"m";"n";"o";"p";"q";"r";"s";"t";"u";"v";"w";"x";"y";"z";
   "0";"1";"2";"3";"4";"5";"6";"7";"8";"9";"+";"/"]%byte.
Definition rfc_char (n : N) : byte := nth (N.to_nat n) rfc_alphabet x00.
Definition eqc : byte := "="%byte.

Fixpoint rfc4648 (s : bytes) : bytes :=
  match s with
  | x :: y :: z :: r =>
      let n := b2n x * 65536 + b2n y * 256 + b2n z in
      [rfc_char (n / 262144); rfc_char ((n / 4096) mod 64);
       rfc_char ((n / 64) mod 64); rfc_char (n mod 64)] ++ rfc4648 r
  | [x; y] =>
      let n := (b2n x * 256 + b2n y) * 4 in
      [rfc_char (n / 4096); rfc_char ((n / 64) mod 64); rfc_char (n mod 64); eqc]
  | [x] =>
      let n := b2n x * 16 in
      [rfc_char (n / 64); rfc_char (n mod 64); eqc; eqc]
  | [] => []
  end.

(* character classes, independent of the generated table *)
Definition is_data (c : byte) : bool := existsb (Byte.eqb c) rfc_alphabet.
Definition is_ws (c : byte) : bool :=
  let n := b2n c in ((9 <=? n) && (n <=? 13)) || (n =? 32).
Definition is_padc (c : byte) : bool := Byte.eqb c eqc.

(* ------------------------------------------------------------------ *)
(* Table facts (finite sweeps over the table generated from the source) *)
(* ------------------------------------------------------------------ *)
Lemma tab_consts : b64_ign = 254 /\ b64_pad = 253 /\ b64_err = 255 /\ padc = eqc.
Proof. vm_compute. repeat split; reflexivity. Qed.

Lemma tab_roundtrip_sweep :
  allb 64 (fun s => (a2b (b2a s) =? s) && Byte.eqb (b2a s) (rfc_char s)) = true.
Proof. vm_compute. reflexivity. Qed.

Lemma a2b_b2a s : s < 64 -> a2b (b2a s) = s.
Proof.
  intros H. pose proof (allb_spec 64 _ tab_roundtrip_sweep s H) as E. cbv beta in E.
  apply andb_true_iff in E. destruct E as [E _]. now apply N.eqb_eq in E.
Qed.

Lemma b2a_rfc s : s < 64 -> b2a s = rfc_char s.
Proof.
  intros H. pose proof (allb_spec 64 _ tab_roundtrip_sweep s H) as E. cbv beta in E.
  apply andb_true_iff in E. destruct E as [_ E]. now apply Byte.byte_dec_bl in E.
Qed.

(* every table entry is classified exactly as RFC 4648 + isspace() say *)
Definition class_ok (c : byte) : bool :=
  if is_ws c then a2b c =? 254
  else if is_padc c then a2b c =? 253
  else if is_data c then a2b c <? 64
  else a2b c =? 255.
Lemma tab_class_sweep : allb 256 (fun n => class_ok (n2b n)) = true.
Proof. vm_compute. reflexivity. Qed.
Lemma tab_class c : class_ok c = true.
Proof. exact (byte_sweep class_ok tab_class_sweep c). Qed.

(* exactly 64 data entries, one pad, six ignored *)
Lemma tab_counts :
  length (filter (fun v => v <? 64) asc2bin_tab) = 64%nat /\
  length (filter (fun v => v =? 253) asc2bin_tab) = 1%nat /\
  length (filter (fun v => v =? 254) asc2bin_tab) = 6%nat /\
  length asc2bin_tab = 256%nat /\ length bin2asc_tab = 64%nat /\
  NoDup (filter (fun v => v <? 64) asc2bin_tab).
Proof.
  repeat split; try (vm_compute; reflexivity).
  apply (NoDup_count_occ' N.eq_dec). intros x Hx.
  assert (forallb (fun x => Nat.eqb (count_occ N.eq_dec (filter (fun v => v <? 64) asc2bin_tab) x) 1)
                  (filter (fun v => v <? 64) asc2bin_tab) = true) as F by (vm_compute; reflexivity).
  rewrite forallb_forall in F. apply Nat.eqb_eq. now apply F.
Qed.

(* ------------------------------------------------------------------ *)
(* Shift/mask expressions of the C code as div/mod (sweeps)            *)
(* ------------------------------------------------------------------ *)
Definition bit_enc_ok (a b : N) : bool :=
  (N.land (N.shiftr a 2) 0x3f =? a / 4) &&
  (N.lor (N.land (N.shiftl a 4) 0x30) (N.land (N.shiftr b 4) 0x0f) =? (a mod 4) * 16 + b / 16) &&
  (N.lor (N.land (N.shiftl a 2) 0x3c) (N.land (N.shiftr b 6) 0x03) =? (a mod 16) * 4 + b / 64) &&
  (N.land a 0x3f =? a mod 64) &&
  (N.land (N.shiftl a 2) 0x3c =? (a mod 16) * 4) &&
  (N.land (N.shiftl a 4) 0x30 =? (a mod 4) * 16).
Lemma bit_enc_sweep : allb2 256 256 bit_enc_ok = true.
Proof. vm_compute. reflexivity. Qed.

Lemma bit_enc a b : a < 256 -> b < 256 ->
  N.land (N.shiftr a 2) 0x3f = a / 4 /\
  N.lor (N.land (N.shiftl a 4) 0x30) (N.land (N.shiftr b 4) 0x0f) = (a mod 4) * 16 + b / 16 /\
  N.lor (N.land (N.shiftl a 2) 0x3c) (N.land (N.shiftr b 6) 0x03) = (a mod 16) * 4 + b / 64 /\
  N.land a 0x3f = a mod 64 /\
  N.land (N.shiftl a 2) 0x3c = (a mod 16) * 4 /\
  N.land (N.shiftl a 4) 0x30 = (a mod 4) * 16.
Proof.
  intros Ha Hb. pose proof (allb2_spec 256 256 _ bit_enc_sweep a b Ha Hb) as E.
  unfold bit_enc_ok in E. rewrite !andb_true_iff in E. rewrite !N.eqb_eq in E. tauto.
Qed.

Definition bit_dec_ok (s t : N) : bool :=
  (N.lor (N.land (N.shiftl s 2) 0xfc) (N.land (N.shiftr t 4) 0x03) =? s * 4 + t / 16) &&
  (N.lor (N.land (N.shiftl s 4) 0xf0) (N.land (N.shiftr t 2) 0x0f) =? (s mod 16) * 16 + t / 4) &&
  (N.lor (N.land (N.shiftl s 6) 0xc0) (N.land t 0x3f) =? (s mod 4) * 64 + t).
Lemma bit_dec_sweep : allb2 64 64 bit_dec_ok = true.
Proof. vm_compute. reflexivity. Qed.
Lemma bit_dec s t : s < 64 -> t < 64 ->
  N.lor (N.land (N.shiftl s 2) 0xfc) (N.land (N.shiftr t 4) 0x03) = s * 4 + t / 16 /\
  N.lor (N.land (N.shiftl s 4) 0xf0) (N.land (N.shiftr t 2) 0x0f) = (s mod 16) * 16 + t / 4 /\
  N.lor (N.land (N.shiftl s 6) 0xc0) (N.land t 0x3f) = (s mod 4) * 64 + t.
Proof.
  intros Hs Ht. pose proof (allb2_spec 64 64 _ bit_dec_sweep s t Hs Ht) as E.
  unfold bit_dec_ok in E. rewrite !andb_true_iff in E. rewrite !N.eqb_eq in E. tauto.
Qed.

(* arithmetic sextets of a 3-byte group *)
Definition s0 (a : N) := a / 4.
Definition s1 (a b : N) := (a mod 4) * 16 + b / 16.
Definition s2 (b c : N) := (b mod 16) * 4 + c / 64.
Definition s3 (c : N) := c mod 64.

Lemma enc3_arith x y z :
  enc3 x y z = [b2a (s0 (b2n x)); b2a (s1 (b2n x) (b2n y)); b2a (s2 (b2n y) (b2n z)); b2a (s3 (b2n z))].
Proof.
  unfold enc3, s0, s1, s2, s3.
  pose proof (b2n_lt x) as Hx. pose proof (b2n_lt y) as Hy. pose proof (b2n_lt z) as Hz.
  destruct (bit_enc (b2n x) (b2n y) Hx Hy) as (E0 & E1 & _).
  destruct (bit_enc (b2n y) (b2n z) Hy Hz) as (_ & _ & E2 & _).
  destruct (bit_enc (b2n z) (b2n z) Hz Hz) as (_ & _ & _ & E3 & _).
  now rewrite E0, E1, E2, E3.
Qed.

Lemma enc2_arith x y :
  enc2 x y = [b2a (s0 (b2n x)); b2a (s1 (b2n x) (b2n y)); b2a (s2 (b2n y) 0); eqc].
Proof.
  unfold enc2, s0, s1, s2.
  pose proof (b2n_lt x) as Hx. pose proof (b2n_lt y) as Hy.
  destruct (bit_enc (b2n x) (b2n y) Hx Hy) as (E0 & E1 & _).
  destruct (bit_enc (b2n y) (b2n y) Hy Hy) as (_ & _ & _ & _ & E4 & _).
  rewrite E0, E1, E4. destruct tab_consts as (_ & _ & _ & ->).
  replace (0 / 64) with 0 by reflexivity. rewrite N.add_0_r. reflexivity.
Qed.

Lemma enc1_arith x :
  enc1 x = [b2a (s0 (b2n x)); b2a (s1 (b2n x) 0); eqc; eqc].
Proof.
  unfold enc1, s0, s1.
  pose proof (b2n_lt x) as Hx.
  destruct (bit_enc (b2n x) (b2n x) Hx Hx) as (E0 & _ & _ & _ & _ & E5).
  rewrite E0, E5. destruct tab_consts as (_ & _ & _ & ->).
  replace (0 / 16) with 0 by reflexivity. rewrite N.add_0_r. reflexivity.
Qed.

Lemma sext_bounds a b c : a < 256 -> b < 256 -> c < 256 ->
  s0 a < 64 /\ s1 a b < 64 /\ s2 b c < 64 /\ s3 c < 64.
Proof. unfold s0, s1, s2, s3. intros. lia. Qed.

(* ------------------------------------------------------------------ *)
(* canonical: encode_block = RFC 4648                                  *)
(* ------------------------------------------------------------------ *)
Lemma list3_ind {A} (P : list A -> Prop) :
  P [] -> (forall x, P [x]) -> (forall x y, P [x; y]) ->
  (forall x y z r, P r -> P (x :: y :: z :: r)) -> forall l, P l.
Proof.
  intros H0 H1 H2 H3.
  assert (forall n l, (length l <= n)%nat -> P l) as G.
  { induction n as [|n IH]; intros l Hl.
    - destruct l; [exact H0|cbn in Hl; lia].
    - destruct l as [|x [|y [|z r]]]; auto.
      apply H3. apply IH. cbn in Hl. lia. }
  intros l. apply (G (length l)). lia.
Qed.

Ltac list_eq tac :=
  repeat match goal with |- _ :: _ = _ :: _ => f_equal end;
  try reflexivity; try (apply f_equal; tac).

Lemma canonical s : encode_block s = rfc4648 s.
Proof.
  induction s as [|x|x y|x y z r IH] using list3_ind.
  - reflexivity.
  - cbn [encode_block rfc4648]. rewrite enc1_arith.
    pose proof (b2n_lt x) as Hx.
    rewrite !b2a_rfc by (unfold s0, s1; lia).
    unfold s0, s1. list_eq lia.
  - cbn [encode_block rfc4648]. rewrite enc2_arith.
    pose proof (b2n_lt x) as Hx. pose proof (b2n_lt y) as Hy.
    rewrite !b2a_rfc by (unfold s0, s1, s2; lia).
    unfold s0, s1, s2. list_eq lia.
  - cbn [encode_block rfc4648]. rewrite enc3_arith, IH.
    pose proof (b2n_lt x) as Hx. pose proof (b2n_lt y) as Hy. pose proof (b2n_lt z) as Hz.
    rewrite !b2a_rfc by (unfold s0, s1, s2, s3; lia).
    unfold s0, s1, s2, s3. cbn [app]. list_eq lia.
Qed.

(* ------------------------------------------------------------------ *)
(* decode (encode s) = s                                               *)
(* ------------------------------------------------------------------ *)
Lemma dec_loop_data s r i cur out : s < 64 ->
  dec_loop (b2a s :: r) i 0 cur out =
  let '(i', cur', out') := dec_put i cur out s in dec_loop r i' 0 cur' out'.
Proof.
  intros Hs. cbn [dec_loop]. rewrite (a2b_b2a s Hs).
  destruct tab_consts as (-> & -> & -> & _).
  destruct (s =? 254) eqn:E1; [lia|].
  destruct (s =? 253) eqn:E2; [lia|].
  destruct (s =? 255) eqn:E3; [lia|].
  reflexivity.
Qed.

Lemma dec_loop_pad r i pad cur out : pad < 2 ->
  dec_loop (eqc :: r) i pad cur out = dec_loop r i (pad + 1) cur out.
Proof.
  intros Hp. cbn [dec_loop].
  replace (a2b eqc) with 253 by (vm_compute; reflexivity).
  destruct tab_consts as (-> & -> & -> & _).
  replace (253 =? 254) with false by reflexivity.
  replace (253 =? 253) with true by reflexivity.
  destruct (pad <? 2) eqn:E; [reflexivity|lia].
Qed.

Lemma dec3 a b c : a < 256 -> b < 256 -> c < 256 ->
  n2b (N.lor (N.land (N.shiftl (s0 a) 2) 0xfc) (N.land (N.shiftr (s1 a b) 4) 0x03)) = n2b a /\
  n2b (N.lor (N.land (N.shiftl (s1 a b) 4) 0xf0) (N.land (N.shiftr (s2 b c) 2) 0x0f)) = n2b b /\
  n2b (N.lor (N.land (N.shiftl (s2 b c) 6) 0xc0) (N.land (s3 c) 0x3f)) = n2b c.
Proof.
  intros Ha Hb Hc. destruct (sext_bounds a b c Ha Hb Hc) as (B0 & B1 & B2 & B3).
  destruct (bit_dec _ _ B0 B1) as (E0 & _).
  destruct (bit_dec _ _ B1 B2) as (_ & E1 & _).
  destruct (bit_dec _ _ B2 B3) as (_ & _ & E2).
  rewrite E0, E1, E2. unfold s0, s1, s2, s3.
  repeat split; f_equal; lia.
Qed.

Lemma dec_enc3 x y z r cur out :
  dec_loop (enc3 x y z ++ r) 0 0 cur out = dec_loop r 0 0 0 (z :: y :: x :: out).
Proof.
  rewrite enc3_arith. cbn [app].
  pose proof (b2n_lt x) as Hx. pose proof (b2n_lt y) as Hy. pose proof (b2n_lt z) as Hz.
  destruct (sext_bounds _ _ _ Hx Hy Hz) as (B0 & B1 & B2 & B3).
  destruct (dec3 _ _ _ Hx Hy Hz) as (D0 & D1 & D2).
  rewrite (dec_loop_data _ _ _ _ _ B0). cbn [dec_put].
  rewrite (dec_loop_data _ _ _ _ _ B1). cbn [dec_put].
  rewrite (dec_loop_data _ _ _ _ _ B2). cbn [dec_put].
  rewrite (dec_loop_data _ _ _ _ _ B3). cbn [dec_put].
  rewrite D0, D1, D2, !n2b_b2n. reflexivity.
Qed.

Lemma dec_loop_encode s : forall cur out,
  exists x', dec_loop (encode_block s) 0 0 cur out = (false, x', rev s ++ out)
             /\ (d_i x' + d_pad x') mod 4 = 0.
Proof.
  induction s as [|x|x y|x y z r IH] using list3_ind; intros cur out.
  - eexists. split; [reflexivity|reflexivity].
  - cbn [encode_block]. rewrite enc1_arith.
    pose proof (b2n_lt x) as Hx.
    assert (H0 : 0 < 256) by lia.
    destruct (sext_bounds _ _ _ Hx H0 H0) as (B0 & B1 & _).
    destruct (dec3 _ _ _ Hx H0 H0) as (D0 & _).
    rewrite (dec_loop_data _ _ _ _ _ B0). cbn [dec_put].
    rewrite (dec_loop_data _ _ _ _ _ B1). cbn [dec_put].
    rewrite dec_loop_pad by lia. rewrite dec_loop_pad by lia.
    cbn [dec_loop]. eexists. split; [rewrite D0, n2b_b2n; reflexivity|reflexivity].
  - cbn [encode_block]. rewrite enc2_arith.
    pose proof (b2n_lt x) as Hx. pose proof (b2n_lt y) as Hy.
    assert (H0 : 0 < 256) by lia.
    destruct (sext_bounds _ _ _ Hx Hy H0) as (B0 & B1 & B2 & _).
    destruct (dec3 _ _ _ Hx Hy H0) as (D0 & D1 & _).
    rewrite (dec_loop_data _ _ _ _ _ B0). cbn [dec_put].
    rewrite (dec_loop_data _ _ _ _ _ B1). cbn [dec_put].
    rewrite (dec_loop_data _ _ _ _ _ B2). cbn [dec_put].
    rewrite dec_loop_pad by lia.
    cbn [dec_loop]. eexists. split; [rewrite D0, D1, !n2b_b2n; reflexivity|reflexivity].
  - cbn [encode_block]. rewrite dec_enc3.
    destruct (IH 0 (z :: y :: x :: out)) as (x' & E & M).
    exists x'. split; [|exact M]. rewrite E. cbn [rev]. rewrite <- !app_assoc. reflexivity.
Qed.

Theorem decode_encode s : decode_block (encode_block s) = (false, s).
Proof.
  unfold decode_block. destruct (dec_loop_encode s 0 []) as (x' & E & M).
  rewrite E, M. rewrite <- rev_alt, app_nil_r, rev_involutive. reflexivity.
Qed.

Corollary decode_ok_encode s : decode_ok (encode_block s) = Some s.
Proof. unfold decode_ok. now rewrite decode_encode. Qed.

(* ------------------------------------------------------------------ *)
(* encode bound                                                        *)
(* ------------------------------------------------------------------ *)
Lemma enc_len3 x y z : length (enc3 x y z) = 4%nat. Proof. reflexivity. Qed.

Theorem encode_bound s :
  N.of_nat (length (encode_block s)) + 1 = encode_length (N.of_nat (length s)).
Proof.
  unfold encode_length.
  induction s as [|x|x y|x y z r IH] using list3_ind; try reflexivity.
  cbn [encode_block]. rewrite app_length, enc_len3. cbn [length].
  lia.
Qed.

(* ------------------------------------------------------------------ *)
(* chunking independence                                               *)
(* ------------------------------------------------------------------ *)
Lemma encode_block_app a b : (length a mod 3 = 0)%nat ->
  encode_block (a ++ b) = encode_block a ++ encode_block b.
Proof.
  induction a as [|x|x y|x y z r IH] using list3_ind; intros H.
  - reflexivity.
  - cbn in H. discriminate.
  - cbn in H. discriminate.
  - cbn [app encode_block]. rewrite IH; [now rewrite app_assoc|].
    cbn [length] in H. replace (S (S (S (length r)))) with (length r + 1 * 3)%nat in H by lia.
    now rewrite Nat.mod_add in H by lia.
Qed.

Lemma encode_update_spec carry src :
  (length carry <= 2)%nat -> src <> [] ->
  exists carry' w full,
    encode_update carry src = (carry', Some w) /\
    (length carry' <= 2)%nat /\ w = encode_block full /\
    (length full mod 3 = 0)%nat /\ carry ++ src = full ++ carry'.
Proof.
  intros Hc Hs. unfold encode_update. destruct src as [|h t] eqn:Es; [congruence|]. rewrite <- Es. clear Hs.
  set (num := length carry). set (need := (3 - num)%nat).
  destruct ((0 <? num)%nat && (need <=? length src)%nat) eqn:C1.
  - apply andb_true_iff in C1. destruct C1 as [C1a C1b].
    apply Nat.ltb_lt in C1a. apply Nat.leb_le in C1b.
    set (src1 := skipn need src).
    set (full := (length src1 / 3 * 3)%nat).
    assert (L3 : length (carry ++ firstn need src) = 3%nat).
    { rewrite app_length, firstn_length. subst num need. lia. }
    destruct (3 <=? length src1)%nat eqn:C2.
    + eexists (skipn full src1), _, ((carry ++ firstn need src) ++ firstn full src1).
      split; [reflexivity|]. split.
      { rewrite skipn_length. subst full.
        pose proof (Nat.div_mod (length src1) 3). pose proof (Nat.mod_upper_bound (length src1) 3). lia. }
      split.
      { rewrite (encode_block_app (carry ++ firstn need src)); [reflexivity|].
        change (length (carry ++ firstn need src) mod 3 = 0)%nat. rewrite L3. reflexivity. }
      split.
      { rewrite app_length, L3, firstn_length.
        assert ((full <= length src1)%nat) by (subst full; rewrite Nat.mul_comm; apply Nat.mul_div_le; lia).
        rewrite Nat.min_l by assumption. subst full.
        replace (3 + length src1 / 3 * 3)%nat with (0 + (1 + length src1 / 3) * 3)%nat by lia.
        now rewrite Nat.mod_add by lia. }
      { rewrite <- !app_assoc. f_equal. rewrite (firstn_skipn full src1).
        subst src1. now rewrite firstn_skipn. }
    + apply Nat.leb_gt in C2.
      eexists src1, _, (carry ++ firstn need src).
      split; [rewrite app_nil_r; reflexivity|]. split; [lia|].
      split; [reflexivity|]. split; [rewrite L3; reflexivity|].
      rewrite <- app_assoc. f_equal. subst src1. now rewrite firstn_skipn.
  - set (full := (length src / 3 * 3)%nat).
    assert (Hfull : (full <= length src)%nat) by (subst full; rewrite Nat.mul_comm; apply Nat.mul_div_le; lia).
    destruct (3 <=? length src)%nat eqn:C2.
    + (* then num = 0 *)
      apply Nat.leb_le in C2.
      assert (num = 0%nat) as Hn.
      { apply andb_false_iff in C1. destruct C1 as [C1|C1].
        - apply Nat.ltb_ge in C1. lia.
        - apply Nat.leb_gt in C1. subst need. lia. }
      assert (carry = []) as -> by (destruct carry; [reflexivity|cbn in Hn; discriminate]).
      eexists (skipn full src), _, (firstn full src).
      split; [reflexivity|]. split.
      { rewrite skipn_length. subst full.
        pose proof (Nat.div_mod (length src) 3). pose proof (Nat.mod_upper_bound (length src) 3). lia. }
      split; [reflexivity|]. split.
      { rewrite firstn_length, Nat.min_l by assumption. subst full.
        replace (length src / 3 * 3)%nat with (0 + length src / 3 * 3)%nat by lia.
        now rewrite Nat.mod_add by lia. }
      cbn [app]. now rewrite firstn_skipn.
    + apply Nat.leb_gt in C2.
      eexists (carry ++ src), _, [].
      split; [reflexivity|]. split.
      { rewrite app_length. apply andb_false_iff in C1. destruct C1 as [C1|C1].
        - apply Nat.ltb_ge in C1. subst num. lia.
        - apply Nat.leb_gt in C1. subst need num. lia. }
      split; [reflexivity|]. split; [reflexivity|]. reflexivity.
Qed.

Theorem chunking_independent chunks : forall carry, (length carry <= 2)%nat ->
  encode_stream carry chunks = encode_block (carry ++ concat chunks).
Proof.
  induction chunks as [|c r IH]; intros carry Hc.
  - cbn [encode_stream concat]. rewrite app_nil_r. unfold encode_final. destruct carry; reflexivity.
  - cbn [encode_stream concat].
    destruct c as [|h t] eqn:Ec.
    + cbn [encode_update app]. apply IH. exact Hc.
    + rewrite <- Ec.
      destruct (encode_update_spec carry c Hc) as (carry' & w & full & E & Hc' & -> & Hm & Hsplit).
      { subst c. discriminate. }
      rewrite E. rewrite IH by exact Hc'.
      rewrite <- encode_block_app by exact Hm.
      rewrite !app_assoc. rewrite <- Hsplit. reflexivity.
Qed.

Corollary chunking_independent0 chunks :
  encode_stream [] chunks = encode_block (concat chunks).
Proof. apply (chunking_independent chunks []). cbn. lia. Qed.

(* ------------------------------------------------------------------ *)
(* decoder accepts exactly: whitespace anywhere, n data chars, then k pads, k<=2, (n+k) mod 4 = 0 *)
(* ------------------------------------------------------------------ *)
Definition nws (c : byte) : bool := negb (is_ws c).
Definition wf_from (pad : N) (y : bytes) (body : bytes) (k : nat) : Prop :=
  y = body ++ repeat eqc k /\ Forall (fun c => is_data c = true) body /\
  pad + N.of_nat k <= 2 /\ (pad = 0 \/ body = []).

Lemma class_cases c :
  (is_ws c = true /\ a2b c = 254) \/
  (is_ws c = false /\ c = eqc /\ a2b c = 253 /\ is_data c = false) \/
  (is_ws c = false /\ c <> eqc /\ is_data c = true /\ a2b c < 64) \/
  (is_ws c = false /\ c <> eqc /\ is_data c = false /\ a2b c = 255).
Proof.
  pose proof (tab_class c) as H. unfold class_ok in H.
  destruct (is_ws c) eqn:W; [left; split; [reflexivity|lia]|].
  destruct (is_padc c) eqn:P.
  - right; left. unfold is_padc in P. apply Byte.byte_dec_bl in P. subst c.
    repeat split; try lia; try reflexivity.
  - assert (c <> eqc) as Hne.
    { intros ->. vm_compute in P. discriminate. }
    destruct (is_data c) eqn:D.
    + right; right; left. repeat split; try exact Hne; try lia.
    + right; right; right. repeat split; try exact Hne; try lia.
Qed.

Lemma repeat_cons_inv {A} (a b : A) k l : a :: l = repeat b k -> a = b /\ exists k', k = S k' /\ l = repeat b k'.
Proof. destruct k as [|k']; cbn; intros H; [discriminate|]. inversion H; subst. eauto. Qed.

Lemma app_repeat_nil {A} (a : A) (body : list A) k : [] = body ++ repeat a k -> body = [] /\ k = 0%nat.
Proof. destruct body; [destruct k; [auto|discriminate]|discriminate]. Qed.

Lemma dec_loop_accepts src : forall i pad cur out, i < 4 -> pad <= 2 ->
  forall err x' out', dec_loop src i pad cur out = (err, x', out') ->
  (err = false -> exists body k, wf_from pad (filter nws src) body k) /\
  (forall body k, wf_from pad (filter nws src) body k ->
     err = false /\ d_i x' = (i + N.of_nat (length body)) mod 4 /\ d_pad x' = pad + N.of_nat k).
Proof.
  induction src as [|c r IH]; intros i pad cur out Hi Hp err x' out' E.
  - cbn in E. inversion E; subst; clear E. split.
    + intros _. exists [], 0%nat. unfold wf_from. cbn. repeat split; auto; lia.
    + intros body k (Hy & _). cbn in Hy. apply app_repeat_nil in Hy. destruct Hy as [-> ->].
      cbn. repeat split; lia.
  - cbn [dec_loop] in E. destruct tab_consts as (Ci & Cp & Ce & _). rewrite Ci, Cp, Ce in E.
    assert (F : filter nws (c :: r) = if is_ws c then filter nws r else c :: filter nws r)
      by (cbn [filter]; unfold nws at 1; destruct (is_ws c); reflexivity).
    rewrite F. clear F.
    destruct (class_cases c) as [(W & A)|[(W & -> & A & D)|[(W & Hne & D & A)|(W & Hne & D & A)]]];
      rewrite W; cbv iota.
    + (* whitespace *)
      rewrite A in E. cbn in E. exact (IH _ _ _ _ Hi Hp _ _ _ E).
    + (* pad char *)
      rewrite A in E. replace (253 =? 254) with false in E by reflexivity.
      replace (253 =? 253) with true in E by reflexivity. cbn [andb] in E.
      destruct (pad <? 2) eqn:P2.
      * assert (Hp' : pad + 1 <= 2) by lia.
        destruct (IH _ _ _ _ Hi Hp' _ _ _ E) as [IH1 IH2]. clear IH. split.
        -- intros He. destruct (IH1 He) as (body & k & Hy & Hb & Hk & Hz).
           destruct Hz as [Hz|Hz]; [lia|]. subst body. cbn in Hy.
           exists [], (S k). unfold wf_from. cbn [app repeat]. rewrite Hy.
           repeat split; auto; lia.
        -- intros body k (Hy & Hb & Hk & Hz). destruct body as [|b body].
           ++ cbn in Hy. apply repeat_cons_inv in Hy. destruct Hy as (_ & k' & -> & Hy).
              assert (wf_from (pad + 1) (filter nws r) [] k') as Hw.
              { unfold wf_from. cbn [app]. repeat split; auto; lia. }
              destruct (IH2 _ _ Hw) as (He & Hdi & Hdp). cbn [length] in *.
              repeat split; [exact He|exact Hdi|lia].
           ++ cbn in Hy. inversion Hy; subst b. inversion Hb; subst. congruence.
      * cbn [orb] in E. replace (253 =? 255) with false in E by reflexivity. cbn [orb] in E.
        destruct (0 <? pad) eqn:P0; [|lia]. inversion E; subst; clear E.
        split; [discriminate|]. intros body k (Hy & Hb & Hk & Hz).
        destruct body as [|b body].
        -- cbn in Hy. apply repeat_cons_inv in Hy. destruct Hy as (_ & k' & -> & _). lia.
        -- cbn in Hy. inversion Hy; subst b. inversion Hb; subst. congruence.
    + (* data char *)
      destruct (a2b c =? 254) eqn:E1; [lia|].
      destruct (a2b c =? 253) eqn:E2; [lia|]. cbn [andb] in E.
      destruct (a2b c =? 255) eqn:E3; [lia|]. cbn [orb] in E.
      destruct (0 <? pad) eqn:P0.
      * inversion E; subst; clear E. split; [discriminate|].
        intros body k (Hy & Hb & Hk & Hz).
        destruct Hz as [Hz|Hz]; [lia|]. subst body. cbn in Hy.
        apply repeat_cons_inv in Hy. destruct Hy as (Hc & _). contradiction.
      * assert (pad = 0) by lia. subst pad.
        destruct (dec_put i cur out (a2b c)) as [[i' cur'] out''] eqn:DP.
        assert (i' = (i + 1) mod 4 /\ i' < 4) as (Hi' & Hi'4).
        { unfold dec_put in DP.
          assert (i = 0 \/ i = 1 \/ i = 2 \/ i = 3) as Hcase by lia;
          destruct Hcase as [->|[->|[->| ->]]]; inversion DP; subst; cbn; lia. }
        destruct (IH _ _ _ _ Hi'4 Hp _ _ _ E) as [IH1 IH2]. clear IH. split.
        -- intros He. destruct (IH1 He) as (body & k & Hy & Hb & Hk & Hz).
           exists (c :: body), k. unfold wf_from. cbn [app]. rewrite Hy.
           repeat split; auto.
        -- intros body k (Hy & Hb & Hk & Hz). destruct body as [|b body].
           ++ cbn in Hy. apply repeat_cons_inv in Hy. destruct Hy as (Hc & _). contradiction.
           ++ cbn in Hy. inversion Hy; subst b. inversion Hb; subst.
              assert (wf_from 0 (filter nws r) body k) as Hw.
              { unfold wf_from. repeat split; auto. }
              destruct (IH2 _ _ Hw) as (He & Hdi & Hdp).
              repeat split; [exact He| |exact Hdp].
              rewrite Hdi. cbn [length]. rewrite Nat2N.inj_succ.
              rewrite N.add_mod_idemp_l by lia. f_equal. lia.
    + (* foreign char *)
      destruct (a2b c =? 254) eqn:E1; [lia|].
      destruct (a2b c =? 253) eqn:E2; [lia|]. cbn [andb] in E.
      destruct (a2b c =? 255) eqn:E3; [|lia]. cbn [orb] in E.
      inversion E; subst; clear E. split; [discriminate|].
      intros body k (Hy & Hb & Hk & Hz).
      destruct body as [|b body].
      * cbn in Hy. apply repeat_cons_inv in Hy. destruct Hy as (Hc & _). contradiction.
      * cbn in Hy. inversion Hy; subst b. inversion Hb; subst. congruence.
Qed.

(* the specification, stated without reference to the decoder's state *)
Definition b64_wellformed (x : bytes) : Prop :=
  exists body k, filter nws x = body ++ repeat eqc k /\
    Forall (fun c => is_data c = true) body /\ (k <= 2)%nat /\
    ((length body + k) mod 4 = 0)%nat.

Theorem accepts_exactly x : fst (decode_block x) = false <-> b64_wellformed x.
Proof.
  unfold decode_block. destruct (dec_loop x 0 0 0 []) as [[err x'] out'] eqn:E. cbn [fst].
  assert (H4 : 0 < 4) by lia. assert (H2 : 0 <= 2) by lia.
  destruct (dec_loop_accepts x 0 0 0 [] H4 H2 _ _ _ E) as [H1 H3].
  rewrite orb_false_iff, negb_false_iff, N.eqb_eq.
  assert (forall (body : bytes) (k : nat), d_i x' = (0 + N.of_nat (length body)) mod 4 -> d_pad x' = 0 + N.of_nat k ->
          ((d_i x' + d_pad x') mod 4 = 0 <-> ((length body + k) mod 4 = 0)%nat)) as Hmod.
  { intros body k Hdi Hdp. rewrite Hdi, Hdp, !N.add_0_l. rewrite N.add_mod_idemp_l by lia.
    rewrite <- Nat2N.inj_add. change 4 with (N.of_nat 4). rewrite <- Nat2N.inj_mod. lia. }
  split.
  - intros [He Hm]. destruct (H1 He) as (body & k & Hw).
    destruct (H3 _ _ Hw) as (_ & Hdi & Hdp). destruct Hw as (Hy & Hb & Hk & _).
    exists body, k. repeat split; auto; [lia|]. now apply (Hmod body k Hdi Hdp).
  - intros (body & k & Hy & Hb & Hk & Hm).
    assert (wf_from 0 (filter nws x) body k) as Hw by (unfold wf_from; repeat split; auto; lia).
    destruct (H3 _ _ Hw) as (He & Hdi & Hdp). split; [exact He|]. now apply (Hmod body k Hdi Hdp).
Qed.

(* consequences named in the property *)
Corollary rejects_foreign x c : In c x -> is_ws c = false -> is_data c = false -> c <> eqc ->
  fst (decode_block x) = true.
Proof.
  intros Hin W D P. destruct (fst (decode_block x)) eqn:E; [reflexivity|].
  apply accepts_exactly in E. destruct E as (body & k & Hy & Hb & _).
  assert (In c (filter nws x)) as Hf by (apply filter_In; split; [exact Hin|unfold nws; now rewrite W]).
  rewrite Hy in Hf. apply in_app_or in Hf. destruct Hf as [Hf|Hf].
  - rewrite Forall_forall in Hb. apply Hb in Hf. congruence.
  - apply repeat_spec in Hf. contradiction.
Qed.

(* ------------------------------------------------------------------ *)
(* write bound                                                         *)
(* ------------------------------------------------------------------ *)
Definition wgt (i : N) : N := match i with 0 => 0 | 1 => 3 | 2 => 2 | _ => 1 end.

Lemma dec_loop_bound src : forall i pad cur out err x' out', i < 4 ->
  dec_loop src i pad cur out = (err, x', out') ->
  4 * N.of_nat (length out') + wgt (d_i x') <= 4 * N.of_nat (length out) + 3 * N.of_nat (length src) + wgt i
  /\ d_i x' < 4.
Proof.
  induction src as [|c r IH]; intros i pad cur out err x' out' Hi E.
  - cbn in E. inversion E; subst. cbn. lia.
  - cbn [dec_loop] in E. cbn [length]. rewrite Nat2N.inj_succ.
    destruct (a2b c =? b64_ign).
    { apply IH in E; [|exact Hi]. lia. }
    destruct ((a2b c =? b64_pad) && (pad <? 2)).
    { apply IH in E; [|exact Hi]. lia. }
    destruct ((a2b c =? b64_err) || (0 <? pad)).
    { inversion E; subst. cbn [d_i]. lia. }
    destruct (dec_put i cur out (a2b c)) as [[i' cur'] out''] eqn:DP.
    assert (i' < 4 /\ 4 * N.of_nat (length out'') + wgt i' <= 4 * N.of_nat (length out) + 3 + wgt i) as [Hi' Hw].
    { unfold dec_put in DP.
      assert (i = 0 \/ i = 1 \/ i = 2 \/ i = 3) as Hcase by lia; destruct Hcase as [->|[->|[->| ->]]]; inversion DP; subst; cbn [length wgt]; rewrite ?Nat2N.inj_succ; lia. }
    apply IH in E; [|exact Hi']. lia.
Qed.

(* block decode: the NUL terminator (index = #bytes produced) stays below decode_length *)
Theorem decode_write_bound src :
  N.of_nat (length (snd (decode_block src))) < decode_length (N.of_nat (length src)).
Proof.
  unfold decode_block, decode_length.
  destruct (dec_loop src 0 0 0 []) as [[err x'] out'] eqn:E. cbn [snd].
  assert (H4 : 0 < 4) by lia.
  destruct (dec_loop_bound _ _ _ _ _ _ _ _ H4 E) as [B _]. cbn [length wgt] in B.
  rewrite <- rev_alt, rev_length.
  assert (0 <= wgt (d_i x')) by lia. lia.
Qed.

(* streaming decode: same bound for each update call, whatever the saved state *)
Theorem decode_update_write_bound x src : d_i x < 4 ->
  N.of_nat (length (snd (decode_update x src))) < decode_length (N.of_nat (length src))
  /\ d_i (snd (fst (decode_update x src))) < 4.
Proof.
  intros Hi. unfold decode_update, decode_length.
  destruct (dec_loop src (d_i x) (d_pad x) (d_cur x) []) as [[err x'] out'] eqn:E. cbn [snd fst].
  destruct (dec_loop_bound _ _ _ _ _ _ _ _ Hi E) as [B B2]. cbn [length] in B.
  rewrite <- rev_alt, rev_length. split; [|exact B2].
  assert (wgt (d_i x) <= 3) by (assert (d_i x = 0 \/ d_i x = 1 \/ d_i x = 2 \/ d_i x = 3) as Hcase by lia; destruct Hcase as [->|[->|[->| ->]]]; cbn; lia).
  lia.
Qed.
