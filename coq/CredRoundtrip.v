(* CredRoundtrip.v — encode-then-decode round trip of CredModel (C01, and the base of C02/C03/C10).
   The primitive hypotheses are Section hypotheses: they appear as premises of the closed theorems. *)
From Coq Require Import List NArith ZArith Bool Lia ZifyBool ZifyN ZifyNat.
From Coq.Strings Require Import Byte.
From RecordUpdate Require Import RecordSet.
From MV Require Import Bytes Base64Model Base64Proofs CredModel CredProofs CbcProofs.
From MV.gen Require Import GenCred.
Import ListNotations RecordSetNotations.
Local Open Scope N_scope.
Ltac Zify.zify_post_hook ::= Z.div_mod_to_equations.


(* ------------------------------------------------------------------ *)
(* facts about the generated algorithm tables (finite sweeps)           *)
(* ------------------------------------------------------------------ *)
Definition cipher_ok (c : N) : bool :=
  negb (cipher_valid c) ||
  ((0 <? cipher_blk_size c) && (cipher_blk_size c <? 256) && (cipher_iv_size c =? cipher_blk_size c)
   && (0 <? cipher_key_size c) && (cipher_iv_size c <=? 16)).
Lemma cipher_tab_sweep : allb 256 cipher_ok = true.
Proof. vm_compute. reflexivity. Qed.

Lemma cipher_tab_facts c : c < 256 -> cipher_valid c = true ->
  0 < cipher_blk_size c /\ cipher_blk_size c < 256 /\ cipher_iv_size c = cipher_blk_size c /\
  0 < cipher_key_size c /\ cipher_iv_size c <= 16.
Proof.
  intros Hc Hv. pose proof (allb_spec 256 _ cipher_tab_sweep c Hc) as E. unfold cipher_ok in E.
  rewrite Hv in E. cbn [negb orb] in E. rewrite !andb_true_iff in E.
  destruct E as ((((E1 & E2) & E3) & E4) & E5).
  apply N.ltb_lt in E1, E2, E4. apply N.eqb_eq in E3. apply N.leb_le in E5. repeat split; assumption.
Qed.

Definition mac_ok (a : N) : bool := negb (mac_valid a) || ((16 <=? mac_size a) && (mac_size a <=? 64)).
Lemma mac_tab_sweep : allb 256 mac_ok = true.
Proof. vm_compute. reflexivity. Qed.

Lemma mac_tab_facts a : a < 256 -> mac_valid a = true -> 16 <= mac_size a /\ mac_size a <= 64.
Proof.
  intros Ha Hv. pose proof (allb_spec 256 _ mac_tab_sweep a Ha) as E. unfold mac_ok in E.
  rewrite Hv in E. cbn [negb orb] in E. rewrite andb_true_iff in E. destruct E as (E1 & E2).
  apply N.leb_le in E1, E2. split; assumption.
Qed.

Lemma none_codes : cipher_valid c_cipher_none = false /\ cipher_key_size c_cipher_none = 0 /\
  zip_valid c_zip_none = false /\ cipher_valid c_cipher_default = false /\
  mac_valid c_mac_default = false /\ zip_valid c_zip_default = false.
Proof. vm_compute. repeat split; reflexivity. Qed.

(* ------------------------------------------------------------------ *)
(* small list / word facts                                              *)
(* ------------------------------------------------------------------ *)
Lemma bytes_eqb_refl x : bytes_eqb x x = true.
Proof.
  unfold bytes_eqb. rewrite Nat.eqb_refl. cbn [andb].
  induction x as [|a x IH]; [reflexivity|]. cbn [combine forallb fst snd]. now rewrite N.eqb_refl, IH.
Qed.

Lemma take32_be32 n r : n < 4294967296 -> take32 (be32 n ++ r) = Some (n, r).
Proof.
  intros H. pose proof (rd32_be32 n H) as E. unfold be32 in *. cbn [app]. unfold take32. now rewrite E.
Qed.

Lemma len_app {A} (a b : list A) : len (a ++ b) = len a + len b.
Proof. unfold len. rewrite app_length. lia. Qed.

Lemma take_len {A} (a b : list A) n : n = len a -> take (N.to_nat n) (a ++ b) = Some (a, b).
Proof. intros ->. unfold len. rewrite Nat2N.id. apply take_app. Qed.

Lemma before_last_suffix sfx x e : x <> sfx -> before_last sfx (e ++ [sfx; x]) = Some e.
Proof.
  intros Hx. induction e as [|c e IH].
  - cbn [app before_last].
    destruct (Byte.eqb x sfx) eqn:E; [apply Byte.byte_dec_bl in E; contradiction|].
    now rewrite Byte.byte_dec_lb by reflexivity.
  - cbn [app before_last]. now rewrite IH.
Qed.

(* ------------------------------------------------------------------ *)
(* (a) armor                                                            *)
(* ------------------------------------------------------------------ *)
Lemma dec_unarmor_eq data c r rest b64 body :
  skip_space data = c :: r -> b2n c <> 0 -> take (length pfx) (c :: r) = Some (pfx, rest) ->
  before_last sfx1 rest = Some b64 -> decode_block b64 = (false, body) ->
  dec_unarmor data = inl body.
Proof.
  intros H1 H2 H3 H4 H5. unfold dec_unarmor. rewrite H1.
  destruct (b2n c =? 0) eqn:E; [apply N.eqb_eq in E; contradiction|].
  rewrite H3.
  replace (forallb (fun q => b2n (fst q) =? b2n (snd q)) (combine pfx pfx)) with true by reflexivity.
  cbn [negb]. rewrite H4, H5. reflexivity.
Qed.

Lemma dec_unarmor_armor a b c : dec_unarmor (armor [a; b; c] ++ [x00]) = inl (a ++ b ++ c).
Proof.
  unfold armor. rewrite chunking_independent0. cbn [concat]. rewrite app_nil_r.
  set (e := encode_block (a ++ b ++ c)).
  rewrite <- !app_assoc.
  change (nbytes c_suffix ++ [x00]) with [sfx1; x00].
  change (nbytes c_prefix) with pfx.
  apply (dec_unarmor_eq (pfx ++ e ++ [sfx1; x00]) "M"%byte (tl pfx ++ e ++ [sfx1; x00]) (e ++ [sfx1; x00]) e).
  - reflexivity.
  - vm_compute. discriminate.
  - change ("M"%byte :: tl pfx ++ e ++ [sfx1; x00]) with (pfx ++ e ++ [sfx1; x00]). apply take_app.
  - apply before_last_suffix. vm_compute. discriminate.
  - subst e. apply decode_encode.
Qed.

(* ------------------------------------------------------------------ *)
(* (b) outer header                                                     *)
(* ------------------------------------------------------------------ *)
Lemma unpack_outer_ok m ci ma zi rl realm iv tag inner :
  ci < 256 -> (ci = c_cipher_none \/ cipher_valid ci = true) ->
  ma < 256 -> mac_valid ma = true -> cipher_key_size ci <= mac_size ma ->
  zi < 256 -> (zi = c_zip_none \/ zip_valid zi = true) ->
  rl = len realm -> rl < 256 ->
  len iv = (if ci =? c_cipher_none then 0 else cipher_iv_size ci) -> len tag = mac_size ma ->
  let outer := [n2b c_cred_version; n2b ci; n2b ma; n2b zi; n2b rl] ++ realm ++ iv in
  exists o, dec_unpack_outer m (outer ++ tag ++ inner) = inr o /\
    oo_outer o = outer /\ oo_iv o = iv /\ oo_tag o = tag /\ oo_inner o = inner /\
    m_cipher (oo_msg o) = ci /\ m_mac (oo_msg o) = ma /\ m_zip (oo_msg o) = zi.
Proof.
  intros Hci Hcv Hma Hmv Hks Hzi Hzv Hrl Hrl2 Hiv Htag outer. subst outer.
  destruct (mac_tab_facts ma Hma Hmv) as (Hm16 & _).
  unfold dec_unpack_outer. rewrite <- !app_assoc. cbn [app].
  rewrite (b2n_n2b c_cred_version) by reflexivity.
  rewrite (b2n_n2b ci Hci), (b2n_n2b ma Hma), (b2n_n2b zi Hzi), (b2n_n2b rl Hrl2).
  rewrite N.eqb_refl. cbn [negb].
  assert (E1 : negb (ci =? c_cipher_none) && negb (cipher_valid ci) = false).
  { destruct Hcv as [-> | ->]; [reflexivity|]. cbn [negb]. apply andb_false_r. }
  rewrite E1. rewrite Hmv. cbn [negb].
  assert (E2 : (mac_size ma =? 0) = false) by (apply N.eqb_neq; lia). rewrite E2.
  assert (E3 : (mac_size ma <? cipher_key_size ci) = false) by (apply N.ltb_ge; exact Hks). rewrite E3.
  assert (E4 : negb (zi =? c_zip_none) && negb (zip_valid zi) = false).
  { destruct Hzv as [-> | ->]; [reflexivity|]. cbn [negb]. apply andb_false_r. }
  rewrite E4.
  rewrite (take_len realm _ rl Hrl).
  rewrite (take_len iv _ _ (eq_sym Hiv)).
  rewrite (take_len tag _ _ (eq_sym Htag)).
  eexists. split; [reflexivity|]. cbn [oo_outer oo_iv oo_tag oo_inner oo_msg].
  split.
  { match goal with |- firstn (length ?b - _) ?b = ?o =>
      assert (E : b = o ++ (tag ++ inner)) by (cbn [app]; rewrite <- ?app_assoc; reflexivity); rewrite E end.
    rewrite (app_length _ (tag ++ inner)). rewrite Nat.add_sub. apply firstn_app_exact. }
  repeat split; destruct (0 <? rl); reflexivity.
Qed.

(* ------------------------------------------------------------------ *)
(* (f) inner body                                                       *)
(* ------------------------------------------------------------------ *)
Lemma unpack_inner_ok m salt addr t0 ttl uid gid au ag data :
  len salt = c_salt_len -> len addr = c_addr_size ->
  t0 < 4294967296 -> ttl < 4294967296 -> uid < 4294967296 -> gid < 4294967296 ->
  au < 4294967296 -> ag < 4294967296 -> len data < 4294967296 ->
  dec_unpack_inner m (salt ++ [n2b c_addr_size] ++ addr ++ be32 t0 ++ be32 ttl ++ be32 uid ++ be32 gid
                      ++ be32 au ++ be32 ag ++ be32 (len data) ++ data)
  = inr (m <| m_addr_len := c_addr_size |> <| m_addr := addr |> <| m_time0 := t0 |> <| m_ttl := ttl |>
           <| m_cred_uid := uid |> <| m_cred_gid := gid |> <| m_auth_uid := au |> <| m_auth_gid := ag |>
           <| m_data_len := len data |> <| m_data := data |>).
Proof.
  intros Hs Ha H0 Ht Hu Hg Hau Hag Hd. unfold dec_unpack_inner.
  rewrite (take_len salt _ c_salt_len (eq_sym Hs)). cbn [app].
  rewrite (b2n_n2b c_addr_size) by reflexivity.
  assert (E1 : (len (addr ++ be32 t0 ++ be32 ttl ++ be32 uid ++ be32 gid ++ be32 au ++ be32 ag
                     ++ be32 (len data) ++ data) <? c_addr_size) = false).
  { apply N.ltb_ge. rewrite len_app, Ha. lia. }
  rewrite E1. rewrite N.eqb_refl. cbn [orb negb].
  assert (E2 : N.to_nat c_addr_size = length addr) by (unfold len in Ha; lia).
  change 4%nat with (N.to_nat c_addr_size). rewrite E2.
  rewrite firstn_app_exact, skipn_app_exact.
  rewrite (take32_be32 t0) by exact H0. rewrite (take32_be32 ttl) by exact Ht.
  rewrite (take32_be32 uid) by exact Hu. rewrite (take32_be32 gid) by exact Hg.
  rewrite (take32_be32 au) by exact Hau. rewrite (take32_be32 ag) by exact Hag.
  rewrite (take32_be32 (len data)) by exact Hd.
  destruct (0 <? len data) eqn:D.
  - rewrite ?N.ltb_irrefl. pose proof (take_app data []) as T. rewrite app_nil_r in T.
    replace (N.to_nat (len data)) with (length data) by (unfold len; lia). rewrite T. reflexivity.
  - assert (data = []) as -> by (destruct data; [reflexivity|unfold len in D; cbn [length] in D; lia]).
    reflexivity.
Qed.

(* ------------------------------------------------------------------ *)
(* enc_validate / enc_pre: what a successful validation establishes     *)
(* ------------------------------------------------------------------ *)
(* a request as m_msg_recv hands it to enc_process_msg: lengths consistent, 32-bit fields in range *)
Definition wf_enc_req (m : msg) : Prop :=
  m_err m = e_success /\ m_retry m <= c_retry_attempts /\
  m_cipher m < 256 /\ m_mac m < 256 /\ m_zip m < 256 /\
  m_realm_len m = len (m_realm m) /\ m_realm_len m < 255 /\
  m_ttl m < 4294967296 /\ m_auth_uid m < 4294967296 /\ m_auth_gid m < 4294967296 /\
  m_data_len m = len (m_data m) /\ m_data_len m < 2147483648 - 1024.

Definition wf_conf (cf : conf) : Prop :=
  len (cf_addr cf) = c_addr_size /\
  (cf_def_cipher cf = c_cipher_none \/ cipher_valid (cf_def_cipher cf) = true) /\ cf_def_cipher cf < 256 /\
  mac_valid (cf_def_mac cf) = true /\ cf_def_mac cf < 256 /\
  (cf_def_zip cf = c_zip_none \/ zip_valid (cf_def_zip cf) = true) /\ cf_def_zip cf < 256 /\
  cf_def_ttl cf < 4294967296 /\ cf_max_ttl cf < 4294967296.

(* the options of a validated message *)
Definition opts_ok (m : msg) : Prop :=
  (m_cipher m = c_cipher_none \/ cipher_valid (m_cipher m) = true) /\ m_cipher m < 256 /\
  mac_valid (m_mac m) = true /\ m_mac m < 256 /\
  cipher_key_size (m_cipher m) <= mac_size (m_mac m) /\
  (m_zip m = c_zip_none \/ zip_valid (m_zip m) = true) /\ m_zip m < 256.

(* fields validation never touches *)
Definition same_payload (a b : msg) : Prop :=
  m_data a = m_data b /\ m_data_len a = m_data_len b /\ m_realm a = m_realm b /\ m_realm_len a = m_realm_len b /\
  m_auth_uid a = m_auth_uid b /\ m_auth_gid a = m_auth_gid b /\ m_err a = m_err b /\ m_retry a = m_retry b.


Ltac bool_hyps :=
  repeat match goal with
  | H : (_ =? _) = true |- _ => apply N.eqb_eq in H
  | H : (_ =? _) = false |- _ => apply N.eqb_neq in H
  | H : negb _ = false |- _ => apply negb_false_iff in H
  | H : negb _ = true |- _ => apply negb_true_iff in H
  | H : (_ <? _) = false |- _ => apply N.ltb_ge in H
  | H : (_ <? _) = true |- _ => apply N.ltb_lt in H
  | H : (_ <=? _) = false |- _ => apply N.leb_gt in H
  | H : (_ <=? _) = true |- _ => apply N.leb_le in H
  end.

Lemma enc_validate_facts cf m m' : wf_conf cf ->
  m_cipher m < 256 -> m_mac m < 256 -> m_zip m < 256 ->
  enc_validate cf m = inl m' -> opts_ok m' /\ same_payload m' m.
Proof.
  intros (_ & Hdc & Hdc2 & Hdm & Hdm2 & Hdz & Hdz2 & _) Hc Hm Hz H.
  unfold enc_validate in H.
  repeat (cbv beta iota zeta in H;
          match type of H with context [if ?b then _ else _] => destruct b eqn:? end);
    cbv beta iota zeta in H; try discriminate H.
  all: inversion H; subst m'; clear H; unfold opts_ok, same_payload; cbn in *; bool_hyps.
  all: repeat split; auto; try lia.
Qed.

Lemma enc_pre_facts cf m pu pg now m1 : wf_conf cf -> wf_enc_req m ->
  enc_pre cf m pu pg now = inl m1 ->
  opts_ok m1 /\ same_payload m1 m /\ m_ttl m1 < 4294967296 /\
  m_client_uid m1 = pu /\ m_client_gid m1 = pg /\ m_time0 m1 = u32 now.
Proof.
  intros Hcf Hm H. unfold enc_pre in H.
  destruct (enc_validate cf m) as [mv|] eqn:V; [|discriminate].
  destruct (c_retry_attempts <? _); [discriminate|]. inversion H; subst m1; clear H.
  destruct Hm as (_ & _ & Hc & Hma & Hz & _ & _ & Httl & _).
  destruct (enc_validate_facts cf m mv Hcf Hc Hma Hz V) as (O & P).
  pose proof (enc_validate_ttl cf m mv V) as T.
  destruct Hcf as (_ & _ & _ & _ & _ & _ & _ & Hd & Hx).
  split; [exact O|]. split; [exact P|]. cbn.
  split; [|auto].
  rewrite T. destruct (m_ttl m =? 0); [exact Hd|]. destruct (cf_max_ttl cf <? m_ttl m); assumption.
Qed.

(* the IV enc_core uses: the first iv_size bytes of the random input *)
Definition core_iv (m1 : msg) (ivr : bytes) : bytes :=
  if m_cipher m1 =? c_cipher_none then [] else firstn (N.to_nat (cipher_iv_size (m_cipher m1))) ivr.

Lemma core_iv_len m1 ivr :
  (m_cipher m1 = c_cipher_none \/ cipher_valid (m_cipher m1) = true) -> m_cipher m1 < 256 -> 16 <= len ivr ->
  len (core_iv m1 ivr) = (if m_cipher m1 =? c_cipher_none then 0 else cipher_iv_size (m_cipher m1)).
Proof.
  intros Hv Hc Hr. unfold core_iv. destruct (m_cipher m1 =? c_cipher_none) eqn:C; [reflexivity|].
  bool_hyps. destruct Hv as [Hv|Hv]; [contradiction|].
  destruct (cipher_tab_facts _ Hc Hv) as (_ & _ & _ & _ & H16).
  unfold len in *. rewrite firstn_length. lia.
Qed.

Lemma pack_inner_len cf m salt : len (pack_inner cf m salt) =
  len salt + 1 + len (cf_addr cf) + 28 + len (m_data m).
Proof. unfold pack_inner, len. rewrite !app_length, !be32_length. cbn [length]. lia. Qed.

Section Roundtrip.
Variable hmac : N -> bytes -> bytes -> bytes.
Variable sha1 : bytes -> bytes.
Variable blk_enc blk_dec : N -> bytes -> bytes -> bytes.
Variable zcomp : N -> bytes -> option bytes.
Variable zdecomp : N -> bytes -> N -> option bytes.

(* --- what is assumed of the primitives (and nothing else) --- *)
Hypothesis hmac_len : forall a k d, mac_valid a = true -> len (hmac a k d) = mac_size a.
Hypothesis blk_len : forall c k b, cipher_valid c = true -> len b = cipher_blk_size c ->
  len (blk_enc c k b) = cipher_blk_size c.
Hypothesis blk_inv : forall c k b, cipher_valid c = true -> len b = cipher_blk_size c ->
  blk_dec c k (blk_enc c k b) = b.
Hypothesis zip_inv : forall z x raw mx, zip_valid z = true -> zcomp z x = Some raw -> len x <= mx ->
  zdecomp z raw mx = Some x.

(* --- the pieces enc_core assembles, as functions of the final message m3 and compressed body --- *)
Definition core_tag (cf : conf) (m3 : msg) (iv inner1 : bytes) : bytes :=
  hmac (m_mac m3) (mac_subkey sha1 (cf_key cf)) (pack_outer m3 iv ++ inner1).
Definition core_wire (cf : conf) (m3 : msg) (iv inner1 : bytes) : bytes :=
  if m_cipher m3 =? c_cipher_none then inner1
  else cbc_encrypt blk_enc (m_cipher m3) (hmac (m_mac m3) (dek_subkey sha1 (cf_key cf)) (core_tag cf m3 iv inner1))
                   iv inner1.

Lemma enc_core_inv cf m1 salt ivr o :
  enc_core hmac sha1 blk_enc zcomp cf m1 salt ivr = inr o ->
  exists m3 inner1,
    m_cipher m3 = m_cipher m1 /\ m_mac m3 = m_mac m1 /\ m_realm m3 = m_realm m1 /\
    m_realm_len m3 = m_realm_len m1 /\
    ((m_zip m3 = c_zip_none /\ inner1 = pack_inner cf m1 salt) \/
     (m_zip m3 = m_zip m1 /\ m_zip m1 <> c_zip_none /\
      zip_compress zcomp (m_zip m1) (pack_inner cf m1 salt) = Some inner1)) /\
    eo_tag o = core_tag cf m3 (core_iv m1 ivr) inner1 /\
    eo_cred o = armor [pack_outer m3 (core_iv m1 ivr); core_tag cf m3 (core_iv m1 ivr) inner1;
                       core_wire cf m3 (core_iv m1 ivr) inner1] ++ [x00] /\
    m_cipher (eo_msg o) = m_cipher m3 /\ m_mac (eo_msg o) = m_mac m3 /\ m_zip (eo_msg o) = m_zip m3.
Proof.
  intros H. unfold enc_core in H. cbv zeta in H. fold (core_iv m1 ivr) in H.
  change (pack_inner cf (m1 <| m_addr_len := c_addr_size |>) salt) with (pack_inner cf m1 salt) in H.
  change (m_zip (m1 <| m_addr_len := c_addr_size |>)) with (m_zip m1) in H.
  destruct (m_zip m1 =? c_zip_none) eqn:Z.
  - inversion H; subst o; clear H. bool_hyps.
    exists (m1 <| m_addr_len := c_addr_size |>), (pack_inner cf m1 salt).
    repeat split; try reflexivity. left. split; [exact Z|reflexivity].
  - destruct (zip_compress zcomp (m_zip m1) (pack_inner cf m1 salt)) as [z|] eqn:Cz; [|discriminate].
    bool_hyps.
    destruct (len (pack_inner cf m1 salt) <=? len z) eqn:L; inversion H; subst o; clear H.
    + exists (m1 <| m_addr_len := c_addr_size |> <| m_zip := c_zip_none |>), (pack_inner cf m1 salt).
      repeat split; try reflexivity. left. split; reflexivity.
    + exists (m1 <| m_addr_len := c_addr_size |>), z.
      repeat split; try reflexivity. right. split; [reflexivity|]. split; [exact Z|first [exact Cz|reflexivity]].
Qed.

(* (c)+(d): decryption and the MAC comparison *)
Lemma decrypt_mac_ok cfd (oo : outer_out) key inner1 :
  cf_key cfd = key ->
  (m_cipher (oo_msg oo) = c_cipher_none \/ cipher_valid (m_cipher (oo_msg oo)) = true) ->
  m_cipher (oo_msg oo) < 256 ->
  len (oo_iv oo) = (if m_cipher (oo_msg oo) =? c_cipher_none then 0 else cipher_iv_size (m_cipher (oo_msg oo))) ->
  oo_tag oo = hmac (m_mac (oo_msg oo)) (mac_subkey sha1 key) (oo_outer oo ++ inner1) ->
  oo_inner oo = (if m_cipher (oo_msg oo) =? c_cipher_none then inner1
                 else cbc_encrypt blk_enc (m_cipher (oo_msg oo))
                        (hmac (m_mac (oo_msg oo)) (dek_subkey sha1 key) (oo_tag oo)) (oo_iv oo) inner1) ->
  dec_decrypt_mac hmac sha1 blk_dec cfd oo = inr inner1.
Proof.
  intros Hk Hcv Hc Hiv Htag Hin. unfold dec_decrypt_mac. rewrite Hk.
  destruct (m_cipher (oo_msg oo) =? c_cipher_none) eqn:C.
  - rewrite Hin. rewrite <- Htag. rewrite bytes_eqb_refl. reflexivity.
  - bool_hyps. destruct Hcv as [Hcv|Hcv]; [contradiction|].
    destruct (cipher_tab_facts _ Hc Hcv) as (Hb0 & Hb256 & Hivb & _ & _).
    rewrite Hin.
    rewrite (cbc_decrypt_encrypt blk_enc blk_dec (m_cipher (oo_msg oo))
               (fun k b => blk_len _ k b Hcv) (fun k b => blk_inv _ k b Hcv)); [|exact Hb0|exact Hb256|congruence].
    rewrite <- Htag. rewrite bytes_eqb_refl. reflexivity.
Qed.

(* (e): decompression *)
Lemma decompress_ok mo inner0 inner1 :
  ((m_zip mo = c_zip_none /\ inner1 = inner0) \/
   (m_zip mo <> c_zip_none /\ zip_valid (m_zip mo) = true /\
    zip_compress zcomp (m_zip mo) inner0 = Some inner1)) ->
  0 < len inner0 -> len inner0 < 2147483648 ->
  dec_decompress zdecomp mo inner1 = inr inner0.
Proof.
  intros [[Z ->]|(Z & V & Cz)] Hp Hl; unfold dec_decompress.
  - rewrite Z. reflexivity.
  - destruct (m_zip mo =? c_zip_none) eqn:E; [bool_hyps; contradiction|].
    unfold zip_compress in Cz. destruct (zcomp (m_zip mo) inner0) as [raw|] eqn:R; [|discriminate].
    inversion Cz; subst inner1; clear Cz.
    assert (M : c_zip_magic < 4294967296) by reflexivity.
    assert (L : len inner0 < 4294967296) by lia.
    pose proof (rd32_be32 _ M) as E1. pose proof (rd32_be32 _ L) as E2.
    unfold zip_decompress_length. unfold be32 in *. cbn [app].
    rewrite E1, E2, N.eqb_refl.
    replace (len inner0 <? 2147483648) with true by (symmetry; apply N.ltb_lt; exact Hl).
    replace (Z.of_N (len inner0) <=? 0)%Z with false by (symmetry; apply Z.leb_gt; lia).
    cbn [skipn]. rewrite N2Z.id.
    rewrite (zip_inv _ _ _ _ V R (N.le_refl _)). reflexivity.
Qed.

(* encode, then every decode stage up to the inner unpack *)
Lemma parse_ok cfe cfd m m1 pu pg now salt ivr o md0 :
  wf_conf cfe -> wf_enc_req m -> cf_key cfd = cf_key cfe ->
  pu < 4294967296 -> pg < 4294967296 -> len salt = c_salt_len -> 16 <= len ivr ->
  enc_pre cfe m pu pg now = inl m1 ->
  enc_core hmac sha1 blk_enc zcomp cfe m1 salt ivr = inr o ->
  m_data md0 = eo_cred o ->
  exists mf, dec_parse hmac sha1 blk_dec zdecomp cfd md0 = inr (mf, eo_tag o) /\
    m_cipher mf = m_cipher (eo_msg o) /\ m_mac mf = m_mac (eo_msg o) /\ m_zip mf = m_zip (eo_msg o) /\
    m_addr_len mf = c_addr_size /\ m_addr mf = cf_addr cfe /\ m_time0 mf = u32 now /\ m_ttl mf = m_ttl m1 /\
    m_cred_uid mf = pu /\ m_cred_gid mf = pg /\ m_auth_uid mf = m_auth_uid m /\ m_auth_gid mf = m_auth_gid m /\
    m_data_len mf = m_data_len m /\ m_data mf = m_data m /\ 0 < len (eo_cred o).
Proof.
  intros Hcf Hm Hkey Hpu Hpg Hsalt Hivr Hpre Hcore Hdata.
  destruct (enc_pre_facts _ _ _ _ _ _ Hcf Hm Hpre) as (O & P & Httl & U & G & T0).
  destruct O as (Ocv & Oc & Omv & Om & Oks & Ozv & Oz).
  destruct P as (Pd & Pdl & Pr & Prl & Pau & Pag & _ & _).
  destruct Hm as (_ & _ & _ & _ & _ & Wrl & Wrl2 & _ & Wau & Wag & Wdl & Wdl2).
  destruct Hcf as (Haddr & _).
  destruct (enc_core_inv _ _ _ _ _ Hcore) as (m3 & inner1 & C3 & M3 & R3 & RL3 & Zrel & Etag & Ecred & Ec & Ema & Ez).
  set (iv := core_iv m1 ivr) in *.
  set (tag := core_tag cfe m3 iv inner1) in *.
  set (inner0 := pack_inner cfe m1 salt) in *.
  assert (Hivlen : len iv = (if m_cipher m3 =? c_cipher_none then 0 else cipher_iv_size (m_cipher m3))).
  { rewrite C3. apply core_iv_len; assumption. }
  assert (Htaglen : len tag = mac_size (m_mac m3)).
  { subst tag. unfold core_tag. apply hmac_len. rewrite M3. exact Omv. }
  assert (Hz3 : m_zip m3 < 256 /\ (m_zip m3 = c_zip_none \/ zip_valid (m_zip m3) = true)).
  { destruct Zrel as [(Z & _)|(Z & _)]; rewrite Z; [split; [reflexivity|left; reflexivity]|split; assumption]. }
  destruct Hz3 as (Hz3a & Hz3b).
  unfold dec_parse. rewrite Hdata, Ecred, dec_unarmor_armor.
  unfold pack_outer at 1.
  destruct (unpack_outer_ok (md0 <| m_data := [] |> <| m_data_len := 0 |>)
              (m_cipher m3) (m_mac m3) (m_zip m3) (m_realm_len m3) (m_realm m3) iv tag
              (core_wire cfe m3 iv inner1))
    as (oo & Eo & Hoo & Hoiv & Hotag & Hoin & Hoc & Hom & Hoz).
  { rewrite C3; exact Oc. } { rewrite C3; exact Ocv. } { rewrite M3; exact Om. } { rewrite M3; exact Omv. }
  { rewrite C3, M3; exact Oks. } { exact Hz3a. } { exact Hz3b. }
  { rewrite RL3, R3, Prl, Pr. exact Wrl. } { rewrite RL3, Prl. lia. }
  { exact Hivlen. } { exact Htaglen. }
  rewrite Eo.
  rewrite (decrypt_mac_ok cfd oo (cf_key cfe) inner1 Hkey).
  2:{ rewrite Hoc, C3. exact Ocv. } 2:{ rewrite Hoc, C3. exact Oc. }
  2:{ rewrite Hoiv, Hoc. exact Hivlen. }
  2:{ rewrite Hotag, Hoo, Hom. reflexivity. }
  2:{ rewrite Hoin, Hoc, Hom, Hotag, Hoiv. reflexivity. }
  assert (Hlen0 : len inner0 = 41 + len (m_data m1)).
  { subst inner0. rewrite pack_inner_len, Hsalt, Haddr. reflexivity. }
  rewrite (decompress_ok (oo_msg oo) inner0 inner1).
  2:{ rewrite Hoz. destruct Zrel as [(Z & ->)|(Z & Zn & Cz)]; [left; split; [exact Z|reflexivity]|].
      right. rewrite Z. split; [exact Zn|]. split; [|exact Cz].
      destruct Ozv as [Ozv|Ozv]; [contradiction|exact Ozv]. }
  2:{ rewrite Hlen0. lia. }
  2:{ rewrite Hlen0, Pd, <- Wdl. lia. }
  subst inner0. unfold pack_inner.
  assert (Hdl1 : m_data_len m1 = len (m_data m1)) by (rewrite Pdl, Pd; exact Wdl).
  rewrite Hdl1.
  rewrite (unpack_inner_ok (oo_msg oo) salt (cf_addr cfe)); try assumption.
  2:{ rewrite T0. unfold u32. apply N.mod_lt. discriminate. }
  2:{ rewrite U; exact Hpu. } 2:{ rewrite G; exact Hpg. }
  2:{ rewrite Pau; exact Wau. } 2:{ rewrite Pag; exact Wag. }
  2:{ rewrite Pd, <- Wdl. lia. }
  eexists. split; [rewrite Etag, Hotag; reflexivity|].
  cbn. rewrite Ec, Ema, Ez.
  repeat split; try assumption; try congruence.
Qed.

(* (g) the tail of dec_process_msg once parsing has succeeded *)
Lemma dec_process_ok cf mem rs mreq du dg now' mf tag :
  m_data_len mreq <> 0 -> m_retry mreq <= c_retry_attempts ->
  dec_parse hmac sha1 blk_dec zdecomp cf
    (mreq <| m_time0 := 0 |> <| m_time1 := u32 now' |> <| m_client_uid := du |> <| m_client_gid := dg |>)
    = inr (mf, tag) ->
  dec_authorized cf mem mf = true ->
  fst (dec_time cf (m_time0 mf) (m_ttl mf) (m_time1 mf)) = TOk ->
  let r := mf <| m_ttl := capped cf (m_ttl mf) |> in
  r_mem (cred_rkey tag r) rs = false ->
  dec_process hmac sha1 blk_dec zdecomp cf mem rs mreq du dg now' = (r, cred_rkey tag r :: rs, Some (cred_rkey tag r)).
Proof.
  intros Hd Hr P A T r M. unfold dec_process.
  destruct (m_data_len mreq =? 0) eqn:D0; [apply N.eqb_eq in D0; contradiction|].
  set (m1 := mreq <| m_time0 := 0 |> <| m_time1 := u32 now' |> <| m_client_uid := du |> <| m_client_gid := dg |>) in *.
  assert (R : (c_retry_attempts <? m_retry m1) = false) by (apply N.ltb_ge; exact Hr).
  rewrite R, P, A. cbn [negb].
  pose proof (dec_time_ttl cf (m_time0 mf) (m_ttl mf) (m_time1 mf)) as S.
  destruct (dec_time cf (m_time0 mf) (m_ttl mf) (m_time1 mf)) as [tv ttl2].
  cbn [fst snd] in T, S. subst tv ttl2. fold r. rewrite M. reflexivity.
Qed.


(* The decode request libmunge sends for a credential string *)
Definition dec_req (cred : bytes) (retry : N) : msg :=
  msg0 <| m_data := cred |> <| m_data_len := len cred |> <| m_retry := retry |>.

(* C01 — main theorem.  For every configuration pair sharing a key, every well-formed encode request, every
   encoder identity, salt, IV and encode time: if encode succeeds then the first decode of the credential by
   an authorized client inside the time window on a daemon
   whose replay cache does not hold it succeeds and returns exactly what went in. *)
Theorem roundtrip :
  forall (cfe cfd : conf) (m m1 : msg) (pu pg now : N) (salt ivr : bytes) (o : enc_out),
  wf_conf cfe -> wf_enc_req m -> cf_key cfd = cf_key cfe ->
  pu < 4294967296 -> pg < 4294967296 ->
  len salt = c_salt_len -> 16 <= len ivr ->
  enc_pre cfe m pu pg now = inl m1 ->
  enc_core hmac sha1 blk_enc zcomp cfe m1 salt ivr = inr o ->
  forall (mem : N -> N -> bool) (rs : rstate) (du dg now' retry : N),
  retry <= c_retry_attempts -> du < 4294967296 -> dg < 4294967296 ->
  let md := eo_msg o in                       (* message after encode: resolved options *)
  let ttl' := capped cfd (m_ttl m1) in
  let t0 := u32 now in
  (* authorized decoder *)
  (m_auth_uid m = c_uid_any \/ m_auth_uid m = du \/ (cf_root_auth cfd = true /\ du = 0)) ->
  (m_auth_gid m = c_gid_any \/ m_auth_gid m = dg \/ mem du (m_auth_gid m) = true) ->
  (* inside the window *)
  (Z.of_N t0 - Z.of_N (skew_of cfd ttl') <= Z.of_N (u32 now'))%Z -> u32 now' <= t0 + ttl' ->
  (* not seen before *)
  r_mem (firstn 16 (eo_tag o), t0 + ttl') rs = false ->
  exists r k,
    dec_process hmac sha1 blk_dec zdecomp cfd mem rs (dec_req (eo_cred o) retry) du dg now' = (r, k :: rs, Some k) /\
    k = (firstn 16 (eo_tag o), t0 + ttl') /\
    m_err r = e_success /\
    m_data r = m_data m /\ m_data_len r = m_data_len m /\
    m_cred_uid r = pu /\ m_cred_gid r = pg /\
    m_auth_uid r = m_auth_uid m /\ m_auth_gid r = m_auth_gid m /\
    m_cipher r = m_cipher md /\ m_mac r = m_mac md /\ m_zip r = m_zip md /\
    m_ttl r = ttl' /\ m_time0 r = t0 /\ m_time1 r = u32 now' /\
    m_addr_len r = c_addr_size /\ m_addr r = cf_addr cfe.
Proof.
  intros cfe cfd m m1 pu pg now salt ivr o Hcf Hm Hkey Hpu Hpg Hsalt Hivr Hpre Hcore
         mem rs du dg now' retry Hretry Hdu Hdg md ttl' t0 Hau Hag Hw1 Hw2 Hrep.
  set (mreq := dec_req (eo_cred o) retry).
  set (md1 := mreq <| m_time0 := 0 |> <| m_time1 := u32 now' |> <| m_client_uid := du |> <| m_client_gid := dg |>).
  destruct (parse_ok cfe cfd m m1 pu pg now salt ivr o md1 Hcf Hm Hkey Hpu Hpg Hsalt Hivr Hpre Hcore eq_refl)
    as (mf & Hparse & Fc & Fm & Fz & Fal & Fa & Ft0 & Fttl & Fcu & Fcg & Fau & Fag & Fdl & Fd & Hlen).
  destruct (dec_parse_frame hmac sha1 blk_dec zdecomp cfd md1 mf _ Hparse) as (Ferr & Fre & Fu & Fg & Ft1).
  change (m_err md1) with e_success in Ferr. change (m_client_uid md1) with du in Fu.
  change (m_client_gid md1) with dg in Fg. change (m_time1 md1) with (u32 now') in Ft1.
  assert (A : dec_authorized cfd mem mf = true).
  { apply auth_decision. rewrite Fau, Fag, Fu, Fg. split; assumption. }
  assert (T : fst (dec_time cfd (m_time0 mf) (m_ttl mf) (m_time1 mf)) = TOk).
  { destruct (window_exact cfd (m_time0 mf) (m_ttl mf) (m_time1 mf)) as (W & _).
    apply W. rewrite Ft0, Fttl, Ft1. fold ttl' t0. lia. }
  pose proof (dec_process_ok cfd mem rs mreq du dg now' mf (eo_tag o)) as Hproc.
  cbv zeta in Hproc. rewrite Fttl in Hproc. fold ttl' in Hproc.
  assert (K : cred_rkey (eo_tag o) (mf <| m_ttl := ttl' |>) = (firstn 16 (eo_tag o), t0 + ttl')).
  { unfold cred_rkey. cbn. rewrite Ft0. reflexivity. }
  rewrite K in Hproc.
  exists (mf <| m_ttl := ttl' |>), (firstn 16 (eo_tag o), t0 + ttl').
  split.
  { apply Hproc.
    - change (m_data_len mreq) with (len (eo_cred o)). lia.
    - exact Hretry.
    - exact Hparse.
    - exact A.
    - rewrite <- Fttl. exact T.
    - exact Hrep. }
  split; [reflexivity|].
  cbn. repeat split; assumption.
Qed.

End Roundtrip.

(* ==================================================================== *)
(* C02, injectivity half of the forgery reduction: the pair (outer header, MAC) together with the   *)
(* authenticated plaintext determines every byte of the credential body.                            *)
(* ==================================================================== *)
Lemma unpack_outer_shape m b o : dec_unpack_outer m b = inr o ->
  exists ver ci ma zi rl realm,
    b = oo_outer o ++ oo_tag o ++ oo_inner o /\
    oo_outer o = ver :: ci :: ma :: zi :: rl :: realm ++ oo_iv o /\
    length realm = N.to_nat (b2n rl) /\
    m_cipher (oo_msg o) = b2n ci /\ m_mac (oo_msg o) = b2n ma /\
    (b2n ci = c_cipher_none \/ cipher_valid (b2n ci) = true) /\
    len (oo_iv o) = (if b2n ci =? c_cipher_none then 0 else cipher_iv_size (b2n ci)).
Proof.
  unfold dec_unpack_outer. intros H. break_match H.
  all: injection H as <-; cbn [oo_outer oo_iv oo_tag oo_inner oo_msg].
  all: repeat match goal with
       | T : take _ _ = Some _ |- _ => apply take_spec in T; destruct T as [? ?]
       end; subst.
  all: match goal with |- context [firstn ?n (?v :: ?c :: ?a :: ?z :: ?l :: ?rm ++ ?iv ++ ?r)] =>
           assert (E : firstn n (v :: c :: a :: z :: l :: rm ++ iv ++ r) = v :: c :: a :: z :: l :: rm ++ iv)
             by (change n with (Nat.sub (length (v :: c :: a :: z :: l :: rm ++ iv ++ r)) (length r));
                 replace (v :: c :: a :: z :: l :: rm ++ iv ++ r) with ((v :: c :: a :: z :: l :: rm ++ iv) ++ r)
                   by (cbn [app]; rewrite <- ?app_assoc; reflexivity);
                 rewrite (app_length _ r), Nat.add_sub; apply firstn_app_exact);
           rewrite E; clear E;
           exists v, c, a, z, l, rm
         end.
  all: split; [cbn [app]; rewrite <- ?app_assoc; reflexivity|].
  all: split; [reflexivity|]. all: split; [assumption|].
  all: split; [reflexivity|]. all: split; [reflexivity|].
  all: split; [match goal with H : negb (?x =? c_cipher_none) && negb (cipher_valid ?x) = false |- _ =>
                 destruct (x =? c_cipher_none) eqn:Cn; [left; apply N.eqb_eq; exact Cn|
                 right; cbn [negb andb] in H; apply negb_false_iff; exact H] end|].
  all: match goal with H : length ?l = N.to_nat ?n |- len ?l = ?n => unfold len; rewrite H; apply N2Nat.id end.
Qed.

Section Forgery.
Variable hmac : N -> bytes -> bytes -> bytes.
Variable sha1 : bytes -> bytes.
Variable blk_enc blk_dec : N -> bytes -> bytes -> bytes.

(* blk_dec is a permutation of the full blocks whose inverse is blk_enc *)
Hypothesis blk_dec_len : forall c k b, cipher_valid c = true -> len b = cipher_blk_size c ->
  len (blk_dec c k b) = cipher_blk_size c.
Hypothesis blk_enc_dec : forall c k b, cipher_valid c = true -> len b = cipher_blk_size c ->
  blk_enc c k (blk_dec c k b) = b.

Lemma decrypt_mac_inv cf o p : dec_decrypt_mac hmac sha1 blk_dec cf o = inr p ->
  (if m_cipher (oo_msg o) =? c_cipher_none then Some (oo_inner o)
   else cbc_decrypt blk_dec (m_cipher (oo_msg o))
          (hmac (m_mac (oo_msg o)) (dek_subkey sha1 (cf_key cf)) (oo_tag o)) (oo_iv o) (oo_inner o)) = Some p.
Proof.
  unfold dec_decrypt_mac. intros H.
  match type of H with match ?x with _ => _ end = _ => destruct x as [q|]; [|discriminate] end.
  match type of H with (if ?b then _ else _) = _ => destruct b; [|discriminate] end.
  injection H as ->. reflexivity.
Qed.

(* Two credential bodies that parse, carry the same outer header and the same MAC, and whose MAC check
   passes on the same plaintext are the same byte string.  (m1, m2: the request messages, arbitrary.)
   The PKCS#5 check of the model is strict (every pad byte is compared), which is what makes the padded
   plaintext, hence the ciphertext, unique. *)
Theorem mac_pair_determines_body cf m1 m2 b1 b2 o1 o2 p :
  dec_unpack_outer m1 b1 = inr o1 -> dec_unpack_outer m2 b2 = inr o2 ->
  oo_outer o1 = oo_outer o2 -> oo_tag o1 = oo_tag o2 ->
  dec_decrypt_mac hmac sha1 blk_dec cf o1 = inr p ->
  dec_decrypt_mac hmac sha1 blk_dec cf o2 = inr p ->
  b1 = b2.
Proof.
  intros U1 U2 Ho Ht D1 D2.
  destruct (unpack_outer_shape _ _ _ U1) as (v1 & c1 & a1 & z1 & l1 & r1 & B1 & S1 & R1 & C1 & M1 & V1 & I1).
  destruct (unpack_outer_shape _ _ _ U2) as (v2 & c2 & a2 & z2 & l2 & r2 & B2 & S2 & R2 & C2 & M2 & V2 & I2).
  rewrite S1, S2 in Ho. injection Ho as -> -> -> -> -> Hri.
  apply app_inj_len in Hri; [|lia]. destruct Hri as [-> Hiv].
  apply decrypt_mac_inv in D1, D2. rewrite C1, M1 in D1. rewrite C2, M2 in D2.
  rewrite <- Ht, <- Hiv in D2.
  assert (Hin : oo_inner o1 = oo_inner o2).
  { destruct (b2n c2 =? c_cipher_none) eqn:Cn.
    - congruence.
    - bool_hyps. destruct V1 as [V1|V1]; [contradiction|].
      destruct (cipher_tab_facts _ (b2n_lt c2) V1) as (Hb0 & _ & Hivb & _ & _).
      refine (cbc_decrypt_inj blk_enc blk_dec (b2n c2)
               (fun k b => blk_dec_len _ k b V1) (fun k b => blk_enc_dec _ k b V1) _ _ _ _ p Hb0 _ D1 D2).
      rewrite I1. destruct (b2n c2 =? c_cipher_none) eqn:Cn2; [bool_hyps; contradiction|exact Hivb]. }
  rewrite B1, B2, S1, S2, Ht, Hin, Hiv. reflexivity.
Qed.

End Forgery.
