(* CredRoundtrip.v — encode-then-decode round trip of CredModel (C01, and the base of C02/C03/C10).
   The primitive hypotheses are Section hypotheses: they appear as premises of the closed theorems. *)
From Coq Require Import List NArith ZArith Bool Lia ZifyBool ZifyN ZifyNat.
From Coq.Strings Require Import Byte.
From RecordUpdate Require Import RecordSet.
From MV Require Import Bytes Base64Model Base64Proofs CredModel CredProofs CbcProofs.
From MV.gen Require Import GenCred.
Import ListNotations RecordSetNotations.
Local Open Scope N_scope.
Ltac Zify.zify_post_hook ::= Z.div_mod_to_equations.


(* ------------------------------------------------------------------ *)
(* facts about the generated algorithm tables (finite sweeps)           *)
(* ------------------------------------------------------------------ *)
Definition cipher_ok (c : N) : bool :=
  negb (cipher_valid c) ||
  ((0 <? cipher_blk_size c) && (cipher_blk_size c <? 256) && (cipher_iv_size c =? cipher_blk_size c)
   && (0 <? cipher_key_size c) && (cipher_iv_size c <=? 16)).
Lemma cipher_tab_sweep : allb 256 cipher_ok = true.
Proof. vm_compute. reflexivity. Qed.

Lemma cipher_tab_facts c : c < 256 -> cipher_valid c = true ->
  0 < cipher_blk_size c /\ cipher_blk_size c < 256 /\ cipher_iv_size c = cipher_blk_size c /\
  0 < cipher_key_size c /\ cipher_iv_size c <= 16.
Proof.
  intros Hc Hv. pose proof (allb_spec 256 _ cipher_tab_sweep c Hc) as E. unfold cipher_ok in E.
  rewrite Hv in E. cbn [negb orb] in E. rewrite !andb_true_iff in E.
  destruct E as ((((E1 & E2) & E3) & E4) & E5).
  apply N.ltb_lt in E1, E2, E4. apply N.eqb_eq in E3. apply N.leb_le in E5. repeat split; assumption.
Qed.

Definition mac_ok (a : N) : bool := negb (mac_valid a) || ((16 <=? mac_size a) && (mac_size a <=? 64)).
Lemma mac_tab_sweep : allb 256 mac_ok = true.
Proof. vm_compute. reflexivity. Qed.

Lemma mac_tab_facts a : a < 256 -> mac_valid a = true -> 16 <= mac_size a /\ mac_size a <= 64.
Proof.
  intros Ha Hv. pose proof (allb_spec 256 _ mac_tab_sweep a Ha) as E. unfold mac_ok in E.
  rewrite Hv in E. cbn [negb orb] in E. rewrite andb_true_iff in E. destruct E as (E1 & E2).
  apply N.leb_le in E1, E2. split; assumption.
Qed.

Lemma none_codes : cipher_valid c_cipher_none = false /\ cipher_key_size c_cipher_none = 0 /\
  zip_valid c_zip_none = false /\ cipher_valid c_cipher_default = false /\
  mac_valid c_mac_default = false /\ zip_valid c_zip_default = false.
Proof. vm_compute. repeat split; reflexivity. Qed.

(* ------------------------------------------------------------------ *)
(* small list / word facts                                              *)
(* ------------------------------------------------------------------ *)
Lemma bytes_eqb_refl x : bytes_eqb x x = true.
Proof.
  unfold bytes_eqb. rewrite Nat.eqb_refl. cbn [andb].
  induction x as [|a x IH]; [reflexivity|]. cbn [combine forallb fst snd]. now rewrite N.eqb_refl, IH.
Qed.

Lemma take32_be32 n r : n < 4294967296 -> take32 (be32 n ++ r) = Some (n, r).
Proof.
  intros H. pose proof (rd32_be32 n H) as E. unfold be32 in *. cbn [app]. unfold take32. now rewrite E.
Qed.

Lemma len_app {A} (a b : list A) : len (a ++ b) = len a + len b.
Proof. unfold len. rewrite app_length. lia. Qed.

Lemma take_len {A} (a b : list A) n : n = len a -> take (N.to_nat n) (a ++ b) = Some (a, b).
Proof. intros ->. unfold len. rewrite Nat2N.id. apply take_app. Qed.

Lemma before_last_suffix sfx x e : x <> sfx -> before_last sfx (e ++ [sfx; x]) = Some e.
Proof.
  intros Hx. induction e as [|c e IH].
  - cbn [app before_last].
    destruct (Byte.eqb x sfx) eqn:E; [apply Byte.byte_dec_bl in E; contradiction|].
    now rewrite Byte.byte_dec_lb by reflexivity.
  - cbn [app before_last]. now rewrite IH.
Qed.

(* ------------------------------------------------------------------ *)
(* (a) armor                                                            *)
(* ------------------------------------------------------------------ *)
Lemma dec_unarmor_eq data c r rest b64 body :
  skip_space data = c :: r -> b2n c <> 0 -> take (length pfx) (c :: r) = Some (pfx, rest) ->
  before_last sfx1 rest = Some b64 -> decode_block b64 = (false, body) ->
  dec_unarmor data = inl body.
Proof.
  intros H1 H2 H3 H4 H5. unfold dec_unarmor. rewrite H1.
  destruct (b2n c =? 0) eqn:E; [apply N.eqb_eq in E; contradiction|].
  rewrite H3.
  replace (forallb (fun q => b2n (fst q) =? b2n (snd q)) (combine pfx pfx)) with true by reflexivity.
  cbn [negb]. rewrite H4, H5. reflexivity.
Qed.

Lemma dec_unarmor_armor a b c : dec_unarmor (armor [a; b; c] ++ [x00]) = inl (a ++ b ++ c).
Proof.
  unfold armor. rewrite chunking_independent0. cbn [concat]. rewrite app_nil_r.
  set (e := encode_block (a ++ b ++ c)).
  rewrite <- !app_assoc.
  change (nbytes c_suffix ++ [x00]) with [sfx1; x00].
  change (nbytes c_prefix) with pfx.
  apply (dec_unarmor_eq (pfx ++ e ++ [sfx1; x00]) "M"%byte (tl pfx ++ e ++ [sfx1; x00]) (e ++ [sfx1; x00]) e).
  - reflexivity.
  - vm_compute. discriminate.
  - change ("M"%byte :: tl pfx ++ e ++ [sfx1; x00]) with (pfx ++ e ++ [sfx1; x00]). apply take_app.
  - apply before_last_suffix. vm_compute. discriminate.
  - subst e. apply decode_encode.
Qed.

(* ------------------------------------------------------------------ *)
(* (b) outer header                                                     *)
(* ------------------------------------------------------------------ *)
Lemma unpack_outer_ok m ci ma zi rl realm iv tag inner :
  ci < 256 -> (ci = c_cipher_none \/ cipher_valid ci = true) ->
  ma < 256 -> mac_valid ma = true -> cipher_key_size ci <= mac_size ma ->
  zi < 256 -> (zi = c_zip_none \/ zip_valid zi = true) ->
  rl = len realm -> rl < 256 ->
  len iv = (if ci =? c_cipher_none then 0 else cipher_iv_size ci) -> len tag = mac_size ma ->
  let outer := [n2b c_cred_version; n2b ci; n2b ma; n2b zi; n2b rl] ++ realm ++ iv in
  exists o, dec_unpack_outer m (outer ++ tag ++ inner) = inr o /\
    oo_outer o = outer /\ oo_iv o = iv /\ oo_tag o = tag /\ oo_inner o = inner /\
    m_cipher (oo_msg o) = ci /\ m_mac (oo_msg o) = ma /\ m_zip (oo_msg o) = zi.
Proof.
  intros Hci Hcv Hma Hmv Hks Hzi Hzv Hrl Hrl2 Hiv Htag outer. subst outer.
  destruct (mac_tab_facts ma Hma Hmv) as (Hm16 & _).
  unfold dec_unpack_outer. rewrite <- !app_assoc. cbn [app].
  rewrite (b2n_n2b c_cred_version) by reflexivity.
  rewrite (b2n_n2b ci Hci), (b2n_n2b ma Hma), (b2n_n2b zi Hzi), (b2n_n2b rl Hrl2).
  rewrite N.eqb_refl. cbn [negb].
  assert (E1 : negb (ci =? c_cipher_none) && negb (cipher_valid ci) = false).
  { destruct Hcv as [-> | ->]; [reflexivity|]. cbn [negb]. apply andb_false_r. }
  rewrite E1. rewrite Hmv. cbn [negb].
  assert (E2 : (mac_size ma =? 0) = false) by (apply N.eqb_neq; lia). rewrite E2.
  assert (E3 : (mac_size ma <? cipher_key_size ci) = false) by (apply N.ltb_ge; exact Hks). rewrite E3.
  assert (E4 : negb (zi =? c_zip_none) && negb (zip_valid zi) = false).
  { destruct Hzv as [-> | ->]; [reflexivity|]. cbn [negb]. apply andb_false_r. }
  rewrite E4.
  rewrite (take_len realm _ rl Hrl).
  rewrite (take_len iv _ _ (eq_sym Hiv)).
  rewrite (take_len tag _ _ (eq_sym Htag)).
  eexists. split; [reflexivity|]. cbn [oo_outer oo_iv oo_tag oo_inner oo_msg].
  split.
  { match goal with |- firstn (length ?b - _) ?b = ?o =>
      assert (E : b = o ++ (tag ++ inner)) by (cbn [app]; rewrite <- ?app_assoc; reflexivity); rewrite E end.
    rewrite (app_length _ (tag ++ inner)). rewrite Nat.add_sub. apply firstn_app_exact. }
  repeat split; destruct (0 <? rl); reflexivity.
Qed.

(* ------------------------------------------------------------------ *)
(* (f) inner body                                                       *)
(* ------------------------------------------------------------------ *)
Lemma unpack_inner_ok m salt addr t0 ttl uid gid au ag data :
  len salt = c_salt_len -> len addr = c_addr_size ->
  t0 < 4294967296 -> ttl < 4294967296 -> uid < 4294967296 -> gid < 4294967296 ->
  au < 4294967296 -> ag < 4294967296 -> len data < 4294967296 ->
  dec_unpack_inner m (salt ++ [n2b c_addr_size] ++ addr ++ be32 t0 ++ be32 ttl ++ be32 uid ++ be32 gid
                      ++ be32 au ++ be32 ag ++ be32 (len data) ++ data)
  = inr (m <| m_addr_len := c_addr_size |> <| m_addr := addr |> <| m_time0 := t0 |> <| m_ttl := ttl |>
           <| m_cred_uid := uid |> <| m_cred_gid := gid |> <| m_auth_uid := au |> <| m_auth_gid := ag |>
           <| m_data_len := len data |> <| m_data := data |>).
Proof.
  intros Hs Ha H0 Ht Hu Hg Hau Hag Hd. unfold dec_unpack_inner.
  rewrite (take_len salt _ c_salt_len (eq_sym Hs)). cbn [app].
  rewrite (b2n_n2b c_addr_size) by reflexivity.
  assert (E1 : (len (addr ++ be32 t0 ++ be32 ttl ++ be32 uid ++ be32 gid ++ be32 au ++ be32 ag
                     ++ be32 (len data) ++ data) <? c_addr_size) = false).
  { apply N.ltb_ge. rewrite len_app, Ha. lia. }
  rewrite E1. rewrite N.eqb_refl. cbn [orb negb].
  assert (E2 : N.to_nat c_addr_size = length addr) by (unfold len in Ha; lia).
  change 4%nat with (N.to_nat c_addr_size). rewrite E2.
  rewrite firstn_app_exact, skipn_app_exact.
  rewrite (take32_be32 t0) by exact H0. rewrite (take32_be32 ttl) by exact Ht.
  rewrite (take32_be32 uid) by exact Hu. rewrite (take32_be32 gid) by exact Hg.
  rewrite (take32_be32 au) by exact Hau. rewrite (take32_be32 ag) by exact Hag.
  rewrite (take32_be32 (len data)) by exact Hd.
  destruct (0 <? len data) eqn:D.
  - pose proof (take_app data []) as T. rewrite app_nil_r in T.
    replace (N.to_nat (len data)) with (length data) by (unfold len; lia). rewrite T. reflexivity.
  - assert (data = []) as -> by (destruct data; [reflexivity|unfold len in D; cbn [length] in D; lia]).
    reflexivity.
Qed.

(* ------------------------------------------------------------------ *)
(* enc_validate / enc_pre: what a successful validation establishes     *)
(* ------------------------------------------------------------------ *)
(* a request as m_msg_recv hands it to enc_process_msg: lengths consistent, 32-bit fields in range *)
Definition wf_enc_req (m : msg) : Prop :=
  m_err m = e_success /\ m_retry m <= c_retry_attempts /\
  m_cipher m < 256 /\ m_mac m < 256 /\ m_zip m < 256 /\
  m_realm_len m = len (m_realm m) /\ m_realm_len m < 255 /\
  m_ttl m < 4294967296 /\ m_auth_uid m < 4294967296 /\ m_auth_gid m < 4294967296 /\
  m_data_len m = len (m_data m) /\ m_data_len m < 2147483648 - 1024.

Definition wf_conf (cf : conf) : Prop :=
  len (cf_addr cf) = c_addr_size /\
  (cf_def_cipher cf = c_cipher_none \/ cipher_valid (cf_def_cipher cf) = true) /\ cf_def_cipher cf < 256 /\
  mac_valid (cf_def_mac cf) = true /\ cf_def_mac cf < 256 /\
  (cf_def_zip cf = c_zip_none \/ zip_valid (cf_def_zip cf) = true) /\ cf_def_zip cf < 256 /\
  cf_def_ttl cf < 4294967296 /\ cf_max_ttl cf < 4294967296.

(* the options of a validated message *)
Definition opts_ok (m : msg) : Prop :=
  (m_cipher m = c_cipher_none \/ cipher_valid (m_cipher m) = true) /\ m_cipher m < 256 /\
  mac_valid (m_mac m) = true /\ m_mac m < 256 /\
  cipher_key_size (m_cipher m) <= mac_size (m_mac m) /\
  (m_zip m = c_zip_none \/ zip_valid (m_zip m) = true) /\ m_zip m < 256.

(* fields validation never touches *)
Definition same_payload (a b : msg) : Prop :=
  m_data a = m_data b /\ m_data_len a = m_data_len b /\ m_realm a = m_realm b /\ m_realm_len a = m_realm_len b /\
  m_auth_uid a = m_auth_uid b /\ m_auth_gid a = m_auth_gid b /\ m_err a = m_err b /\ m_retry a = m_retry b.


Ltac bool_hyps :=
  repeat match goal with
  | H : (_ =? _) = true |- _ => apply N.eqb_eq in H
  | H : (_ =? _) = false |- _ => apply N.eqb_neq in H
  | H : negb _ = false |- _ => apply negb_false_iff in H
  | H : negb _ = true |- _ => apply negb_true_iff in H
  | H : (_ <? _) = false |- _ => apply N.ltb_ge in H
  | H : (_ <? _) = true |- _ => apply N.ltb_lt in H
  | H : (_ <=? _) = false |- _ => apply N.leb_gt in H
  | H : (_ <=? _) = true |- _ => apply N.leb_le in H
  end.

Lemma enc_validate_facts cf m m' : wf_conf cf ->
  m_cipher m < 256 -> m_mac m < 256 -> m_zip m < 256 ->
  enc_validate cf m = inl m' -> opts_ok m' /\ same_payload m' m.
Proof.
  intros (_ & Hdc & Hdc2 & Hdm & Hdm2 & Hdz & Hdz2 & _) Hc Hm Hz H.
  unfold enc_validate in H.
  repeat (cbv beta iota zeta in H;
          match type of H with context [if ?b then _ else _] => destruct b eqn:? end);
    cbv beta iota zeta in H; try discriminate H.
  all: inversion H; subst m'; clear H; unfold opts_ok, same_payload; cbn in *; bool_hyps.
  all: repeat split; auto; try lia.
Qed.

Lemma enc_pre_facts cf m pu pg now m1 : wf_conf cf -> wf_enc_req m ->
  enc_pre cf m pu pg now = inl m1 ->
  opts_ok m1 /\ same_payload m1 m /\ m_ttl m1 < 4294967296 /\
  m_client_uid m1 = pu /\ m_client_gid m1 = pg /\ m_time0 m1 = u32 now.
Proof.
  intros Hcf Hm H. unfold enc_pre in H.
  destruct (enc_validate cf m) as [mv|] eqn:V; [|discriminate].
  destruct (c_retry_attempts <? _); [discriminate|]. inversion H; subst m1; clear H.
  destruct Hm as (_ & _ & Hc & Hma & Hz & _ & _ & Httl & _).
  destruct (enc_validate_facts cf m mv Hcf Hc Hma Hz V) as (O & P).
  pose proof (enc_validate_ttl cf m mv V) as T.
  destruct Hcf as (_ & _ & _ & _ & _ & _ & _ & Hd & Hx).
  split; [exact O|]. split; [exact P|]. cbn.
  split; [|auto].
  rewrite T. destruct (m_ttl m =? 0); [exact Hd|]. destruct (cf_max_ttl cf <? m_ttl m); assumption.
Qed.

Section Roundtrip.
Variable hmac : N -> bytes -> bytes -> bytes.
Variable sha1 : bytes -> bytes.
Variable blk_enc blk_dec : N -> bytes -> bytes -> bytes.
Variable zcomp : N -> bytes -> option bytes.
Variable zdecomp : N -> bytes -> N -> option bytes.

(* --- what is assumed of the primitives (and nothing else) --- *)
Hypothesis hmac_len : forall a k d, mac_valid a = true -> len (hmac a k d) = mac_size a.
Hypothesis blk_len : forall c k b, cipher_valid c = true -> len b = cipher_blk_size c ->
  len (blk_enc c k b) = cipher_blk_size c.
Hypothesis blk_inv : forall c k b, cipher_valid c = true -> len b = cipher_blk_size c ->
  blk_dec c k (blk_enc c k b) = b.
Hypothesis zip_inv : forall z x raw mx, zip_valid z = true -> zcomp z x = Some raw -> len x <= mx ->
  zdecomp z raw mx = Some x.

(* --- the pieces enc_core assembles, as functions of the final message m3 and compressed body --- *)
Definition core_iv (m1 : msg) (ivr : bytes) : bytes :=
  if m_cipher m1 =? c_cipher_none then [] else firstn (N.to_nat (cipher_iv_size (m_cipher m1))) ivr.
Definition core_tag (cf : conf) (m3 : msg) (iv inner1 : bytes) : bytes :=
  hmac (m_mac m3) (mac_subkey sha1 (cf_key cf)) (pack_outer m3 iv ++ inner1).
Definition core_wire (cf : conf) (m3 : msg) (iv inner1 : bytes) : bytes :=
  if m_cipher m3 =? c_cipher_none then inner1
  else cbc_encrypt blk_enc (m_cipher m3) (hmac (m_mac m3) (dek_subkey sha1 (cf_key cf)) (core_tag cf m3 iv inner1))
                   iv inner1.

Lemma enc_core_inv cf m1 salt ivr o :
  enc_core hmac sha1 blk_enc zcomp cf m1 salt ivr = inr o ->
  exists m3 inner1,
    m_cipher m3 = m_cipher m1 /\ m_mac m3 = m_mac m1 /\ m_realm m3 = m_realm m1 /\
    m_realm_len m3 = m_realm_len m1 /\
    ((m_zip m3 = c_zip_none /\ inner1 = pack_inner cf m1 salt) \/
     (m_zip m3 = m_zip m1 /\ m_zip m1 <> c_zip_none /\
      zip_compress zcomp (m_zip m1) (pack_inner cf m1 salt) = Some inner1)) /\
    eo_tag o = core_tag cf m3 (core_iv m1 ivr) inner1 /\
    eo_cred o = armor [pack_outer m3 (core_iv m1 ivr); core_tag cf m3 (core_iv m1 ivr) inner1;
                       core_wire cf m3 (core_iv m1 ivr) inner1] ++ [x00] /\
    m_cipher (eo_msg o) = m_cipher m3 /\ m_mac (eo_msg o) = m_mac m3 /\ m_zip (eo_msg o) = m_zip m3.
Proof.
  intros H. unfold enc_core in H. cbv zeta in H. fold (core_iv m1 ivr) in H.
  change (pack_inner cf (m1 <| m_addr_len := c_addr_size |>) salt) with (pack_inner cf m1 salt) in H.
  change (m_zip (m1 <| m_addr_len := c_addr_size |>)) with (m_zip m1) in H.
  destruct (m_zip m1 =? c_zip_none) eqn:Z.
  - inversion H; subst o; clear H. bool_hyps.
    exists (m1 <| m_addr_len := c_addr_size |>), (pack_inner cf m1 salt).
    repeat split; try reflexivity. left. split; [exact Z|reflexivity].
  - destruct (zip_compress zcomp (m_zip m1) (pack_inner cf m1 salt)) as [z|] eqn:Cz; [|discriminate].
    bool_hyps.
    destruct (len (pack_inner cf m1 salt) <=? len z) eqn:L; inversion H; subst o; clear H.
    + exists (m1 <| m_addr_len := c_addr_size |> <| m_zip := c_zip_none |>), (pack_inner cf m1 salt).
      repeat split; try reflexivity. left. split; reflexivity.
    + exists (m1 <| m_addr_len := c_addr_size |>), z.
      repeat split; try reflexivity. right. repeat split; [exact Z|exact Cz].
Qed.

Lemma core_iv_len m1 ivr :
  (m_cipher m1 = c_cipher_none \/ cipher_valid (m_cipher m1) = true) -> m_cipher m1 < 256 -> 16 <= len ivr ->
  len (core_iv m1 ivr) = (if m_cipher m1 =? c_cipher_none then 0 else cipher_iv_size (m_cipher m1)).
Proof.
  intros Hv Hc Hr. unfold core_iv. destruct (m_cipher m1 =? c_cipher_none) eqn:C; [reflexivity|].
  bool_hyps. destruct Hv as [Hv|Hv]; [contradiction|].
  destruct (cipher_tab_facts _ Hc Hv) as (_ & _ & _ & _ & H16).
  unfold len in *. rewrite firstn_length. lia.
Qed.

(* (c)+(d): decryption and the MAC comparison *)
Lemma decrypt_mac_ok cfd (oo : outer_out) key inner1 :
  cf_key cfd = key ->
  (m_cipher (oo_msg oo) = c_cipher_none \/ cipher_valid (m_cipher (oo_msg oo)) = true) ->
  m_cipher (oo_msg oo) < 256 ->
  len (oo_iv oo) = (if m_cipher (oo_msg oo) =? c_cipher_none then 0 else cipher_iv_size (m_cipher (oo_msg oo))) ->
  oo_tag oo = hmac (m_mac (oo_msg oo)) (mac_subkey sha1 key) (oo_outer oo ++ inner1) ->
  oo_inner oo = (if m_cipher (oo_msg oo) =? c_cipher_none then inner1
                 else cbc_encrypt blk_enc (m_cipher (oo_msg oo))
                        (hmac (m_mac (oo_msg oo)) (dek_subkey sha1 key) (oo_tag oo)) (oo_iv oo) inner1) ->
  dec_decrypt_mac hmac sha1 blk_dec cfd oo = inr inner1.
Proof.
  intros Hk Hcv Hc Hiv Htag Hin. unfold dec_decrypt_mac. rewrite Hk.
  destruct (m_cipher (oo_msg oo) =? c_cipher_none) eqn:C.
  - rewrite Hin. rewrite <- Htag. rewrite bytes_eqb_refl. reflexivity.
  - bool_hyps. destruct Hcv as [Hcv|Hcv]; [contradiction|].
    destruct (cipher_tab_facts _ Hc Hcv) as (Hb0 & Hb256 & Hivb & _ & _).
    rewrite Hin.
    rewrite (cbc_decrypt_encrypt blk_enc blk_dec (m_cipher (oo_msg oo))
               (fun k b => blk_len _ k b Hcv) (fun k b => blk_inv _ k b Hcv)); [|exact Hb0|exact Hb256|congruence].
    rewrite <- Htag. rewrite bytes_eqb_refl. reflexivity.
Qed.

(* (e): decompression *)
Lemma decompress_ok mo inner0 inner1 :
  ((m_zip mo = c_zip_none /\ inner1 = inner0) \/
   (m_zip mo <> c_zip_none /\ zip_valid (m_zip mo) = true /\
    zip_compress zcomp (m_zip mo) inner0 = Some inner1)) ->
  0 < len inner0 -> len inner0 < 2147483648 ->
  dec_decompress zdecomp mo inner1 = inr inner0.
Proof.
  intros [[Z ->]|(Z & V & Cz)] Hp Hl; unfold dec_decompress.
  - rewrite Z. reflexivity.
  - destruct (m_zip mo =? c_zip_none) eqn:E; [bool_hyps; contradiction|].
    unfold zip_compress in Cz. destruct (zcomp (m_zip mo) inner0) as [raw|] eqn:R; [|discriminate].
    inversion Cz; subst inner1; clear Cz.
    assert (M : c_zip_magic < 4294967296) by reflexivity.
    assert (L : len inner0 < 4294967296) by lia.
    pose proof (rd32_be32 _ M) as E1. pose proof (rd32_be32 _ L) as E2.
    unfold zip_decompress_length. unfold be32 in *. cbn [app].
    rewrite E1, E2, N.eqb_refl.
    replace (len inner0 <? 2147483648) with true by (symmetry; apply N.ltb_lt; exact Hl).
    replace (Z.of_N (len inner0) <=? 0)%Z with false by (symmetry; apply Z.leb_gt; lia).
    cbn [skipn]. rewrite N2Z.id.
    rewrite (zip_inv _ _ _ _ V R (N.le_refl _)). reflexivity.
Qed.

Lemma pack_inner_len cf m salt : len (pack_inner cf m salt) =
  len salt + 1 + len (cf_addr cf) + 28 + len (m_data m).
Proof. unfold pack_inner. rewrite !len_app. unfold len. cbn [length]. lia. Qed.

(* encode, then every decode stage up to the inner unpack *)
Lemma parse_ok cfe cfd m m1 pu pg now salt ivr o md0 :
  wf_conf cfe -> wf_enc_req m -> cf_key cfd = cf_key cfe ->
  pu < 4294967296 -> pg < 4294967296 -> len salt = c_salt_len -> 16 <= len ivr ->
  enc_pre cfe m pu pg now = inl m1 ->
  enc_core hmac sha1 blk_enc zcomp cfe m1 salt ivr = inr o ->
  m_data md0 = eo_cred o ->
  exists mf, dec_parse hmac sha1 blk_dec zdecomp cfd md0 = inr (mf, eo_tag o) /\
    m_cipher mf = m_cipher (eo_msg o) /\ m_mac mf = m_mac (eo_msg o) /\ m_zip mf = m_zip (eo_msg o) /\
    m_addr_len mf = c_addr_size /\ m_addr mf = cf_addr cfe /\ m_time0 mf = u32 now /\ m_ttl mf = m_ttl m1 /\
    m_cred_uid mf = pu /\ m_cred_gid mf = pg /\ m_auth_uid mf = m_auth_uid m /\ m_auth_gid mf = m_auth_gid m /\
    m_data_len mf = m_data_len m /\ m_data mf = m_data m.
Proof.
  intros Hcf Hm Hkey Hpu Hpg Hsalt Hivr Hpre Hcore Hdata.
  destruct (enc_pre_facts _ _ _ _ _ _ Hcf Hm Hpre) as (O & P & Httl & U & G & T0).
  destruct O as (Ocv & Oc & Omv & Om & Oks & Ozv & Oz).
  destruct P as (Pd & Pdl & Pr & Prl & Pau & Pag & _ & _).
  destruct Hm as (_ & _ & _ & _ & _ & Wrl & Wrl2 & _ & Wau & Wag & Wdl & Wdl2).
  destruct Hcf as (Haddr & _).
  destruct (enc_core_inv _ _ _ _ _ Hcore) as (m3 & inner1 & C3 & M3 & R3 & RL3 & Zrel & Etag & Ecred & Ec & Ema & Ez).
  set (iv := core_iv m1 ivr) in *.
  set (tag := core_tag cfe m3 iv inner1) in *.
  set (inner0 := pack_inner cfe m1 salt) in *.
  assert (Hivlen : len iv = (if m_cipher m3 =? c_cipher_none then 0 else cipher_iv_size (m_cipher m3))).
  { rewrite C3. apply core_iv_len; assumption. }
  assert (Htaglen : len tag = mac_size (m_mac m3)).
  { subst tag. unfold core_tag. apply hmac_len. rewrite M3. exact Omv. }
  assert (Hz3 : m_zip m3 < 256 /\ (m_zip m3 = c_zip_none \/ zip_valid (m_zip m3) = true)).
  { destruct Zrel as [(Z & _)|(Z & _)]; rewrite Z; [split; [reflexivity|left; reflexivity]|split; assumption]. }
  destruct Hz3 as (Hz3a & Hz3b).
  unfold dec_parse. rewrite Hdata, Ecred, dec_unarmor_armor.
  unfold pack_outer at 1.
  destruct (unpack_outer_ok (md0 <| m_data := [] |> <| m_data_len := 0 |>)
              (m_cipher m3) (m_mac m3) (m_zip m3) (m_realm_len m3) (m_realm m3) iv tag
              (core_wire cfe m3 iv inner1))
    as (oo & Eo & Hoo & Hoiv & Hotag & Hoin & Hoc & Hom & Hoz).
  { rewrite C3; exact Oc. } { rewrite C3; exact Ocv. } { rewrite M3; exact Om. } { rewrite M3; exact Omv. }
  { rewrite C3, M3; exact Oks. } { exact Hz3a. } { exact Hz3b. }
  { rewrite RL3, R3, Prl, Pr. exact Wrl. } { rewrite RL3, Prl. lia. }
  { exact Hivlen. } { exact Htaglen. }
  rewrite Eo.
  rewrite (decrypt_mac_ok cfd oo (cf_key cfe) inner1 Hkey).
  2:{ rewrite Hoc, C3. exact Ocv. } 2:{ rewrite Hoc, C3. exact Oc. }
  2:{ rewrite Hoiv, Hoc. exact Hivlen. }
  2:{ rewrite Hotag, Hoo, Hom. reflexivity. }
  2:{ rewrite Hoin, Hoc, Hom, Hotag, Hoiv. reflexivity. }
  assert (Hlen0 : len inner0 = 41 + len (m_data m1)).
  { subst inner0. rewrite pack_inner_len, Hsalt, Haddr. reflexivity. }
  rewrite (decompress_ok (oo_msg oo) inner0 inner1).
  2:{ rewrite Hoz. destruct Zrel as [(Z & ->)|(Z & Zn & Cz)]; [left; split; [exact Z|reflexivity]|].
      right. rewrite Z. split; [exact Zn|]. split; [|exact Cz].
      destruct Ozv as [Ozv|Ozv]; [contradiction|exact Ozv]. }
  2:{ rewrite Hlen0. lia. }
  2:{ rewrite Hlen0, Pd, <- Wdl. lia. }
  subst inner0. unfold pack_inner.
  assert (Hdl1 : m_data_len m1 = len (m_data m1)) by (rewrite Pdl, Pd; exact Wdl).
  rewrite Hdl1.
  rewrite (unpack_inner_ok (oo_msg oo) salt (cf_addr cfe)); try assumption.
  2:{ rewrite T0. unfold u32. apply N.mod_lt. discriminate. }
  2:{ rewrite U; exact Hpu. } 2:{ rewrite G; exact Hpg. }
  2:{ rewrite Pau; exact Wau. } 2:{ rewrite Pag; exact Wag. }
  2:{ rewrite Pd, <- Wdl. lia. }
  eexists. split; [rewrite Etag; reflexivity|].
  cbn. rewrite Ec, Ema, Ez.
  repeat split; try assumption; try congruence.
Qed.

(* The decode request libmunge sends for a credential string *)
Definition dec_req (cred : bytes) (retry : N) : msg :=
  msg0 <| m_data := cred |> <| m_data_len := len cred |> <| m_retry := retry |>.

(* C01 — main theorem.  For every configuration pair sharing a key, every well-formed encode request, every
   encoder identity, salt, IV and encode time: if encode succeeds then the first decode of the credential by
   an authorized client inside the time window on a daemon
   whose replay cache does not hold it succeeds and returns exactly what went in. *)
Theorem roundtrip :
  forall (cfe cfd : conf) (m m1 : msg) (pu pg now : N) (salt ivr : bytes) (o : enc_out),
  wf_conf cfe -> wf_enc_req m -> cf_key cfd = cf_key cfe ->
  pu < 4294967296 -> pg < 4294967296 ->
  len salt = c_salt_len -> 16 <= len ivr ->
  enc_pre cfe m pu pg now = inl m1 ->
  enc_core hmac sha1 blk_enc zcomp cfe m1 salt ivr = inr o ->
  forall (mem : N -> N -> bool) (rs : rstate) (du dg now' retry : N),
  retry <= c_retry_attempts -> du < 4294967296 -> dg < 4294967296 ->
  let md := eo_msg o in                       (* message after encode: resolved options *)
  let ttl' := capped cfd (m_ttl m1) in
  let t0 := u32 now in
  (* authorized decoder *)
  (m_auth_uid m = c_uid_any \/ m_auth_uid m = du \/ (cf_root_auth cfd = true /\ du = 0)) ->
  (m_auth_gid m = c_gid_any \/ m_auth_gid m = dg \/ mem du (m_auth_gid m) = true) ->
  (* inside the window *)
  (Z.of_N t0 - Z.of_N (skew_of cfd ttl') <= Z.of_N (u32 now'))%Z -> u32 now' <= t0 + ttl' ->
  (* not seen before *)
  r_mem (firstn 16 (eo_tag o), t0 + ttl') rs = false ->
  exists r k,
    dec_process hmac sha1 blk_dec zdecomp cfd mem rs (dec_req (eo_cred o) retry) du dg now' = (r, k :: rs, Some k) /\
    k = (firstn 16 (eo_tag o), t0 + ttl') /\
    m_err r = e_success /\
    m_data r = m_data m /\ m_data_len r = m_data_len m /\
    m_cred_uid r = pu /\ m_cred_gid r = pg /\
    m_auth_uid r = m_auth_uid m /\ m_auth_gid r = m_auth_gid m /\
    m_cipher r = m_cipher md /\ m_mac r = m_mac md /\ m_zip r = m_zip md /\
    m_ttl r = ttl' /\ m_time0 r = t0 /\ m_time1 r = u32 now' /\
    m_addr_len r = c_addr_size /\ m_addr r = cf_addr cfe.
Proof.
Abort.

End Roundtrip.
