(* CbcProofs.v — block splitting, CBC chaining and PKCS#5 padding of CredModel: decrypt inverts encrypt
   for every one-block permutation (the permutation property is a hypothesis, never an axiom). *)
From Coq Require Import List NArith ZArith Bool Lia ZifyBool ZifyN ZifyNat.
From Coq.Strings Require Import Byte.
From MV Require Import Bytes Base64Model CredModel.
Import ListNotations.
Local Open Scope nat_scope.
Ltac Zify.zify_post_hook ::= Z.div_mod_to_equations.

(* ------------------------------------------------------------------ *)
(* xor of byte strings                                                  *)
(* ------------------------------------------------------------------ *)
Lemma lxor_sweep :
  allb2 256 256 (fun x y => (N.eqb (N.lxor (N.lxor x y) y) x) && (N.ltb (N.lxor x y) 256)) = true.
Proof. vm_compute. reflexivity. Qed.

Lemma lxor_byte x y : (x < 256)%N -> (y < 256)%N ->
  N.lxor (N.lxor x y) y = x /\ (N.lxor x y < 256)%N.
Proof.
  intros Hx Hy. pose proof (allb2_spec 256 256 _ lxor_sweep x y Hx Hy) as E. cbv beta in E.
  apply andb_true_iff in E. destruct E as [E1 E2].
  apply N.eqb_eq in E1. apply N.ltb_lt in E2. split; assumption.
Qed.

Lemma xor_byte_cancel a b :
  n2b (N.lxor (b2n (n2b (N.lxor (b2n a) (b2n b)))) (b2n b)) = a.
Proof.
  destruct (lxor_byte (b2n a) (b2n b) (b2n_lt a) (b2n_lt b)) as [E1 E2].
  rewrite b2n_n2b by exact E2. rewrite E1. apply n2b_b2n.
Qed.

Lemma xorb_nil_l b : xorb [] b = [].
Proof. reflexivity. Qed.

Lemma xorb_cons x a y b :
  xorb (x :: a) (y :: b) = n2b (N.lxor (b2n x) (b2n y)) :: xorb a b.
Proof. reflexivity. Qed.

Lemma xorb_length a : forall b, length (xorb a b) = Nat.min (length a) (length b).
Proof.
  induction a as [|x a IH]; intros b; [reflexivity|].
  destruct b as [|y b]; [reflexivity|]. rewrite xorb_cons. cbn [length]. rewrite IH. lia.
Qed.

Lemma xorb_cancel a : forall b, length a <= length b -> xorb (xorb a b) b = a.
Proof.
  induction a as [|x a IH]; intros b H; [reflexivity|].
  destruct b as [|y b]; [cbn in H; lia|].
  rewrite !xorb_cons. rewrite xor_byte_cancel. f_equal. apply IH. cbn [length] in H. lia.
Qed.

Arguments xorb : simpl never.

(* ------------------------------------------------------------------ *)
(* blocks                                                               *)
(* ------------------------------------------------------------------ *)
Lemma chunks_fuel bs : 0 < bs -> forall f1 f2 l, length l <= f1 -> length l <= f2 ->
  chunks f1 bs l = chunks f2 bs l.
Proof.
  intros Hbs. induction f1 as [|f1 IH]; intros f2 l H1 H2.
  - destruct l; [|cbn in H1; lia]. destruct f2; reflexivity.
  - destruct f2 as [|f2].
    + destruct l; [reflexivity|cbn in H2; lia].
    + cbn [chunks]. destruct l as [|x r]; [reflexivity|].
      f_equal. apply IH; rewrite skipn_length; cbn [length] in *; lia.
Qed.

Lemma firstn_app_exact {A} (a b : list A) : firstn (length a) (a ++ b) = a.
Proof. induction a as [|x a IH]; cbn; [reflexivity|now rewrite IH]. Qed.
Lemma skipn_app_exact {A} (a b : list A) : skipn (length a) (a ++ b) = b.
Proof. induction a as [|x a IH]; cbn; [reflexivity|exact IH]. Qed.

Lemma blocks_nil bs : blocks bs [] = [].
Proof. reflexivity. Qed.

Lemma blocks_app bs b r : 0 < bs -> length b = bs -> blocks bs (b ++ r) = b :: blocks bs r.
Proof.
  intros Hbs Hb. unfold blocks.
  destruct b as [|x b']; [cbn in Hb; lia|].
  assert (S1 : forall f l, chunks (S f) bs (x :: l) = firstn bs (x :: l) :: chunks f bs (skipn bs (x :: l)))
    by reflexivity.
  change ((x :: b') ++ r) with (x :: (b' ++ r)).
  cbn [length]. rewrite S1. change (x :: b' ++ r) with ((x :: b') ++ r).
  rewrite <- Hb. rewrite firstn_app_exact, skipn_app_exact. f_equal.
  apply chunks_fuel; [lia| |lia]. rewrite app_length. lia.
Qed.

Lemma blocks_spec bs : 0 < bs -> forall k l, length l = k * bs ->
  Forall (fun b => length b = bs) (blocks bs l) /\ concat (blocks bs l) = l /\ length (blocks bs l) = k.
Proof.
  intros Hbs. induction k as [|k IH]; intros l Hl.
  - destruct l; [|cbn in Hl; lia]. rewrite blocks_nil. repeat split. constructor.
  - rewrite <- (firstn_skipn bs l).
    assert (L1 : length (firstn bs l) = bs) by (rewrite firstn_length; lia).
    assert (L2 : length (skipn bs l) = k * bs) by (rewrite skipn_length; lia).
    rewrite blocks_app by assumption.
    destruct (IH _ L2) as (F & C & N). repeat split.
    + constructor; assumption.
    + cbn [concat]. now rewrite C.
    + cbn [length]. now rewrite N.
Qed.

(* ------------------------------------------------------------------ *)
(* CBC chaining                                                         *)
(* ------------------------------------------------------------------ *)
Section Cbc.
Variable E D : bytes -> bytes.
Variable bs : nat.
Hypothesis bs_pos : 0 < bs.
Hypothesis E_len : forall b, length b = bs -> length (E b) = bs.
Hypothesis DE : forall b, length b = bs -> D (E b) = b.

Lemma cbc_enc_length bl : forall iv, length iv = bs -> Forall (fun b => length b = bs) bl ->
  length (cbc_enc_blocks E iv bl) = length bl * bs.
Proof.
  induction bl as [|b r IH]; intros iv Hiv F; [reflexivity|].
  pose proof (Forall_inv F) as Hb. pose proof (Forall_inv_tail F) as Fr. cbv beta in Hb. cbn [cbc_enc_blocks length].
  rewrite app_length. rewrite E_len by (rewrite xorb_length; lia).
  rewrite IH; [lia| |exact Fr]. apply E_len. rewrite xorb_length. lia.
Qed.

Lemma cbc_blocks_roundtrip bl : forall iv, length iv = bs -> Forall (fun b => length b = bs) bl ->
  cbc_dec_blocks D iv (blocks bs (cbc_enc_blocks E iv bl)) = concat bl.
Proof.
  induction bl as [|b r IH]; intros iv Hiv F; [reflexivity|].
  pose proof (Forall_inv F) as Hb. pose proof (Forall_inv_tail F) as Fr. cbv beta in Hb. cbn [cbc_enc_blocks concat].
  assert (Lx : length (xorb b iv) = bs) by (rewrite xorb_length; lia).
  assert (Lc : length (E (xorb b iv)) = bs) by (apply E_len; exact Lx).
  rewrite blocks_app by assumption. cbn [cbc_dec_blocks].
  rewrite DE by exact Lx. rewrite xorb_cancel by lia.
  f_equal. apply IH; assumption.
Qed.
End Cbc.

(* ------------------------------------------------------------------ *)
(* PKCS#5                                                               *)
(* ------------------------------------------------------------------ *)
Lemma pkcs_pad_length bs p : 0 < bs ->
  length (pkcs_pad bs p) = (length p / bs + 1) * bs.
Proof.
  intros Hbs. unfold pkcs_pad. rewrite app_length, repeat_length.
  pose proof (Nat.div_mod (length p) bs). pose proof (Nat.mod_upper_bound (length p) bs). nia.
Qed.

Lemma forallb_repeat {A} (f : A -> bool) x n : f x = true -> forallb f (repeat x n) = true.
Proof. intros H. induction n as [|n IH]; cbn; [reflexivity|now rewrite H, IH]. Qed.

Lemma rev_app_repeat_S {A} (p : list A) x n : rev (p ++ repeat x (S n)) = x :: rev (p ++ repeat x n).
Proof.
  rewrite !rev_app_distr. change (repeat x (S n)) with ([x] ++ repeat x n).
  rewrite <- (rev_involutive (repeat x n)) at 1.
  assert (R : forall m, rev (repeat x m) = repeat x m).
  { induction m as [|m IH]; [reflexivity|]. cbn [repeat rev]. rewrite IH.
    clear. induction m as [|m IH]; [reflexivity|]. cbn [repeat app]. now rewrite IH. }
  rewrite rev_involutive. rewrite rev_app_distr. rewrite !R. cbn [rev app].
  change (repeat x n ++ [x]) with (repeat x n ++ repeat x 1). rewrite <- repeat_app.
  replace (n + 1) with (S n) by lia. reflexivity.
Qed.

Lemma pkcs_unpad_pad bs p : 0 < bs -> bs < 256 -> pkcs_unpad bs (pkcs_pad bs p) = Some p.
Proof.
  intros Hbs Hlt. unfold pkcs_unpad, pkcs_pad. rewrite <- ?rev_alt.
  set (n := bs - length p mod bs).
  pose proof (Nat.mod_upper_bound (length p) bs) as Hm.
  assert (Hn : 0 < n /\ n <= bs) by (subst n; lia).
  destruct n as [|n'] eqn:En; [lia|]. rewrite <- En in *.
  rewrite En at 2. rewrite rev_app_repeat_S.
  assert (B : b2n (n2b (N.of_nat n)) = N.of_nat n) by (apply b2n_n2b; lia).
  rewrite B, Nat2N.id. rewrite app_length, repeat_length.
  replace (length p + n - n) with (length p) by lia.
  rewrite firstn_app_exact, skipn_app_exact.
  replace (0 <? n) with true by (symmetry; apply Nat.ltb_lt; lia).
  replace (n <=? bs) with true by (symmetry; apply Nat.leb_le; lia).
  replace (n <=? length p + n) with true by (symmetry; apply Nat.leb_le; lia).
  rewrite forallb_repeat by (rewrite B; apply N.eqb_refl).
  reflexivity.
Qed.

Arguments pkcs_pad : simpl never.
Arguments pkcs_unpad : simpl never.
Arguments blocks : simpl never.

(* ------------------------------------------------------------------ *)
(* cbc_decrypt inverts cbc_encrypt                                      *)
(* ------------------------------------------------------------------ *)
Section CbcCipher.
Variable blk_enc blk_dec : N -> bytes -> bytes -> bytes.
Variable c : N.
Hypothesis blk_len : forall k b, len b = cipher_blk_size c -> len (blk_enc c k b) = cipher_blk_size c.
Hypothesis blk_inv : forall k b, len b = cipher_blk_size c -> blk_dec c k (blk_enc c k b) = b.

Lemma cbc_encrypt_length dek iv p :
  (0 < cipher_blk_size c)%N -> len iv = cipher_blk_size c ->
  length (cbc_encrypt blk_enc c dek iv p) =
    (length p / N.to_nat (cipher_blk_size c) + 1) * N.to_nat (cipher_blk_size c).
Proof.
  intros Hpos Hiv. unfold cbc_encrypt.
  set (bs := N.to_nat (cipher_blk_size c)).
  set (key := firstn _ dek).
  assert (Hbs : 0 < bs) by (subst bs; lia).
  destruct (blocks_spec bs Hbs _ _ (pkcs_pad_length bs p Hbs)) as (F & C & L).
  rewrite (cbc_enc_length (blk_enc c key) (blk_dec c key) bs Hbs); [now rewrite L| | |unfold len in Hiv; subst bs; lia|exact F].
  - intros b Hb. specialize (blk_len key b). unfold len in blk_len. subst bs. lia.
  - intros b Hb. apply blk_inv. unfold len. subst bs. lia.
Qed.

Lemma cbc_decrypt_encrypt dek iv p :
  (0 < cipher_blk_size c)%N -> (cipher_blk_size c < 256)%N -> len iv = cipher_blk_size c ->
  cbc_decrypt blk_dec c dek iv (cbc_encrypt blk_enc c dek iv p) = Some p.
Proof.
  intros Hpos Hlt Hiv. unfold cbc_decrypt.
  rewrite (cbc_encrypt_length dek iv p Hpos Hiv). unfold cbc_encrypt.
  set (bs := N.to_nat (cipher_blk_size c)).
  set (key := firstn _ dek).
  assert (Hbs : 0 < bs) by (subst bs; lia).
  assert (Hbs2 : bs < 256) by (subst bs; lia).
  replace ((length p / bs + 1) * bs =? 0) with false by (symmetry; apply Nat.eqb_neq; nia).
  rewrite Nat.mod_mul by lia. cbn [orb negb Nat.eqb].
  destruct (blocks_spec bs Hbs _ _ (pkcs_pad_length bs p Hbs)) as (F & C & L).
  rewrite (cbc_blocks_roundtrip (blk_enc c key) (blk_dec c key) bs Hbs).
  - rewrite C. apply pkcs_unpad_pad; assumption.
  - intros b Hb. specialize (blk_len key b). unfold len in blk_len. subst bs. lia.
  - intros b Hb. apply blk_inv. unfold len. subst bs. lia.
  - unfold len in Hiv. subst bs. lia.
  - exact F.
Qed.
End CbcCipher.

(* ------------------------------------------------------------------ *)
(* injectivity: a plaintext accepted by cbc_decrypt has one ciphertext  *)
(* ------------------------------------------------------------------ *)
Lemma app_inj_len {A} (a : list A) : forall a' b b', length a = length a' -> a ++ b = a' ++ b' -> a = a' /\ b = b'.
Proof.
  induction a as [|x a IH]; intros a' b b' L H; destruct a' as [|x' a']; cbn [length] in L; try lia.
  - auto.
  - cbn [app] in H. injection H as -> H. destruct (IH a' b b') as [-> ->]; [lia|exact H|auto].
Qed.

Lemma xorb_inj_l a a' b : length a = length b -> length a' = length b -> xorb a b = xorb a' b -> a = a'.
Proof.
  intros L1 L2 H. rewrite <- (xorb_cancel a b) by lia. rewrite H. apply xorb_cancel. lia.
Qed.

Section CbcInj.
Variable E D : bytes -> bytes.
Variable bs : nat.
Hypothesis bs_pos : 0 < bs.
Hypothesis D_len : forall b, length b = bs -> length (D b) = bs.
Hypothesis ED : forall b, length b = bs -> E (D b) = b.

Lemma cbc_dec_length bl : forall iv, length iv = bs -> Forall (fun b => length b = bs) bl ->
  length (cbc_dec_blocks D iv bl) = length bl * bs.
Proof.
  induction bl as [|c r IH]; intros iv Hiv F; [reflexivity|].
  pose proof (Forall_inv F) as Hc. pose proof (Forall_inv_tail F) as Fr. cbv beta in Hc.
  cbn [cbc_dec_blocks length]. rewrite app_length, xorb_length, (D_len c Hc), (IH c Hc Fr). lia.
Qed.

Lemma cbc_dec_blocks_inj bl1 : forall bl2 iv, length iv = bs ->
  Forall (fun b => length b = bs) bl1 -> Forall (fun b => length b = bs) bl2 ->
  cbc_dec_blocks D iv bl1 = cbc_dec_blocks D iv bl2 -> bl1 = bl2.
Proof.
  induction bl1 as [|c1 r1 IH]; intros bl2 iv Hiv F1 F2 H; destruct bl2 as [|c2 r2].
  - reflexivity.
  - apply (f_equal (@length byte)) in H. rewrite (cbc_dec_length _ _ Hiv F2) in H. cbn [cbc_dec_blocks length] in H. lia.
  - apply (f_equal (@length byte)) in H. rewrite (cbc_dec_length _ _ Hiv F1) in H. cbn [cbc_dec_blocks length] in H. lia.
  - pose proof (Forall_inv F1) as H1. pose proof (Forall_inv_tail F1) as T1.
    pose proof (Forall_inv F2) as H2. pose proof (Forall_inv_tail F2) as T2. cbv beta in H1, H2.
    cbn [cbc_dec_blocks] in H.
    apply app_inj_len in H; [|rewrite !xorb_length, (D_len c1 H1), (D_len c2 H2); reflexivity].
    destruct H as [Hx Hr].
    apply xorb_inj_l in Hx; [|rewrite (D_len c1 H1); lia|rewrite (D_len c2 H2); lia].
    assert (c1 = c2) as <- by (rewrite <- (ED c1 H1), <- (ED c2 H2), Hx; reflexivity).
    f_equal. exact (IH r2 c1 H1 T1 T2 Hr).
Qed.
End CbcInj.

Lemma forallb_eq_repeat l s : forallb (fun y => N.eqb (b2n y) (b2n l)) s = true -> s = repeat l (length s).
Proof.
  induction s as [|y s IH]; cbn [forallb length repeat]; intros H; [reflexivity|].
  apply andb_true_iff in H. destruct H as [H1 H2]. apply N.eqb_eq in H1. apply b2n_inj in H1.
  subst y. f_equal. exact (IH H2).
Qed.

(* the model's unpad is strict: it accepts exactly  p ++ n copies of the byte n, 1 <= n <= bs *)
Lemma pkcs_unpad_inv bs x p : pkcs_unpad bs x = Some p ->
  exists n, 0 < n /\ n <= bs /\ x = p ++ repeat (n2b (N.of_nat n)) n.
Proof.
  unfold pkcs_unpad. rewrite <- ?rev_alt. destruct (rev x) as [|l r]; [discriminate|].
  set (n := N.to_nat (b2n l)).
  destruct ((0 <? n) && (n <=? bs) && (n <=? length x) &&
            forallb (fun y => N.eqb (b2n y) (b2n l)) (skipn (length x - n) x)) eqn:C; [|discriminate].
  intros H. injection H as <-.
  rewrite !andb_true_iff in C. destruct C as (((C1 & C2) & C3) & C4).
  apply Nat.ltb_lt in C1. apply Nat.leb_le in C2, C3.
  exists n. split; [exact C1|]. split; [exact C2|].
  apply forallb_eq_repeat in C4. rewrite skipn_length in C4.
  replace (length x - (length x - n)) with n in C4 by lia.
  assert (L : n2b (N.of_nat n) = l) by (subst n; rewrite N2Nat.id; apply n2b_b2n).
  rewrite L. rewrite <- C4. symmetry. apply firstn_skipn.
Qed.

Lemma pad_len_unique bs lp n1 n2 : 0 < bs -> 0 < n1 <= bs -> 0 < n2 <= bs ->
  (lp + n1) mod bs = 0 -> (lp + n2) mod bs = 0 -> n1 = n2.
Proof.
  intros Hbs H1 H2 M1 M2.
  apply Nat.mod_divides in M1; [|lia]. apply Nat.mod_divides in M2; [|lia].
  destruct M1 as [q1 M1]. destruct M2 as [q2 M2].
  assert (q1 = q2) by nia. subst q2. lia.
Qed.

Lemma pkcs_unpad_inj bs x1 x2 p : 0 < bs -> length x1 mod bs = 0 -> length x2 mod bs = 0 ->
  pkcs_unpad bs x1 = Some p -> pkcs_unpad bs x2 = Some p -> x1 = x2.
Proof.
  intros Hbs M1 M2 U1 U2.
  apply pkcs_unpad_inv in U1, U2.
  destruct U1 as (n1 & A1 & B1 & ->). destruct U2 as (n2 & A2 & B2 & ->).
  rewrite app_length, repeat_length in M1, M2.
  assert (n1 = n2) by (apply (pad_len_unique bs (length p)); auto). subst n2. reflexivity.
Qed.

Section CbcCipherInj.
Variable blk_enc blk_dec : N -> bytes -> bytes -> bytes.
Variable c : N.
Hypothesis blk_dec_len : forall k b, len b = cipher_blk_size c -> len (blk_dec c k b) = cipher_blk_size c.
Hypothesis blk_enc_dec : forall k b, len b = cipher_blk_size c -> blk_enc c k (blk_dec c k b) = b.

Lemma cbc_decrypt_inj dek iv ct1 ct2 p :
  (0 < cipher_blk_size c)%N -> len iv = cipher_blk_size c ->
  cbc_decrypt blk_dec c dek iv ct1 = Some p -> cbc_decrypt blk_dec c dek iv ct2 = Some p -> ct1 = ct2.
Proof.
  intros Hpos Hiv. unfold cbc_decrypt.
  set (bs := N.to_nat (cipher_blk_size c)).
  set (key := firstn _ dek).
  assert (Hbs : 0 < bs) by (subst bs; lia).
  assert (Hivn : length iv = bs) by (unfold len in Hiv; subst bs; lia).
  destruct ((length ct1 =? 0) || negb (length ct1 mod bs =? 0)) eqn:G1; [discriminate|].
  destruct ((length ct2 =? 0) || negb (length ct2 mod bs =? 0)) eqn:G2; [discriminate|].
  apply orb_false_iff in G1, G2. destruct G1 as [_ G1]. destruct G2 as [_ G2].
  apply negb_false_iff in G1, G2. apply Nat.eqb_eq in G1, G2.
  intros U1 U2.
  assert (K1 : length ct1 = (length ct1 / bs) * bs) by (apply Nat.div_exact in G1; lia).
  assert (K2 : length ct2 = (length ct2 / bs) * bs) by (apply Nat.div_exact in G2; lia).
  destruct (blocks_spec bs Hbs _ _ K1) as (F1 & C1 & L1).
  destruct (blocks_spec bs Hbs _ _ K2) as (F2 & C2 & L2).
  assert (DL : forall b, length b = bs -> length (blk_dec c key b) = bs).
  { intros b Hb. specialize (blk_dec_len key b). unfold len in blk_dec_len. subst bs. lia. }
  assert (ED : forall b, length b = bs -> blk_enc c key (blk_dec c key b) = b).
  { intros b Hb. apply blk_enc_dec. unfold len. subst bs. lia. }
  assert (X : cbc_dec_blocks (blk_dec c key) iv (blocks bs ct1) = cbc_dec_blocks (blk_dec c key) iv (blocks bs ct2)).
  { apply (pkcs_unpad_inj bs _ _ p Hbs); try assumption.
    - rewrite (cbc_dec_length (blk_enc c key) (blk_dec c key) bs Hbs DL ED _ _ Hivn F1). apply Nat.mod_mul. lia.
    - rewrite (cbc_dec_length (blk_enc c key) (blk_dec c key) bs Hbs DL ED _ _ Hivn F2). apply Nat.mod_mul. lia. }
  apply (cbc_dec_blocks_inj (blk_enc c key) (blk_dec c key) bs Hbs DL ED _ _ _ Hivn F1 F2) in X.
  rewrite <- C1, <- C2, X. reflexivity.
Qed.
End CbcCipherInj.
