(* V3Accept.v — the ACCEPT direction of format conformance.  Every byte string that satisfies the declarative
   relation v3_cred (V3Spec.v, transcribed from doc/credential_v3_format.txt) — whatever IV, salt, realm or
   origin-address length it carries, compressed whether or not that pays, not only what the model's own
   encoder emits — is decoded by the model of munged (CredModel.dec_process) to success, and the reply
   carries exactly the fields of the relation (accept_reply gives the whole DEC_RSP).
     spec_accepted / spec_accepted_bare / spec_accepted_ex : the theorem, with and without the trailing NUL
     v3_cred_open       : the relation in functional form (octet / word32 / zip header leave no freedom)
     v3_build_spec      : conversely the relation holds for every field record in range and every IV
     interchange        : CredRoundtrip.roundtrip re-proved through the document
                          (V3Spec.enc_satisfies_spec ; spec_accepted)
     relation_allows_*  : closed instances the relation allows and munged refuses (why `decodable` is there)
   Converse helper lemmas used: cbc_rel_dec, pkcs5_unpad, word32_eq/take32_word32, octet_eq, rfc4648_inj. *)
From Coq Require Import List NArith ZArith Bool Lia ZifyBool ZifyN ZifyNat.
From Coq.Strings Require Import Byte.
From RecordUpdate Require Import RecordSet.
From MV Require Import Bytes Base64Model Base64Proofs CredModel CredProofs CbcProofs CredRoundtrip V3Spec.
From MV.gen Require Import GenCred.
Import ListNotations RecordSetNotations.
Local Open Scope N_scope.
Ltac Zify.zify_post_hook ::= Z.div_mod_to_equations.

(* ------------------------------------------------------------------ *)
(* the declarative notions determine the bytes                          *)
(* ------------------------------------------------------------------ *)
Lemma octet_eq n b : octet n b -> b = n2b n /\ n < 256.
Proof. unfold octet. intros <-. split; [symmetry; apply n2b_b2n|apply b2n_lt]. Qed.

Lemma word32_eq n w : word32 n w -> w = be32 n /\ n < 4294967296.
Proof.
  intros (a & b & c & d & Hw & Hn). subst w.
  change (b2n a * 16777216 + b2n b * 65536 + b2n c * 256 + b2n d) with (rd32 a b c d) in Hn. subst n.
  split; [symmetry; apply be32_rd32|apply rd32_lt].
Qed.

Lemma take32_word32 n w r : word32 n w -> take32 (w ++ r) = Some (n, r).
Proof. intros H. destruct (word32_eq _ _ H) as [-> L]. apply take32_be32. exact L. Qed.

Lemma bxor_xorb p prev x : bxor p prev x ->
  xorb x prev = p /\ length x = length p /\ length prev = length p.
Proof.
  induction 1 as [|a b c p prev x Hc _ (IH1 & IH2 & IH3)].
  - repeat split.
  - rewrite xorb_cons. cbn [length]. split; [|split; congruence].
    f_equal; [|exact IH1]. rewrite Hc.
    destruct (lxor_byte (b2n a) (b2n b) (b2n_lt a) (b2n_lt b)) as [E _].
    rewrite E. apply n2b_b2n.
Qed.

(* converse of V3Spec.cbc_enc_rel: whatever is related to a plaintext by the chaining rule decrypts to it *)
Lemma cbc_rel_dec (E D : bytes -> bytes) (bs : nat) : (0 < bs)%nat ->
  (forall b, length b = bs -> length (E b) = bs) -> (forall b, length b = bs -> D (E b) = b) ->
  forall iv padded wire, cbc_rel E bs iv padded wire ->
  cbc_dec_blocks D iv (blocks bs wire) = padded /\ length wire = length padded.
Proof.
  intros Hbs E_len DE iv padded wire R.
  induction R as [prev|prev p x rest crest Hp Hx R (IH1 & IH2)].
  - rewrite blocks_nil. split; reflexivity.
  - destruct (bxor_xorb _ _ _ Hx) as (X1 & X2 & X3).
    assert (Lx : length x = bs) by lia.
    rewrite (blocks_app bs (E x) crest Hbs (E_len x Lx)). cbn [cbc_dec_blocks].
    rewrite (DE x Lx), X1, IH1. split; [reflexivity|].
    rewrite !app_length, IH2, (E_len x Lx). lia.
Qed.

(* converse of V3Spec.pkcs_pad_pkcs5: the strict unpadding of the model removes any PKCS #5 padding *)
Lemma pkcs5_unpad bs plain padded : pkcs5 bs plain padded -> pkcs_unpad bs padded = Some plain.
Proof.
  intros (n & pb & Hn & Hpb & -> & _). unfold octet in Hpb.
  unfold pkcs_unpad. rewrite <- ?rev_alt.
  assert (R : rev (plain ++ repeat pb n) = pb :: rev (plain ++ repeat pb (pred n))).
  { destruct n as [|n']; [lia|]. apply rev_app_repeat_S. }
  rewrite R. cbv beta iota zeta.
  rewrite Hpb, Nat2N.id, app_length, repeat_length.
  replace (length plain + n - n)%nat with (length plain) by lia.
  rewrite firstn_app_exact, skipn_app_exact.
  replace (0 <? n)%nat with true by (symmetry; apply Nat.ltb_lt; lia).
  replace (n <=? bs)%nat with true by (symmetry; apply Nat.leb_le; lia).
  replace (n <=? length plain + n)%nat with true by (symmetry; apply Nat.leb_le; lia).
  rewrite forallb_repeat by (rewrite Hpb; apply N.eqb_refl).
  reflexivity.
Qed.

Lemma rfc4648_inj a b : rfc4648 a = rfc4648 b -> a = b.
Proof.
  rewrite <- !canonical. intros H. pose proof (decode_encode a) as Ea.
  rewrite H, decode_encode in Ea. congruence.
Qed.

(* a cipher code with a non-zero block size is a known cipher (so PKCS #5 padding for a code implies the code) *)
Definition blk_pos_valid (c : N) : bool := cipher_valid c || (cipher_blk_size c =? 0).
Lemma blk_pos_sweep : allb 256 blk_pos_valid = true.
Proof. vm_compute. reflexivity. Qed.
Lemma blk_pos_is_valid c : c < 256 -> 0 < cipher_blk_size c -> cipher_valid c = true.
Proof.
  intros Hc Hb. pose proof (allb_spec 256 _ blk_pos_sweep c Hc) as E. unfold blk_pos_valid in E.
  destruct (cipher_valid c); [reflexivity|]. cbn [orb] in E. apply N.eqb_eq in E. lia.
Qed.

(* ------------------------------------------------------------------ *)
(* (a) armor: "MUNGE:" base64 ":" with or without the NUL the client library sends *)
(* ------------------------------------------------------------------ *)
Lemma before_last_suffix1 sfx e : before_last sfx (e ++ [sfx]) = Some e.
Proof.
  induction e as [|c e IH]; cbn [app before_last].
  - now rewrite Byte.byte_dec_lb by reflexivity.
  - now rewrite IH.
Qed.

Lemma dec_unarmor_v3_tail body tail : tail = [] \/ tail = [x00] ->
  dec_unarmor ((munge_prefix ++ rfc4648 body ++ munge_suffix) ++ tail) = inl body.
Proof.
  intros Ht. rewrite <- canonical. set (e := encode_block body).
  change munge_prefix with pfx. change munge_suffix with [sfx1].
  rewrite <- !app_assoc.
  apply (dec_unarmor_eq _ "M"%byte (tl pfx ++ e ++ [sfx1] ++ tail) (e ++ [sfx1] ++ tail) e).
  - reflexivity.
  - vm_compute. discriminate.
  - change ("M"%byte :: tl pfx ++ e ++ [sfx1] ++ tail) with (pfx ++ e ++ [sfx1] ++ tail). apply take_app.
  - destruct Ht as [-> | ->].
    + apply before_last_suffix1.
    + apply before_last_suffix. vm_compute. discriminate.
  - subst e. apply decode_encode.
Qed.

(* ------------------------------------------------------------------ *)
(* (b) outer header, with the whole resulting message                   *)
(* ------------------------------------------------------------------ *)
(* cred.c keeps the realm NUL-terminated and counts the NUL in the 8-bit length *)
Definition realm_set (realm : bytes) (m : msg) : msg :=
  if 0 <? len realm then m <| m_realm := realm ++ [x00] |> <| m_realm_len := (len realm + 1) mod 256 |> else m.

Lemma unpack_outer_spec m ci ma zi realm iv tag inner :
  ci < 256 -> (ci = c_cipher_none \/ cipher_valid ci = true) ->
  ma < 256 -> mac_valid ma = true -> cipher_key_size ci <= mac_size ma ->
  zi < 256 -> (zi = c_zip_none \/ zip_valid zi = true) ->
  len realm < 256 ->
  len iv = (if ci =? c_cipher_none then 0 else cipher_iv_size ci) -> len tag = mac_size ma ->
  dec_unpack_outer m (([n2b c_cred_version; n2b ci; n2b ma; n2b zi; n2b (len realm)] ++ realm ++ iv) ++ tag ++ inner) =
  inr {| oo_msg := realm_set realm (m <| m_cipher := ci |> <| m_mac := ma |> <| m_zip := zi |>
                                      <| m_realm_len := len realm |>);
         oo_outer := [n2b c_cred_version; n2b ci; n2b ma; n2b zi; n2b (len realm)] ++ realm ++ iv;
         oo_iv := iv; oo_tag := tag; oo_inner := inner |}.
Proof.
  intros Hci Hcv Hma Hmv Hks Hzi Hzv Hrl2 Hiv Htag.
  destruct (mac_tab_facts ma Hma Hmv) as (Hm16 & _).
  unfold dec_unpack_outer. rewrite <- !app_assoc. cbn [app].
  rewrite (b2n_n2b c_cred_version) by reflexivity.
  rewrite (b2n_n2b ci Hci), (b2n_n2b ma Hma), (b2n_n2b zi Hzi), (b2n_n2b (len realm) Hrl2).
  rewrite N.eqb_refl. cbn [negb].
  assert (E1 : negb (ci =? c_cipher_none) && negb (cipher_valid ci) = false).
  { destruct Hcv as [-> | ->]; [reflexivity|]. cbn [negb]. apply andb_false_r. }
  rewrite E1. rewrite Hmv. cbn [negb].
  assert (E2 : (mac_size ma =? 0) = false) by (apply N.eqb_neq; lia). rewrite E2.
  assert (E3 : (mac_size ma <? cipher_key_size ci) = false) by (apply N.ltb_ge; exact Hks). rewrite E3.
  assert (E4 : negb (zi =? c_zip_none) && negb (zip_valid zi) = false).
  { destruct Hzv as [-> | ->]; [reflexivity|]. cbn [negb]. apply andb_false_r. }
  rewrite E4.
  rewrite (take_len realm _ (len realm) eq_refl).
  rewrite (take_len iv _ _ (eq_sym Hiv)).
  rewrite (take_len tag _ _ (eq_sym Htag)).
  match goal with |- context [firstn (length ?b - length ?r) ?b] =>
    assert (E : firstn (length b - length r) b =
                n2b c_cred_version :: n2b ci :: n2b ma :: n2b zi :: n2b (len realm) :: realm ++ iv)
  end.
  { match goal with |- firstn (length ?b - _) ?b = ?o =>
      assert (E : b = o ++ (tag ++ inner)) by (cbn [app]; rewrite <- ?app_assoc; reflexivity); rewrite E end.
    rewrite (app_length _ (tag ++ inner)). rewrite Nat.add_sub. apply firstn_app_exact. }
  rewrite E. unfold realm_set. reflexivity.
Qed.

(* ------------------------------------------------------------------ *)
(* (f) inner body, with the origin address either absent or 4 bytes long *)
(* ------------------------------------------------------------------ *)
Definition addr_of (addr : bytes) : bytes := if len addr =? 4 then addr else [x00; x00; x00; x00].

Lemma unpack_inner_spec m salt addr t0 ttl uid gid au ag data :
  len salt = c_salt_len -> (len addr = 0 \/ len addr = 4) ->
  t0 < 4294967296 -> ttl < 4294967296 -> uid < 4294967296 -> gid < 4294967296 ->
  au < 4294967296 -> ag < 4294967296 -> len data < 4294967296 ->
  dec_unpack_inner m (salt ++ [n2b (len addr)] ++ addr ++ be32 t0 ++ be32 ttl ++ be32 uid ++ be32 gid
                      ++ be32 au ++ be32 ag ++ be32 (len data) ++ data)
  = inr (m <| m_addr_len := len addr |> <| m_addr := addr_of addr |> <| m_time0 := t0 |> <| m_ttl := ttl |>
           <| m_cred_uid := uid |> <| m_cred_gid := gid |> <| m_auth_uid := au |> <| m_auth_gid := ag |>
           <| m_data_len := len data |> <| m_data := data |>).
Proof.
  intros Hs Ha H0 Ht Hu Hg Hau Hag Hd. unfold dec_unpack_inner.
  rewrite (take_len salt _ c_salt_len (eq_sym Hs)). cbn [app].
  assert (Ha256 : len addr < 256) by (destruct Ha as [Ha | Ha]; rewrite Ha; reflexivity).
  rewrite (b2n_n2b (len addr) Ha256).
  set (rest := be32 t0 ++ be32 ttl ++ be32 uid ++ be32 gid ++ be32 au ++ be32 ag ++ be32 (len data) ++ data).
  assert (E1 : (len (addr ++ rest) <? len addr) = false).
  { apply N.ltb_ge. rewrite len_app. lia. }
  rewrite E1.
  assert (E2 : negb ((len addr =? 4) || (len addr =? 0)) = false).
  { destruct Ha as [Ha | Ha]; rewrite Ha; reflexivity. }
  rewrite E2.
  assert (E3 : N.to_nat (len addr) = length addr) by (unfold len; lia).
  rewrite E3, skipn_app_exact.
  assert (E4 : (if len addr =? 4 then firstn 4 (addr ++ rest) else [x00; x00; x00; x00]) = addr_of addr).
  { unfold addr_of. destruct (len addr =? 4) eqn:A; [|reflexivity]. apply N.eqb_eq in A.
    replace 4%nat with (length addr) by (unfold len in A; lia). apply firstn_app_exact. }
  rewrite E4. subst rest.
  rewrite (take32_be32 t0) by exact H0. rewrite (take32_be32 ttl) by exact Ht.
  rewrite (take32_be32 uid) by exact Hu. rewrite (take32_be32 gid) by exact Hg.
  rewrite (take32_be32 au) by exact Hau. rewrite (take32_be32 ag) by exact Hag.
  rewrite (take32_be32 (len data)) by exact Hd.
  destruct (0 <? len data) eqn:D.
  - rewrite ?N.ltb_irrefl. pose proof (take_app data []) as T. rewrite app_nil_r in T.
    replace (N.to_nat (len data)) with (length data) by (unfold len; lia). rewrite T. reflexivity.
  - assert (data = []) as -> by (destruct data; [reflexivity|unfold len in D; cbn [length] in D; lia]).
    reflexivity.
Qed.

(* ------------------------------------------------------------------ *)
(* what a decoder has to be able to handle, and what it then answers    *)
(* ------------------------------------------------------------------ *)
(* the conditions under which munged can decode a conforming credential; everything else a decoder needs
   (fields below 2^32, codes and realm length below 256, IV and salt lengths, and that a cipher code other
   than "none" is a known cipher: PKCS #5 needs a block size) is implied by the relation *)
Definition decodable (f : v3_fields) : Prop :=
  mac_valid (f_mac f) = true /\ cipher_key_size (f_cipher f) <= mac_size (f_mac f) /\
  (f_zip f = 0 \/ (zip_valid (f_zip f) = true /\ 37 + len (f_addr f) + len (f_data f) < 2147483648)) /\
  (len (f_addr f) = 0 \/ len (f_addr f) = 4).

(* the simpler sufficient condition: known algorithms, IPv4 address (or none), payload below 2^31 - 1024 *)
Lemma decodable_simple f :
  mac_valid (f_mac f) = true -> cipher_key_size (f_cipher f) <= mac_size (f_mac f) ->
  (f_zip f = 0 \/ zip_valid (f_zip f) = true) ->
  (len (f_addr f) = 0 \/ len (f_addr f) = 4) -> len (f_data f) < 2147483648 - 1024 ->
  decodable f.
Proof.
  intros Hm Hk Hz Ha Hd. unfold decodable. repeat split; try assumption.
  destruct Hz as [Hz|Hz]; [left; exact Hz|right]. split; [exact Hz|]. lia.
Qed.

Definition iv_len (c : N) : N := if c =? 0 then 0 else cipher_iv_size c.

(* "tag is the M layer of cred": positional, from the layout table alone *)
Definition v3_mac_field (f : v3_fields) (cred tag : bytes) : Prop :=
  exists outer wire,
    len outer = 5 + len (f_realm f) + iv_len (f_cipher f) /\ len tag = mac_size (f_mac f) /\
    cred = munge_prefix ++ rfc4648 (outer ++ tag ++ wire) ++ munge_suffix.

Lemma mac_field_unique f cred t1 t2 : v3_mac_field f cred t1 -> v3_mac_field f cred t2 -> t1 = t2.
Proof.
  intros (o1 & w1 & Lo1 & Lt1 & E1) (o2 & w2 & Lo2 & Lt2 & E2). rewrite E1 in E2.
  apply app_inv_head in E2. apply app_inv_tail in E2. apply rfc4648_inj in E2.
  apply app_inj_len in E2; [|unfold len in *; lia]. destruct E2 as [_ E2].
  apply app_inj_len in E2; [|unfold len in *; lia]. tauto.
Qed.

(* the DEC_RSP of an accepted credential, every field *)
Definition accept_reply (cfd : conf) (f : v3_fields) (du dg now' retry : N) : msg :=
  {| m_retry := retry;
     m_cipher := f_cipher f; m_mac := f_mac f; m_zip := f_zip f;
     m_realm_len := if 0 <? len (f_realm f) then (len (f_realm f) + 1) mod 256 else 0;
     m_realm := if 0 <? len (f_realm f) then f_realm f ++ [x00] else [];
     m_ttl := capped cfd (f_ttl f);
     m_addr_len := len (f_addr f); m_addr := addr_of (f_addr f);
     m_time0 := f_time f; m_time1 := u32 now';
     m_client_uid := du; m_client_gid := dg;
     m_cred_uid := f_uid f; m_cred_gid := f_gid f; m_auth_uid := f_auth_uid f; m_auth_gid := f_auth_gid f;
     m_data_len := len (f_data f); m_data := f_data f;
     m_err := e_success; m_errstr := [] |}.

(* field by field *)
Lemma accept_reply_fields cfd f du dg now' retry :
  let r := accept_reply cfd f du dg now' retry in
  m_err r = e_success /\ m_errstr r = [] /\
  m_data r = f_data f /\ m_data_len r = len (f_data f) /\
  m_cred_uid r = f_uid f /\ m_cred_gid r = f_gid f /\
  m_auth_uid r = f_auth_uid f /\ m_auth_gid r = f_auth_gid f /\
  m_cipher r = f_cipher f /\ m_mac r = f_mac f /\ m_zip r = f_zip f /\
  m_ttl r = capped cfd (f_ttl f) /\ m_time0 r = f_time f /\ m_time1 r = u32 now' /\
  m_addr_len r = len (f_addr f) /\ m_addr r = addr_of (f_addr f) /\
  m_client_uid r = du /\ m_client_gid r = dg /\ m_retry r = retry.
Proof. cbv zeta. unfold accept_reply. cbn [m_err m_errstr m_data m_data_len m_cred_uid m_cred_gid m_auth_uid m_auth_gid
  m_cipher m_mac m_zip m_ttl m_time0 m_time1 m_addr_len m_addr m_client_uid m_client_gid m_retry]. repeat split. Qed.

(* the two layers as byte strings (the octet and word32 notions leave no freedom) *)
Definition v3_outer (f : v3_fields) (iv : bytes) : bytes :=
  [n2b 3; n2b (f_cipher f); n2b (f_mac f); n2b (f_zip f); n2b (len (f_realm f))] ++ f_realm f ++ iv.
Definition v3_inner (f : v3_fields) : bytes :=
  f_salt f ++ [n2b (len (f_addr f))] ++ f_addr f ++ be32 (f_time f) ++ be32 (f_ttl f) ++ be32 (f_uid f)
  ++ be32 (f_gid f) ++ be32 (f_auth_uid f) ++ be32 (f_auth_gid f) ++ be32 (len (f_data f)) ++ f_data f.

Lemma v3_inner_len f : len (v3_inner f) = len (f_salt f) + 37 - 8 + len (f_addr f) + len (f_data f).
Proof. unfold v3_inner, len. rewrite !app_length, !be32_length. cbn [length]. lia. Qed.

Lemma v3_outer_len f iv : len (v3_outer f iv) = 5 + len (f_realm f) + len iv.
Proof. unfold v3_outer, len. rewrite !app_length. cbn [length]. lia. Qed.

Section Accept.
Variable hmac : N -> bytes -> bytes -> bytes.
Variable sha1 : bytes -> bytes.
Variable blk_enc blk_dec : N -> bytes -> bytes -> bytes.
Variable zcomp : N -> bytes -> option bytes.
Variable zdecomp : N -> bytes -> N -> option bytes.

(* --- what is assumed of the primitives: the hypotheses of CredRoundtrip.roundtrip, nothing else --- *)
Hypothesis hmac_len : forall a k d, mac_valid a = true -> len (hmac a k d) = mac_size a.
Hypothesis blk_len : forall c k b, cipher_valid c = true -> len b = cipher_blk_size c ->
  len (blk_enc c k b) = cipher_blk_size c.
Hypothesis blk_inv : forall c k b, cipher_valid c = true -> len b = cipher_blk_size c ->
  blk_dec c k (blk_enc c k b) = b.
Hypothesis zip_inv : forall z x raw mx, zip_valid z = true -> zcomp z x = Some raw -> len x <= mx ->
  zdecomp z raw mx = Some x.

Definition v3_tag (key : bytes) (f : v3_fields) (iv innerz : bytes) : bytes :=
  hmac (f_mac f) (mac_subkey sha1 key) (v3_outer f iv ++ innerz).

(* the relation in functional form: the only freedom left is the IV (and which of the equal-valued
   derivations of cbc_rel is meant) *)
Lemma v3_cred_open key f cred : v3_cred hmac sha1 blk_enc zcomp key f cred ->
  exists iv innerz wire,
    f_cipher f < 256 /\ f_mac f < 256 /\ f_zip f < 256 /\ len (f_realm f) < 256 /\ len (f_addr f) < 256 /\
    len iv = iv_len (f_cipher f) /\ len (f_salt f) = 8 /\
    f_time f < 4294967296 /\ f_ttl f < 4294967296 /\ f_uid f < 4294967296 /\ f_gid f < 4294967296 /\
    f_auth_uid f < 4294967296 /\ f_auth_gid f < 4294967296 /\ len (f_data f) < 4294967296 /\
    ((f_zip f = 0 /\ innerz = v3_inner f) \/
     (f_zip f <> 0 /\ zip_compress zcomp (f_zip f) (v3_inner f) = Some innerz)) /\
    ((f_cipher f = 0 /\ wire = innerz) \/
     (f_cipher f <> 0 /\ exists padded,
        pkcs5 (N.to_nat (cipher_blk_size (f_cipher f))) innerz padded /\
        cbc_rel (blk_enc (f_cipher f)
                   (firstn (N.to_nat (cipher_key_size (f_cipher f)))
                           (hmac (f_mac f) (dek_subkey sha1 key) (v3_tag key f iv innerz))))
                (N.to_nat (cipher_blk_size (f_cipher f))) iv padded wire)) /\
    cred = munge_prefix ++ rfc4648 (v3_outer f iv ++ v3_tag key f iv innerz ++ wire) ++ munge_suffix.
Proof.
  intros (ver & ci & ma & zi & rl & iv & al & wt & wl & wu & wg & wau & wag & wdl &
          outer & inner & innerz & tag & wire &
          Over & Oci & Oma & Ozi & Orl & Hiv & Houter & Hsalt & Oal &
          Wt & Wl & Wu & Wg & Wau & Wag & Wdl & Hinner & Hzip & Htag & Hcip & Hcred).
  destruct (octet_eq _ _ Over) as [-> _]. destruct (octet_eq _ _ Oci) as [-> Lc].
  destruct (octet_eq _ _ Oma) as [-> Lm]. destruct (octet_eq _ _ Ozi) as [-> Lz].
  destruct (octet_eq _ _ Orl) as [-> Lr]. destruct (octet_eq _ _ Oal) as [-> La].
  destruct (word32_eq _ _ Wt) as [-> Lt]. destruct (word32_eq _ _ Wl) as [-> Ll].
  destruct (word32_eq _ _ Wu) as [-> Lu]. destruct (word32_eq _ _ Wg) as [-> Lg].
  destruct (word32_eq _ _ Wau) as [-> Lau]. destruct (word32_eq _ _ Wag) as [-> Lag].
  destruct (word32_eq _ _ Wdl) as [-> Ldl].
  fold (v3_outer f iv) in Houter. fold (v3_inner f) in Hinner. subst outer inner.
  change (spec_mac_subkey sha1 key) with (mac_subkey sha1 key) in Htag.
  fold (v3_tag key f iv innerz) in Htag. subst tag.
  exists iv, innerz, wire.
  repeat (split; [assumption|]).
  split.
  { destruct Hzip as [(Z & E)|(Z & wm & wn & raw & Wm & Wn & Hc & E)]; [left; split; assumption|].
    right. split; [exact Z|].
    destruct (word32_eq _ _ Wm) as [-> _]. destruct (word32_eq _ _ Wn) as [-> _].
    unfold zip_compress. rewrite Hc, E. reflexivity. }
  split; [|exact Hcred].
  destruct Hcip as [(C & E)|(C & padded & P & R)]; [left; split; assumption|].
  right. split; [exact C|]. exists padded. split; [exact P|exact R].
Qed.

(* (c)+(d) decryption and MAC comparison, from any decryption result *)
Lemma decrypt_mac_spec cfd oo key innerz : cf_key cfd = key ->
  oo_tag oo = hmac (m_mac (oo_msg oo)) (mac_subkey sha1 key) (oo_outer oo ++ innerz) ->
  (if m_cipher (oo_msg oo) =? c_cipher_none then Some (oo_inner oo)
   else cbc_decrypt blk_dec (m_cipher (oo_msg oo))
          (hmac (m_mac (oo_msg oo)) (dek_subkey sha1 key) (oo_tag oo)) (oo_iv oo) (oo_inner oo)) = Some innerz ->
  dec_decrypt_mac hmac sha1 blk_dec cfd oo = inr innerz.
Proof.
  intros <- Htag Hp. unfold dec_decrypt_mac. rewrite Hp. rewrite <- Htag, bytes_eqb_refl. reflexivity.
Qed.

(* converse of step 3: anything related to innerz by PKCS #5 and the chaining rule decrypts to innerz *)
Lemma cbc_decrypt_spec c dek iv innerz padded wire :
  cipher_valid c = true -> c < 256 ->
  pkcs5 (N.to_nat (cipher_blk_size c)) innerz padded ->
  cbc_rel (blk_enc c (firstn (N.to_nat (cipher_key_size c)) dek)) (N.to_nat (cipher_blk_size c)) iv padded wire ->
  cbc_decrypt blk_dec c dek iv wire = Some innerz.
Proof.
  intros Hv Hc P R. destruct (cipher_tab_facts _ Hc Hv) as (Hb0 & _).
  unfold cbc_decrypt. set (bs := N.to_nat (cipher_blk_size c)) in *.
  set (key := firstn _ dek) in *.
  assert (Hbs : (0 < bs)%nat) by (subst bs; lia).
  assert (EL : forall b, length b = bs -> length (blk_enc c key b) = bs).
  { intros b Hb. pose proof (blk_len c key b Hv) as BL. unfold len in BL. subst bs. lia. }
  assert (DE : forall b, length b = bs -> blk_dec c key (blk_enc c key b) = b).
  { intros b Hb. apply blk_inv; [exact Hv|]. unfold len. subst bs. lia. }
  destruct (cbc_rel_dec (blk_enc c key) (blk_dec c key) bs Hbs EL DE iv padded wire R) as (H1 & H2).
  pose proof P as (n & pb & Hn & _ & Hpad & Hmod).
  assert (L : (0 < length padded)%nat) by (rewrite Hpad, app_length, repeat_length; lia).
  rewrite H2, Hmod.
  replace (length padded =? 0)%nat with false by (symmetry; apply Nat.eqb_neq; lia).
  cbn [orb negb Nat.eqb]. rewrite H1. apply pkcs5_unpad. exact P.
Qed.

(* (e) decompression *)
Lemma decompress_spec mo f innerz :
  m_zip mo = f_zip f -> len (f_salt f) = 8 ->
  (f_zip f = 0 \/ (zip_valid (f_zip f) = true /\ 37 + len (f_addr f) + len (f_data f) < 2147483648)) ->
  ((f_zip f = 0 /\ innerz = v3_inner f) \/
   (f_zip f <> 0 /\ zip_compress zcomp (f_zip f) (v3_inner f) = Some innerz)) ->
  dec_decompress zdecomp mo innerz = inr (v3_inner f).
Proof.
  intros Hz Hs Hd [(Z & ->)|(Z & Cz)].
  - unfold dec_decompress. rewrite Hz, Z. reflexivity.
  - destruct Hd as [Hd|(V & Hd)]; [contradiction|].
    pose proof (v3_inner_len f) as L. rewrite Hs in L.
    apply (decompress_ok hmac sha1 blk_enc blk_dec zcomp zdecomp hmac_len blk_len blk_inv zip_inv).
    + right. rewrite Hz. split; [exact Z|]. split; [exact V|exact Cz].
    + lia.
    + lia.
Qed.

(* the message dec_parse hands on: outer options, realm, then every inner field *)
Definition parsed (f : v3_fields) (m : msg) : msg :=
  realm_set (f_realm f)
    (m <| m_cipher := f_cipher f |> <| m_mac := f_mac f |> <| m_zip := f_zip f |> <| m_realm_len := len (f_realm f) |>)
    <| m_addr_len := len (f_addr f) |> <| m_addr := addr_of (f_addr f) |> <| m_time0 := f_time f |>
    <| m_ttl := f_ttl f |> <| m_cred_uid := f_uid f |> <| m_cred_gid := f_gid f |>
    <| m_auth_uid := f_auth_uid f |> <| m_auth_gid := f_auth_gid f |>
    <| m_data_len := len (f_data f) |> <| m_data := f_data f |>.

(* every decode stage up to the inner unpack, on anything that satisfies the relation *)
Lemma parse_spec key f cred tag cfd md0 tail :
  v3_cred hmac sha1 blk_enc zcomp key f cred -> decodable f -> v3_mac_field f cred tag ->
  cf_key cfd = key -> (tail = [] \/ tail = [x00]) -> m_data md0 = cred ++ tail ->
  dec_parse hmac sha1 blk_dec zdecomp cfd md0 = inr (parsed f (md0 <| m_data := [] |> <| m_data_len := 0 |>), tag).
Proof.
  intros Hspec (Dm & Dk & Dz & Da) Hfield Hkey Htail Hdata.
  destruct (v3_cred_open _ _ _ Hspec)
    as (iv & innerz & wire & Lc & Lm & Lz & Lr & La & Hiv & Hsalt & Lt & Ll & Lu & Lg & Lau & Lag & Ldl &
        Hzip & Hcip & Hcred).
  assert (Dc : f_cipher f = c_cipher_none \/ cipher_valid (f_cipher f) = true).
  { destruct Hcip as [(C & _)|(C & padded & (n & pb & Hn & _) & _)]; [left; exact C|right].
    apply blk_pos_is_valid; [exact Lc|lia]. }
  assert (Htaglen : len (v3_tag key f iv innerz) = mac_size (f_mac f)) by (apply hmac_len; exact Dm).
  assert (tag = v3_tag key f iv innerz) as ->.
  { apply (mac_field_unique f cred); [exact Hfield|].
    exists (v3_outer f iv), wire. split; [rewrite v3_outer_len, Hiv; reflexivity|]. split; [exact Htaglen|exact Hcred]. }
  unfold dec_parse. rewrite Hdata, Hcred, (dec_unarmor_v3_tail _ _ Htail).
  unfold v3_outer at 1.
  rewrite (unpack_outer_spec (md0 <| m_data := [] |> <| m_data_len := 0 |>) (f_cipher f) (f_mac f) (f_zip f)
             (f_realm f) iv (v3_tag key f iv innerz) wire Lc Dc Lm Dm Dk Lz);
    [|destruct Dz as [Z|(Z & _)]; [left|right]; exact Z|exact Lr|exact Hiv|exact Htaglen].
  set (mo := realm_set (f_realm f) _).
  assert (Mc : m_cipher mo = f_cipher f) by (subst mo; unfold realm_set; destruct (0 <? len (f_realm f)); reflexivity).
  assert (Mm : m_mac mo = f_mac f) by (subst mo; unfold realm_set; destruct (0 <? len (f_realm f)); reflexivity).
  assert (Mz : m_zip mo = f_zip f) by (subst mo; unfold realm_set; destruct (0 <? len (f_realm f)); reflexivity).
  rewrite (decrypt_mac_spec cfd _ key innerz Hkey); cbn [oo_msg oo_outer oo_iv oo_tag oo_inner].
  2:{ rewrite Mm. reflexivity. }
  2:{ rewrite Mc, Mm. destruct Hcip as [(C & ->)|(C & padded & P & R)].
      - rewrite C. reflexivity.
      - destruct (f_cipher f =? c_cipher_none) eqn:E; [apply N.eqb_eq in E; contradiction|].
        destruct Dc as [Dc|Dc]; [contradiction|].
        exact (cbc_decrypt_spec _ _ _ _ _ _ Dc Lc P R). }
  rewrite (decompress_spec mo f innerz Mz Hsalt Dz Hzip).
  unfold v3_inner.
  rewrite (unpack_inner_spec mo (f_salt f) (f_addr f)); try assumption.
  reflexivity.
Qed.

(* The decode request libmunge sends for a credential string: CredRoundtrip.dec_req *)

(* ACCEPT, both framings of the request payload (tail = NUL as libmunge sends it, or nothing) *)
Lemma spec_accepted_tail tail : tail = [] \/ tail = [x00] ->
  forall (key : bytes) (f : v3_fields) (cred tag : bytes),
  v3_cred hmac sha1 blk_enc zcomp key f cred -> decodable f -> v3_mac_field f cred tag ->
  forall (cfd : conf) (mem : N -> N -> bool) (rs : rstate) (du dg now' retry : N),
  cf_key cfd = key -> retry <= c_retry_attempts ->
  let ttl' := capped cfd (f_ttl f) in
  (f_auth_uid f = c_uid_any \/ f_auth_uid f = du \/ (cf_root_auth cfd = true /\ du = 0)) ->
  (f_auth_gid f = c_gid_any \/ f_auth_gid f = dg \/ mem du (f_auth_gid f) = true) ->
  (Z.of_N (f_time f) - Z.of_N (skew_of cfd ttl') <= Z.of_N (u32 now'))%Z -> u32 now' <= f_time f + ttl' ->
  let k := (firstn 16 tag, f_time f + ttl') in
  r_mem k rs = false ->
  dec_process hmac sha1 blk_dec zdecomp cfd mem rs (dec_req (cred ++ tail) retry) du dg now'
  = (accept_reply cfd f du dg now' retry, k :: rs, Some k).
Proof.
  intros Htail key f cred tag Hspec Hdec Hfield cfd mem rs du dg now' retry Hkey Hretry ttl' Hau Hag Hw1 Hw2 k Hrep.
  set (mreq := dec_req (cred ++ tail) retry).
  set (md1 := mreq <| m_time0 := 0 |> <| m_time1 := u32 now' |> <| m_client_uid := du |> <| m_client_gid := dg |>).
  pose proof (parse_spec key f cred tag cfd md1 tail Hspec Hdec Hfield Hkey Htail eq_refl) as Hparse.
  set (mf := parsed f (md1 <| m_data := [] |> <| m_data_len := 0 |>)) in *.
  assert (Fu : m_client_uid mf = du) by (subst mf; unfold parsed, realm_set; destruct (0 <? len (f_realm f)); reflexivity).
  assert (Fg : m_client_gid mf = dg) by (subst mf; unfold parsed, realm_set; destruct (0 <? len (f_realm f)); reflexivity).
  assert (Ft1 : m_time1 mf = u32 now') by (subst mf; unfold parsed, realm_set; destruct (0 <? len (f_realm f)); reflexivity).
  assert (A : dec_authorized cfd mem mf = true).
  { apply auth_decision. rewrite Fu, Fg. change (m_auth_uid mf) with (f_auth_uid f).
    change (m_auth_gid mf) with (f_auth_gid f). split; assumption. }
  assert (T : fst (dec_time cfd (m_time0 mf) (m_ttl mf) (m_time1 mf)) = TOk).
  { destruct (window_exact cfd (m_time0 mf) (m_ttl mf) (m_time1 mf)) as (W & _).
    apply W. rewrite Ft1. change (m_time0 mf) with (f_time f). change (m_ttl mf) with (f_ttl f).
    fold ttl'. lia. }
  pose proof (dec_process_ok hmac sha1 blk_dec zdecomp cfd mem rs mreq du dg now' mf tag) as Hproc.
  assert (K : cred_rkey tag (mf <| m_ttl := capped cfd (m_ttl mf) |>) = k) by reflexivity.
  assert (R : mf <| m_ttl := capped cfd (m_ttl mf) |> = accept_reply cfd f du dg now' retry).
  { subst mf. unfold parsed, realm_set, accept_reply. destruct (0 <? len (f_realm f)) eqn:E; [reflexivity|].
    assert (E0 : len (f_realm f) = 0) by lia. rewrite E0. reflexivity. }
  rewrite <- K, <- R. apply Hproc.
  - subst mreq. unfold dec_req. cbn [m_data_len]. change (len (cred ++ tail) <> 0).
    destruct (v3_cred_open _ _ _ Hspec) as (iv & innerz & wire & H). decompose [and] H; clear H. subst cred.
    unfold len. rewrite !app_length. cbn [length munge_prefix]. lia.
  - exact Hretry.
  - exact Hparse.
  - exact A.
  - exact T.
  - exact Hrep.
Qed.

(* ACCEPT — main theorem.  Whatever byte string cred the format document allows as the credential of the fields
   f under key (v3_cred), if the fields are ones munged can decode (known cipher/MAC/zip codes, MAC at least as
   long as the cipher key, origin address absent or 4 bytes, compressed INNER below 2^31), then the first decode
   of cred (NUL-terminated, as libmunge sends it) by an authorized client inside the time window on a daemon
   with that key whose replay cache does not hold it succeeds; the reply is accept_reply: error 0 and exactly
   the fields of f, the ttl capped by the decoder's maximum; the replay key (first 16 bytes of the M layer,
   encode time + capped ttl) is recorded. *)
Theorem spec_accepted :
  forall (key : bytes) (f : v3_fields) (cred tag : bytes),
  v3_cred hmac sha1 blk_enc zcomp key f cred -> decodable f -> v3_mac_field f cred tag ->
  forall (cfd : conf) (mem : N -> N -> bool) (rs : rstate) (du dg now' retry : N),
  cf_key cfd = key -> retry <= c_retry_attempts ->
  let ttl' := capped cfd (f_ttl f) in
  (f_auth_uid f = c_uid_any \/ f_auth_uid f = du \/ (cf_root_auth cfd = true /\ du = 0)) ->
  (f_auth_gid f = c_gid_any \/ f_auth_gid f = dg \/ mem du (f_auth_gid f) = true) ->
  (Z.of_N (f_time f) - Z.of_N (skew_of cfd ttl') <= Z.of_N (u32 now'))%Z -> u32 now' <= f_time f + ttl' ->
  let k := (firstn 16 tag, f_time f + ttl') in
  r_mem k rs = false ->
  dec_process hmac sha1 blk_dec zdecomp cfd mem rs (dec_req (cred ++ [x00]) retry) du dg now'
  = (accept_reply cfd f du dg now' retry, k :: rs, Some k).
Proof. exact (spec_accepted_tail [x00] (or_intror eq_refl)). Qed.

(* the same without the trailing NUL: the suffix search of dec_unarmor does not need it *)
Theorem spec_accepted_bare :
  forall (key : bytes) (f : v3_fields) (cred tag : bytes),
  v3_cred hmac sha1 blk_enc zcomp key f cred -> decodable f -> v3_mac_field f cred tag ->
  forall (cfd : conf) (mem : N -> N -> bool) (rs : rstate) (du dg now' retry : N),
  cf_key cfd = key -> retry <= c_retry_attempts ->
  let ttl' := capped cfd (f_ttl f) in
  (f_auth_uid f = c_uid_any \/ f_auth_uid f = du \/ (cf_root_auth cfd = true /\ du = 0)) ->
  (f_auth_gid f = c_gid_any \/ f_auth_gid f = dg \/ mem du (f_auth_gid f) = true) ->
  (Z.of_N (f_time f) - Z.of_N (skew_of cfd ttl') <= Z.of_N (u32 now'))%Z -> u32 now' <= f_time f + ttl' ->
  let k := (firstn 16 tag, f_time f + ttl') in
  r_mem k rs = false ->
  dec_process hmac sha1 blk_dec zdecomp cfd mem rs (dec_req cred retry) du dg now'
  = (accept_reply cfd f du dg now' retry, k :: rs, Some k).
Proof.
  intros key f cred tag. pose proof (spec_accepted_tail [] (or_introl eq_refl) key f cred tag) as H.
  rewrite app_nil_r in H. exact H.
Qed.

(* a conforming credential has an M layer (so the premise v3_mac_field of spec_accepted is never the obstacle) *)
Lemma mac_field_exists key f cred : v3_cred hmac sha1 blk_enc zcomp key f cred -> mac_valid (f_mac f) = true ->
  exists tag, v3_mac_field f cred tag.
Proof.
  intros Hspec Dm. destruct (v3_cred_open _ _ _ Hspec) as (iv & innerz & wire & H).
  decompose [and] H; clear H.
  exists (v3_tag key f iv innerz), (v3_outer f iv), wire.
  split; [rewrite v3_outer_len; congruence|]. split; [apply hmac_len; exact Dm|assumption].
Qed.

(* self-contained form: both framings, under the replay key the credential determines (mac_field_unique) *)
Corollary spec_accepted_ex :
  forall (key : bytes) (f : v3_fields) (cred : bytes),
  v3_cred hmac sha1 blk_enc zcomp key f cred -> decodable f ->
  exists tag, v3_mac_field f cred tag /\
  forall (cfd : conf) (mem : N -> N -> bool) (rs : rstate) (du dg now' retry : N),
  cf_key cfd = key -> retry <= c_retry_attempts ->
  let ttl' := capped cfd (f_ttl f) in
  (f_auth_uid f = c_uid_any \/ f_auth_uid f = du \/ (cf_root_auth cfd = true /\ du = 0)) ->
  (f_auth_gid f = c_gid_any \/ f_auth_gid f = dg \/ mem du (f_auth_gid f) = true) ->
  (Z.of_N (f_time f) - Z.of_N (skew_of cfd ttl') <= Z.of_N (u32 now'))%Z -> u32 now' <= f_time f + ttl' ->
  let k := (firstn 16 tag, f_time f + ttl') in
  r_mem k rs = false ->
  dec_process hmac sha1 blk_dec zdecomp cfd mem rs (dec_req (cred ++ [x00]) retry) du dg now'
    = (accept_reply cfd f du dg now' retry, k :: rs, Some k) /\
  dec_process hmac sha1 blk_dec zdecomp cfd mem rs (dec_req cred retry) du dg now'
    = (accept_reply cfd f du dg now' retry, k :: rs, Some k).
Proof.
  intros key f cred Hspec Hdec.
  destruct (mac_field_exists key f cred Hspec (proj1 Hdec)) as (tag & Hf).
  exists tag. split; [exact Hf|].
  intros cfd mem rs du dg now' retry Hkey Hretry ttl' Hau Hag Hw1 Hw2 k Hrep.
  split.
  - exact (spec_accepted key f cred tag Hspec Hdec Hf cfd mem rs du dg now' retry Hkey Hretry Hau Hag Hw1 Hw2 Hrep).
  - exact (spec_accepted_bare key f cred tag Hspec Hdec Hf cfd mem rs du dg now' retry Hkey Hretry Hau Hag Hw1 Hw2 Hrep).
Qed.

(* INTERCHANGE — the round trip factors through the document: what the encoder emits satisfies the relation
   (V3Spec.enc_request_satisfies_spec, from enc_satisfies_spec), and what satisfies the relation is accepted
   (spec_accepted).  Same hypotheses and conclusion as CredRoundtrip.roundtrip. *)
Theorem interchange :
  forall (cfe cfd : conf) (m m1 : msg) (pu pg now : N) (salt ivr : bytes) (o : enc_out),
  wf_conf cfe -> wf_enc_req m -> cf_key cfd = cf_key cfe ->
  pu < 4294967296 -> pg < 4294967296 ->
  len salt = c_salt_len -> 16 <= len ivr ->
  enc_pre cfe m pu pg now = inl m1 ->
  enc_core hmac sha1 blk_enc zcomp cfe m1 salt ivr = inr o ->
  forall (mem : N -> N -> bool) (rs : rstate) (du dg now' retry : N),
  retry <= c_retry_attempts -> du < 4294967296 -> dg < 4294967296 ->
  let md := eo_msg o in
  let ttl' := capped cfd (m_ttl m1) in
  let t0 := u32 now in
  (m_auth_uid m = c_uid_any \/ m_auth_uid m = du \/ (cf_root_auth cfd = true /\ du = 0)) ->
  (m_auth_gid m = c_gid_any \/ m_auth_gid m = dg \/ mem du (m_auth_gid m) = true) ->
  (Z.of_N t0 - Z.of_N (skew_of cfd ttl') <= Z.of_N (u32 now'))%Z -> u32 now' <= t0 + ttl' ->
  r_mem (firstn 16 (eo_tag o), t0 + ttl') rs = false ->
  exists r k,
    dec_process hmac sha1 blk_dec zdecomp cfd mem rs (dec_req (eo_cred o) retry) du dg now' = (r, k :: rs, Some k) /\
    k = (firstn 16 (eo_tag o), t0 + ttl') /\
    m_err r = e_success /\
    m_data r = m_data m /\ m_data_len r = m_data_len m /\
    m_cred_uid r = pu /\ m_cred_gid r = pg /\
    m_auth_uid r = m_auth_uid m /\ m_auth_gid r = m_auth_gid m /\
    m_cipher r = m_cipher md /\ m_mac r = m_mac md /\ m_zip r = m_zip md /\
    m_ttl r = ttl' /\ m_time0 r = t0 /\ m_time1 r = u32 now' /\
    m_addr_len r = c_addr_size /\ m_addr r = cf_addr cfe.
Proof.
  intros cfe cfd m m1 pu pg now salt ivr o Hcf Hm Hkey Hpu Hpg Hsalt Hivr Hpre Hcore
         mem rs du dg now' retry Hretry Hdu Hdg md ttl' t0 Hau Hag Hw1 Hw2 Hrep.
  (* 1: the encoder's output conforms to the document *)
  destruct (enc_request_satisfies_spec hmac sha1 blk_enc zcomp blk_len cfe m pu pg now m1 salt ivr o
              Hcf Hm Hpu Hpg Hsalt Hivr Hpre Hcore) as (c & Ec & Hspec).
  destruct (enc_pre_facts _ _ _ _ _ _ Hcf Hm Hpre) as (O & P & Httl & U & G & T0).
  destruct O as (Ocv & Oc & Omv & Om & Oks & Ozv & Oz).
  destruct P as (Pd & Pdl & Pr & Prl & Pau & Pag & _ & _).
  pose proof Hm as (_ & _ & _ & _ & _ & Wrl & Wrl2 & _ & Wau & Wag & Wdl & Wdl2).
  pose proof Hcf as (Haddr & _).
  destruct (enc_core_inv _ _ _ _ _ _ _ _ _ Hcore)
    as (m3 & inner1 & C3 & M3 & R3 & RL3 & Zrel & Etag & Ecred & Ecm & Ema & Ez).
  set (f := fields_of cfe m1 salt o) in *.
  assert (Fc : f_cipher f = m_cipher m1) by (subst f; unfold fields_of; cbn [f_cipher]; congruence).
  assert (Fm : f_mac f = m_mac m1) by (subst f; unfold fields_of; cbn [f_mac]; congruence).
  (* 2: its fields are ones a decoder handles *)
  assert (Hdec : decodable f).
  { unfold decodable. rewrite Fc, Fm. split; [exact Omv|]. split; [exact Oks|]. split.
    - change (f_zip f) with (m_zip (eo_msg o)). change (f_addr f) with (cf_addr cfe).
      change (f_data f) with (m_data m1).
      rewrite Ez. destruct Zrel as [(Z & _)|(Z & Zn & _)]; [left; exact Z|right].
      rewrite Z. split; [destruct Ozv as [Ozv|Ozv]; [contradiction|exact Ozv]|].
      rewrite Haddr, Pd, <- Wdl. change c_addr_size with 4. lia.
    - right. exact Haddr. }
  (* 3: its M layer is the encoder's MAC *)
  assert (Hfield : v3_mac_field f c (eo_tag o)).
  { exists (pack_outer m3 (core_iv m1 ivr)), (core_wire hmac sha1 blk_enc cfe m3 (core_iv m1 ivr) inner1).
    assert (L : len (core_iv m1 ivr) = iv_len (f_cipher f)).
    { rewrite Fc. exact (core_iv_len m1 ivr Ocv Oc Hivr). }
    split.
    { change (f_realm f) with (m_realm m1). rewrite <- L, <- R3.
      unfold pack_outer, len. rewrite !app_length. cbn [length]. lia. }
    split.
    { rewrite Etag, Fm, <- M3. unfold core_tag. apply hmac_len. rewrite M3. exact Omv. }
    rewrite Ecred in Ec. unfold armor in Ec. rewrite chunking_independent0, canonical in Ec.
    cbn [concat] in Ec. rewrite app_nil_r in Ec.
    change (nbytes c_prefix) with munge_prefix in Ec. change (nbytes c_suffix) with munge_suffix in Ec.
    rewrite Etag.
    apply (app_inv_tail [x00]). rewrite <- Ec, <- !app_assoc. reflexivity. }
  (* 4: so it is accepted *)
  assert (Ft : f_time f = t0) by exact T0.
  exists (accept_reply cfd f du dg now' retry), (firstn 16 (eo_tag o), t0 + ttl').
  split.
  { rewrite Ec.
    pose proof (spec_accepted (cf_key cfe) f c (eo_tag o) Hspec Hdec Hfield cfd mem rs du dg now' retry Hkey Hretry) as H.
    cbv zeta in H. rewrite Ft in H. change (f_ttl f) with (m_ttl m1) in H. fold ttl' in H.
    apply H.
    - change (f_auth_uid f) with (m_auth_uid m1). rewrite Pau. exact Hau.
    - change (f_auth_gid f) with (m_auth_gid m1). rewrite Pag. exact Hag.
    - exact Hw1.
    - exact Hw2.
    - exact Hrep. }
  split; [reflexivity|].
  destruct (accept_reply_fields cfd f du dg now' retry)
    as (A1 & _ & A2 & A3 & A4 & A5 & A6 & A7 & A8 & A9 & A10 & A11 & A12 & A13 & A14 & A15 & _).
  rewrite A1, A2, A3, A4, A5, A6, A7, A8, A9, A10, A11, A12, A13, A14, A15.
  change (f_data f) with (m_data m1). change (f_uid f) with (m_client_uid m1).
  change (f_gid f) with (m_client_gid m1). change (f_auth_uid f) with (m_auth_uid m1).
  change (f_auth_gid f) with (m_auth_gid m1). change (f_ttl f) with (m_ttl m1). change (f_addr f) with (cf_addr cfe).
  split; [reflexivity|]. split; [exact Pd|]. split; [rewrite Pd; symmetry; exact Wdl|].
  split; [exact U|]. split; [exact G|]. split; [exact Pau|]. split; [exact Pag|].
  split; [reflexivity|]. split; [reflexivity|]. split; [reflexivity|]. split; [reflexivity|].
  split; [exact Ft|]. split; [reflexivity|]. split; [exact Haddr|].
  unfold addr_of. rewrite Haddr. reflexivity.
Qed.

End Accept.

(* ------------------------------------------------------------------ *)
(* the relation is satisfiable for every field record and every IV (not only for the encoder's choices) *)
(* ------------------------------------------------------------------ *)
Section Build.
Variable hmac : N -> bytes -> bytes -> bytes.
Variable sha1 : bytes -> bytes.
Variable blk_enc : N -> bytes -> bytes -> bytes.
Variable zcomp : N -> bytes -> option bytes.
Hypothesis blk_len : forall c k b, cipher_valid c = true -> len b = cipher_blk_size c ->
  len (blk_enc c k b) = cipher_blk_size c.

Definition v3_build (key : bytes) (f : v3_fields) (iv : bytes) : option bytes :=
  match (if f_zip f =? 0 then Some (v3_inner f) else zip_compress zcomp (f_zip f) (v3_inner f)) with
  | None => None
  | Some innerz =>
    let tag := v3_tag hmac sha1 key f iv innerz in
    let wire := if f_cipher f =? 0 then innerz
                else cbc_encrypt blk_enc (f_cipher f) (hmac (f_mac f) (dek_subkey sha1 key) tag) iv innerz in
    Some (munge_prefix ++ rfc4648 (v3_outer f iv ++ tag ++ wire) ++ munge_suffix)
  end.

Definition fields_in_range (f : v3_fields) : Prop :=
  f_cipher f < 256 /\ (f_cipher f = 0 \/ cipher_valid (f_cipher f) = true) /\ f_mac f < 256 /\ f_zip f < 256 /\
  len (f_realm f) < 256 /\ len (f_salt f) = 8 /\ len (f_addr f) < 256 /\
  f_time f < 4294967296 /\ f_ttl f < 4294967296 /\ f_uid f < 4294967296 /\ f_gid f < 4294967296 /\
  f_auth_uid f < 4294967296 /\ f_auth_gid f < 4294967296 /\ len (f_data f) < 4294967296 /\
  (f_zip f = 0 \/ len (v3_inner f) < 4294967296).

Lemma v3_build_spec key f iv cred : fields_in_range f -> len iv = iv_len (f_cipher f) ->
  v3_build key f iv = Some cred -> v3_cred hmac sha1 blk_enc zcomp key f cred.
Proof.
  intros (Lc & Vc & Lm & Lz & Lr & Hsalt & La & Lt & Ll & Lu & Lg & Lau & Lag & Ldl & Lin) Hiv Hb.
  unfold v3_build in Hb.
  destruct (if f_zip f =? 0 then Some (v3_inner f) else zip_compress zcomp (f_zip f) (v3_inner f))
    as [innerz|] eqn:Hz; [|discriminate].
  set (tag := v3_tag hmac sha1 key f iv innerz) in *.
  assert (Hcred : cred = munge_prefix ++ rfc4648 (v3_outer f iv ++ tag ++
            (if f_cipher f =? 0 then innerz
             else cbc_encrypt blk_enc (f_cipher f) (hmac (f_mac f) (dek_subkey sha1 key) tag) iv innerz)) ++ munge_suffix).
  { exact (f_equal (fun o => match o with Some x => x | None => cred end) (eq_sym Hb)). }
  clear Hb.
  unfold v3_cred.
  exists (n2b 3), (n2b (f_cipher f)), (n2b (f_mac f)), (n2b (f_zip f)), (n2b (len (f_realm f))), iv.
  exists (n2b (len (f_addr f))), (be32 (f_time f)), (be32 (f_ttl f)), (be32 (f_uid f)), (be32 (f_gid f)),
         (be32 (f_auth_uid f)), (be32 (f_auth_gid f)), (be32 (len (f_data f))).
  exists (v3_outer f iv), (v3_inner f), innerz, tag.
  exists (if f_cipher f =? 0 then innerz
          else cbc_encrypt blk_enc (f_cipher f) (hmac (f_mac f) (dek_subkey sha1 key) tag) iv innerz).
  split; [apply octet_n2b; reflexivity|].
  split; [apply octet_n2b; exact Lc|]. split; [apply octet_n2b; exact Lm|]. split; [apply octet_n2b; exact Lz|].
  split; [apply octet_n2b; exact Lr|]. split; [exact Hiv|]. split; [reflexivity|].
  split; [exact Hsalt|]. split; [apply octet_n2b; exact La|].
  split; [apply word32_be32; exact Lt|]. split; [apply word32_be32; exact Ll|].
  split; [apply word32_be32; exact Lu|]. split; [apply word32_be32; exact Lg|].
  split; [apply word32_be32; exact Lau|]. split; [apply word32_be32; exact Lag|].
  split; [apply word32_be32; exact Ldl|]. split; [reflexivity|].
  split.
  { destruct (f_zip f =? 0) eqn:Z.
    - apply N.eqb_eq in Z. left. split; [exact Z|]. congruence.
    - apply N.eqb_neq in Z. right. split; [exact Z|].
      destruct Lin as [Lin|Lin]; [contradiction|].
      unfold zip_compress in Hz. destruct (zcomp (f_zip f) (v3_inner f)) as [raw|]; [|discriminate].
      injection Hz as <-.
      exists (be32 c_zip_magic), (be32 (len (v3_inner f))), raw.
      split; [apply (word32_be32 zip_magic); reflexivity|].
      split; [apply word32_be32; exact Lin|]. split; reflexivity. }
  split; [reflexivity|].
  split; [|exact Hcred].
  clear Hcred.
  destruct (f_cipher f =? 0) eqn:Cn.
  - left. split; [apply N.eqb_eq; exact Cn|reflexivity].
  - apply N.eqb_neq in Cn. right. split; [exact Cn|].
    destruct Vc as [Vc|Vc]; [contradiction|].
    destruct (cipher_tab_facts _ Lc Vc) as (Hb0 & Hb256 & Hivb & _ & _).
    set (bs := N.to_nat (cipher_blk_size (f_cipher f))).
    assert (Hbs : (0 < bs)%nat) by (subst bs; lia).
    assert (Hbs2 : (bs < 256)%nat) by (subst bs; lia).
    exists (pkcs_pad bs innerz). split; [apply pkcs_pad_pkcs5; assumption|].
    unfold cbc_encrypt. fold bs.
    destruct (blocks_spec bs Hbs _ _ (pkcs_pad_length bs innerz Hbs)) as (F & Cc & _).
    rewrite <- Cc at 1. apply (cbc_enc_rel hmac sha1 blk_enc zcomp).
    + intros b Hb.
      match goal with |- length (blk_enc ?c ?k ?x) = _ => pose proof (blk_len c k x Vc) as BL end.
      unfold len in BL. subst bs. lia.
    + unfold iv_len in Hiv. destruct (f_cipher f =? 0) eqn:E; [apply N.eqb_eq in E; contradiction|].
      unfold len in Hiv. subst bs. lia.
    + exact F.
Qed.
End Build.

(* ------------------------------------------------------------------ *)
(* non-vacuity, and where the relation is wider than what munged decodes: instances under toy primitives  *)
(* (constant-size "MAC", identity "cipher", identity "compression" accepting every code)                   *)
(* ------------------------------------------------------------------ *)
Definition t_hmac (a : N) (k d : bytes) : bytes := repeat x2a (N.to_nat (mac_size a)).
Definition t_sha (x : bytes) : bytes := x.
Definition t_blk (c : N) (k b : bytes) : bytes := b.
Definition t_zc (z : N) (x : bytes) : option bytes := Some x.
Definition t_zd (z : N) (x : bytes) (mx : N) : option bytes := Some x.
Definition t_key : bytes := repeat x6b 32.
Definition t_cf : conf :=
  {| cf_def_cipher := c_def_cipher; cf_def_mac := c_def_mac; cf_def_zip := c_def_zip;
     cf_def_ttl := c_def_ttl; cf_max_ttl := c_max_ttl; cf_root_auth := false; cf_clock_skew := true;
     cf_socket_retry := true; cf_addr := [x7f; x00; x00; x01]; cf_key := t_key |}.

Lemma t_blk_len : forall c k b, cipher_valid c = true -> len b = cipher_blk_size c ->
  len (t_blk c k b) = cipher_blk_size c.
Proof. intros c k b _ H. exact H. Qed.

Definition t_build (f : v3_fields) (iv : bytes) : bytes :=
  match v3_build t_hmac t_sha t_blk t_zc t_key f iv with Some c => c | None => [] end.

Lemma t_build_ok f iv : fields_in_range f -> len iv = iv_len (f_cipher f) ->
  v3_cred t_hmac t_sha t_blk t_zc t_key f (t_build f iv).
Proof.
  intros R L. unfold t_build.
  destruct (v3_build t_hmac t_sha t_blk t_zc t_key f iv) as [c|] eqn:B.
  - exact (v3_build_spec t_hmac t_sha t_blk t_zc t_blk_len t_key f iv c R L B).
  - unfold v3_build, zip_compress, t_zc in B. destruct (f_zip f =? 0); discriminate.
Qed.

(* decode by uid 0 / gid 0 at time 5000 on an empty replay cache: the error code of the reply *)
Definition t_decode (cred : bytes) : N :=
  m_err (fst (fst (dec_process t_hmac t_sha t_blk t_zd t_cf (fun _ _ => false) [] (dec_req (cred ++ [x00]) 0) 0 0 5000))).

Definition t_fields (cipher mac zip : N) (addr : bytes) : v3_fields :=
  {| f_cipher := cipher; f_mac := mac; f_zip := zip; f_realm := [x72; x65; x61; x6c; x6d];
     f_salt := repeat x11 8; f_addr := addr; f_time := 4990; f_ttl := 60; f_uid := 1000; f_gid := 1001;
     f_auth_uid := c_uid_any; f_auth_gid := c_gid_any; f_data := [x68; x69] |}.

Ltac t_range :=
  vm_compute; repeat match goal with |- _ /\ _ => split end;
  first [reflexivity | discriminate | left; reflexivity | right; reflexivity | right; split; reflexivity].

(* premises of spec_accepted are satisfiable by credentials the model's encoder never emits: no origin
   address (length octet 0), an arbitrary IV, compression kept although it did not shrink the data *)
Example accepted_beyond_the_encoder :
  let f := t_fields 4 5 2 [] in
  let iv := [x01; x02; x03; x04; x05; x06; x07; x08; x09; x0a; x0b; x0c; x0d; x0e; x0f; x10] in
  v3_cred t_hmac t_sha t_blk t_zc t_key f (t_build f iv) /\ decodable f /\ t_decode (t_build f iv) = e_success.
Proof.
  intros f iv. split; [apply t_build_ok; [t_range|reflexivity]|]. split.
  - unfold decodable. t_range.
  - vm_compute. reflexivity.
Qed.

(* the relation says "var : origin IP address"; munged decodes only lengths 0 and 4 *)
Example relation_allows_16_byte_origin :
  let f := t_fields 0 5 0 (repeat x01 16) in
  v3_cred t_hmac t_sha t_blk t_zc t_key f (t_build f []) /\ t_decode (t_build f []) = e_bad_cred.
Proof. intros f. split; [apply t_build_ok; [t_range|reflexivity]|vm_compute; reflexivity]. Qed.

(* the relation does not ask the MAC code to be a known MAC ... *)
Example relation_allows_mac_none :
  let f := t_fields 0 0 0 [x7f; x00; x00; x01] in
  v3_cred t_hmac t_sha t_blk t_zc t_key f (t_build f []) /\ t_decode (t_build f []) = e_bad_mac.
Proof. intros f. split; [apply t_build_ok; [t_range|reflexivity]|vm_compute; reflexivity]. Qed.

(* ... nor to be long enough for the cipher key (MD5 = 16 bytes with AES-256 = 32 bytes) *)
Example relation_allows_short_mac :
  let f := t_fields 5 2 0 [x7f; x00; x00; x01] in
  v3_cred t_hmac t_sha t_blk t_zc t_key f (t_build f (repeat x00 16)) /\
  t_decode (t_build f (repeat x00 16)) = e_bad_mac.
Proof. intros f. split; [apply t_build_ok; [t_range|reflexivity]|vm_compute; reflexivity]. Qed.

(* an unknown compression code is excluded only if the compressor refuses it *)
Example relation_allows_unknown_zip :
  let f := t_fields 0 5 9 [x7f; x00; x00; x01] in
  v3_cred t_hmac t_sha t_blk t_zc t_key f (t_build f []) /\ t_decode (t_build f []) = e_bad_zip.
Proof. intros f. split; [apply t_build_ok; [t_range|reflexivity]|vm_compute; reflexivity]. Qed.

Print Assumptions spec_accepted.
Print Assumptions spec_accepted_bare.
Print Assumptions spec_accepted_ex.
Print Assumptions interchange.
Print Assumptions v3_build_spec.
